"""C16 — the experiment's job index lists exactly the jobs of the last completed plan.

Tie to the source: histories of runs of one experiment name are executed on the *real*
`experiment(workdir, name, port=-1, launcher=InstantLauncher)` objects (temp workspaces; the launcher's
processes finish at once and write their own markers, nothing is spawned) and on the Lean model M7
(`Drive/C16.lean`); after every operation the links under `xp/<name>/jobs` and `xp/<name>/jobs.bak`
(name and target), and the output of the `orphans` command, are compared.  Runs end normally, by an
exception (`RuntimeError`, `KeyboardInterrupt`, `SystemExit`), or by the death of the process (a subprocess
"agent" killed by SIGKILL/SIGTERM inside the block, inside `__enter__` at the k-th link move, inside
`__exit__` at the k-th unlink of `rmtree`).  Lock exclusivity: a second process enters the same experiment
while the first is inside.  A workspace is a directory however a run names it: separate histories let every
run designate the same workspace its own way (relative path from the parent / a nested directory / the workspace
itself, `WorkspaceSettings`, `find_workspace(workdir=…)`, a workspace of the settings file with its directory
overridden, `run-experiment --workdir D | --workspace ID [--workdir D] | (default workspace)`); a link "leads to
its job directory" when the file system, following it, arrives there (how the target is spelled is free).

Layout of the processes: the check (this module, `correspond`) generates histories and hands them to
*workers* (`python -m xv.props.c16 worker spec out`: fresh interpreters, one list of histories each, run in
parallel); a worker plays process 0 itself and obtains one *agent* process per other process of a history
from its *zygote* (`python -m xv.props.c16 zygote lib sock`: imports experimaestro once and forks an agent per
connection).  Monitors (implementation only) are evaluated by the check on the observations.
"""
import json
import os
import queue
import random
import signal
import subprocess
import sys
import threading
import time
from pathlib import Path

PROP = "C16"
MODULES = ["XpmVerif.Properties.C16", "XpmVerif.Properties.C16Src", "XpmVerif.Properties.C16Fine"]
XPNAME = "e"
OTHER = "other"
BLOCK_WINDOW = 0.35  # seconds a contender is watched before it is called "blocked"
ENTER_TIMEOUT = 20.0  # an enter that should succeed and does not within this time is "stuck"
DEAD_PID = 4194303  # `tospec` of the instant processes: a pid that does not exist

LIB_SRC = '''
from experimaestro import Task, Param


class TA(Task):
    __xpmid__ = "c16lib.ta"
    x: Param[int]

    def execute(self):
        pass


class TB(Task):
    __xpmid__ = "c16lib.tb"
    x: Param[int]

    def execute(self):
        pass


class TF(Task):
    """fails at once"""
    __xpmid__ = "c16lib.tf"
    x: Param[int]

    def execute(self):
        raise RuntimeError("c16: this job fails")


class TH(Task):
    """runs until released"""
    __xpmid__ = "c16lib.th"
    x: Param[int]

    def execute(self):
        pass


class TD(Task):
    """depends on a TA"""
    __xpmid__ = "c16lib.td"
    x: Param[int]
    dep: Param[TA]

    def execute(self):
        pass


class TE(Task):
    """depends on a TH"""
    __xpmid__ = "c16lib.te"
    x: Param[int]
    dep: Param[TH]

    def execute(self):
        pass
'''


XP_SRC = '''
"""experiment file for `experimaestro run-experiment`: plays the plan (a JSON file) given by `-c plan=...`"""
import asyncio
import json
import time
from pathlib import Path

from experimaestro.exceptions import HandledException
from experimaestro.experiments.configuration import configuration, ConfigurationBase
from c16lib.tasks import TA, TB, TD, TF


@configuration()
class Configuration(ConfigurationBase):
    plan: str = ""


def run(helper, cfg: Configuration):
    plan = json.loads(Path(cfg.plan).read_text())
    xp = helper.xp
    objs, rels = {}, []

    def submit(job):
        label, kind, x, dep = job
        o = {"a": TA, "b": TB, "f": TF}[kind](x=x) if kind != "d" else TD(x=x, dep=objs[dep])
        objs[label] = o.submit()
        # the first segment of aio_submit (which creates the link) has run once this returns
        asyncio.run_coroutine_threadsafe(asyncio.sleep(0), xp.loop).result(timeout=60)
        rels.append([label, str(o.__xpm__.job.relpath)])
        Path(plan["out"]).write_text(json.dumps(rels))

    def finished():
        """the submitted jobs are over (markers): the process may go away without interrupting a start"""
        t0 = time.time()
        jobs = Path(plan["ws"]) / "jobs"
        while time.time() - t0 < 90:
            if all(any((jobs / r).glob("*.done")) or any((jobs / r).glob("*.failed")) for _, r in rels):
                return
            time.sleep(0.02)

    for job in plan["pre"]:
        submit(job)
    end = plan["end"]
    if end == "stagefail":  # a job of the first stage fails: FailedExperiment (a HandledException)
        xp.wait()
        for job in plan["post"]:
            submit(job)
    elif end == "handled":
        finished()
        raise HandledException("c16: the run function gives up")
    elif end == "exc":
        finished()
        raise RuntimeError("c16: the run function raises")
    # "ok", "finalfail": the command itself waits for the jobs
'''


def write_lib(base: Path) -> Path:
    d = base / "lib" / "c16lib"
    d.mkdir(parents=True, exist_ok=True)
    (d / "__init__.py").write_text("")
    (d / "tasks.py").write_text(LIB_SRC)
    (base / "lib" / "c16xp.py").write_text(XP_SRC)
    (base / "lib" / "c16xp.yaml").write_text(f"id: {XPNAME}\nfile: c16xp\n")
    return base / "lib"


# ------------------------------------------------------------------ how a run names its workspace
# The property speaks of "the same experiment of the same workspace": a workspace is a directory, whichever way
# a run designates it.  An `enter` operation may carry `via = {"how": ..., "cwd": ...}`:
#   through the API (`with experiment(<arg>, name)`), <arg> =
#     path-rel / str-rel          a relative Path / str
#     settings-rel / settings-abs `WorkspaceSettings(id, path)`
#     find-workdir-rel / -abs     `experimaestro.settings.find_workspace(workdir=...)`
#     find-named-rel / -abs       `find_workspace(workspace=<id of the settings file>, workdir=...)` (directory overridden)
#   through `experimaestro run-experiment`:
#     workdir-abs / workdir-rel   `--workdir D`
#     named                       `--workspace main`      (settings file: main -> the workspace of the history)
#     default                     neither option          (the first workspace of the settings file)
#     named-abs / named-rel       `--workspace alt --workdir D`   (settings file: alt -> another directory, overridden)
#   cwd = where the process is while the block runs: None (wherever the harness is), "parent" (the directory that
#   holds the workspace: D = "ws…"), "nested" (D = "../../ws…"), "inside" (the workspace itself: D = ".").
# No `via` = the absolute spellings used by all other histories.

SETTINGS_WS = "alt"  # workspace id of the settings file of the worker / zygote / agents (directory always overridden)
API_HOWS = ["path-rel", "str-rel", "settings-rel", "settings-abs", "find-workdir-rel", "find-workdir-abs",
            "find-named-rel", "find-named-abs"]
CLI_HOWS = ["workdir-abs", "workdir-rel", "named", "default", "named-abs", "named-rel"]
CWDS = ["parent", "nested", "inside"]


def desig_cwd(ws, where):
    """the directory a run is started from (created if needed); None = left alone"""
    ws = Path(ws)
    if not where:
        return None
    if where == "parent":
        return ws.parent
    if where == "inside":
        ws.mkdir(parents=True, exist_ok=True)
        return ws
    if where == "nested":
        d = ws.parent / f"cwd-{ws.name}" / "d"
        d.mkdir(parents=True, exist_ok=True)
        return d
    raise ValueError(where)


def desig_text(op):
    """the designation of an `enter` operation in words (messages, histogram keys)"""
    via = op.get("via")
    if not via:
        return "run-experiment --workdir <absolute path>" if op.get("cli") else "experiment(Path(<absolute path>), ...)"
    how, cwd = via["how"], via.get("cwd")
    d = {None: "<absolute path>", "parent": "ws…", "nested": "../../ws…", "inside": "."}[cwd] if how.endswith("rel") else "<absolute path>"
    text = {
        "path-rel": f"experiment(Path({d!r}), ...)", "str-rel": f"experiment({d!r}, ...)",
        "settings-rel": f"experiment(WorkspaceSettings(id, Path({d!r})), ...)", "settings-abs": "experiment(WorkspaceSettings(id, <absolute path>), ...)",
        "find-workdir-rel": f"experiment(find_workspace(workdir={d!r}), ...)", "find-workdir-abs": "experiment(find_workspace(workdir=<absolute path>), ...)",
        "find-named-rel": f"experiment(find_workspace(workspace=<id of settings.yaml>, workdir={d!r}), ...)",
        "find-named-abs": "experiment(find_workspace(workspace=<id of settings.yaml>, workdir=<absolute path>), ...)",
        "workdir-abs": "run-experiment --workdir <absolute path>", "workdir-rel": f"run-experiment --workdir {d}",
        "named": "run-experiment --workspace <id of settings.yaml>", "default": "run-experiment (default workspace of settings.yaml)",
        "named-abs": "run-experiment --workspace <id of settings.yaml> --workdir <absolute path>",
        "named-rel": f"run-experiment --workspace <id of settings.yaml> --workdir {d}",
    }[how]
    return text + (f" [process started in: {cwd} directory]" if cwd else "")


def desig_key(op):
    via = op.get("via")
    if not via:
        return ("cli:" if op.get("cli") else "api:") + "absolute(default)"
    return ("cli:" if op.get("cli") else "api:") + via["how"] + ("/cwd=" + via["cwd"] if via.get("cwd") else "")


# =====================================================================================
# real-code side (worker, zygote and agent processes only)


class Real:
    """everything that touches experimaestro; constructed once per worker / zygote process"""

    def __init__(self, libdir):
        import logging
        import resource

        logging.disable(logging.CRITICAL)
        soft, hard = resource.getrlimit(resource.RLIMIT_NOFILE)
        try:
            resource.setrlimit(resource.RLIMIT_NOFILE, (min(hard, 65536) if hard > 0 else 65536, hard))
        except (ValueError, OSError):
            pass
        sys.path.insert(0, str(libdir))
        import warnings

        warnings.filterwarnings("ignore")
        from c16lib import tasks
        from experimaestro import experiment
        from experimaestro.connectors import Process, ProcessBuilder
        from experimaestro.connectors.local import LocalConnector
        from experimaestro.launchers.direct import DirectLauncher

        self.tasks = tasks
        self.experiment = experiment
        self.LocalConnector = LocalConnector
        self.release = threading.Event()
        real = self

        class InstantProcess(Process):
            def __init__(self, script):
                self.script = Path(script)

            def wait(self):
                kind = self.script.stem
                if kind in ("th",):
                    real.release.wait()
                code = 1 if kind == "tf" else 0
                try:
                    if code == 0:
                        self.script.with_suffix(".done").touch()
                    else:
                        self.script.with_suffix(".failed").write_text(str(code))
                    p = self.script.with_suffix(".pid")
                    if p.exists():
                        p.unlink()
                except OSError:
                    pass
                return code

            def tospec(self):
                return {"type": "local", "pid": DEAD_PID}

        class InstantBuilder(ProcessBuilder):
            def start(self, task_mode=False):
                return InstantProcess(self.command[-1])

        class InstantLauncher(DirectLauncher):
            def processbuilder(self):
                return InstantBuilder()

        self.InstantLauncher = InstantLauncher

    def launcher(self, ws):
        return self.InstantLauncher(self.LocalConnector(Path(ws) / "conn"))

    def designate(self, ws, via):
        """the first argument of `experiment(...)` for a run that names its workspace the way `via` says (the
        process is already in the directory the relative spellings count from)"""
        ws = Path(ws)
        if not via:
            return ws
        from experimaestro.settings import WorkspaceSettings, find_workspace

        how = via["how"]
        rel = os.path.relpath(ws, os.getcwd())
        if how == "path-rel":
            return Path(rel)
        if how == "str-rel":
            return rel
        if how == "settings-rel":
            return WorkspaceSettings("c16", Path(rel))
        if how == "settings-abs":
            return WorkspaceSettings("c16", ws)
        if how == "find-workdir-rel":
            return find_workspace(workdir=Path(rel))
        if how == "find-workdir-abs":
            return find_workspace(workdir=ws)
        if how == "find-named-rel":  # a workspace of the settings file, its directory given by the caller
            return find_workspace(workspace=SETTINGS_WS, workdir=Path(rel))
        if how == "find-named-abs":
            return find_workspace(workspace=SETTINGS_WS, workdir=ws)
        raise ValueError(how)

    def block(self, ws, name, body, before_with=None, run_mode=None, via=None):
        """`with experiment(...)`: body(xp) returns how the block ends. Returns (entered, raised).
        `via` = how the run names its workspace ({"how", "cwd"}; None = `Path(<absolute>)`): the process is in
        the directory `cwd` from the construction of the experiment to the end of the block."""
        entered = [False]
        raised = None
        old_cwd = None
        try:
            kw = {}
            if run_mode:
                from experimaestro.scheduler.workspace import RunMode

                kw["run_mode"] = RunMode(run_mode)
            cwd = desig_cwd(ws, (via or {}).get("cwd"))
            if cwd is not None:
                old_cwd = os.getcwd()
                os.chdir(cwd)
            xp = self.experiment(self.designate(ws, via), name, port=-1, launcher=self.launcher(ws), **kw)
            if before_with:
                before_with()
            with xp:
                entered[0] = True
                how = body(xp)
                if how == "exc":
                    raise RuntimeError("c16: exception in the block")
                if how == "kbd":
                    raise KeyboardInterrupt()
                if how == "sysexit":
                    raise SystemExit(3)
        except BaseException as e:  # noqa: the outcome is recorded
            raised = type(e).__name__
        finally:
            if old_cwd is not None:
                os.chdir(old_cwd)
        return entered[0], raised

    def submit(self, xp, objs, kind, x, dep, sync):
        import asyncio

        T = self.tasks
        if kind == "a":
            o = T.TA(x=x)
        elif kind == "b":
            o = T.TB(x=x)
        elif kind == "f":
            o = T.TF(x=x)
        elif kind == "h":
            o = T.TH(x=x)
        elif kind == "d":
            o = T.TD(x=x, dep=objs[dep])
        elif kind == "e":
            o = T.TE(x=x, dep=objs[dep])
        else:
            raise ValueError(kind)
        res = o.submit()  # for a job submitted twice in a run: the configuration submitted first
        job = o.__xpm__.job
        rel = str(job.relpath)
        if sync:  # the first segment of aio_submit (which creates the link) has run once this returns
            asyncio.run_coroutine_threadsafe(asyncio.sleep(0), xp.loop).result(timeout=30)
        return rel, res


def observe(ws, name, relmap, want_orphans=True):
    """links of jobs / jobs.bak as [name-label, target-label], existing job directories, orphans output"""
    ws = Path(ws)

    def lab_rel(rel):
        return relmap.get(rel, "?" + rel)

    def lab_target(x):
        """the job whose directory the link leads to, followed the way the file system follows it (a relative
        target counts from the folder that holds the link); how the target is spelled does not matter"""
        t = os.readlink(x)
        real = os.path.realpath(x)
        pre = os.path.realpath(ws / "jobs") + "/"
        if real.startswith(pre) and real[len(pre):] in relmap:
            return relmap[real[len(pre):]]
        return "?" + t.replace(str(ws), "<ws>")

    def folder(d):
        p = ws / "xp" / name / d
        if not p.is_dir():
            return None
        out = []
        for x in p.glob("*/*"):
            rel = str(x.relative_to(p))
            if x.is_symlink():
                out.append([lab_rel(rel), lab_target(x)])
            else:
                out.append(["!not-a-link:" + rel, ""])
        return sorted(out)

    obs = {"jobs": folder("jobs") or [], "bak": folder("jobs.bak")}
    jp = ws / "jobs"
    obs["dirs"] = sorted(lab_rel(str(p.relative_to(jp))) for p in jp.glob("*/*") if p.is_dir()) if jp.is_dir() else []
    if want_orphans and (ws / ".__experimaestro__").is_file():
        from click.testing import CliRunner
        from experimaestro.cli import cli

        r = CliRunner().invoke(cli, ["orphans", str(ws)])
        orph = []
        for line in r.output.splitlines():
            line = line.strip()
            if line in relmap:
                orph.append(relmap[line])
            elif "/" in line and " " not in line:
                orph.append("?" + line)
        obs["orphans"] = sorted(orph)
        obs["orphans_rc"] = r.exit_code
    else:
        obs["orphans"] = None
    return obs


def settle(ws, jobs, timeout=20.0):
    """waits until the starts in progress are over: every job of `jobs` = [(rel, dep_rel or None)] that can
    start (no dependency, or its dependency is done) shows a marker (.done / .failed / non-empty .pid).
    Looks at files only.  Returns False if that did not happen in time."""
    t0 = time.time()
    jp = Path(ws) / "jobs"

    def marked(rel, pid_ok=True):
        d = jp / rel
        if any(d.glob("*.done")) or (pid_ok and any(d.glob("*.failed"))):
            return True
        return pid_ok and any(p.stat().st_size > 0 for p in d.glob("*.pid"))

    ok = False
    while time.time() - t0 < timeout:
        try:
            todo = [r for r, dep in jobs if (dep is None or marked(dep, False)) and not marked(r)]
        except OSError:
            todo = [None]
        if not todo:
            ok = True
            break
        time.sleep(0.005)
    time.sleep(0.03)
    return ok


def die_with_parent():
    """the kernel kills this process when its parent goes away (no stray agents / workers)"""
    try:
        import ctypes

        ctypes.CDLL("libc.so.6", use_errno=True).prctl(1, int(signal.SIGKILL))  # PR_SET_PDEATHSIG
    except Exception:
        pass


PROBE = (
    "import fcntl,sys\n"
    "try:\n f=open(sys.argv[1],'a')\nexcept OSError:\n print('free'); sys.exit()\n"
    "try:\n fcntl.lockf(f, fcntl.LOCK_EX|fcntl.LOCK_NB); print('free')\nexcept OSError:\n print('held')\n"
)


def probe_lock(ws, name):
    """diagnostic only: is the fcntl lock on xp/<name>/lock held (asked from a fresh process)"""
    p = Path(ws) / "xp" / name / "lock"
    if not p.exists():
        return "free"
    try:
        r = subprocess.run([sys.executable, "-S", "-c", PROBE, str(p)], capture_output=True, text=True, timeout=20)
        return r.stdout.strip() or "?"
    except Exception:
        return "?"


# ------------------------------------------------------------------ agent (a process p >= 1)


def agent_loop(real, fin, out):
    """one agent process: reads JSON commands on `fin`, answers JSON events on `out`"""

    def emit(**kw):
        out.write(json.dumps(kw) + "\n")
        out.flush()

    def lines():
        while True:
            line = fin.readline()
            if not line:
                os._exit(0)
            line = line.strip()
            if line:
                yield json.loads(line)

    src = lines()
    emit(ev="ready", pid=os.getpid())
    for cmd in src:
        if cmd["cmd"] == "quit":
            break
        if cmd["cmd"] == "release":
            real.release.set()
            emit(ev="released")
            continue
        if cmd["cmd"] != "enter":
            emit(ev="error", what=f"unexpected {cmd}")
            continue
        ws, name = cmd["ws"], cmd["name"]
        objs = {}
        rels = {}
        arm = {"k": None, "n": 0, "mode": None}
        real.release.clear()

        # fault injection: die at the k-th link move of __enter__ / at the k-th unlink of rmtree in __exit__
        orig_rename, orig_unlink = os.rename, os.unlink
        xpdir = str(Path(ws) / "xp" / name) + "/"

        def tick():
            if arm["k"] is not None:
                if arm["n"] == arm["k"]:
                    os.kill(os.getpid(), signal.SIGKILL)
                    time.sleep(60)
                arm["n"] += 1

        def rename(src_, dst, *a, **kw):
            if arm["mode"] == "enter" and str(src_).startswith(xpdir):
                tick()
            return orig_rename(src_, dst, *a, **kw)

        def unlink(path, *a, dir_fd=None, **kw):
            if arm["mode"] == "enter" and dir_fd is None and str(path).startswith(xpdir):
                tick()
            elif arm["mode"] == "exit" and dir_fd is not None:
                tick()
            if dir_fd is None:
                return orig_unlink(path, *a, **kw)
            return orig_unlink(path, *a, dir_fd=dir_fd, **kw)

        os.rename, os.unlink = rename, unlink

        def before_with():
            if cmd.get("kill_enter") is not None:
                arm.update(k=cmd["kill_enter"], n=0, mode="enter")
            emit(ev="attempt")

        def body(xp):
            arm.update(k=None, mode=None)
            emit(ev="inside")
            for c in src:
                if c["cmd"] == "submit":
                    try:
                        rel, o = real.submit(xp, objs, c["kind"], c["x"], c.get("dep"), c.get("sync", True))
                        objs[c["job"]] = o
                        rels[c["job"]] = rel
                        if c.get("settle"):
                            settle(ws, [(r, rels.get(lab.split(">")[1]) if lab.startswith("e") else None) for lab, r in rels.items()])
                        emit(ev="submitted", rel=rel)
                    except Exception as e:
                        emit(ev="submit-error", what=f"{type(e).__name__}: {e}")
                elif c["cmd"] == "release":
                    real.release.set()
                    emit(ev="released")
                elif c["cmd"] == "exit":
                    if c["how"] == "ok":
                        real.release.set()
                    if c.get("kill_exit") is not None:
                        arm.update(k=c["kill_exit"], n=0, mode="exit")
                    return c["how"]
                else:
                    emit(ev="error", what=f"unexpected {c}")
            return "ok"

        entered, raised = real.block(ws, name, body, before_with, via=cmd.get("via"))
        arm.update(k=None, mode=None)
        os.rename, os.unlink = orig_rename, orig_unlink
        real.release.set()
        emit(ev="exited", entered=entered, raised=raised)
    out.flush()
    os._exit(0)  # a process whose run is over goes away (and with it the job locks of interrupted starts)


def zygote_main(libdir, sockpath):
    """imports experimaestro once, then forks one agent process per connection on a unix socket (an agent
    is a process of its own — own pid, own fcntl locks — that starts in a few milliseconds).  The zygote has
    a single thread, so the fork is safe."""
    import socket

    die_with_parent()
    real = Real(libdir)
    assert threading.active_count() == 1
    signal.signal(signal.SIGCHLD, signal.SIG_IGN)  # agents are reaped by the kernel
    srv = socket.socket(socket.AF_UNIX, socket.SOCK_STREAM)
    srv.bind(sockpath)
    srv.listen(128)
    sys.stdout.write("ready\n")
    sys.stdout.flush()
    while True:
        conn, _ = srv.accept()
        pid = os.fork()
        if pid == 0:
            try:
                srv.close()
                signal.signal(signal.SIGCHLD, signal.SIG_DFL)
                die_with_parent()
                agent_loop(real, conn.makefile("r"), conn.makefile("w"))
            finally:
                os._exit(0)
        conn.close()


class Agent:
    """handle on an agent process (used by the worker)"""

    def __init__(self, sockpath):
        import socket

        self.sock = socket.socket(socket.AF_UNIX, socket.SOCK_STREAM)
        self.sock.connect(sockpath)
        self.rf = self.sock.makefile("r")
        self.wf = self.sock.makefile("w")
        self.q = queue.Queue()
        self.dead = False
        self.pid = None
        self.has_pid = threading.Event()
        self.eof = threading.Event()
        threading.Thread(target=self._reader, daemon=True).start()

    def _reader(self):
        try:
            for line in self.rf:
                line = line.strip()
                if not line:
                    continue
                try:
                    ev = json.loads(line)
                except json.JSONDecodeError:
                    ev = {"ev": "garbage", "raw": line[:200]}
                if ev.get("ev") == "ready":
                    self.pid = ev["pid"]
                    self.has_pid.set()
                self.q.put(ev)
        except (OSError, ValueError):
            pass
        self.eof.set()
        self.q.put({"ev": "eof"})

    def send(self, **cmd):
        try:
            self.wf.write(json.dumps(cmd) + "\n")
            self.wf.flush()
        except (BrokenPipeError, OSError, ValueError):
            pass

    def expect(self, names, timeout):
        """next event whose name is in `names` (or eof); None on timeout"""
        t0 = time.time()
        while True:
            left = timeout - (time.time() - t0)
            if left <= 0:
                return None
            try:
                ev = self.q.get(timeout=left)
            except queue.Empty:
                return None
            if ev["ev"] in names or ev["ev"] == "eof":
                return ev

    def alive(self):
        return not self.dead and not self.eof.is_set()

    def _signal(self, sig):
        if self.has_pid.wait(60) and not self.eof.is_set():
            try:
                os.kill(self.pid, sig)
            except ProcessLookupError:
                pass

    def kill(self, sig=signal.SIGKILL):
        """the socket reaches end-of-file when the process is gone (all its descriptors are closed)"""
        self._signal(sig)
        if not self.eof.wait(20):
            self._signal(signal.SIGKILL)
            self.eof.wait(20)
        self._close()

    def close(self):
        if not self.dead:
            self.send(cmd="quit")
            if not self.eof.wait(3):
                self.kill()
            self._close()

    def _close(self):
        self.dead = True
        for f in (self.wf, self.rf, self.sock):
            try:
                f.close()
            except (OSError, ValueError):
                pass


# ------------------------------------------------------------------ worker (process 0 + orchestration)


class EnterTimeout(Exception):
    pass


class HistoryRunner:
    """plays one history on a fresh workspace.  Operations (dicts, field `op`):
       enter p [kill_enter k] | submit p job kind x dep sync | release p | exit p how [kill_exit k]
       | kill p sig | giveup p | other (a complete run of another experiment name by process 0)"""

    def __init__(self, real, zsock, base, hist):
        self.real = real
        self.zsock = zsock
        self.hist = hist
        self.ops = hist["ops"]
        self.ws = Path(base) / f"ws{hist['id']}"
        self.ws.mkdir(parents=True)
        self.i = 0
        self.events = []
        self.relmap = {}
        self.agents = {}
        self.pending = {}  # p -> agent blocked in enter
        self.inside_agents = set()
        self.objs0 = {}
        self.run_jobs = {}  # p -> [(rel, dep_rel)] submitted (with barrier) in the current run of p
        self.racy_last = set()
        self.abort = None

    # -- helpers
    def agent(self, p):
        if p not in self.agents:
            self.agents[p] = Agent(self.zsock)
        return self.agents[p]

    def prespawn(self):
        for op in self.ops:
            if op.get("p", 0) != 0 and not op.get("cli"):
                self.agent(op["p"])

    def record(self, idx, res, obs=True, orphans=True, **extra):
        ev = {"i": idx, "res": res}
        ev.update(extra)
        if obs:
            ev["obs"] = observe(self.ws, XPNAME, self.relmap, want_orphans=orphans)
        self.events.append(ev)
        return ev

    def wait_pending_inside(self, idx):
        """after a holder left: a pending contender gets the lock at once (it polls)"""
        for p, ag in list(self.pending.items()):
            ev = ag.expect({"inside", "exited"}, ENTER_TIMEOUT)
            del self.pending[p]
            if ev and ev["ev"] == "inside":
                self.inside_agents.add(p)
                self.record(idx, "pending-entered", p=p)
            else:
                self.record(idx, "pending-stuck", p=p, got=ev)
                self.abort = "pending contender did not get the lock"

    # -- the interpreter
    def drive(self, xp0=None):
        while self.i < len(self.ops) and self.abort is None:
            idx = self.i
            op = self.ops[idx]
            self.i += 1
            kind, p = op["op"], op.get("p", 0)
            if kind == "other":
                self.other_run(idx, op)
            elif kind == "neutral":
                self.neutral_run(idx, op)
            elif kind == "enter" and op.get("cli"):
                self.cli_run(idx, op)
            elif p == 0:
                if kind == "enter":
                    self.block0(idx)
                elif kind == "submit":
                    try:
                        rel, o = self.real.submit(xp0, self.objs0, op["kind"], op["x"], op.get("dep"), op.get("sync", True))
                        self.objs0[op["job"]] = o
                        self.relmap[rel] = op["job"]
                        self.track(0, op, rel)
                        if op.get("settle"):
                            self.quiesce0()
                        self.record(idx, "submitted", obs=op.get("sync", True), orphans=bool(op.get("settle")))
                    except Exception as e:
                        self.record(idx, "submit-error", what=f"{type(e).__name__}: {e}")
                        self.abort = "submit failed"
                elif kind == "release":
                    self.real.release.set()
                    self.record(idx, "released", obs=False)
                elif kind == "exit":
                    if op["how"] == "ok":
                        self.real.release.set()
                    else:
                        self.quiesce0()
                    self.exit0 = idx
                    return op["how"]
            else:
                self.agent_op(idx, op, kind, p)
        return "ok"

    def track(self, p, op, rel):
        if op.get("sync", True):
            dep = op.get("dep") if op["kind"] == "e" else None
            deprel = next((r for r, lab in self.relmap.items() if lab == dep), None) if dep else None
            self.run_jobs.setdefault(p, []).append((rel, deprel))

    def settle_agent(self, p):
        """before a process ends or is made to die, the job starts in progress are allowed to finish: a death
        in the middle of a start (empty .pid file, …) is the business of other properties (C10/C11) and would
        stall later runs of the history.  Racy submissions (fresh jobs no later run touches) are exempt."""
        if not settle(self.ws, self.run_jobs.get(p, [])):
            self.abort = "unsettled"

    def quiesce0(self):
        """process 0 outlives its runs: before it aborts a run, the starts in progress are allowed to finish
        (a start interrupted by the stopped loop would keep the job's lock for the rest of the worker's
        life and stall later *agents*; a real process ends).  Looks at the job markers only."""
        if not settle(self.ws, self.run_jobs.get(0, [])):
            self.abort = "unsettled"

    def block0(self, idx):
        self.objs0 = {}
        self.run_jobs[0] = []
        self.real.release.clear()
        self.exit0 = None

        def on_alarm(signum, frame):
            raise EnterTimeout()

        old = signal.signal(signal.SIGALRM, on_alarm)
        signal.setitimer(signal.ITIMER_REAL, ENTER_TIMEOUT)

        def body(xp):
            signal.setitimer(signal.ITIMER_REAL, 0)
            self.record(idx, "inside")
            return self.drive(xp)

        entered, raised = self.real.block(self.ws, XPNAME, body, via=self.ops[idx].get("via"))
        signal.setitimer(signal.ITIMER_REAL, 0)
        signal.signal(signal.SIGALRM, old)
        self.real.release.set()
        if not entered:
            self.record(idx, "stuck" if raised == "EnterTimeout" else "enter-error", raised=raised)
            self.abort = "process 0 could not enter"
            return
        if self.abort is not None and self.exit0 is None:
            return
        eidx = self.exit0 if self.exit0 is not None else idx
        if self.pending:
            self.record(eidx, "exited", obs=False, raised=raised)
            self.wait_pending_inside(eidx)
        else:
            self.record(eidx, "exited", raised=raised, lock=probe_lock(self.ws, XPNAME))

    def other_run(self, idx, op):
        """a complete run of another experiment of the same workspace, by process 0 (not inside `e`)"""
        objs = {}

        def body(xp):
            for k, x in op["jobs"]:
                rel, o = self.real.submit(xp, objs, k, x, None, True)
                self.relmap[rel] = f"o{k}{x}"
            return op["how"]

        entered, raised = self.real.block(self.ws, OTHER, body)
        self.record(idx, "other-done", raised=raised, entered=entered)

    def cli_run(self, idx, op):
        """a whole run through the command line entry point `experimaestro run-experiment` (its own process,
        the default launcher: job processes are really started).  The operations of the run (submissions up to
        the exit of `p`) are written to a plan file that the experiment file `c16xp.py` plays."""
        p = op["p"]
        subs, j = [], self.i
        while self.ops[j]["op"] != "exit":
            subs.append((j, self.ops[j]))
            j += 1
        eidx, eop = j, self.ops[j]
        self.i = j + 1
        libdir = str(Path(self.real.tasks.__file__).parents[1])
        planfile = self.ws.parent / f"plan-{self.hist['id']}-{idx}.json"
        outfile = self.ws.parent / f"plan-{self.hist['id']}-{idx}.out"
        job = lambda o: [o["job"], o["kind"], o["x"], o.get("dep")]  # noqa: E731
        planfile.write_text(json.dumps({"pre": [job(o) for _, o in subs], "post": [job(o) for o in eop.get("post", [])],
                                        "end": eop["how"], "out": str(outfile), "ws": str(self.ws)}))
        env = dict(os.environ)
        env.pop("PYTEST_CURRENT_TEST", None)
        # the settings file of the user who starts the command: `main` (the first = default workspace) is the
        # workspace of this history, `alt` is another directory (runs that name it give the directory themselves)
        home = self.ws.parent / f"home-{self.hist['id']}"
        (home / ".config" / "experimaestro").mkdir(parents=True, exist_ok=True)
        (home / ".config" / "experimaestro" / "settings.yaml").write_text(
            f"workspaces:\n  - id: main\n    path: {self.ws}\n  - id: {SETTINGS_WS}\n    path: {self.ws.parent / ('alt-' + self.ws.name)}\n")
        env["HOME"] = str(home)
        env["PYTHONPATH"] = libdir + (":" + env["PYTHONPATH"] if env.get("PYTHONPATH") else "")
        via = op.get("via") or {"how": "workdir-abs", "cwd": None}
        cwd = desig_cwd(self.ws, via.get("cwd"))
        rel = os.path.relpath(self.ws, cwd) if cwd is not None else None
        where = {"workdir-abs": ["--workdir", str(self.ws)], "workdir-rel": ["--workdir", rel], "named": ["--workspace", "main"],
                 "default": [], "named-abs": ["--workspace", SETTINGS_WS, "--workdir", str(self.ws)],
                 "named-rel": ["--workspace", SETTINGS_WS, "--workdir", rel]}[via["how"]]
        cmd = [sys.executable, "-m", "experimaestro", "run-experiment", *where, "--env", "PYTHONPATH",
               env["PYTHONPATH"], "-c", f"plan={planfile}", str(Path(libdir) / "c16xp.yaml")]
        try:
            r = subprocess.run(cmd, env=env, cwd=cwd, capture_output=True, text=True, timeout=120)
            rc, tail = r.returncode, (r.stdout + r.stderr)[-1500:]
        except subprocess.TimeoutExpired:
            self.record(idx, "cli-timeout")
            self.abort = "run-experiment did not end"
            return
        done = json.loads(outfile.read_text()) if outfile.exists() else []
        for label, rel in done:
            self.relmap[rel] = label
        if len(done) != len(subs):
            self.record(idx, "cli-error", rc=rc, tail=tail, submitted=done)
            self.abort = "run-experiment did not play the plan"
            return
        self.record(idx, "inside", obs=False)
        for k, _ in subs:
            self.record(k, "submitted", obs=False)
        self.record(eidx, "exited", rc=rc, tail=tail[-400:] if (rc != 0) != (eop["how"] != "ok") else "",
                    lock=probe_lock(self.ws, XPNAME))

    def neutral_run(self, idx, op):
        """a complete run of experiment `e` in run mode dry-run / generate, by process 0"""
        objs = {}

        def body(xp):
            for k, x in op["jobs"]:
                rel, o = self.real.submit(xp, objs, k, x, None, False)
                self.relmap[rel] = job_label(k, x)
            return op["how"]

        entered, raised = self.real.block(self.ws, XPNAME, body, run_mode=op["mode"])
        self.record(idx, "neutral-done", raised=raised, entered=entered)

    def agent_op(self, idx, op, kind, p):
        ag = self.agent(p)
        if kind == "enter":
            ev = ag.expect({"ready"}, 60) if not getattr(ag, "ready", False) else {"ev": "ready"}
            ag.ready = True
            if ev is None or ev["ev"] != "ready":
                self.record(idx, "agent-failed", got=ev)
                self.abort = "agent did not start"
                return
            ag.send(cmd="enter", ws=str(self.ws), name=XPNAME, kill_enter=op.get("kill_enter"), via=op.get("via"))
            if ag.expect({"attempt"}, 60) is None:
                self.record(idx, "agent-failed")
                self.abort = "agent did not attempt"
                return
            expect_blocked = op.get("expect") == "blocked"
            ev = ag.expect({"inside", "exited"}, BLOCK_WINDOW if expect_blocked else ENTER_TIMEOUT)
            if ev is None:
                if expect_blocked:
                    self.pending[p] = ag
                    self.record(idx, "blocked", orphans=False)
                else:
                    self.record(idx, "stuck", lock=probe_lock(self.ws, XPNAME))
                    ag.kill()
                    self.abort = "agent could not enter"
            elif ev["ev"] == "inside":
                self.inside_agents.add(p)
                self.record(idx, "inside")
            elif ev["ev"] == "eof":  # died inside __enter__ (kill_enter)
                ag.kill()
                self.record(idx, "died-entering", lock=probe_lock(self.ws, XPNAME))
            else:
                self.record(idx, "enter-error", got=ev)
                self.abort = "agent enter failed"
        elif kind == "submit":
            if not op.get("sync", True):  # racy: the process ends right after it, so the earlier starts finish first
                self.settle_agent(p)
                self.racy_last.add(p)
            ag.send(cmd="submit", job=op["job"], kind=op["kind"], x=op["x"], dep=op.get("dep"), sync=op.get("sync", True),
                    settle=bool(op.get("settle")))
            ev = ag.expect({"submitted", "submit-error"}, 60)
            if ev and ev["ev"] == "submitted":
                self.relmap[ev["rel"]] = op["job"]
                self.track(p, op, ev["rel"])
                self.record(idx, "submitted", obs=op.get("sync", True), orphans=bool(op.get("settle")))
            else:
                self.record(idx, "submit-error", got=ev)
                self.abort = "agent submit failed"
        elif kind == "release":
            ag.send(cmd="release")
            ag.expect({"released"}, 30)
            self.record(idx, "released", obs=False)
        elif kind == "exit":
            if p not in self.racy_last:
                self.settle_agent(p)
            ag.send(cmd="exit", how=op["how"], kill_exit=op.get("kill_exit"))
            ev = ag.expect({"exited"}, 60)
            self.inside_agents.discard(p)
            if ev is None:
                self.record(idx, "exit-stuck")
                ag.kill()
                self.abort = "agent exit stuck"
            elif ev["ev"] == "eof":  # died inside __exit__ (kill_exit)
                ag.kill()
                if self.pending:
                    self.record(idx, "died-exiting", obs=False)
                    self.wait_pending_inside(idx)
                else:
                    self.record(idx, "died-exiting", lock=probe_lock(self.ws, XPNAME))
            else:
                ag.close()  # the process of a finished run goes away
                if self.pending:
                    self.record(idx, "exited", obs=False, raised=ev.get("raised"))
                    self.wait_pending_inside(idx)
                else:
                    self.record(idx, "exited", raised=ev.get("raised"), lock=probe_lock(self.ws, XPNAME))
        elif kind == "kill":
            if ag.dead:  # it died inside __enter__ already
                return
            if p not in self.racy_last:
                self.settle_agent(p)
            ag.kill(signal.SIGTERM if op.get("sig") == "TERM" else signal.SIGKILL)
            self.inside_agents.discard(p)
            if self.pending:
                self.record(idx, "killed", obs=False)
                self.wait_pending_inside(idx)
            else:
                self.record(idx, "killed", lock=probe_lock(self.ws, XPNAME))
        elif kind == "giveup":
            was = p in self.pending
            self.pending.pop(p, None)
            ag.kill()
            self.record(idx, "gave-up", orphans=False, was_pending=was)

    def run(self):
        t0 = time.time()
        try:
            self.prespawn()
            self.drive(None)
        except Exception as e:
            import traceback

            self.abort = f"harness: {type(e).__name__}: {e} {traceback.format_exc()[-600:]}"
        finally:
            self.real.release.set()
            for ag in self.agents.values():
                if not ag.dead:
                    ag.kill()
        return {"id": self.hist["id"], "events": self.events, "abort": self.abort, "wall": round(time.time() - t0, 3)}


def worker_main(specfile, outfile):
    die_with_parent()
    spec = json.loads(Path(specfile).read_text())
    os.environ["XPM_WORKDIR"] = str(Path(spec["base"]) / "xpmwork")
    # the settings file of this worker, its zygote and its agents (read once per process): one named workspace
    home = Path(spec["base"]) / "home-api"
    (home / ".config" / "experimaestro").mkdir(parents=True, exist_ok=True)
    (home / ".config" / "experimaestro" / "settings.yaml").write_text(
        f"workspaces:\n  - id: {SETTINGS_WS}\n    path: {Path(spec['base']) / 'alt-api'}\n")
    os.environ["HOME"] = str(home)
    os.environ.pop("PYTEST_CURRENT_TEST", None)
    zsock = str(Path(spec["base"]) / "z.sock")
    zyg = subprocess.Popen([sys.executable, "-m", "xv.props.c16", "zygote", spec["lib"], zsock], stdout=subprocess.PIPE,
                           stderr=subprocess.DEVNULL, text=True)
    real = Real(spec["lib"])
    if zyg.stdout.readline().strip() != "ready":
        raise RuntimeError("C16 zygote did not start")
    import faulthandler

    if os.environ.get("C16_DEBUGSTATE"):  # diagnostic: state of the scheduler of a run that does not end

        def dump():
            while True:
                time.sleep(float(os.environ["C16_DEBUGSTATE"]))
                xp = real.experiment.CURRENT
                if xp is not None:
                    sys.stderr.write(f"STATE unfinished={xp.unfinishedJobs} exitMode={xp.exitMode} " + " ".join(
                        f"[{j.relpath} {j.state} unsat={j.unsatisfied} ready={j._readyEvent.is_set()} fut={j._future}]"
                        for j in xp.scheduler.jobs.values()) + "\n")
                    sys.stderr.flush()

        threading.Thread(target=dump, daemon=True).start()
    with open(outfile, "w") as out:
        for hist in spec["histories"]:
            # watchdog: a history that does not end is a harness error (exit 2 of the check), with the stacks
            faulthandler.dump_traceback_later(int(os.environ.get("C16_WATCHDOG", "150")), exit=True)
            sys.stderr.write(f"history {hist['id']}\n")
            sys.stderr.flush()
            res = HistoryRunner(real, zsock, spec["base"], hist).run()
            out.write(json.dumps(res) + "\n")
            out.flush()
            import shutil

            shutil.rmtree(Path(spec["base"]) / f"ws{hist['id']}", ignore_errors=True)
    zyg.kill()


# =====================================================================================
# check side


def _common():
    from .. import common

    return common


def prove(ctx):
    """the statement sequences of __enter__ / __exit__ / the link step are regenerated from the tree under test
    (Generated/XpIndexSrc.lean); C16Src = the source obligations on them, C16Fine = the theorems of the model that runs them"""
    from ..translate import xpindexsrc

    common = _common()
    msg = xpindexsrc.generate(common.REPO, common.LEAN)
    ctx.notes.append(f"translator(xpindexsrc): {msg[1]}")
    ctx.count("translator", "xpindexsrc:" + ("translated" if msg[1] == "translated" else "fallback" if msg[0] else "failed"))
    common.check_proofs(ctx, MODULES, translate_msgs=[msg])


# ---------------------------------------------------------------- generator

POOL = [("a", 0), ("a", 1), ("a", 2), ("a", 3), ("b", 0), ("b", 1), ("f", 0), ("h", 0), ("h", 1)]


def job_label(kind, x, dep=None):
    return f"{kind}{x}" + (f">{dep}" if dep else "")


def gen_history(rng, hid, agents_ok=True, rich=True):
    """one history: 2-7 runs of experiment `e`.  Tracks who holds the experiment so that every operation is
    inside the model's domain (a process submits/exits only when inside; process 0 never waits for a lock)."""
    ops = []
    nruns = rng.choice([2, 3, 3, 4, 4, 5, 6, 7]) if rich else rng.choice([2, 3, 4])
    next_agent = [1]
    nracy = [0]
    takeover = None  # agent already inside (it was a pending contender)

    def new_agent():
        a = next_agent[0]
        next_agent[0] += 1
        return a

    def submits(p, canhang):
        n = rng.choice([0, 1, 1, 2, 2, 3, 3, 4, 5])
        mine = []
        out = []
        for _ in range(n):
            r = rng.random()
            avail_a = [m for m in mine if m.startswith("a")]
            avail_h = [m for m in mine if m.startswith("h")]
            if r < 0.12 and avail_a:
                dep = rng.choice(avail_a)
                kind, x = "d", rng.choice([0, 1])
            elif r < 0.2 and avail_h and canhang:
                dep = rng.choice(avail_h)
                kind, x = "e", 0
            else:
                dep = None
                kind, x = rng.choice(POOL)
                if kind == "h" and not canhang:
                    kind = "a"
            lab = job_label(kind, x, dep)
            if kind == "f" and lab in mine:
                continue  # re-submitting a failed job inside one run is another property's business (C06)
            mine.append(lab)
            out.append({"op": "submit", "p": p, "job": lab, "kind": kind, "x": x, "dep": dep, "sync": True,
                        "settle": rng.random() < 0.35})
        return out

    for r in range(nruns):
        if takeover is not None:
            p, entered = takeover, True
            takeover = None
        else:
            p = new_agent() if (agents_ok and rng.random() < 0.3) else 0
            entered = False
        if not entered and rng.random() < 0.08 and p == 0 and rich:
            ops.append({"op": "neutral", "mode": rng.choice(["dry-run", "generate"]), "how": rng.choice(["ok", "ok", "exc"]),
                        "jobs": [rng.choice([("a", 0), ("a", 1), ("a", 2), ("b", 0), ("b", 1)]) for _ in range(rng.choice([1, 2, 3]))]})
        if not entered and rng.random() < 0.06 and p == 0 and rich:
            ops.append({"op": "other", "jobs": [("b", 100 + rng.randrange(3)) for _ in range(rng.choice([1, 2]))],
                        "how": rng.choice(["ok", "exc"])})
        # how the run ends
        if p == 0:
            end = rng.choice(["ok", "ok", "ok", "exc", "exc", "kbd", "sysexit"])
        else:
            end = rng.choice(["ok", "exc", "kill", "kill", "term", "kill_exit", "kill_enter"])
            if entered and end == "kill_enter":
                end = "kill"
        if not entered:
            e = {"op": "enter", "p": p}
            if end == "kill_enter":
                e["kill_enter"] = rng.choice([0, 0, 1, 1, 2, 3, 6])
            ops.append(e)
        body = [] if end == "kill_enter" else submits(p, canhang=True)
        # contention: another process tries to enter meanwhile; it gives up, or waits and takes over
        contender = None
        if agents_ok and end != "kill_enter" and rng.random() < (0.22 if rich else 0.1):
            contender = new_agent()
            pos = rng.randrange(len(body) + 1)
            body.insert(pos, {"op": "enter", "p": contender, "expect": "blocked"})
            if end == "kill_exit" or rng.random() < 0.5:
                body.insert(rng.randrange(pos + 1, len(body) + 1), {"op": "giveup", "p": contender})
                contender = None
        # a racy last submission (no barrier) right before an abort
        if p != 0 and body and body[-1]["op"] == "submit" and contender is None and end in ("exc", "kill") and rng.random() < 0.4:
            nracy[0] += 1
            body[-1] = {"op": "submit", "p": p, "job": f"a{1000 + nracy[0]}", "kind": "a", "x": 1000 + nracy[0], "dep": None,
                        "sync": False, "settle": False}
        ops += body
        if end in ("ok", "exc", "kbd", "sysexit"):
            ops.append({"op": "exit", "p": p, "how": end})
        elif end in ("kill", "term", "kill_enter"):
            # kill_enter with a k beyond the number of links: the agent gets inside; it is then killed in the block
            ops.append({"op": "kill", "p": p, "sig": "TERM" if end == "term" else "KILL"})
        elif end == "kill_exit":
            ops.append({"op": "exit", "p": p, "how": "ok", "kill_exit": rng.choice([0, 0, 1, 1, 2, 3, 8])})
        if contender is not None:
            takeover = contender
    if takeover is not None:
        ops.append({"op": "kill", "p": takeover, "sig": "KILL"})
    return {"id": hid, "ops": ops}


CORPUS = [
    # completed, aborted, aborted, completed: the backup accumulates over the two aborted runs
    {"id": "corpus-0", "ops": [
        {"op": "enter", "p": 0}, {"op": "submit", "p": 0, "job": "a0", "kind": "a", "x": 0, "dep": None, "sync": True},
        {"op": "submit", "p": 0, "job": "b0", "kind": "b", "x": 0, "dep": None, "sync": True}, {"op": "exit", "p": 0, "how": "ok"},
        {"op": "enter", "p": 0}, {"op": "submit", "p": 0, "job": "a0", "kind": "a", "x": 0, "dep": None, "sync": True},
        {"op": "submit", "p": 0, "job": "a1", "kind": "a", "x": 1, "dep": None, "sync": True}, {"op": "exit", "p": 0, "how": "exc"},
        {"op": "enter", "p": 0}, {"op": "submit", "p": 0, "job": "a2", "kind": "a", "x": 2, "dep": None, "sync": True},
        {"op": "exit", "p": 0, "how": "kbd"},
        {"op": "enter", "p": 0}, {"op": "submit", "p": 0, "job": "a2", "kind": "a", "x": 2, "dep": None, "sync": True},
        {"op": "exit", "p": 0, "how": "ok"}]},
    # a killed run, a contender that waits and takes over, a failing job on a clean exit
    {"id": "corpus-1", "ops": [
        {"op": "enter", "p": 1}, {"op": "submit", "p": 1, "job": "a0", "kind": "a", "x": 0, "dep": None, "sync": True},
        {"op": "submit", "p": 1, "job": "h0", "kind": "h", "x": 0, "dep": None, "sync": True},
        {"op": "enter", "p": 2, "expect": "blocked"}, {"op": "kill", "p": 1, "sig": "KILL"},
        {"op": "submit", "p": 2, "job": "f0", "kind": "f", "x": 0, "dep": None, "sync": True},
        {"op": "exit", "p": 2, "how": "ok"}]},
]


def _sub(p, kind, x, dep=None, **kw):
    return dict({"op": "submit", "p": p, "job": job_label(kind, x, dep), "kind": kind, "x": x, "dep": dep, "sync": True}, **kw)


def cli_run_ops(p, jobs, end, post=()):
    """one run through `experimaestro run-experiment` (process p): jobs = [(kind, x, dep)]; end = ok | stagefail (a job
    fails, the plan calls xp.wait() and would go on with `post`) | finalfail (a job fails, the command's own wait raises)
    | handled (the run function raises HandledException) | exc (it raises RuntimeError)"""
    ops = [{"op": "enter", "p": p, "cli": True}]
    ops += [_sub(p, k, x, d, cli=True) for k, x, d in jobs]
    ops.append({"op": "exit", "p": p, "how": end, "cli": True, "post": [_sub(p, k, x, d, cli=True) for k, x, d in post]})
    return ops


def gen_cli_history(rng, hid):
    """3-5 runs of experiment `e`, most of them through the command line entry point, the others through the API (process 0)"""
    ops, p = [], 0
    for r in range(rng.choice([3, 4, 4, 5])):
        n = rng.choice([1, 2, 2, 3])
        jobs = []
        for _ in range(n):
            mine_a = [j for j in jobs if j[0] == "a"]
            if mine_a and rng.random() < 0.2:
                a = rng.choice(mine_a)
                jobs.append(("d", rng.choice([0, 1]), job_label("a", a[1])))
            else:
                jobs.append((*rng.choice([("a", 0), ("a", 1), ("a", 2), ("b", 0), ("b", 1)]), None))
        if r > 0 and rng.random() < 0.25:  # a run through the API in between
            ops.append({"op": "enter", "p": 0})
            ops += [_sub(0, k, x, d, settle=False) for k, x, d in jobs]
            ops.append({"op": "exit", "p": 0, "how": rng.choice(["ok", "exc", "kbd"])})
            continue
        p += 1
        end = "ok" if r == 0 else rng.choice(["ok", "stagefail", "finalfail", "handled", "handled", "exc"])
        post = []
        if end in ("stagefail", "finalfail"):
            jobs.append(("f", rng.choice([0, 1]), None))
            post = [("a", 3, None)] if end == "stagefail" else []
        ops += cli_run_ops(p, jobs, end, post)
    return {"id": hid, "ops": ops}


CLI_CORPUS = [
    # run-experiment: a completed plan, then a plan whose first stage fails (FailedExperiment out of xp.wait(): a
    # HandledException), then a completed plan again
    {"id": "cli-0", "ops": cli_run_ops(1, [("a", 0, None), ("b", 0, None)], "ok")
        + cli_run_ops(2, [("a", 1, None), ("f", 0, None)], "stagefail", [("a", 2, None)])
        + cli_run_ops(3, [("a", 1, None)], "ok")},
    # completed; the run function raises HandledException; it raises RuntimeError; a job fails (final wait); completed
    {"id": "cli-1", "ops": cli_run_ops(1, [("a", 0, None), ("b", 0, None)], "ok")
        + cli_run_ops(2, [("a", 1, None)], "handled")
        + cli_run_ops(3, [("a", 2, None), ("d", 0, "a2")], "exc")
        + cli_run_ops(4, [("b", 1, None), ("f", 0, None)], "finalfail")
        + cli_run_ops(5, [("a", 2, None)], "ok")},
]


def rand_via(rng, cli):
    """one way of naming the workspace (None = the absolute spelling of the other histories)"""
    if rng.random() < 0.15:
        return None
    how = rng.choice(CLI_HOWS if cli else API_HOWS)
    if how.endswith("rel"):
        return {"how": how, "cwd": rng.choice(CWDS)}
    return {"how": how, "cwd": rng.choice([None, None, "nested", "inside"])}  # where the process is must not matter


def _enter(p, via, **kw):
    e = dict({"op": "enter", "p": p}, **kw)
    if via:
        e["via"] = via
    return e


def gen_desig_history(rng, hid):
    """2-5 runs of experiment `e` through the API, every run naming the (same) workspace its own way; process 0 or a
    process of its own; ends normally, by an exception or by SIGKILL; sometimes a second process, naming the workspace
    differently, tries to enter meanwhile (and gives up)"""
    ops, agent = [], 0
    for r in range(rng.choice([2, 3, 3, 4, 5])):
        if rng.random() < 0.5:
            agent += 1
            p = agent
            end = rng.choice(["ok", "ok", "exc", "kill"])
        else:
            p = 0
            end = rng.choice(["ok", "ok", "ok", "exc", "kbd"])
        if r == 0:
            end = "ok"
        ops.append(_enter(p, rand_via(rng, False)))
        body, mine = [], []
        for _ in range(rng.choice([1, 2, 2, 3])):
            if mine and rng.random() < 0.2:
                a = rng.choice(mine)
                body.append(_sub(p, "d", rng.choice([0, 1]), job_label("a", a), settle=rng.random() < 0.3))
            else:
                k, x = rng.choice([("a", 0), ("a", 1), ("a", 2), ("b", 0), ("b", 1)])
                if k == "a":
                    mine.append(x)
                body.append(_sub(p, k, x, settle=rng.random() < 0.3))
        if rng.random() < 0.3:
            agent += 1
            pos = rng.randrange(len(body) + 1)
            body.insert(pos, _enter(agent, rand_via(rng, False), expect="blocked"))
            body.insert(rng.randrange(pos + 1, len(body) + 1), {"op": "giveup", "p": agent})
        ops += body
        ops.append({"op": "kill", "p": p, "sig": "KILL"} if end == "kill" else {"op": "exit", "p": p, "how": end})
    return {"id": hid, "ops": ops}


def gen_desig_cli_history(rng, hid):
    """2-3 runs through `experimaestro run-experiment`, each naming the workspace its own way, then a run through the API"""
    ops = []
    nruns = rng.choice([2, 2, 3])
    for r in range(nruns):
        jobs = [(*rng.choice([("a", 0), ("a", 1), ("a", 2), ("b", 0), ("b", 1)]), None) for _ in range(rng.choice([1, 2, 2]))]
        end = "ok" if r == 0 else rng.choice(["ok", "ok", "handled", "exc"])
        run = cli_run_ops(r + 1, jobs, end)
        via = rand_via(rng, True)
        if via:
            run[0]["via"] = via
        ops += run
    ops.append(_enter(0, rand_via(rng, False)))
    ops += [_sub(0, k, x, settle=False) for k, x in rng.sample([("a", 0), ("a", 1), ("b", 0), ("b", 1)], 2)]
    ops.append({"op": "exit", "p": 0, "how": rng.choice(["ok", "exc"])})
    return {"id": hid, "ops": ops}


def _with_via(ops, via):
    ops[0]["via"] = via
    return ops


DESIG_CORPUS = [
    # a workspace of the settings file whose directory is given relatively (process 0), a relative path (a process of
    # its own, aborted), find_workspace(workdir=".") from inside the workspace
    {"id": "dz-0", "ops": [
        _enter(0, {"how": "find-named-rel", "cwd": "parent"}), _sub(0, "a", 0), _sub(0, "b", 0), {"op": "exit", "p": 0, "how": "ok"},
        _enter(1, {"how": "path-rel", "cwd": "nested"}), _sub(1, "b", 0), _sub(1, "a", 1), {"op": "exit", "p": 1, "how": "exc"},
        _enter(0, {"how": "find-workdir-rel", "cwd": "inside"}), _sub(0, "a", 1), {"op": "exit", "p": 0, "how": "ok"}]},
    # two processes naming one workspace differently: the second is kept out; then the absolute spelling
    {"id": "dz-1", "ops": [
        _enter(1, {"how": "find-named-rel", "cwd": "nested"}), _sub(1, "a", 0),
        _enter(2, {"how": "settings-abs", "cwd": None}, expect="blocked"), _sub(1, "a", 1), {"op": "giveup", "p": 2},
        {"op": "exit", "p": 1, "how": "ok"},
        _enter(3, {"how": "str-rel", "cwd": "inside"}), _sub(3, "a", 1), _sub(3, "d", 0, "a1"), {"op": "kill", "p": 3, "sig": "KILL"},
        _enter(0, None), _sub(0, "a", 0), _sub(0, "a", 1), {"op": "exit", "p": 0, "how": "ok"}]},
]

DESIG_CLI_CORPUS = [
    # run-experiment: named workspace + relative directory; relative --workdir from elsewhere; named workspace +
    # absolute directory, given up (HandledException); the default workspace of the settings file
    {"id": "dz-cli-0", "ops": _with_via(cli_run_ops(1, [("a", 0, None), ("b", 0, None)], "ok"), {"how": "named-rel", "cwd": "parent"})
        + _with_via(cli_run_ops(2, [("b", 0, None), ("a", 1, None)], "ok"), {"how": "workdir-rel", "cwd": "nested"})
        + _with_via(cli_run_ops(3, [("a", 2, None)], "handled"), {"how": "named-abs", "cwd": "inside"})
        + _with_via(cli_run_ops(4, [("a", 1, None)], "ok"), {"how": "default", "cwd": None})},
]


# ---------------------------------------------------------------- evaluation (model lines + monitors)


class Tracker:
    """what the property protects, tracked from the observed history (no model)"""

    def __init__(self):
        self.holder = None
        self.cur = set()
        self.plan = set()
        self.aborted = set()
        self.before = None  # observation before the current run's enter
        self.last = {"jobs": [], "bak": None}
        self.phase = "start"


def names(folder):
    return {e[0] for e in (folder or [])}


def evaluate(ctx, hist, res, with_model=True):
    """applies the monitors (implementation only) to the observations of one history and builds the model
    lines with the observations they are to be compared with.  Returns (lines, expect, labels) or None."""
    ops = hist["ops"]
    labels = {}

    def lid(lab):
        if lab not in labels:
            labels[lab] = len(labels) + 1
        return labels[lab]

    tr = Tracker()
    lines = [{"op": "reset"}]
    expect = [None]  # per model line: what the implementation showed after it (or None)
    case = {"history": hist}
    inside = None  # process observed inside the block
    racy = []  # labels submitted without barrier in the current run, link not looked at yet
    cur_enter = {}  # the `enter` operation of the run in progress (how it names the workspace)
    linked_by = {}  # label -> `enter` operation of the run that submitted it last
    varied = any(o.get("via") for o in ops)

    def enter_of(q, upto):
        for o in reversed(ops[:upto + 1]):
            if o["op"] == "enter" and o.get("p", 0) == q:
                return o
        return {}

    def named(lab):
        """for the messages of histories whose runs name the workspace in several ways"""
        if not varied:
            return ""
        return f" [the run that submitted {lab} last named the workspace by: {desig_text(linked_by.get(lab, {}))}]"

    def fail(key, what):
        ctx.monitor_fail(key, what, case)

    def folders(obs):
        return f"jobs={sorted(names(obs['jobs']))} jobs.bak={None if obs['bak'] is None else sorted(names(obs['bak']))}"

    def check_protected(obs, phase):
        for folder in ("jobs", "bak"):
            for n, t in (obs[folder] or []):
                if n != t:
                    via = linked_by.get(n, {}).get("via")
                    fail("wrong-target" + (":" + desig_key(linked_by[n]) if via else ""),
                         f"after {phase}: link {n} of {folder} points to {t}, it does not lead to the job directory of {n}{named(n)}")
        indexed = names(obs["jobs"]) | names(obs["bak"])
        for l in sorted(tr.plan | tr.aborted | tr.cur):
            if l not in obs["dirs"]:
                continue
            if obs["orphans"] is not None and l in obs["orphans"]:
                fail(f"orphaned:{phase}", f"after {phase}: job {l} is reported by `orphans` (last completed plan {sorted(tr.plan)}, aborted since "
                     f"{sorted(tr.aborted)}, current run {sorted(tr.cur)}); {folders(obs)}{named(l)}")
            elif l not in indexed:
                fail(f"orphaned:{phase}", f"after {phase}: job {l} has a directory and no link in jobs or jobs.bak; {folders(obs)}{named(l)}")

    def add(line, obs):
        lines.append(line)
        expect.append(None)

    for ev in res["events"]:
        op = ops[ev["i"]]
        kind, p, r = op["op"], op.get("p", 0), ev["res"]
        obs = ev.get("obs")
        phase = r
        if kind == "other":
            # another experiment name of the same workspace must leave this index alone
            if obs and (obs["jobs"] != tr.last["jobs"] or obs["bak"] != tr.last["bak"]):
                fail("other-experiment-modified-index", f"a run of experiment `{OTHER}` changed the index of `{XPNAME}`: {tr.last} -> {folders(obs)}")
            ctx.count("ops", "other")
            continue
        if kind == "neutral":
            # a dry run or a generate-only run is not a plan: the index stays as it is
            if obs and (obs["jobs"] != tr.last["jobs"] or obs["bak"] != tr.last["bak"]):
                fail(f"non-normal-run-modified-index:{op['mode']}", f"a {op['mode']} run of `{XPNAME}` changed its index: {tr.last} -> {folders(obs)}")
            if obs:
                check_protected(obs, f"{op['mode']} run")
            ctx.count("ops", "neutral:" + op["mode"])
            continue
        if r == "released":
            continue
        if r in ("inside", "pending-entered"):
            q = ev.get("p", p)
            if inside is not None and inside != q:
                fail("lock-not-exclusive", f"process {q} entered the block of experiment `{XPNAME}` while process {inside} was inside it"
                     + (f" [workspace named by: {desig_text(enter_of(q, ev['i']))} / {desig_text(cur_enter)}]" if varied else ""))
            add({"op": "enter", "p": q}, obs)
            inside = q
            cur_enter = enter_of(q, ev["i"])
            ctx.count("workspace_named_by", desig_key(cur_enter))
            tr.before = dict(tr.last)
            tr.cur = set()
            racy = []
            phase = "enter"
            if obs is not None:
                nb = names(tr.before["jobs"]) | names(tr.before["bak"])
                if not nb <= names(obs["jobs"]) | names(obs["bak"]):
                    fail("enter-lost-links", f"entering: links {sorted(nb)} were indexed before, now {folders(obs)}")
            ctx.count("ops", "enter")
        elif r == "blocked":
            add({"op": "enter", "p": p}, obs)
            phase = "blocked-enter"
            ctx.count("contender_names_workspace", "as the holder does" if op.get("via") == cur_enter.get("via") else
                      "differently: " + ("relative" if desig_key(op).split("/")[0].endswith("rel") else "absolute") + " vs holder's "
                      + ("relative" if desig_key(cur_enter).split("/")[0].endswith("rel") else "absolute"))
            if inside is None:
                fail(f"lock-not-released:{tr.phase}", f"process {p} is kept waiting for experiment `{XPNAME}` although no process is inside it (after {tr.phase})")
            if obs and (obs["jobs"] != tr.last["jobs"] or obs["bak"] != tr.last["bak"]):
                fail("blocked-enter-modified-index", f"process {p}, waiting for the lock held by process {inside}, changed the index: {tr.last} -> {folders(obs)}")
            ctx.count("ops", "enter-blocked")
        elif r == "stuck":
            fail(f"lock-not-released:{tr.phase}", f"process {p} cannot enter experiment `{XPNAME}` although no process is inside it "
                 f"(after {tr.phase}; lock probe: {ev.get('lock')})")
            break
        elif r == "submitted":
            lab = op["job"]
            linked_by[lab] = cur_enter
            if op.get("sync", True):
                add({"op": "submit", "p": p, "l": lid(lab)}, obs)
                tr.cur.add(lab)
                ctx.count("ops", "submit")
            else:
                racy.append(lab)
                ctx.count("ops", "submit-racy")
            phase = "submit"
        elif r == "gave-up":
            add({"op": "killed", "p": p}, obs)
            phase = "contender-gave-up"
            ctx.count("ops", "giveup")
        elif r == "died-entering":
            phase = "death inside __enter__"
            ctx.count("ops", "end:" + phase)
            # which links were handled is read off the folders (the order of glob is unspecified)
            moved = sorted(names(tr.last["jobs"]) - names(obs["jobs"])) if obs else []
            add({"op": "killedEntering", "p": p, "moved": [lid(m) for m in moved]}, obs)
            ctx.count("death_in_enter_moved_of_links", f"{len(moved)}/{len(tr.last['jobs'])}")
            if obs is not None:
                nb = names(tr.last["jobs"]) | names(tr.last["bak"])
                if not nb <= names(obs["jobs"]) | names(obs["bak"]):
                    fail("enter-lost-links", f"death inside __enter__: links {sorted(nb)} were indexed before, now {folders(obs)}")
            tr.phase = phase
        elif r in ("exited", "killed", "died-exiting"):
            inside = None
            if r == "exited":
                how = {"ok": "normal end", "exc": "RuntimeError", "kbd": "KeyboardInterrupt", "sysexit": "SystemExit",
                       "stagefail": "FailedExperiment (job failed, xp.wait())", "finalfail": "FailedExperiment (job failed)",
                       "handled": "HandledException"}[op["how"]]
                clean = op["how"] == "ok"
                if op.get("cli"):
                    how = "run-experiment: " + how
                    if (ev.get("rc") != 0) != (not clean):
                        fail("cli-exit-status", f"`experimaestro run-experiment` ended with status {ev.get('rc')} after a run that "
                             f"{'completed' if clean else 'aborted (' + how + ')'}: {ev.get('tail')}")
            elif r == "died-exiting":
                how, clean = "death inside __exit__", True
            else:
                how, clean = f"death (SIG{op.get('sig', 'KILL')})", False
            phase = how
            ctx.count("ops", "end:" + how)
            # a racy submission counts as submitted iff its link got created
            if racy and obs is not None:
                for lab in racy:
                    if lab in names(obs["jobs"]):
                        add({"op": "submit", "p": p, "l": lid(lab)}, None)
                        tr.cur.add(lab)
                        ctx.count("racy", "linked")
                    else:
                        ctx.count("racy", "not-linked")
            racy = []
            if clean:
                if r == "died-exiting" and obs is not None and obs["bak"] is not None:
                    removed = sorted(names(tr.last["bak"]) - names(obs["bak"]))
                    add({"op": "killedExiting", "p": p, "removed": [lid(m) for m in removed]}, obs)
                    ctx.count("death_in_exit_removed_of_links", f"{len(removed)}/{len(tr.last['bak'] or [])}")
                else:
                    add({"op": "exitOk", "p": p}, obs)
                if obs is not None:
                    have = names(obs["jobs"])
                    if r == "exited" and obs["bak"] is not None:
                        fail("clean-exit:backup-remains", f"block ended without exception (submitted {sorted(tr.cur)}), jobs.bak still exists: {sorted(names(obs['bak']))}")
                    if tr.cur - have:
                        fail("clean-exit:missing-link", f"block ended without exception ({how}): submitted {sorted(tr.cur)}, links of jobs: {sorted(have)}")
                    if have - tr.cur:
                        fail("clean-exit:extra-link", f"block ended without exception ({how}): submitted {sorted(tr.cur)}, links of jobs: {sorted(have)}")
                else:
                    tr.last = {"jobs": tr.last["jobs"], "bak": None}  # not looked at (a waiting process took over at once)
                tr.plan, tr.aborted, tr.cur = set(tr.cur), set(), set()
            else:
                add({"op": "exitExc" if r == "exited" else "killed", "p": p}, obs)
                if obs is not None:
                    nb = names(tr.before["jobs"]) | names(tr.before["bak"])
                    if obs["bak"] is None:
                        fail(f"backup-lost:{how}", f"block ended by {how}: jobs.bak does not exist (indexed before the run: {sorted(nb)})")
                    elif not nb <= names(obs["bak"]):
                        fail(f"backup-lost:{how}", f"block ended by {how}: indexed before the run {sorted(nb)}, now {folders(obs)}")
                    if tr.cur - names(obs["jobs"]):
                        fail(f"aborted-run-links-lost:{how}", f"block ended by {how}: submitted {sorted(tr.cur)}, now {folders(obs)}")
                tr.aborted |= tr.cur
                tr.cur = set()
            tr.phase = how
            if ev.get("lock") in ("held", "free"):
                ctx.count("lock_probe_after_end", ev["lock"])
        else:
            ctx.notes.append(f"history {hist['id']}: harness event {r} at op {ev['i']}: {str(ev)[:200]}")
            return None
        if obs is not None:
            check_protected(obs, phase)
            tr.last = {"jobs": obs["jobs"], "bak": obs["bak"]}

            def canon(folder):
                return None if folder is None else sorted([lid(a), -1 if b.startswith("?") else lid(b)] for a, b in folder)

            if len(lines) > 1 and expect[-1] is None:
                expect[-1] = {"state": {"jobs": canon(obs["jobs"]), "bak": canon(obs["bak"])}}
            if obs["orphans"] is not None:
                mine = [d for d in obs["dirs"] if not d.startswith("o")]
                lines.append({"op": "orphans", "dirs": sorted(lid(d) for d in mine)})
                expect.append({"orphans": sorted(lid(d) for d in obs["orphans"] if not d.startswith("o"))})
    if res.get("abort"):
        ctx.notes.append(f"history {hist['id']} stopped: {res['abort'][:300]}")
    return lines, expect, labels


def nontrivial(hist, res):
    ends = [e["res"] for e in res["events"] if e["res"] in ("exited", "killed", "died-exiting", "died-entering")]
    hows = set()
    for e in res["events"]:
        op = hist["ops"][e["i"]]
        if e["res"] == "exited":
            hows.add("ok" if op["how"] == "ok" else "exc")
        elif e["res"] in ("killed", "died-exiting", "died-entering"):
            hows.add("kill")
    subs = sum(1 for e in res["events"] if e["res"] == "submitted")
    return len(ends) >= 2 and len(hows) >= 2 and subs >= 2


def _collect(ctx, procs, results):
    for p, out, chunk in procs:
        try:
            _, err = p.communicate(timeout=ctx.scale(600, 3000))
        except subprocess.TimeoutExpired:
            p.kill()
            _, err = p.communicate()
            raise RuntimeError("C16 worker timed out: " + (err or "")[-3000:])

        if out.exists():
            for line in out.read_text().splitlines():
                r = json.loads(line)
                results[r["id"]] = r
        missing = [h["id"] for h in chunk if h["id"] not in results]
        if missing:
            raise RuntimeError(f"C16 worker lost histories {missing[:3]}: rc={p.returncode} {err[-800:]}")


def run_histories(ctx, hists, with_model=True, nworkers=None):
    """executes the histories on the real code (parallel workers), evaluates monitors, compares with the model"""
    common = _common()
    if not hists:
        return
    base = ctx.tmpdir()
    lib = write_lib(base)
    nworkers = nworkers or min(12, max(1, len(hists) // 4))
    run_id = f"{os.getpid()}-{int(time.time() * 1000) % 10**9}-{ctx.evaluations}"
    chunks = [hists[i::nworkers] for i in range(nworkers)]
    procs = []
    env = dict(os.environ)
    env["PYTHONPATH"] = str(common.VERIF / "harness") + (":" + env["PYTHONPATH"] if env.get("PYTHONPATH") else "")
    for w, chunk in enumerate(chunks):
        if not chunk:
            continue
        wbase = base / f"run{run_id}-w{w}"
        wbase.mkdir(parents=True)
        spec = wbase / "spec.json"
        spec.write_text(json.dumps({"lib": str(lib), "base": str(wbase), "histories": chunk}))
        out = wbase / "out.jsonl"
        p = subprocess.Popen([sys.executable, "-m", "xv.props.c16", "worker", str(spec), str(out)], env=env,
                             stdout=subprocess.DEVNULL, stderr=subprocess.PIPE, text=True)
        procs.append((p, out, chunk))
    results = {}
    try:
        _collect(ctx, procs, results)
    finally:
        for p, _, _ in procs:
            if p.poll() is None:
                p.kill()
    if os.environ.get("C16_WALLS"):  # diagnostic: the slowest histories and the load of each worker
        sys.stderr.write("slowest: " + str(sorted(((r["wall"], i) for i, r in results.items()), reverse=True)[:12]) + "\n")
        sys.stderr.write("workers: " + str([round(sum(results[h["id"]]["wall"] for h in c), 1) for c in chunks]) + "\n")
    all_lines, slices = [], []
    for h in hists:
        res = results[h["id"]]
        ev = evaluate(ctx, h, res, with_model)
        ctx.case({"history": h["id"], "ops": [(o["op"], o.get("p", 0), o.get("job") or o.get("how") or o.get("sig") or "") for o in h["ops"]]},
                 nontrivial(h, res))
        ctx.traces_validated += 1
        ctx.count("history_len_runs", sum(1 for o in h["ops"] if o["op"] == "enter" and o.get("expect") != "blocked"))
        if ev is None:
            ctx.count("histories", "harness-abort")
            continue
        ctx.count("histories", "aborted" if res.get("abort") else "complete")
        lines, expect, labels = ev
        slices.append((h, len(all_lines), lines, expect, labels))
        all_lines += lines
    if not with_model or not all_lines:
        return
    try:
        outs = common.run_driver("C16", all_lines)
    except Exception as e:
        ctx.disagree({"driver": "C16"}, None, None, f"model driver failed: {e}")
        return
    for h, start, lines, expect, labels in slices:
        inv = {v: k for k, v in labels.items()}
        for k, (line, exp) in enumerate(zip(lines, expect)):
            if exp is None:
                continue
            m = outs[start + k]
            if "state" in exp:
                mo = {"jobs": m.get("jobs"), "bak": m.get("bak")}
                if mo != exp["state"]:
                    ctx.disagree({"history": h, "at_model_line": k, "line": line, "labels": inv}, mo, exp["state"],
                                 "links of jobs / jobs.bak differ between model and implementation")
                    break
            else:
                if m.get("orphans") != exp["orphans"]:
                    ctx.disagree({"history": h, "at_model_line": k, "line": line, "labels": inv}, m.get("orphans"), exp["orphans"],
                                 "output of `orphans` differs between model and implementation")
                    break


def correspond(ctx):
    ctx.rule = ("a case is a history of 2-7 runs of one experiment name on a fresh temp workspace, executed on real `experiment` objects "
                "(process 0 = the worker itself; other processes = agent subprocesses); each run submits 0-5 jobs out of 9 base jobs "
                "(instant success, instant failure, running-until-released, dependent on an earlier job) and ends normally, by RuntimeError/"
                "KeyboardInterrupt/SystemExit, by SIGKILL/SIGTERM inside the block, inside __enter__ (k-th link move) or inside __exit__ "
                "(k-th unlink of rmtree); with probability 0.22 a second process tries to enter meanwhile and either gives up or takes over. "
                "Entry points that reach the index: (1) `with experiment(...)` (above), (2) the command line runner `experimaestro "
                "run-experiment` (experiments/cli.py): separate histories (2 fixed + 2 generated in quick, 48 in thorough) whose runs are real "
                "`python -m experimaestro run-experiment` processes with the default launcher (job processes really run), ending normally, by a "
                "failing job + xp.wait() (FailedExperiment), by a failing job caught by the command's own wait, by a HandledException or a "
                "RuntimeError of the run function, mixed with API runs; same comparison with the model plus the exit status (non-zero iff the "
                "run aborted). (3) Naming of the workspace: separate histories (2+1 fixed, 30 API + 2 command-line generated in quick; 400 + 24 in "
                "thorough) in which every run designates the same workspace its own way — relative Path/str (process started in the parent "
                "directory, in a nested directory, in the workspace itself), WorkspaceSettings(id, path), find_workspace(workdir=…), "
                "find_workspace(workspace=<id of a settings.yaml>, workdir=…), `run-experiment --workdir D`, `--workspace ID`, `--workspace ID "
                "--workdir D`, no option (default workspace of the settings file) — with contenders that name it differently from the holder; "
                "same monitors: a link leads to its job directory iff following it (realpath) arrives at <workspace>/jobs/<task>/<id>. "
                "Not driven: utils/jupyter.py `serverwidget` (calls __enter__/__exit__(None, None, None) of the same class by "
                "hand; needs ipywidgets); experiment.load/save and services do not touch jobs/ or jobs.bak. "
                "Non-trivial = at least two ended runs with two different kinds of ending and at least two submissions; distinct = distinct "
                "operation list")
    ctx.assumptions += [
        "one process does not enter an experiment it is already inside (fcntl locks do not exclude the owner process itself)",
        "`submit` is atomic w.r.t. death (the window between unlink and symlink_to of a re-linked job is not modelled)",
        "the link of a submitted job exists once the first segment of aio_submit has run: the harness waits for it (barrier on the "
        "scheduler loop) except for `racy` submissions, which count as submitted iff their link got created",
        "fcntl/fasteners: mutual exclusion between processes and release on process death (exercised, not proved)",
        "local filesystem semantics of rename/unlink/symlink (atomic per call)",
    ]
    if not os.environ.get("C16_NO_EFFECT_KILLS"):  # kill points derived from the generated effect sequences (c16x_effects.py)
        from . import c16x_effects

        c16x_effects.correspond_effects(ctx)
    n = ctx.scale(150, 2000)
    ncli = ctx.scale(2, 46)
    # the histories through the command line come first: they take seconds each and go to different workers
    # runs that name the same workspace in different ways (own random stream: the other histories of a seed stay as they were)
    drng = random.Random(f"c16-designation-{ctx.seed}")
    dcli = [gen_desig_cli_history(drng, f"{ctx.seed}-dzcli{i}") for i in range(ctx.scale(2, 24))]
    dapi = [gen_desig_history(drng, f"{ctx.seed}-dz{i}") for i in range(ctx.scale(30, 400))]
    dfix_cli, dfix = [dict(h) for h in DESIG_CLI_CORPUS], [dict(h) for h in DESIG_CORPUS]
    if os.environ.get("C16_NO_DESIGNATION"):  # diagnostic (timing comparisons): the check as it was without these histories
        dcli, dapi, dfix_cli, dfix = [], [], [], []
    hists = ([dict(h) for h in CLI_CORPUS] + dfix_cli + [gen_cli_history(ctx.rng, f"{ctx.seed}-cli{i}") for i in range(ncli)] + dcli
             + [dict(h) for h in CORPUS] + dfix + [gen_history(ctx.rng, f"{ctx.seed}-{i}") for i in range(n)] + dapi)
    for k in range(0, len(hists), 240):  # fresh workers per batch (a worker leaks a thread and a few fds per run)
        run_histories(ctx, hists[k:k + 240])


def search(ctx):
    """implementation-only monitors over a larger stream (run when a proof or the correspondence broke)"""
    t0 = time.time()
    budget = ctx.scale(40, 300)
    rng = random.Random(f"c16-search-{ctx.seed}")
    k = 0
    while time.time() - t0 < budget and not ctx.monitor_failures:
        hists = [gen_history(rng, f"s{ctx.seed}-{k}-{i}") for i in range(48)]
        k += 1
        run_histories(ctx, hists, with_model=False)


def run_witness(ctx, finding):
    w = finding.get("witness")
    if w:
        run_histories(ctx, [w], with_model=False, nworkers=1)


def replay(ctx, obj):
    hists = []
    for f in obj.get("failures", []):
        h = f.get("case", {}).get("history")
        if h:
            print("replaying history", h["id"], "expected failure:", f["key"])
            hists.append(h)
    for d in obj.get("disagreements", []):
        h = d.get("case", {}).get("history")
        if h:
            print("replaying disagreement on history", h["id"])
            hists.append(h)
    prove(ctx)
    seen, uniq = set(), []
    for h in hists:
        if h["id"] not in seen:
            seen.add(h["id"])
            uniq.append(h)
    run_histories(ctx, uniq)
    return _common().verdict(ctx, None)


if __name__ == "__main__":
    if sys.argv[1] == "zygote":
        zygote_main(sys.argv[2], sys.argv[3])
    elif sys.argv[1] == "worker":
        worker_main(sys.argv[2], sys.argv[3])
