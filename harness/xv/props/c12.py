"""C12 — saving and loading a configuration graph loses nothing.

Correspondence: class libraries generated as real packages (xv.gen.cfggen + DataPath arguments), graphs
built with the real constructors; the *definition list* written by the real `__json__` / `state_dict`
(canonical JSON, python ids mapped to node indices) and the objects rebuilt by `load_objects`
(`fromParameters(as_instance=False)`, `from_state_dict`) are compared with the Lean model M5
(Drive/Serial.lean), as is the identifier recomputed on the reloaded graph (M5 + M1, SHA-256).
Monitors (implementation only): structural comparison original vs reloaded for the three entry points
(`__json__`/`fromParameters`, `state_dict`/`from_state_dict`, `save`/`load` with DataPath copies),
recomputed identifier, and the parameter values / tags observed by the task code when the job side
(`run.py::run` on a real `params.json`) rebuilds the task — in this process (quick) and in real job
processes started from scripts generated in GENERATE_ONLY mode (thorough)."""
import random

from .. import common, seriallib
from ..translate import serialflags

PROP = "C12"
MODULES = ["XpmVerif.Properties.C12"]
seriallib.install_local_findings(PROP)


def prove(ctx):
    msgs = [serialflags.generate(common.REPO, common.LEAN)]
    ctx.notes.append(f"translator(serialflags): {msgs[0][1]}")
    common.check_proofs(ctx, MODULES, translate_msgs=msgs)


def correspond(ctx):
    rng = ctx.rng
    ctx.rule = ("a case = generated class library (real package: Param/Meta/Option/Constant/pathgenerator/DataPath arguments over int, float, str, bool, Path, "
                "enums, lists, dicts, optionals, nested configurations) + configuration graph (<= ~14 nodes: sharing, cycles, meta flags None/True/False, "
                "pre-tasks, init tasks, task outputs, tags) + entry points (__json__/fromParameters always; state_dict/from_state_dict on a list/dict structure "
                "of nodes, save/load, params.json -> run() with probability 1/2 each; thorough: real job processes); non-trivial = at least one nested "
                "configuration reference; distinct = hash of (library, graph, entry points)")
    ctx.assumptions += [
        "dict keys are strings other than \"type\" (F9 is replayed as a witness only); ints within int64; text is valid UTF-8",
        "enum values are identified by module.qualname:name; `is_folder` of a serialised data path is not compared",
        "argument validation on load is the identity on values that were validated when first set (exercised, not proved)",
        "SHA-256 itself is not verified (identifier bytes of model and implementation are compared)",
        "a class is identified by (package module, qualified name) or, outside a package, by (defining file, qualified name): the module name under which a file is registered is not part of the identity",
    ]
    libs, cases = seriallib.make_cases(ctx, rng, "c12", ctx.scale(6, 30), ctx.scale(80, 130), "c12")
    recs = seriallib.run(ctx, libs, cases, shards=ctx.scale(8, 12))
    seriallib.evaluate(ctx, libs, cases, recs, "definition list / reloaded graph / recomputed identifier")
    # classes that do not live in a package (recorded with their file): written by one script, loaded by a fresh process
    fcases = seriallib.make_file_cases(ctx, rng, ctx.scale(6, 32))
    frecs = seriallib.run(ctx, libs[:1], fcases, shards=ctx.scale(6, 12))
    seriallib.evaluate(ctx, libs[:1], fcases, frecs, "classes of plain scripts: definition list / reloaded graph")
    if not ctx.quick():
        plibs, pcases = seriallib.make_proc_cases(ctx, rng, "c12", 8, 15, "c12p")
        precs = seriallib.run(ctx, plibs, pcases, shards=12)
        seriallib.evaluate(ctx, plibs, pcases, precs, "real job process", with_model=False)
        ctx.extra_cov["real_job_processes"] = sum(1 for r in precs if not r["error"])


def search(ctx):
    rng = random.Random(f"search-c12-{ctx.seed}")
    libs, cases = seriallib.make_cases(ctx, rng, "c12", ctx.scale(6, 20), 60, "c12s")
    recs = seriallib.run(ctx, libs, cases, shards=8)
    for c, r in zip(cases, recs):
        if not r["error"]:
            for m in r["monitors"]:
                ctx.monitor_fail(m["key"], m["what"], {"case": seriallib.case_desc(libs, c), "detail": m.get("detail")})


def _cls(name, kind, args):
    return {"name": name, "xpmid": f"xvlib_c12w.{name.lower()}", "parent": None, "kind": kind, "deprecated": False, "args": args}


WLIB = {"pkg": "xvlib_c12w", "enums": [], "classes": [
    _cls("LW", "light", [{"name": "v", "decl": "param", "ty": "int", "optional": False}]),
    _cls("Sub", "config", [{"name": "x", "decl": "param", "ty": "int", "optional": False},
                           {"name": "dp", "decl": "data", "ty": "path", "optional": False}]),
    _cls("Plain", "config", [{"name": "x", "decl": "param", "ty": "int", "optional": False}]),
    _cls("Top", "task", [{"name": "a", "decl": "param", "ty": {"cfg": "Sub"}, "optional": True},
                         {"name": "b", "decl": "param", "ty": {"cfg": "Sub"}, "optional": True},
                         {"name": "m", "decl": "meta", "ty": {"cfg": "Plain"}, "optional": True},
                         {"name": "d", "decl": "param", "ty": {"dict": "str"}, "optional": False, "default": {"d": []}}]),
]}


def _node(cls, values, meta=None, pre=(), init=()):
    return {"cls": cls, "values": values, "meta": meta, "pre": list(pre), "init": list(init), "task": None}


def witness_case(w):
    k = w.get("kind")
    if k == "meta-false":       # F8
        g = {"nodes": [_node("Top", [["m", {"r": 1}]]), _node("Plain", [["x", 5]], meta=False)]}
        return {"lib": 0, "kind": "c12", "graph": g, "root_is_task": True}
    if k == "init-tasks":       # F20
        g = {"nodes": [_node("Top", [], init=[1]), _node("LW", [["v", 3]])]}
        return {"lib": 0, "kind": "c12", "graph": g, "root_is_task": True}
    if k == "dict-type-key":    # F9
        g = {"nodes": [_node("Top", [["d", {"d": [[kk, vv] for kk, vv in w.get("dict", [["type", "zz"]])]}]])]}
        return {"lib": 0, "kind": "c12", "graph": g, "root_is_task": True}
    if k in ("data-collision", "data-load", "data-str"):
        g = {"nodes": [_node("Top", [["a", {"r": 1}], ["b", {"r": 2}]]), _node("Sub", [["x", 1], ["dp", {"p": "/XVDATA/f1.bin"}]]),
                       _node("Sub", [["x", 2], ["dp", {"p": "/XVDATA/f2.bin"}]])]}
        if k == "data-load":
            g["nodes"] = g["nodes"][:2]
            g["nodes"][0]["values"] = [["a", {"r": 1}]]
        return {"lib": 0, "kind": "c12", "graph": g, "root_is_task": True, "save": k != "data-str", "job": k == "data-str"}
    return None


def run_witness(ctx, finding):
    c = witness_case(finding.get("witness") or {})
    if c is None:
        return
    rec = seriallib.run(ctx, [WLIB], [c], shards=1)[0]
    if rec["error"]:
        raise RuntimeError(f"witness of {finding.get('id')} could not be run: {rec['error']}\n{rec.get('trace', '')}")
    ctx.count("witness", finding.get("id"))
    for m in rec["monitors"]:
        ctx.monitor_fail(m["key"], m["what"], {"witness": finding.get("id"), "case": seriallib.case_desc([WLIB], c)})


def replay(ctx, obj):
    prove(ctx)
    n = seriallib.replay_cases(ctx, obj, ("c12", "proc", "files"))
    if n == 0:
        correspond(ctx)
    return common.verdict(ctx, search)
