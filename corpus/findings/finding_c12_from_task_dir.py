"""stand-alone: from_task_dir on the folder of a task that has a DataPath parameter (unchanged /repo)"""
import sys, tempfile, json
from pathlib import Path
tmp = Path(tempfile.mkdtemp(prefix="c12hand"))
(tmp / "handlib.py").write_text('''
from experimaestro import Task, Param, DataPath
class T(Task):
    x: Param[int]
    dp: DataPath
    def execute(self):
        print(self.x, self.dp)
''')
sys.path.insert(0, str(tmp))
from handlib import T
from experimaestro import experiment, RunMode, from_task_dir
(tmp / "data.bin").write_text("data")
with experiment(tmp / "ws", "x", port=-1, run_mode=RunMode.GENERATE_ONLY):
    t = T(x=1, dp=tmp / "data.bin")
    t.submit()
jp = t.__xpm__.job.path
print(json.dumps(json.loads((jp / "params.json").read_text())["objects"], indent=0)[:600])
import shutil
rc = 0
try:
    l = from_task_dir(jp)
    print("loaded", l.x, l.dp)
    if str(l.dp) == "" or not l.dp.exists():
        print("from_task_dir returned a data path that does not exist:", l.dp)
        rc = 1
except Exception as e:
    print("from_task_dir raised:", type(e).__name__, e, "- the parameter file of a task holding a data path cannot be loaded back")
    rc = 1
shutil.rmtree(tmp, ignore_errors=True)
sys.exit(rc)
