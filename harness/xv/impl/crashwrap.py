"""C10 crash-point wrapper (runs in a *child* process, started by harness/xv/props/c10.py).

    python crashwrap.py <job script> <K> <SIG> <log file>

Runs the generated job script (`runpy`, `__main__`) under a `sys.settrace` line tracer that only
looks at frames of `experimaestro/run.py`; at the K-th line event of that file it delivers
`os.kill(os.getpid(), SIG)` (K = 0: never).  Everything else is diagnostics written to the log
(one JSON object per line, line-buffered so that SIGKILL loses nothing):

* effect taps, installed from outside on library entry points (no change to /repo):
  `atexit.register/unregister`, `signal.signal`, `fasteners.InterProcessLock.acquire/release`,
  `Path.unlink/touch/write_text/is_file` on `.done/.failed/.pid` files;
* at the kill: function name, line, whether the line is inside the body of the `try` statement of
  `TaskRunner.run` (from the `ast` of the current source), `self.cleaned` / `self.started` of the
  `TaskRunner` found on the stack, and the number of the line event.

The pass/fail decision of the check uses the files, the exit status and the task-side body log only;
the effect log is used to locate the model program counter that corresponds to the kill point.
"""
import ast
import atexit
import json
import os
import signal
import sys

script, K, SIG, logpath = sys.argv[1], int(sys.argv[2]), int(sys.argv[3]), sys.argv[4]
log = open(logpath, "a", buffering=1)


_count = [0]  # line events of run.py so far (shared with the tracer below)


def emit(**kw):
    try:
        kw.setdefault("n", _count[0])
        log.write(json.dumps(kw) + "\n")
    except Exception:
        pass


_final = [None]
_opsfinal = [lambda: 0]


def _from_run(func):
    return getattr(func, "__module__", None) == "experimaestro.run"


# ---- taps on library entry points (installed before experimaestro.run is imported)
_areg, _aunreg = atexit.register, atexit.unregister


def _register(func, *a, **kw):
    r = _areg(func, *a, **kw)
    if _from_run(func):
        emit(ev="atexit-reg")
    return r


def _unregister(func):
    r = _aunreg(func)
    if _from_run(func):
        emit(ev="atexit-unreg")
    return r


def _last():
    emit(ev="lines-final", n=_final[0](), ops=_opsfinal[0]())
    # The notification Reporter of the job is a daemon thread; a daemon thread that is still inside Python code when the interpreter
    # finalises is a known way for CPython to die with SIGSEGV at exit (seen once as rc=-11 under this wrapper).  Everything the code
    # under test does at exit (its atexit clean-up, report_eoj) is over when this callback runs (registered first = runs last), so the
    # wrapper may ask the thread to stop and wait for it briefly: no file, no exit status changes.
    try:
        mod = sys.modules.get("experimaestro.notifications")
        inst = getattr(getattr(mod, "Reporter", None), "INSTANCE", None)
        if inst is not None and inst.is_alive():
            inst.stop()
            inst.join(1.0)
    except Exception:
        pass


_areg(_last)  # registered first, so it runs last
atexit.register, atexit.unregister = _register, _unregister

_sigsig = signal.signal


def _signal(signum, handler):
    r = _sigsig(signum, handler)
    if int(signum) in (int(signal.SIGTERM), int(signal.SIGINT)):
        emit(ev="sig-install" if _from_run(handler) else "sig-restore", sig=int(signum))
    return r


signal.signal = _signal

import fasteners  # noqa: E402

_acq, _rel = fasteners.InterProcessLock.acquire, fasteners.InterProcessLock.release


def _acquire(self, *a, **kw):
    emit(ev="lock-wait")
    r = _acq(self, *a, **kw)
    emit(ev="lock-acquired", ok=bool(r))
    return r


def _release(self, *a, **kw):
    r = _rel(self, *a, **kw)
    emit(ev="lock-released")
    return r


fasteners.InterProcessLock.acquire, fasteners.InterProcessLock.release = _acquire, _release

from pathlib import Path  # noqa: E402

_MARK = (".done", ".failed", ".pid")
_unlink, _touch, _wtext, _isfile = Path.unlink, Path.touch, Path.write_text, Path.is_file


def _p_isfile(self, *a, **kw):
    r = _isfile(self, *a, **kw)
    if self.suffix in _MARK:
        emit(ev="is_file", name=self.suffix, res=bool(r))
    return r



def _p_unlink(self, *a, **kw):
    r = _unlink(self, *a, **kw)
    if self.suffix in _MARK or self.suffix == ".lock":  # (removal of the lock *name*: Model/RunnerLockIds)
        emit(ev="unlink", name=self.suffix)
    return r


def _p_touch(self, *a, **kw):
    r = _touch(self, *a, **kw)
    if self.suffix in _MARK:
        emit(ev="touch", name=self.suffix)
    return r


def _p_wtext(self, data, *a, **kw):
    r = _wtext(self, data, *a, **kw)
    if self.suffix in _MARK:
        emit(ev="write", name=self.suffix, data=str(data)[:20])
    return r


Path.unlink, Path.touch, Path.write_text, Path.is_file = _p_unlink, _p_touch, _p_wtext, _p_isfile

import experimaestro.run as R  # noqa: E402

target = R.__file__


def _try_body_lines():
    """lines of the body of the (first) try statement of TaskRunner.run, from the current source"""
    try:
        tree = ast.parse(open(target).read())
        for cls in ast.walk(tree):
            if isinstance(cls, ast.ClassDef) and cls.name == "TaskRunner":
                for fn in cls.body:
                    if isinstance(fn, ast.FunctionDef) and fn.name == "run":
                        for node in ast.walk(fn):
                            if isinstance(node, ast.Try):
                                lo = node.body[0].lineno
                                hi = max(getattr(n, "end_lineno", lo) for n in node.body)
                                handlers = [(h.lineno, h.end_lineno) for h in node.handlers]
                                return (lo, hi), handlers, (fn.lineno, fn.end_lineno)
    except Exception as e:  # diagnostics only
        emit(ev="ast-error", what=str(e))
    return None, [], None


TRY, HANDLERS, RUNFN = _try_body_lines()
count = _count


def _runner_of(frame):
    f = frame
    while f is not None:
        s = f.f_locals.get("self")
        if s is not None and type(s).__name__ == "TaskRunner":
            return s
        f = f.f_back
    return None


def _stack(frame):
    names = []
    f = frame
    while f is not None:
        if f.f_code.co_filename == target:
            names.append(f.f_code.co_name)
        f = f.f_back
    return names


OPJ = int(os.environ.get("C10_OPJ", "0") or 0)  # > 0: deliver the signal at the OPJ-th bytecode of run.py executed after the K-th line event
_ops, _armed = [0], [False]


def _kill(frame, **kw):
    # where is the *main flow* of TaskRunner.run (the outermost run.py frame named `run` of the class)?
    main_line, f = None, frame
    while f is not None:
        if f.f_code.co_filename == target and RUNFN and RUNFN[0] <= f.f_lineno <= RUNFN[1] \
                and f.f_code.co_name == "run" and "self" in f.f_locals:
            main_line = f.f_lineno
        f = f.f_back
    in_try = in_handler = None
    if main_line is not None and TRY is not None:
        in_try = TRY[0] <= main_line <= TRY[1]
        in_handler = any(lo <= main_line <= hi for lo, hi in HANDLERS)
    r = _runner_of(frame)
    emit(ev="kill", k=K, sig=SIG, func=frame.f_code.co_name, line=frame.f_lineno, stack=_stack(frame),
         main_line=main_line, in_try=in_try, in_handler=in_handler,
         cleaned=getattr(r, "cleaned", None), started=getattr(r, "started", None),
         has_runner=r is not None, **kw)
    os.kill(os.getpid(), SIG)


def tracer(frame, event, arg):
    if frame.f_code.co_filename != target:
        return None
    if _armed[0]:
        frame.f_trace_opcodes = True
    if event == "line":
        count[0] += 1
        if count[0] == K:
            if OPJ > 0:
                # bytecode granularity from here on: every frame of run.py on the stack and every later one
                _armed[0] = True
                f = frame
                while f is not None:
                    if f.f_code.co_filename == target:
                        f.f_trace_opcodes = True
                    f = f.f_back
                sys.settrace(tracer)  # CPython 3.12 decides at settrace time whether instruction events are delivered at all
            else:
                _kill(frame)
    elif event == "opcode" and _armed[0]:
        _ops[0] += 1
        if _ops[0] == OPJ:
            _kill(frame, j=OPJ, lasti=frame.f_lasti)
    return tracer


_final[0] = lambda: count[0]
_opsfinal[0] = lambda: _ops[0]
if OPJ > 0:
    sys._getframe().f_trace_opcodes = True  # (same reason: the interpreter-wide switch must be on when settrace is called)
sys.settrace(tracer)
sys.argv = [script]
import runpy  # noqa: E402

try:
    runpy.run_path(script, run_name="__main__")
finally:
    emit(ev="lines", n=count[0])
