#!/usr/bin/env python3
"""tools/mergefrag.py <branch> <manifest.d/Cxx.json> ... — three-way merge of manifest fragments whose text fields were extended on both sides:
a field changed on one side only takes that side; changed on both sides = ours + what theirs appended to the common base."""
import json, subprocess, sys
def show(rev, f):
    return json.loads(subprocess.run(['git', 'show', f'{rev}:{f}'], capture_output=True, text=True).stdout)
branch = sys.argv[1]
base = subprocess.run(['git', 'merge-base', 'HEAD', branch], capture_output=True, text=True).stdout.strip()
for f in sys.argv[2:]:
    b, o, t = show(base, f), show('HEAD', f), show(branch, f)
    out = {}
    for k in o:
        if o[k] == b.get(k): out[k] = t.get(k, o[k])
        elif t.get(k) == b.get(k): out[k] = o[k]
        else:
            bb = b.get(k, '')
            out[k] = o[k] + (t[k][len(bb):] if t[k].startswith(bb) else ' ' + t[k])
    for k in t:
        out.setdefault(k, t[k])
    json.dump(out, open(f, 'w'), indent=1)
    print(f, 'merged')
