import XpmVerif.Model.ArgDecl
/-! Source obligations for `Generated/ArgFlags.lean` (the decision logic of `core/arguments.py`, `core/types.py`
    `ignore`, `generators.py` `pathgenerator` as translated from the tree under test) and the characterisation of
    `mkArg` they give.  Every obligation is a finite case split over the observations (`InitEnv`: 2⁷·3² cases). -/
namespace XpmVerif.ArgDecl
open XpmVerif.Ident

/-! ### source obligations -/

/-- `Type.ignore` is `False` for every type class except `PathType`. -/
theorem src_typeIgnore (t : TyTag) : Gen.ArgFlags.typeIgnore t = Spec.typeIgnore t := by
  cases t <;> rfl

/-- `Param` adds nothing, `Meta`/`Option` add `ignored=True`, `Constant` adds `constant=True`, `pathgenerator(…)` a generator. -/
theorem src_hint (k : Kind) : Gen.ArgFlags.hint k = Spec.hint k := by
  cases k <;> rfl

/-- `ArgumentOptions.create`: the class attribute is the default unless an annotation gave one; required iff not `Optional` and no default. -/
theorem src_create (e : CreateEnv) :
    Gen.ArgFlags.createDefault e = Spec.createDefault e ∧ Gen.ArgFlags.createRequired e = Spec.createRequired e := by
  rcases e with ⟨a, b, c, d⟩
  cases a <;> cases b <;> cases c <;> cases d <;> exact ⟨rfl, rfl⟩

/-- `Argument.__init__` rejects exactly the three documented combinations … -/
theorem src_initFails (e : InitEnv) : Gen.ArgFlags.initFails e = Spec.initFails e := by
  rcases e with ⟨a, b, c, d, f, g, h, r, i⟩
  cases a <;> cases b <;> cases c <;> cases d <;> cases f <;> cases g <;> cases h <;>
    rcases r with _ | _ | _ <;> rcases i with _ | _ | _ <;> rfl

/-- … and otherwise sets `ignored`, `required`, `default`, `generator` as the model reads them. -/
theorem src_init (e : InitEnv) (hok : Spec.initFails e = false) :
    Gen.ArgFlags.initIgnored e = Spec.initIgnored e ∧ Gen.ArgFlags.initRequired e = Spec.initRequired e
    ∧ Gen.ArgFlags.initDefault e = Spec.initDefault e ∧ Gen.ArgFlags.initGenerator e = Spec.initGenerator e := by
  rcases e with ⟨a, b, c, d, f, g, h, r, i⟩
  cases a <;> cases b <;> cases c <;> cases d <;> cases f <;> cases g <;> cases h <;>
    rcases r with _ | _ | _ <;> rcases i with _ | _ | _ <;>
    first | exact ⟨rfl, rfl, rfl, rfl⟩ | exact absurd hok (by decide)

/-! ### `mkArg` in terms of the model's reading, and what it gives for each declaration form -/

/-- `Decl.initEnv` with the generated functions replaced by the model's reading. -/
def Decl.specEnv (d : Decl) : InitEnv :=
  let h := Spec.hint d.kind
  let absent := d.classAttr.isAbsent
  { dNone := absent,
    gNone := !h.generator,
    isField := d.classAttr.isField,
    fdNone := d.classAttr.fdNone,
    ffNone := d.classAttr.ffNone,
    tyIgnore := Spec.typeIgnore d.ty,
    constant := h.constant,
    required := some (!d.optional && absent),
    ignored := h.ignored }

theorem initEnv_eq (d : Decl) : d.initEnv = d.specEnv := by
  simp only [Decl.initEnv, Decl.specEnv, src_hint, src_typeIgnore, (src_create _).1, (src_create _).2]
  simp [Spec.createDefault, Spec.createRequired, Decl.createEnv, Sel.isNoneC]

def mkArgSpec (d : Decl) : Option Arg :=
  let e := d.specEnv
  if Spec.initFails e then none else
  some { name := d.name,
         ignored := Spec.initIgnored e == some true,
         generator := !Sel.isNoneI e (Spec.initGenerator e),
         constant := e.constant,
         required := Spec.initRequired e == some true,
         default := d.selVal (Spec.initDefault e),
         value := .none }

theorem mkArg_eq (d : Decl) : mkArg d = mkArgSpec d := by
  simp only [mkArg, mkArgSpec, initEnv_eq, src_initFails]
  cases h : Spec.initFails d.specEnv
  · obtain ⟨h1, h2, h3, h4⟩ := src_init _ h
    simp only [h1, h2, h3, h4]
  · rfl


attribute [local simp] mkArgSpec Decl.specEnv Decl.classAttr Spec.hint Spec.typeIgnore Spec.initFails Spec.initRequired
  Spec.initIgnored Spec.initDefault Spec.initGenerator Sel.isNoneI Decl.selVal ClassAttr.isAbsent ClassAttr.isField
  ClassAttr.fdNone ClassAttr.ffNone

theorem mkArg_name (d : Decl) (a : Arg) (h : mkArg d = some a) : a.name = d.name ∧ a.value = .none := by
  rw [mkArg_eq] at h
  simp only [mkArgSpec] at h
  split at h
  · cases h
  · cases h; exact ⟨rfl, rfl⟩

theorem mkArg_meta_option (d : Decl) (a : Arg) (hk : d.kind = .metaParam ∨ d.kind = .option) (h : mkArg d = some a) :
    a.ignored = true := by
  rw [mkArg_eq] at h
  rcases d with ⟨nm, kind, ty, opt, attr⟩
  rcases hk with hk | hk <;> simp only at hk <;> subst hk <;> simp at h <;> obtain ⟨_, rfl⟩ := h <;> rfl

theorem mkArg_path (d : Decl) (a : Arg) (ht : d.ty = .path) (h : mkArg d = some a) : a.ignored = true := by
  rw [mkArg_eq] at h
  rcases d with ⟨nm, kind, ty, opt, attr⟩
  simp only at ht; subst ht
  cases kind <;> simp at h <;> obtain ⟨_, rfl⟩ := h <;> rfl

theorem mkArg_generated (d : Decl) (a : Arg) (hk : d.kind = .pathgen ∨ d.kind = .factory ∨ d.attr = .fieldFactory)
    (h : mkArg d = some a) : a.generator = true := by
  rw [mkArg_eq] at h
  rcases d with ⟨nm, kind, ty, opt, attr⟩
  rcases hk with hk | hk | hk <;> simp only at hk <;> subst hk
  · cases attr <;> simp at h <;> obtain ⟨_, rfl⟩ := h <;> rfl
  · simp at h; obtain ⟨_, rfl⟩ := h; rfl
  · cases kind <;> simp at h <;> obtain ⟨_, rfl⟩ := h <;> rfl


/-- `x: Param[T] = v` (also `Meta`, `Option`, and `= field(default=v)`): accepted, not required, not constant, default `v`. -/
theorem mkArg_defaulted (d : Decl) (v : Val) (hk : d.kind = .param ∨ d.kind = .metaParam ∨ d.kind = .option)
    (hv : d.attr = .value v ∨ d.attr = .fieldValue v) :
    ∃ a, mkArg d = some a ∧ a.constant = false ∧ a.required = false ∧ a.generator = false ∧ a.default = some v := by
  rw [mkArg_eq]
  rcases d with ⟨nm, kind, ty, opt, attr⟩
  rcases hv with hv | hv <;> simp only at hv <;> subst hv <;>
    rcases hk with hk | hk | hk <;> simp only at hk <;> subst hk <;> cases opt <;> simp

/-- `x: Param[Optional[T]]` without a class attribute: accepted, not required, no default, not constant, no generator. -/
theorem mkArg_optional (d : Decl) (hk : d.kind = .param ∨ d.kind = .metaParam ∨ d.kind = .option)
    (ho : d.optional = true) (hv : d.attr = .absent) :
    ∃ a, mkArg d = some a ∧ a.constant = false ∧ a.required = false ∧ a.generator = false ∧ a.default = none := by
  rw [mkArg_eq]
  rcases d with ⟨nm, kind, ty, opt, attr⟩
  simp only at ho hv; subst ho; subst hv
  rcases hk with hk | hk | hk <;> simp only at hk <;> subst hk <;> simp

/-- `x: Param[T]` without `Optional` nor a class attribute is required (and contributes unless `T` is `Path`). -/
theorem mkArg_required (d : Decl) (hk : d.kind = .param) (ho : d.optional = false) (hv : d.attr = .absent) :
    mkArg d = some { name := d.name, ignored := d.ty == .path, generator := false, constant := false, required := true,
                     default := none, value := .none } := by
  rw [mkArg_eq]
  rcases d with ⟨nm, kind, ty, opt, attr⟩
  simp only at hk ho hv; subst hk; subst ho; subst hv
  simp

/-- `x: Constant[T] = v`: a constant with default `v`; without a value the class definition is rejected. -/
theorem mkArg_constant (d : Decl) (hk : d.kind = .constant) :
    (∀ v, d.attr = .value v → ∃ a, mkArg d = some a ∧ a.constant = true ∧ a.default = some v ∧ a.generator = false)
    ∧ (d.attr = .absent → mkArg d = none) := by
  rw [mkArg_eq]
  rcases d with ⟨nm, kind, ty, opt, attr⟩
  simp only at hk; subst hk
  constructor
  · intro v hv; simp only at hv; subst hv; cases opt <;> simp
  · intro hv; simp only at hv; subst hv; simp

/-- the class definitions `Argument.__init__` rejects. -/
theorem mkArg_none_iff (d : Decl) :
    mkArg d = none ↔ (d.kind = .constant ∧ (d.attr = .absent ∨ d.attr = .fieldEmpty ∨ d.attr = .fieldFactory))
      ∨ (d.kind = .pathgen ∧ d.attr ≠ .absent) := by
  rw [mkArg_eq]
  rcases d with ⟨nm, kind, ty, opt, attr⟩
  cases kind <;> cases attr <;> cases opt <;> simp

end XpmVerif.ArgDecl
