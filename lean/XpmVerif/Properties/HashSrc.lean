import XpmVerif.Generated.HashSrc
/-! Source obligations for `Generated/HashSrc.lean` (the bodies of `HashComputer.update` and
    `ConfigInformation.identifiers`, regenerated from the Python AST on every run by harness/xv/translate/hashsrc.py):
    every encoding function of the hand-written identifier model `Model/Ident.lean` IS the regenerated one.  Through these
    equalities the theorems of C01 (purity, order independence, cache coherence), C02 (neutral edits: the skip rules), C03
    (injectivity of the stream) and C14/C20 apply to what the source says now.  A source that says something else makes a
    theorem of this file fail to check (the check then runs its failing-input search); a source whose shape is outside the
    translator's subset leaves the reference definitions in place and the identifier-for-identifier correspondence decides. -/
namespace XpmVerif.HashSrc
open XpmVerif.Ident XpmVerif

/-! ## the views the model produces are normal -/
/-- the views the model produces are normal. -/
theorem view_norm (ceq : Nat → Nat → Bool) (mt : Nat → Option Bool) (a : Arg) : (view ceq mt a).norm = view ceq mt a := by
  unfold ArgView.norm view
  cases hv : a.value <;> cases hd : a.default <;> simp

/-! ## the model's skip rules are their reading on views (hand-written link, independent of the source) -/
/-- hand-written link (independent of the source): the model rule read on the view. -/
theorem ignoredOut_view (ceq : Nat → Nat → Bool) (mt : Nat → Option Bool) (a : Arg) :
    ignoredOut mt a = (view ceq mt a).ignoredOut := by
  unfold ignoredOut ArgView.ignoredOut view
  cases hv : a.value <;> simp
  rename_i n
  cases mt n <;> simp
  rename_i b; cases b <;> simp

/-- hand-written link (independent of the source): the model rule read on the view. -/
theorem defaultOut_view (ceq : Nat → Nat → Bool) (mt : Nat → Option Bool) (a : Arg) :
    defaultOut ceq mt a = (view ceq mt a).defaultOut := by
  unfold defaultOut ArgView.defaultOut view
  cases hd : a.default <;> cases hv : a.value <;> simp

/-- hand-written link (independent of the source): the model rule read on the view. -/
theorem metaOut_view (ceq : Nat → Nat → Bool) (mt : Nat → Option Bool) (a : Arg) :
    metaOut mt a = (view ceq mt a).metaOut := by
  unfold metaOut ArgView.metaOut view
  cases hv : a.value <;> simp

/-- hand-written link (independent of the source): the model rule read on the view. -/
theorem included_view (ceq : Nat → Nat → Bool) (mt : Nat → Option Bool) (a : Arg) :
    included ceq mt a = (view ceq mt a).included := by
  unfold included ArgView.included
  rw [ignoredOut_view ceq, defaultOut_view, metaOut_view ceq]
  rfl

/-! ## source obligations -/

/-- C02 (first sentence: what is skipped) / C03 (what is not): the `continue` conditions of the argument loop, as regenerated from
    the source, skip exactly what the model skips — on EVERY view a value can produce (2^8·3 cases, each decided by the kernel;
    the statement does not depend on how the conditions are split, ordered or phrased in the source). -/
theorem skip_rules_are_source (v : ArgView) : Gen.includedSrc v.norm = v.norm.included := by
  obtain ⟨ig, ge, co, re, dn, vn, vc, vm, isd⟩ := v
  cases ig <;> cases ge <;> cases co <;> cases re <;> cases dn <;> cases vn <;> cases vc <;> cases isd <;>
    rcases vm with _ | _ | _ <;> decide

/-- the model's inclusion test of a declared argument is the regenerated one. -/
theorem included_is_source (ceq : Nat → Nat → Bool) (mt : Nat → Option Bool) (a : Arg) :
    included ceq mt a = Gen.includedSrc (view ceq mt a) := by
  rw [included_view, ← view_norm, skip_rules_are_source]

/-! ## values -/
/-- `struct.pack("!q", True)`: a bool is hashed as the int it is. -/
theorem packq_bool (b : Bool) : packq (if b then 1 else 0) = pack8 (if b then 1 else 0) := by
  cases b <;> decide

/-- C01/C03: the byte stream of every value kind is the one the source feeds the hasher (tag, payload, length prefix over the kept
    items, `is_ignored` filter, dict items sorted by key, key before value). -/
theorem encVal_is_source (cfg : Nat → List Nat) (mt : Nat → Option Bool) :
    encVal cfg mt .none = Gen.encNoneSrc ∧
    (∀ b, encVal cfg mt (.bool b) = Gen.encIntSrc (if b then 1 else 0)) ∧
    (∀ i, encVal cfg mt (.int i) = Gen.encIntSrc i) ∧
    (∀ x, encVal cfg mt (.float x) = Gen.encFloatSrc x) ∧
    (∀ s, encVal cfg mt (.str s) = Gen.encStrSrc s) ∧
    (∀ s, encVal cfg mt (.enum s) = Gen.encEnumSrc s) ∧
    (∀ l, encVal cfg mt (.list l) = Gen.encListSrc (encItems cfg mt l) (l.map (encVal cfg mt))) ∧
    (∀ ks vs, encVal cfg mt (.dict ks vs) = Gen.encDictSrc (encPairs cfg mt ks vs) (ks.zip (vs.map (encVal cfg mt)))) := by
  refine ⟨?_, ?_, ?_, ?_, ?_, ?_, ?_, ?_⟩
  · simp [encVal, Gen.encNoneSrc, Gen.none_id]
  · intro b; simp [encVal, Gen.encIntSrc, Gen.int_id, packq_bool]
  · intro i; simp [encVal, Gen.encIntSrc, Gen.int_id]
  · intro x; simp [encVal, Gen.encFloatSrc, Gen.float_id]
  · intro s; simp [encVal, Gen.encStrSrc, Gen.str_id]
  · intro s; simp [encVal, Gen.encEnumSrc, Gen.enum_id]
  · intro l; simp [encVal, Gen.encListSrc, Gen.list_id]
  · intro ks vs; simp [encVal, Gen.encDictSrc, Gen.encStrSrc, Gen.dict_id, Gen.str_id]

/-- a configuration that is not `myself`: OBJECT tag, then cycle reference or digest. -/
theorem ref_is_source (stack : List Nat) (dig : Nat → List Nat) (mt : Nat → Option Bool) (m : Nat) :
    encVal (ctxCfg stack dig) mt (.ref m) = Gen.encRefSrc (relIndex stack m) (dig m) := by
  simp only [encVal, ctxCfg, Gen.encRefSrc, Gen.object_id, Gen.cycle_reference]
  cases relIndex stack m <;> simp

/-- an included argument contributes `name NAME_ID value`. -/
theorem argStream_is_source (cfg : Nat → List Nat) (ceq : Nat → Nat → Bool) (mt : Nat → Option Bool) (a : Arg) :
    argStream cfg ceq mt a = if Gen.includedSrc (view ceq mt a) then Gen.argStreamSrc a.name (encVal cfg mt a.value) else [] := by
  unfold argStream
  rw [included_is_source]
  simp [Gen.argStreamSrc, Gen.encStrSrc, Gen.str_id, Gen.name_id]

/-- `myself`: OBJECT tag, producing task when it is another object, type identifier, arguments sorted by name. -/
theorem nodeStream_is_source (cfg : Nat → List Nat) (ceq : Nat → Nat → Bool) (mt : Nat → Option Bool) (self : Nat) (nd : Node) :
    Gen.argsSortedByNameSrc = true ∧
    nodeStream cfg ceq mt self nd =
      Gen.nodeStreamSrc
        (Gen.taskPartSrc nd.task.isSome (match nd.task with | some t => decide (t ≠ self) | none => false)
          (match nd.task with | some t => encVal cfg mt (.ref t) | none => []))
        nd.typeId ((sortBy (fun a b => bytesLe a.name b.name) nd.args).map (argStream cfg ceq mt)) := by
  refine ⟨rfl, ?_⟩
  unfold nodeStream Gen.nodeStreamSrc Gen.taskPartSrc
  cases ht : nd.task with
  | none => simp [Gen.object_id]
  | some t =>
    by_cases h : t = self <;> simp [h, Gen.object_id, Gen.task_id, encVal]

/-- C03 (pre-tasks / init tasks): raw digest, sorted pre-task digests, INIT_TASKS marker and ordered init-task digests. -/
theorem fullId_is_source {D : Type} (hc : HC D) (g : Graph) (n : Nat) :
    Gen.preTasksSortedSrc = true ∧
    fullId hc g n = hc.H (Gen.fullStreamSrc (hc.emb (rawId hc g n))
      ((sortBy hc.le ((collectPreTasks g n).map (rawId hc g))).map hc.emb)
      ((g.node n).initTasks.map (fun i => hc.emb (rawId hc g i)))) := by
  refine ⟨rfl, ?_⟩
  unfold fullId Gen.fullStreamSrc
  simp only [Gen.init_tasks]
  cases h : (g.node n).initTasks <;> simp

/-- non-vacuity: a Meta parameter holding a configuration flagged `meta = False` is a normal view that is included, the same
    parameter holding an unflagged configuration is skipped, and a constant equal to its default is included. -/
example :
    Gen.includedSrc ({ ignored := true, generator := false, constant := false, required := false, defaultIsNone := true,
                       valueIsNone := false, valueIsConfig := true, valueMeta := some false, isDefault := false } : ArgView).norm = true ∧
    Gen.includedSrc ({ ignored := true, generator := false, constant := false, required := false, defaultIsNone := true,
                       valueIsNone := false, valueIsConfig := true, valueMeta := none, isDefault := false } : ArgView).norm = false ∧
    Gen.includedSrc ({ ignored := false, generator := false, constant := true, required := false, defaultIsNone := false,
                       valueIsNone := false, valueIsConfig := false, valueMeta := none, isDefault := true } : ArgView).norm = true := by decide

end XpmVerif.HashSrc
