import XpmVerif.Proofs.SchedLive
/-! Termination of the scheduler model without new submissions (C06 `every_run_finite`, all four repairs, no job
    naming a token twice).  Measure `mu` (lexicographic, folded into a natural number):
    * `muA` phase potential: per job `2·wPc pc + [state not final]` — goes down at every launch, process end,
      return, and when a state becomes final; while it is constant `avail` and every dependency status are constant;
    * `muB` abort budget: per job still in the start loop, 1 unless it is blocked (`sBlk`: a dependency recorded
      not-OK that is not OK now) and not READY — an aborted start sets it to 0 (`abort_records_wait`) and pays with
      it for the notifications it sends (`abort_changes_nothing`: nothing else changes); weight `cW`;
    * `muQ` rank inside the start loop, `gCount ready` plain callbacks (weight 2), `threads.length`.
    `mu_decreases`: every enabled `step` / `deliver` event strictly decreases `mu`.  `InvR`: the dependent lists are
    no longer than the number of registered dependencies (bounds the notifications). -/
set_option linter.unusedSimpArgs false
set_option linter.unusedVariables false
namespace XpmVerif.SchedFinal
open XpmVerif.Sched


/-! # Termination of step/deliver runs (all four repairs, no doubled token)

    ## queue growth: plain callbacks and helper threads -/

/-- callbacks that are not the continuation of a coroutine (checks, notifications, waiter, registration). -/
def isPlainB : Cb → Bool
  | .start _ | .wake _ | .resume _ => false
  | _ => true

/-- number of plain callbacks in a queue. -/
def gCount (l : List Cb) : Nat := l.countP isPlainB

@[simp] theorem gCount_nil : gCount [] = 0 := rfl
@[simp] theorem gCount_append (l m : List Cb) : gCount (l ++ m) = gCount l + gCount m := by simp [gCount]
@[simp] theorem gCount_cons (cb : Cb) (l : List Cb) : gCount (cb :: l) = gCount l + (if isPlainB cb then 1 else 0) := by
  simp [gCount, List.countP_cons]
theorem gCount_le_length (l : List Cb) : gCount l ≤ l.length := List.countP_le_length
theorem gCount_wake (b : Bool) (x : Nat) : gCount (if b = true then [Cb.wake x] else []) = 0 := by
  cases b <;> simp [isPlainB]

/-- `s'` has at most `g` more plain callbacks and `t` more helper threads than `s`. -/
def Grow (s s' : St) (g t : Nat) : Prop :=
  gCount s'.ready ≤ gCount s.ready + g ∧ s'.threads.length ≤ s.threads.length + t

theorem Grow.refl (s : St) : Grow s s 0 0 := ⟨Nat.le_refl _, Nat.le_refl _⟩
theorem Grow.trans {a b c : St} {g1 t1 g2 t2 : Nat} (h1 : Grow a b g1 t1) (h2 : Grow b c g2 t2) :
    Grow a c (g1 + g2) (t1 + t2) := ⟨by have := h1.1; have := h2.1; omega, by have := h1.2; have := h2.2; omega⟩
theorem Grow.trans' {a b c : St} {g1 t1 g2 t2 g t : Nat} (h1 : Grow a b g1 t1) (h2 : Grow b c g2 t2)
    (hg : g1 + g2 ≤ g) (ht : t1 + t2 ≤ t) : Grow a c g t :=
  ⟨by have := h1.1; have := h2.1; omega, by have := h1.2; have := h2.2; omega⟩
theorem Grow.mono {a b : St} {g t g' t' : Nat} (h : Grow a b g t) (hg : g ≤ g') (ht : t ≤ t') : Grow a b g' t' :=
  ⟨by have := h.1; omega, by have := h.2; omega⟩

theorem Grow.put (s : St) (x : Nat) (jb : Job) (cbs : List Cb) (ths : List (TK × Nat)) :
    Grow s (s.put x jb cbs ths) (gCount cbs) ths.length := by
  refine ⟨by simp, by simp⟩

theorem Grow.of_eq {s s' : St} (hr : s'.ready = s.ready) (ht : s'.threads = s.threads) : Grow s s' 0 0 :=
  ⟨by rw [hr]; omega, by rw [ht]; omega⟩

theorem check_grow (fl : Flags) (s : St) (j d : Nat) : Grow s (s.check fl j d) 0 0 := by
  unfold St.check
  have := Grow.put s j (depChanged fl (s.jobs j) d (s.status ((s.jobs j).deps.getD d default).origin)).1
    (if (depChanged fl (s.jobs j) d (s.status ((s.jobs j).deps.getD d default).origin)).2 then [.wake j] else []) []
  rw [gCount_wake] at this
  exact this

theorem regOne_grow (s : St) (j d : Nat) : Grow s (regOne s j d) 0 0 :=
  Grow.of_eq (regOne_frame s j d).2.1 (regOne_frame s j d).2.2.1

theorem registerDeps_grow (fl : Flags) (s : St) (x k d : Nat) : Grow s (St.registerDeps fl s x k d) 0 0 :=
  registerDeps_ind (fun s' => Grow s s' 0 0) fl x (d + k)
    (fun s' d _ h => h.trans (regOne_grow s' x d)) (fun s' d _ h => h.trans (check_grow fl s' x d)) k d s rfl (Grow.refl s)

theorem acqOne_grow (s : St) (x d : Nat) : Grow s (acqOne s x d) 0 0 := by
  unfold acqOne; split <;> exact Grow.of_eq (by simp) (by simp)

theorem acquireAll_grow (s : St) (x k d : Nat) : Grow s (St.acquireAll s x k d).1 0 0 :=
  (acquireAll_ind (fun s' => Grow s s' 0 0) x (d + k) (fun s' d _ _ h => h.trans (acqOne_grow s' x d)) k d s rfl (Grow.refl s)).1

theorem finish_grow (s : St) (x : Nat) : Grow s (s.finish x) 0 1 := by
  unfold St.finish; simp only; split <;> exact ⟨by simp, by simp⟩

theorem loopHead_grow (s : St) (x : Nat) : Grow s (s.loopHead x) 0 1 := by
  unfold St.loopHead; simp only
  split
  · exact finish_grow s x
  · split
    · split <;> exact ⟨by simp, by simp⟩
    · exact ⟨by simp, by simp⟩

/-- length of the notifications sent by the release of the `d`-th lock of `j`. -/
theorem relOne_grow (s : St) (j d : Nat) (D : Nat) (hD : ∀ t, (s.tokDeps t).length ≤ D) : Grow s (relOne s j d) D 0 := by
  unfold relOne; split
  · exact (Grow.refl s).mono (Nat.zero_le _) (Nat.le_refl _)
  · rename_i t c _
    refine ⟨?_, Nat.le_refl _⟩
    simp only [gCount_append]
    have := gCount_le_length ((s.tokDeps t).map (fun (p : Nat × Nat) => Cb.notifyCheck p.1 p.2))
    simp only [List.length_map] at this
    have := hD t
    omega

theorem relOne_tokDeps (s : St) (j d : Nat) : (relOne s j d).tokDeps = s.tokDeps := (relOne_frame s j d).2.2.2.2.2.2.2.2.2.2.1

theorem releaseAll_grow (s : St) (x : Nat) (D : Nat) :
    ∀ (ds : List Nat) (s : St), (∀ t, (s.tokDeps t).length ≤ D) → Grow s (St.releaseAll s x ds) (ds.length * D) 0 := by
  intro ds
  induction ds with
  | nil => intro s _; simp only [St.releaseAll]; exact ⟨by simp, by simp⟩
  | cons d ds ih =>
    intro s hD
    rw [releaseAll_cons]
    have h1 := relOne_grow s x d D hD
    have h2 := ih (relOne s x d) (by rw [relOne_tokDeps]; exact hD)
    refine (h1.trans h2).mono ?_ (Nat.le_refl _)
    simp only [List.length_cons, Nat.succ_mul]; omega



/-! ## the dependent lists are short (`InvR`) -/

/-- `s'` has the same dependent lists as `s`. -/
def FrameD (s s' : St) : Prop := s'.tokDeps = s.tokDeps ∧ s'.jobDeps = s.jobDeps

theorem FrameD.refl (s : St) : FrameD s s := ⟨rfl, rfl⟩
theorem FrameD.trans {a b c : St} (h1 : FrameD a b) (h2 : FrameD b c) : FrameD a c :=
  ⟨h2.1.trans h1.1, h2.2.trans h1.2⟩

theorem check_frameD (fl : Flags) (s : St) (j d : Nat) : FrameD s (s.check fl j d) :=
  ⟨(check_fields fl s j d).2.1, (check_fields fl s j d).2.2.1⟩
theorem relOne_frameD (s : St) (j d : Nat) : FrameD s (relOne s j d) :=
  ⟨(relOne_frame s j d).2.2.2.2.2.2.2.2.2.2.1, (relOne_frame s j d).2.2.2.2.2.2.2.2.2.1⟩
theorem acqOne_frameD (s : St) (x d : Nat) : FrameD s (acqOne s x d) := by
  unfold acqOne; split <;> exact ⟨rfl, rfl⟩
theorem releaseAll_frameD (s : St) (x : Nat) (ds : List Nat) : FrameD s (St.releaseAll s x ds) :=
  releaseAll_ind (fun s' => FrameD s s') x (fun _ => True)
    (fun s' d _ h => h.trans (relOne_frameD s' x d)) (fun s' h => h.trans ⟨rfl, rfl⟩) ds s (fun _ _ => trivial) (FrameD.refl s)
theorem acquireAll_frameD (s : St) (x k d : Nat) : FrameD s (St.acquireAll s x k d).1 :=
  (acquireAll_ind (fun s' => FrameD s s') x (d + k) (fun s' d _ _ h => h.trans (acqOne_frameD s' x d)) k d s rfl (FrameD.refl s)).1
theorem shape_frameD {s s' : St} {x : Nat} {jb : Job} {cbs : List Cb} (h : Shape s s' x jb cbs) : FrameD s s' :=
  ⟨h.tokDeps, h.jobDeps⟩
theorem loopHead_frameD (s : St) (x : Nat) : FrameD s (s.loopHead x) := shape_frameD (loopHead_shape s x)
theorem finish_frameD (s : St) (x : Nat) : FrameD s (s.finish x) := shape_frameD (finish_shape s x)

theorem wake_frameD (fl : Flags) (s : St) (j : Nat) : FrameD s (s.runCb fl (.wake j)) := by
  simp only [St.runCb]
  split
  · exact ⟨rfl, rfl⟩
  · exact shape_frameD (put_loopHead_shape s j _ [] [])

theorem abortRelease_frameD (fl : Flags) (s : St) (x : Nat) : FrameD s (abortRelease fl s x) := by
  unfold abortRelease; split
  · exact releaseAll_frameD s x _
  · exact FrameD.refl s

theorem resume_frameD (fl : Flags) (s : St) (x : Nat) : FrameD s (s.resume fl x) := by
  cases hp : (s.jobs x).pc with
  | lockEnter =>
    rw [resume_lockEnter fl s x hp]
    have hA := acquireAll_frameD s x (s.jobs x).deps.length 0
    generalize St.acquireAll s x (s.jobs x).deps.length 0 = r at hA
    obtain ⟨s1, fa⟩ := r
    unfold enterTail
    cases fa with
    | some d => exact hA.trans ((abortRelease_frameD fl s1 x).trans ((check_frameD fl _ x d).trans ⟨rfl, rfl⟩))
    | none => exact hA.trans ⟨rfl, rfl⟩
  | lockExitAbort =>
    rw [resume_lockExitAbort fl s x hp]
    refine FrameD.trans (releaseAll_frameD s x (s.jobs x).held) ?_
    unfold abortTail
    exact shape_frameD (put_loopHead_shape _ x _ _ [])
  | lockExitRun => rw [resume_lockExitRun fl s x hp]; exact ⟨rfl, rfl⟩
  | codeWait =>
    rw [resume_codeWait fl s x hp]
    refine FrameD.trans (releaseAll_frameD s x (s.jobs x).held) ?_
    unfold codeTail
    exact FrameD.trans (b := (St.releaseAll s x (s.jobs x).held).put x _) ⟨rfl, rfl⟩ (finish_frameD _ x)
  | doneHandler => rw [resume_doneHandler fl s x hp]; exact ⟨rfl, rfl⟩
  | _ => rw [resume_other fl s x (by simp [hp, pcKind])]; exact FrameD.refl s

theorem register_frameD (fl : Flags) (s : St) (j : Nat) : FrameD s (s.register fl j) := by
  unfold St.register; simp only; split
  · split
    · split <;> exact ⟨rfl, rfl⟩
    · exact ⟨rfl, rfl⟩
  · exact ⟨rfl, rfl⟩

theorem waiterRun_frameD (s : St) : FrameD s s.waiterRun := by
  unfold St.waiterRun; split <;> exact ⟨rfl, rfl⟩

/-- every callback but `start` keeps the dependent lists. -/
theorem runCb_frameD (fl : Flags) (s : St) (cb : Cb) (h : ∀ x, cb ≠ .start x) : FrameD s (s.runCb fl cb) := by
  cases cb with
  | register j => exact register_frameD fl s j
  | start j => exact absurd rfl (h j)
  | wake j => exact wake_frameD fl s j
  | resume j => exact resume_frameD fl s j
  | check j d => exact check_frameD fl s j d
  | notifyCheck j d =>
    rcases notifyCheck_cases fl s j d with e | e <;> rw [e]
    · exact check_frameD fl s j d
    · exact FrameD.refl s
  | waiterRun => exact waiterRun_frameD s

/-- registration adds at most one entry per dependency to each list. -/
theorem registerDeps_lists (fl : Flags) (x : Nat) : ∀ k d (s : St),
    (∀ t, ((St.registerDeps fl s x k d).tokDeps t).length ≤ (s.tokDeps t).length + k) ∧
    (∀ o, ((St.registerDeps fl s x k d).jobDeps o).length ≤ (s.jobDeps o).length + k) := by
  intro k
  induction k with
  | zero => intro d s; exact ⟨fun _ => Nat.le_refl _, fun _ => Nat.le_refl _⟩
  | succ k ih =>
    intro d s
    rw [registerDeps_succ]
    have h := ih (d + 1) ((regOne s x d).check fl x d)
    have hc := check_frameD fl (regOne s x d) x d
    have hr : (∀ t, ((regOne s x d).tokDeps t).length ≤ (s.tokDeps t).length + 1) ∧
        (∀ o, ((regOne s x d).jobDeps o).length ≤ (s.jobDeps o).length + 1) := by
      unfold regOne; split
      · refine ⟨fun t => by simp, fun o => ?_⟩
        simp only [upd]; split
        · rename_i e; subst e; simp
        · omega
      · refine ⟨fun t => ?_, fun o => by simp⟩
        simp only [upd]; split
        · rename_i e; subst e; simp
        · omega
    refine ⟨fun t => ?_, fun o => ?_⟩
    · have := h.1 t; rw [hc.1] at this; have := hr.1 t; omega
    · have := h.2 o; rw [hc.2] at this; have := hr.2 o; omega

theorem startJob_lists (fl : Flags) (s : St) (x : Nat) :
    (∀ t, ((s.startJob fl x).tokDeps t).length ≤ (s.tokDeps t).length + (s.jobs x).deps.length) ∧
    (∀ o, ((s.startJob fl x).jobDeps o).length ≤ (s.jobDeps o).length + (s.jobs x).deps.length) := by
  rw [startJob_eq]
  have hF : FrameD (regPhase fl s x) ((if ((regPhase fl s x).jobs x).marker
      then (regPhase fl s x).put x { ((regPhase fl s x).jobs x) with state := .done }
      else regPhase fl s x).loopHead x) := shape_frameD (marker_loopHead_shape _ x)
  rw [hF.1, hF.2]
  unfold regPhase
  split
  · exact ⟨fun t => by simp, fun o => by simp⟩
  · exact registerDeps_lists fl x _ 0 _



theorem sumTo_mono (f g : Nat → Nat) (n : Nat) (h : ∀ i, i < n → f i ≤ g i) : sumTo f n ≤ sumTo g n := by
  induction n with
  | zero => exact Nat.le_refl _
  | succ n ih =>
    rw [sumTo_succ, sumTo_succ]
    have := ih (fun i hi => h i (by omega)); have := h n (by omega); omega

theorem sumTo_ge (f : Nat → Nat) (n i : Nat) (hi : i < n) : f i ≤ sumTo f n := by
  induction n with
  | zero => omega
  | succ n ih =>
    rw [sumTo_succ]
    by_cases h : i = n
    · subst h; omega
    · have := ih (by omega); omega

/-- dependencies registered by job `j`: all of them once its first segment has begun. -/
def regC (s : St) (j : Nat) : Nat := if (s.jobs j).state = .unscheduled then 0 else (s.jobs j).deps.length
def regTot (s : St) : Nat := sumTo (regC s) s.n
/-- total number of dependencies of the submitted jobs (constant without submissions). -/
def dTot (s : St) : Nat := sumTo (fun j => (s.jobs j).deps.length) s.n

theorem regTot_le_dTot (s : St) : regTot s ≤ dTot s :=
  sumTo_mono _ _ _ (fun i _ => by unfold regC; split <;> omega)

/-- every dependent list is at most as long as the number of registered dependencies. -/
structure InvR (s : St) : Prop where
  tok : ∀ t, (s.tokDeps t).length ≤ regTot s
  job : ∀ o, (s.jobDeps o).length ≤ regTot s

theorem unscheduled_iff_fresh {s : St} (hC : InvC s) (j : Nat) :
    (s.jobs j).state = .unscheduled ↔ ((s.jobs j).pc = .none ∨ (s.jobs j).pc = .created) :=
  ⟨(hC.d.recs j).fresh, hC.f j⟩

theorem runCb_invR (fl : Flags) (hg : fl.readyGuarded = true) (s : St) (cb : Cb) (rest : List Cb)
    (hC : InvC s) (hr : s.ready = cb :: rest) (h : InvR s) : InvR (({ s with ready := rest } : St).runCb fl cb) := by
  have hC' : InvC (s.step fl) := step_invC fl hg s hC
  have hstep : s.step fl = ({ s with ready := rest } : St).runCb fl cb := by unfold St.step; rw [hr]
  rw [hstep] at hC'
  have hM := runCb_mono fl s cb rest hC.a.ctl hr
  have hF := runCb_frame fl ({ s with ready := rest } : St) cb
  by_cases hs : ∃ x, cb = .start x
  · obtain ⟨x, rfl⟩ := hs
    have hpc := head_start_pc (s := s) hC.a.ctl hr
    have hx : x < s.n := by
      apply Classical.byContradiction; intro hn
      have := hC.a.blank x (by omega); rw [hpc] at this; cases this
    have hun : (s.jobs x).state = .unscheduled := hC.f x (Or.inr hpc)
    have hst' : (((({ s with ready := rest } : St).runCb fl (.start x)).jobs x)).state ≠ .unscheduled := by
      intro hu
      exact startJob_not_fresh fl ({ s with ready := rest } : St) x ((unscheduled_iff_fresh hC' x).1 hu)
    have hreg : regTot (({ s with ready := rest } : St).runCb fl (.start x)) = regTot s + (s.jobs x).deps.length := by
      unfold regTot
      rw [hM.n]
      have := sumTo_upd (regC (({ s with ready := rest } : St).runCb fl (.start x))) (regC s) s.n x hx
        (fun i hi => by unfold regC; rw [hF.2.2.2.2.1 i hi])
      have e1 : regC s x = 0 := by simp [regC, hun]
      have e2 : regC (({ s with ready := rest } : St).runCb fl (.start x)) x = (s.jobs x).deps.length := by
        unfold regC; rw [if_neg hst', hM.lens]
      omega
    have hl := startJob_lists fl ({ s with ready := rest } : St) x
    refine ⟨fun t => ?_, fun o => ?_⟩
    · have h1 : ((St.startJob fl ({ s with ready := rest } : St) x).tokDeps t).length ≤
          (s.tokDeps t).length + (s.jobs x).deps.length := hl.1 t
      have := h.tok t; rw [hreg]
      show ((St.startJob fl _ x).tokDeps t).length ≤ _
      omega
    · have h1 : ((St.startJob fl ({ s with ready := rest } : St) x).jobDeps o).length ≤
          (s.jobDeps o).length + (s.jobs x).deps.length := hl.2 o
      have := h.job o; rw [hreg]
      show ((St.startJob fl _ x).jobDeps o).length ≤ _
      omega
  · have hns : ∀ x, cb ≠ .start x := fun x e => hs ⟨x, e⟩
    have hD := runCb_frameD fl ({ s with ready := rest } : St) cb hns
    have hreg : regTot (({ s with ready := rest } : St).runCb fl cb) = regTot s := by
      unfold regTot
      rw [hM.n]
      apply sumTo_congr
      intro i _
      unfold regC
      rw [hM.lens]
      have h1 := unscheduled_iff_fresh hC i
      have h2 := unscheduled_iff_fresh hC' i
      -- the program counter leaves {none, created} only through `start`
      have hpcs : (((({ s with ready := rest } : St).runCb fl cb).jobs i).pc = .none ∨
          ((({ s with ready := rest } : St).runCb fl cb).jobs i).pc = .created) ↔
          ((s.jobs i).pc = .none ∨ (s.jobs i).pc = .created) := by
        by_cases hi : i = target cb
        · subst hi
          by_cases hp : plainCb cb
          · rw [plain_pc fl _ cb hp]
          · cases cb with
            | start x => exact absurd rfl (hns x)
            | wake x =>
              have hpc := head_wake_pc (s := s) hC.a.ctl hr
              constructor
              · intro e; exact absurd e (wake_not_fresh fl _ x)
              · intro e; simp only [target] at e; rw [hpc] at e; rcases e with e | e <;> cases e
            | resume x =>
              have hk := head_resume_kind (s := s) hC.a.ctl hr
              constructor
              · intro e; exact absurd e (resume_not_fresh fl ({ s with ready := rest } : St) x hk)
              · intro e; simp only [target] at e
                rcases e with e | e <;> rw [e] at hk <;> simp [pcKind] at hk
            | _ => simp [plainCb] at hp
        · rw [hF.2.2.2.2.1 i hi]
      have : (((({ s with ready := rest } : St).runCb fl cb).jobs i).state = .unscheduled) ↔
          ((s.jobs i).state = .unscheduled) := by rw [h1, h2, hpcs]
      by_cases hu : (s.jobs i).state = .unscheduled
      · rw [if_pos hu, if_pos (this.2 hu)]
      · rw [if_neg hu, if_neg (fun e => hu (this.1 e))]
    exact ⟨fun t => by rw [hD.1, hreg]; exact h.tok t, fun o => by rw [hD.2, hreg]; exact h.job o⟩

theorem step_invR (fl : Flags) (hg : fl.readyGuarded = true) (s : St) (hC : InvC s) (h : InvR s) : InvR (s.step fl) := by
  unfold St.step; split
  · exact h
  · rename_i cb rest hr; exact runCb_invR fl hg s cb rest hC hr h

theorem apply_invR (fl : Flags) (hg : fl.readyGuarded = true) (s : St) (ev : Ev) (hok : EvOK s ev) (hC : InvC s)
    (h : InvR s) : InvR (s.apply fl ev) := by
  cases ev with
  | step => exact step_invR fl hg s hC h
  | wait => exact ⟨h.tok, h.job⟩
  | deliver k => simp only [St.apply]; split <;> exact ⟨h.tok, h.job⟩
  | submit ident deps code marker =>
    rw [apply_submit]
    have h0C := submitPre_invC s ident deps code marker hok hC
    have h0 : InvR (submitPre s ident deps code marker) := by
      have hreg : regTot (submitPre s ident deps code marker) = regTot s := by
        unfold regTot
        show sumTo _ (s.n + 1) = _
        rw [sumTo_succ]
        have e : regC (submitPre s ident deps code marker) s.n = 0 := by simp [regC, submitPre, newJob]
        rw [e, Nat.add_zero]
        exact sumTo_congr _ _ _ (fun i hi => by unfold regC; rw [submitPre_jobs_ne _ _ _ _ _ _ (by omega)])
      exact ⟨fun t => by rw [hreg]; exact h.tok t, fun o => by rw [hreg]; exact h.job o⟩
    have h1 := steps_ind (fun s' => (InvC s' ∧ (s'.jobs s.n).pc = .none) ∧ InvR s') fl
      (fun s' hs' => ⟨⟨step_invC fl hg s' hs'.1.1, by
        rw [step_kind0 fl s' hs'.1.1.a.ctl s.n (by rw [hs'.1.2]; rfl)]; exact hs'.1.2⟩, step_invR fl hg s' hs'.1.1 hs'.2⟩)
      (s.ready.length + 1) _ ⟨⟨h0C, by simp [submitPre, newJob]⟩, h0⟩
    generalize St.steps fl (submitPre s ident deps code marker) (s.ready.length + 1) = s2 at h1
    obtain ⟨⟨hC2, hpc2⟩, hR2⟩ := h1
    have hreg : regTot (submitPost s2 s.n) = regTot s2 := by
      unfold regTot
      rw [submitPost_n]
      apply sumTo_congr
      intro i _
      unfold regC
      by_cases hi : i = s.n
      · subst hi
        unfold submitPost; split
        · rfl
        · simp
      · rw [submitPost_jobs_ne _ _ _ hi]
    have hl : (submitPost s2 s.n).tokDeps = s2.tokDeps ∧ (submitPost s2 s.n).jobDeps = s2.jobDeps := by
      unfold submitPost; split <;> exact ⟨rfl, rfl⟩
    exact ⟨fun t => by rw [hl.1, hreg]; exact hR2.tok t, fun o => by rw [hl.2, hreg]; exact hR2.job o⟩

theorem init_invR (totals : List Nat) : InvR (St.init totals) :=
  ⟨fun t => by simp [St.init], fun o => by simp [St.init]⟩

theorem reachable_invR {fl : Flags} (hg : fl.readyGuarded = true) {totals : List Nat} {s : St}
    (h : Reachable fl totals s) : InvR s := by
  induction h with
  | init => exact init_invR totals
  | next hr hok ih => exact apply_invR fl hg _ _ hok (reachable_invC hg hr) ih



/-! ## the measure -/

/-- distance of a program counter from the end of the coroutine (the start loop counts once). -/
def wPc : PC → Nat
  | .none => 0 | .finished _ => 0 | .doneHandler => 1 | .codeWait => 2 | .lockExitRun => 3 | _ => 4

/-- phase potential of a record: it goes down at every launch, process end, return, and when the state becomes final. -/
def aJ (jb : Job) : Nat := 2 * wPc jb.pc + (if jb.state.finished then 0 else 1)

/-- rank of a record inside the start loop. -/
def qJ (jb : Job) : Nat :=
  match jb.pc with
  | .created => 11
  | .evtWait => if jb.sleeping then 7 else 8
  | .lockEnter => 5
  | .lockExitAbort => 9
  | _ => 0

/-- job `j` is blocked: some dependency is recorded not-OK and is not OK right now. -/
def sBlk (s : St) (j : Nat) : Bool :=
  (List.range (s.jobs j).deps.length).any (fun i =>
    decide ((depAt (s.jobs j) i).cur ≠ .ok) && decide (s.status (depAt (s.jobs j) i).origin ≠ .ok))

theorem sBlk_iff (s : St) (j : Nat) : sBlk s j = true ↔
    ∃ i, i < (s.jobs j).deps.length ∧ (depAt (s.jobs j) i).cur ≠ .ok ∧ s.status (depAt (s.jobs j) i).origin ≠ .ok := by
  simp [sBlk, List.any_eq_true]

/-- abort budget of job `j`: 1 while it may still abort a start before the next launch / process end / return. -/
def bJ (s : St) (j : Nat) : Nat :=
  match (s.jobs j).pc with
  | .created => 1
  | .evtWait => if sBlk s j && decide ((s.jobs j).state ≠ .ready) then 0 else 1
  | .lockEnter => if sBlk s j && decide ((s.jobs j).state ≠ .ready) then 0 else 1
  | .lockExitAbort => if sBlk s j then 0 else 1
  | _ => 0

theorem bJ_le_one (s : St) (j : Nat) : bJ s j ≤ 1 := by
  unfold bJ; split <;> (try split) <;> omega

theorem qJ_le (jb : Job) : qJ jb ≤ 11 := by
  unfold qJ; split <;> (try split) <;> omega

def cW (s : St) : Nat := 2 * (dTot s * dTot s) + 8
def eW (s : St) : Nat := 2 * (dTot s * dTot s + dTot s + 1) + 16
def pW (s : St) : Nat := cW s * s.n + eW s

def muA (s : St) : Nat := sumTo (fun j => aJ (s.jobs j)) s.n
def muB (s : St) : Nat := sumTo (bJ s) s.n
def muQ (s : St) : Nat := sumTo (fun j => qJ (s.jobs j)) s.n

/-- the termination measure. -/
def mu (s : St) : Nat :=
  pW s * muA s + cW s * muB s + muQ s + 2 * gCount s.ready + s.threads.length

theorem sBlk_congr {s s' : St} (j : Nat) (hj : s'.jobs j = s.jobs j) (hst : ∀ o, s'.status o = s.status o) :
    sBlk s' j = sBlk s j := by
  unfold sBlk; rw [hj]; simp only [hst]

theorem bJ_congr {s s' : St} (j : Nat) (hj : s'.jobs j = s.jobs j) (hst : ∀ o, s'.status o = s.status o) :
    bJ s' j = bJ s j := by
  unfold bJ; rw [sBlk_congr j hj hst, hj]

theorem status_congr {s s' : St} (hav : s'.avail = s.avail)
    (hd : ∀ k, (s'.jobs k).state = .done ↔ (s.jobs k).state = .done)
    (he : ∀ k, (s'.jobs k).state = .error ↔ (s.jobs k).state = .error) (o : Origin) :
    s'.status o = s.status o := by
  cases o with
  | tok t c => simp only [St.status, hav]
  | job k =>
    have h1 := hd k; have h2 := he k
    simp only [St.status]
    cases e1 : (s.jobs k).state <;> cases e2 : (s'.jobs k).state <;> simp_all

theorem dTot_congr {s s' : St} (hn : s'.n = s.n) (hl : ∀ j, (s'.jobs j).deps.length = (s.jobs j).deps.length) :
    dTot s' = dTot s := by
  unfold dTot; rw [hn]; exact sumTo_congr _ _ _ (fun i _ => hl i)

/-- nothing but the queues changed, and they shrank. -/
theorem mu_lt_queues {s s' : St} (hj : s'.jobs = s.jobs) (hn : s'.n = s.n) (hav : s'.avail = s.avail)
    (h : 2 * gCount s'.ready + s'.threads.length < 2 * gCount s.ready + s.threads.length) : mu s' < mu s := by
  have hst : ∀ o, s'.status o = s.status o := status_congr hav (fun k => by rw [hj]) (fun k => by rw [hj])
  have hd : dTot s' = dTot s := dTot_congr hn (fun j => by rw [hj])
  have hA : muA s' = muA s := by unfold muA; rw [hn, hj]
  have hQ : muQ s' = muQ s := by unfold muQ; rw [hn, hj]
  have hB : muB s' = muB s := by
    unfold muB; rw [hn]; exact sumTo_congr _ _ _ (fun i _ => bJ_congr i (by rw [hj]) hst)
  unfold mu pW cW eW
  rw [hA, hB, hQ, hd, hn]
  omega

/-- one job `x` acted.  Either the phase potential is unchanged, the budget of `x` went down by `db` and the local
    terms pay for the rest; or the phase potential of `x` went down and the growth is bounded. -/
theorem mu_lt_job {s s' : St} (x : Nat) (hx : x < s.n) (hn : s'.n = s.n)
    (hl : ∀ j, (s'.jobs j).deps.length = (s.jobs j).deps.length)
    (ho : ∀ k, k ≠ x → s'.jobs k = s.jobs k)
    (hcase :
      (∃ db, (∀ k, k ≠ x → bJ s' k = bJ s k) ∧ aJ (s'.jobs x) = aJ (s.jobs x) ∧ bJ s' x + db = bJ s x ∧
        qJ (s'.jobs x) + 2 * gCount s'.ready + s'.threads.length + 1 ≤
          cW s * db + qJ (s.jobs x) + 2 * gCount s.ready + s.threads.length) ∨
      (aJ (s'.jobs x) + 1 ≤ aJ (s.jobs x) ∧
        gCount s'.ready ≤ gCount s.ready + (dTot s * dTot s + dTot s + 1) ∧
        s'.threads.length ≤ s.threads.length + 1)) : mu s' < mu s := by
  have hd : dTot s' = dTot s := dTot_congr hn hl
  have eA := sumTo_upd (fun j => aJ (s'.jobs j)) (fun j => aJ (s.jobs j)) s.n x hx (fun i hi => by rw [ho i hi])
  have eQ := sumTo_upd (fun j => qJ (s'.jobs j)) (fun j => qJ (s.jobs j)) s.n x hx (fun i hi => by rw [ho i hi])
  have hq1 := qJ_le (s'.jobs x)
  have hq0 := sumTo_ge (fun j => qJ (s.jobs j)) s.n x hx
  unfold mu pW cW eW muA muB muQ
  rw [hd, hn]
  skip
  generalize hSA' : sumTo (fun j => aJ (s'.jobs j)) s.n = SA' at eA ⊢
  generalize hSA : sumTo (fun j => aJ (s.jobs j)) s.n = SA at eA ⊢
  generalize hSQ' : sumTo (fun j => qJ (s'.jobs j)) s.n = SQ' at eQ ⊢
  generalize hSQ : sumTo (fun j => qJ (s.jobs j)) s.n = SQ at eQ hq0 ⊢
  generalize hD : dTot s = D at hcase ⊢
  rcases hcase with ⟨db, hbo, ha, hb, hq⟩ | ⟨ha, hg, ht⟩
  · have eB := sumTo_upd (bJ s') (bJ s) s.n x hx hbo
    generalize sumTo (bJ s') s.n = SB' at eB ⊢
    generalize sumTo (bJ s) s.n = SB at eB ⊢
    have hSA : SA' = SA := by omega
    subst hSA
    unfold cW at hq; rw [hD] at hq
    generalize 2 * (D * D) + 8 = C at hq ⊢
    have hSB : SB' + db = SB := by omega
    subst hSB
    rw [Nat.mul_add C SB' db]
    generalize C * SB' = X
    generalize C * db = Y at hq ⊢
    generalize (C * s.n + (2 * (D * D + D + 1) + 16)) * SA' = Z
    omega
  · have hB' : sumTo (bJ s') s.n ≤ s.n := by
      have := sumTo_mono (bJ s') (fun _ => 1) s.n (fun i _ => bJ_le_one s' i)
      have h1 : sumTo (fun _ => 1) s.n = s.n := by
        clear this
        induction s.n with
        | zero => rfl
        | succ n ih => rw [sumTo_succ, ih]
      omega
    generalize sumTo (bJ s') s.n = SB' at hB' ⊢
    generalize sumTo (bJ s) s.n = SB
    generalize 2 * (D * D) + 8 = C
    have hSA : SA' + 1 ≤ SA := by omega
    obtain ⟨k, rfl⟩ : ∃ k, SA = SA' + 1 + k := ⟨SA - SA' - 1, by omega⟩
    have hCB : C * SB' ≤ C * s.n := Nat.mul_le_mul_left _ hB'
    generalize C * SB' = X at hCB ⊢
    generalize C * SB = X2
    generalize C * s.n = Y at hCB ⊢
    rw [Nat.mul_add (Y + (2 * (D * D + D + 1) + 16)) (SA' + 1) k,
      Nat.mul_add (Y + (2 * (D * D + D + 1) + 16)) SA' 1, Nat.mul_one]
    generalize (Y + (2 * (D * D + D + 1) + 16)) * SA' = Z
    generalize (Y + (2 * (D * D + D + 1) + 16)) * k = Z2
    generalize D * D = DD at hg ⊢
    omega



/-! ## growth of the queues, segment by segment -/

theorem regPhase_grow (fl : Flags) (s : St) (x : Nat) : Grow s (regPhase fl s x) 0 0 := by
  unfold regPhase; split
  · exact ⟨by simp, by simp⟩
  · have h1 : Grow s ((s.put x (startRec (s.jobs x))).put x (startRecDeps (s.jobs x))) 0 0 := ⟨by simp, by simp⟩
    exact h1.trans (registerDeps_grow fl _ x _ _)

theorem startJob_grow (fl : Flags) (s : St) (x : Nat) : Grow s (s.startJob fl x) 0 1 := by
  rw [startJob_eq]
  refine Grow.trans' (regPhase_grow fl s x) (g2 := 0) (t2 := 1) ?_ (by omega) (by omega)
  split
  · exact Grow.trans' (b := (regPhase fl s x).put x _) (g1 := 0) (t1 := 0) ⟨by simp, by simp⟩ (loopHead_grow _ x)
      (by omega) (by omega)
  · exact loopHead_grow _ x

theorem wake_grow (fl : Flags) (s : St) (x : Nat) : Grow s (s.runCb fl (.wake x)) 0 1 := by
  simp only [St.runCb]; split
  · exact ⟨by simp, by simp⟩
  · exact Grow.trans' (b := s.put x _) (g1 := 0) (t1 := 0) ⟨by simp, by simp⟩ (loopHead_grow _ x) (by omega) (by omega)

theorem abortRelease_grow (fl : Flags) (s : St) (x : Nat) (D : Nat) (hD : ∀ t, (s.tokDeps t).length ≤ D) :
    Grow s (abortRelease fl s x) ((s.jobs x).held.length * D) 0 := by
  unfold abortRelease; split
  · exact releaseAll_grow s x D _ s hD
  · exact (Grow.refl s).mono (Nat.zero_le _) (Nat.le_refl _)

theorem enterTail_grow (fl : Flags) (r : St × Option Nat) (x : Nat) (D : Nat) (hD : ∀ t, (r.1.tokDeps t).length ≤ D) :
    Grow r.1 (enterTail fl r x) ((r.1.jobs x).held.length * D) 1 := by
  obtain ⟨s1, fa⟩ := r
  unfold enterTail
  cases fa with
  | some d =>
    have h1 := abortRelease_grow fl s1 x D hD
    have h2 := check_grow fl (abortRelease fl s1 x) x d
    have h3 : Grow ((abortRelease fl s1 x).check fl x d)
        (((abortRelease fl s1 x).check fl x d).put x
          { (((abortRelease fl s1 x).check fl x d).jobs x) with pc := .lockExitAbort } [] [(.lockExit, x)]) 0 1 :=
      ⟨by simp, by simp⟩
    exact Grow.trans' (Grow.trans' h1 h2 (Nat.le_refl _) (Nat.le_refl _)) h3 (by simp) (by omega)
  | none => exact ⟨by simp, by simp⟩

theorem abortTail_grow (fl : Flags) (s : St) (x : Nat) : Grow s (abortTail fl s x) 0 1 := by
  unfold abortTail
  simp only
  refine Grow.trans' (b := s.put x _ _) (g1 := 0) (t1 := 0) ?_ (loopHead_grow _ x) (by omega) (by omega)
  refine ⟨?_, by simp⟩
  simp only [put_ready, gCount_append]
  rw [gCount_wake]; omega

theorem codeTail_grow (s : St) (x : Nat) : Grow s (codeTail s x) 0 1 := by
  unfold codeTail
  exact Grow.trans' (b := s.put x _) (g1 := 0) (t1 := 0) ⟨by simp, by simp⟩ (finish_grow _ x) (by omega) (by omega)

theorem doneStep_grow (s : St) (x : Nat) : Grow s (doneStep s x) ((s.jobDeps x).length + 1) 0 := by
  unfold doneStep
  refine ⟨?_, by simp⟩
  simp only [put_ready, gCount_append, List.append_nil, gCount_nil]
  have h1 := gCount_le_length ((s.jobDeps x).map (fun (p : Nat × Nat) => Cb.check p.1 p.2))
  simp only [List.length_map] at h1
  have h2 : gCount (if s.waiter = WS.sleeping then [Cb.waiterRun] else []) ≤ 1 := by split <;> simp [isPlainB]
  omega

/-- the acquisition loop takes each lock at most once. -/
theorem acquireAll_held_len (j : Nat) : ∀ k d (s : St),
    ((St.acquireAll s j k d).1.jobs j).held.length ≤ (s.jobs j).held.length + k := by
  intro k
  induction k with
  | zero => intro d s; simp [St.acquireAll]
  | succ k ih =>
    intro d s
    cases ho : ((s.jobs j).deps.getD d default).origin with
    | job o =>
      simp only [St.acquireAll, ho]
      have := ih (d + 1) (s.put j { (s.jobs j) with held := (s.jobs j).held ++ [d] })
      simp only [put_jobs, upd_same, List.length_append, List.length_singleton] at this
      omega
    | tok t c =>
      simp only [St.acquireAll, ho]
      by_cases hlt : s.avail t < c
      · simp only [hlt, if_true]; omega
      · simp only [hlt, if_false]
        have := ih (d + 1) (({ s with avail := upd s.avail t (s.avail t - c) } : St).put j
          { (s.jobs j) with held := (s.jobs j).held ++ [d] })
        simp only [put_jobs, upd_same, List.length_append, List.length_singleton] at this
        omega



/-! ## the measure decreases: plain callbacks -/

theorem aJ_eq {jb jb' : Job} (hp : jb'.pc = jb.pc) (hf : jb'.state.finished = jb.state.finished) : aJ jb' = aJ jb := by
  unfold aJ; rw [hp, hf]

theorem qJ_check_le {jb jb' : Job} (hp : jb'.pc = jb.pc) (hs : jb'.sleeping = true → jb.sleeping = true) :
    qJ jb' ≤ qJ jb + 1 := by
  unfold qJ; rw [hp]
  split <;> (try omega)
  cases h1 : jb'.sleeping <;> cases h2 : jb.sleeping <;> simp_all

/-- the blocked flag can only be raised by a check (statuses unchanged). -/
theorem sBlk_check_mono (fl : Flags) (s : St) (j d : Nat) (hd : d < (s.jobs j).deps.length)
    (hst : ∀ o, (s.check fl j d).status o = s.status o) (h : sBlk s j = true) : sBlk (s.check fl j d) j = true := by
  have hA := depChanged_depAt fl (s.jobs j) d (s.status (depAt (s.jobs j) d).origin) hd
  have ej : (s.check fl j d).jobs j = (depChanged fl (s.jobs j) d (s.status (depAt (s.jobs j) d).origin)).1 :=
    check_job fl s j d
  rw [sBlk_iff] at h ⊢
  obtain ⟨i, hi, hc, hs⟩ := h
  refine ⟨i, by rw [ej, hA.1]; exact hi, ?_, ?_⟩
  · rw [ej]
    by_cases hid : i = d
    · subst hid; rw [hA.2.2.2]; exact hs
    · rw [hA.2.2.1 i hid]; exact hc
  · rw [ej, hA.2.1, hst]; exact hs

theorem bJ_mono_of {s s' : St} (j : Nat) (hp : (s'.jobs j).pc = (s.jobs j).pc) (hs : (s'.jobs j).state = (s.jobs j).state)
    (hb : sBlk s j = true → sBlk s' j = true) : bJ s' j ≤ bJ s j := by
  unfold bJ
  rw [hp, hs]
  cases h1 : sBlk s j <;> cases h2 : sBlk s' j <;> simp_all <;> split <;> (try split) <;> omega

/-- a dependency check (popped from the queue) strictly decreases the measure. -/
theorem check_mu (fl : Flags) (hg : fl.readyGuarded = true) (s : St) (cb : Cb) (rest : List Cb) (j d : Nat)
    (hr : s.ready = cb :: rest) (hpl : isPlainB cb = true) (hC : InvC s)
    (hC' : InvC (St.check fl ({ s with ready := rest } : St) j d)) (hok : DepOK s j d) :
    mu (St.check fl ({ s with ready := rest } : St) j d) < mu s := by
  have hjn : j < s.n := by
    apply Classical.byContradiction; intro hn
    have h1 := hC.a.blank j (by omega)
    exact hok.1 (hC.f j (Or.inl h1))
  have hA := depChanged_depAt fl (s.jobs j) d (s.status (depAt (s.jobs j) d).origin) hok.2
  have ej : (St.check fl ({ s with ready := rest } : St) j d).jobs j =
      (depChanged fl (s.jobs j) d (s.status (depAt (s.jobs j) d).origin)).1 := check_job fl _ j d
  have ene : ∀ k, k ≠ j → (St.check fl ({ s with ready := rest } : St) j d).jobs k = s.jobs k :=
    fun k hk => check_job_ne fl _ j d k hk
  have hF := check_fields fl ({ s with ready := rest } : St) j d
  have hG := check_grow fl ({ s with ready := rest } : St) j d
  have hav : (St.check fl ({ s with ready := rest } : St) j d).avail = s.avail := hF.1
  have f := depChanged_state fl (s.jobs j) d (s.status (depAt (s.jobs j) d).origin)
  have hctl := depChanged_ctl fl (s.jobs j) d (s.status (depAt (s.jobs j) d).origin)
  have hlens : ∀ k, ((St.check fl ({ s with ready := rest } : St) j d).jobs k).deps.length = (s.jobs k).deps.length := by
    intro k; by_cases hk : k = j
    · subst hk; rw [ej]; exact hA.1
    · rw [ene k hk]
  have hgc : gCount s.ready = gCount rest + 1 := by rw [hr, gCount_cons, hpl]; simp
  have hG1 : gCount (St.check fl ({ s with ready := rest } : St) j d).ready ≤ gCount rest := by simpa using hG.1
  have hT1 : (St.check fl ({ s with ready := rest } : St) j d).threads.length ≤ s.threads.length := by simpa using hG.2
  obtain ⟨f1, f2, _, _, _, f5⟩ := f
  simp only [hg, true_implies] at f5
  have hsl : ((St.check fl ({ s with ready := rest } : St) j d).jobs j).sleeping = true → (s.jobs j).sleeping = true := by
    intro h
    rw [ej] at h
    have := hctl.2
    simp only [slN, h, if_true] at this
    cases hs : (s.jobs j).sleeping
    · simp [hs] at this
    · rfl
  have hq : qJ ((St.check fl ({ s with ready := rest } : St) j d).jobs j) ≤ qJ (s.jobs j) + 1 :=
    qJ_check_le (by rw [ej]; exact f1) hsl
  refine mu_lt_job j hjn rfl hlens ene ?_
  rcases f5 with ⟨a, _⟩ | ⟨a, _, b, _⟩ | ⟨a, aun, b, _⟩
  · -- state unchanged
    left
    have hst : ∀ o, (St.check fl ({ s with ready := rest } : St) j d).status o = s.status o := by
      refine status_congr hav (fun k => ?_) (fun k => ?_) <;>
      · by_cases hk : k = j
        · subst hk; rw [ej, a]
        · rw [ene k hk]
    have hb : bJ (St.check fl ({ s with ready := rest } : St) j d) j ≤ bJ s j :=
      bJ_mono_of j (by rw [ej]; exact f1) (by rw [ej]; exact a)
        (fun h => sBlk_check_mono fl ({ s with ready := rest } : St) j d hok.2 hst h)
    refine ⟨bJ s j - bJ (St.check fl ({ s with ready := rest } : St) j d) j,
      fun k hk => bJ_congr k (ene k hk) hst, aJ_eq (by rw [ej]; exact f1) (by rw [ej, a]), by omega, ?_⟩
    omega
  · -- the record goes to ERROR: the phase potential drops
    right
    refine ⟨?_, by omega, by omega⟩
    unfold aJ
    rw [ej, f1, b, a]
    simp [JS.finished]
  · -- WAITING → READY
    left
    have hst : ∀ o, (St.check fl ({ s with ready := rest } : St) j d).status o = s.status o := by
      refine status_congr hav (fun k => ?_) (fun k => ?_) <;>
      · by_cases hk : k = j
        · subst hk; rw [ej, a, b]; simp
        · rw [ene k hk]
    have hJ' := hC'.d.recs j
    have hcnt := hJ'.counter (by rw [ej, a]; intro e; cases e)
    rw [ej] at hcnt
    have hallok := cntBad_zero _ (by rw [← hcnt]; exact aun)
    -- before the check the job was not blocked
    have hnS : sBlk s j = false := by
      cases hS : sBlk s j
      · rfl
      · exfalso
        rw [sBlk_iff] at hS
        obtain ⟨i, hi, hc, hs⟩ := hS
        have hi' : i < (depChanged fl (s.jobs j) d (s.status (depAt (s.jobs j) d).origin)).1.deps.length := by
          rw [hA.1]; exact hi
        have this : (depAt (depChanged fl (s.jobs j) d (s.status (depAt (s.jobs j) d).origin)).1 i).cur = .ok :=
          hallok i hi'
        by_cases hid : i = d
        · subst hid
          rw [hA.2.2.2] at this
          exact hs this
        · rw [hA.2.2.1 i hid] at this
          exact hc this
    have hb : bJ (St.check fl ({ s with ready := rest } : St) j d) j ≤ bJ s j := by
      unfold bJ
      rw [ej, f1, a, b, hnS]
      split <;> (try split) <;> simp
    refine ⟨bJ s j - bJ (St.check fl ({ s with ready := rest } : St) j d) j,
      fun k hk => bJ_congr k (ene k hk) hst, aJ_eq (by rw [ej]; exact f1) (by rw [ej, a, b]; rfl), by omega, ?_⟩
    omega



/-! ## the measure decreases: coroutine segments -/

/-- `loopHead` that does not finish: rank plus new thread is at most 7; nothing else changes. -/
theorem loopHead_eff (s : St) (x : Nat) (hf : (s.jobs x).state.finished = false) :
    qJ ((s.loopHead x).jobs x) + (s.loopHead x).threads.length ≤ 7 + s.threads.length ∧
    gCount (s.loopHead x).ready = gCount s.ready ∧ (s.loopHead x).avail = s.avail ∧
    ((s.loopHead x).jobs x).state = (s.jobs x).state ∧ ((s.loopHead x).jobs x).deps = (s.jobs x).deps ∧
    (((s.loopHead x).jobs x).pc = .evtWait ∨ ((s.loopHead x).jobs x).pc = .lockEnter ∧ (s.jobs x).state = .ready) := by
  unfold St.loopHead
  simp only [hf]
  simp only [Bool.false_eq_true, if_false]
  split
  · split
    · rename_i hr; simp [qJ, hr]; omega
    · simp [qJ]
  · simp [qJ]

/-- "write the record, then `loopHead`", when the record is not final. -/
theorem put_loopHead_eff (s : St) (x : Nat) (jb : Job) (cbs : List Cb) (hf : jb.state.finished = false)
    (hcb : gCount cbs = 0) :
    qJ (((s.put x jb cbs []).loopHead x).jobs x) + ((s.put x jb cbs []).loopHead x).threads.length ≤ 7 + s.threads.length ∧
    gCount ((s.put x jb cbs []).loopHead x).ready = gCount s.ready ∧ ((s.put x jb cbs []).loopHead x).avail = s.avail ∧
    (((s.put x jb cbs []).loopHead x).jobs x).state = jb.state ∧ (((s.put x jb cbs []).loopHead x).jobs x).deps = jb.deps ∧
    ((((s.put x jb cbs []).loopHead x).jobs x).pc = .evtWait ∨
      (((s.put x jb cbs []).loopHead x).jobs x).pc = .lockEnter ∧ jb.state = .ready) ∧
    (∀ k, k ≠ x → ((s.put x jb cbs []).loopHead x).jobs k = s.jobs k) := by
  have hE := loopHead_eff (s.put x jb cbs []) x (by simpa using hf)
  simp only [put_jobs, upd_same, put_threads, put_ready, put_avail, List.append_nil, gCount_append, hcb, Nat.add_zero] at hE
  refine ⟨hE.1, hE.2.1, hE.2.2.1, hE.2.2.2.1, hE.2.2.2.2.1, hE.2.2.2.2.2, ?_⟩
  intro k hk
  rw [(loopHead_shape _ x).jobs]; simp [upd_ne _ _ hk]

/-- "write the record, then `loopHead`", when the record is final: the final segment begins. -/
theorem put_loopHead_fin (s : St) (x : Nat) (jb : Job) (cbs : List Cb) (hf : jb.state.finished = true) :
    (((s.put x jb cbs []).loopHead x).jobs x).pc = .doneHandler ∧
    (((s.put x jb cbs []).loopHead x).jobs x).state = jb.state ∧
    Grow s ((s.put x jb cbs []).loopHead x) (gCount cbs) 1 := by
  refine ⟨?_, ?_, Grow.trans' (Grow.put s x jb cbs []) (loopHead_grow _ x) (by omega) (by simp)⟩
  · rw [loopHead_job]; simp [loopHeadJ, hf]
  · rw [loopHead_job]; simp [loopHeadJ, hf]

theorem regPhase_avail (fl : Flags) (s : St) (x : Nat) : (regPhase fl s x).avail = s.avail := by
  unfold regPhase; split
  · rfl
  · exact registerDeps_ind (fun s' => s'.avail = s.avail) fl x _
      (fun s' d _ h => by rw [(regOne_frame s' x d).2.2.2.2.2.2.2.2.1]; exact h)
      (fun s' d _ h => by rw [(check_fields fl s' x d).1]; exact h) _ 0 _ (Nat.zero_add _) rfl

theorem sBlk_same {s s' : St} (j : Nat) (hd : (s'.jobs j).deps = (s.jobs j).deps)
    (hst : ∀ o, s'.status o = s.status o) : sBlk s' j = sBlk s j := by
  unfold sBlk depAt; rw [hd]; simp only [hst]

theorem status_same_of {s s' : St} (x : Nat) (hav : s'.avail = s.avail) (ho : ∀ k, k ≠ x → s'.jobs k = s.jobs k)
    (h1 : (s.jobs x).state.finished = false) (h2 : (s'.jobs x).state.finished = false) (o : Origin) :
    s'.status o = s.status o := by
  refine status_congr hav (fun k => ?_) (fun k => ?_) o <;>
  · by_cases hk : k = x
    · subst hk
      constructor <;> intro e
      · rw [e] at h2; cases h2
      · rw [e] at h1; cases h1
    · rw [ho k hk]

/-- what the `wake` callback does (stated on the state from which the callback was popped). -/
theorem wake_effect (fl : Flags) (s : St) (x : Nat) :
    (∀ k, k ≠ x → ((s.runCb fl (.wake x)).jobs k) = s.jobs k) ∧
    ((s.jobs x).state = .ready →
      ((s.runCb fl (.wake x)).jobs x).pc = .lockEnter ∧ ((s.runCb fl (.wake x)).jobs x).state = .ready ∧
      ((s.runCb fl (.wake x)).jobs x).deps = (s.jobs x).deps ∧ (s.runCb fl (.wake x)).avail = s.avail ∧
      (s.runCb fl (.wake x)).threads.length = s.threads.length + 1 ∧ gCount (s.runCb fl (.wake x)).ready = gCount s.ready) ∧
    ((s.jobs x).state ≠ .ready → (s.jobs x).state.finished = true →
      ((s.runCb fl (.wake x)).jobs x).pc = .doneHandler ∧ ((s.runCb fl (.wake x)).jobs x).state = (s.jobs x).state ∧
      Grow s (s.runCb fl (.wake x)) 0 1) ∧
    ((s.jobs x).state ≠ .ready → (s.jobs x).state.finished = false →
      qJ ((s.runCb fl (.wake x)).jobs x) + (s.runCb fl (.wake x)).threads.length ≤ 7 + s.threads.length ∧
      gCount (s.runCb fl (.wake x)).ready = gCount s.ready ∧ (s.runCb fl (.wake x)).avail = s.avail ∧
      ((s.runCb fl (.wake x)).jobs x).state = (s.jobs x).state ∧ ((s.runCb fl (.wake x)).jobs x).deps = (s.jobs x).deps ∧
      ((s.runCb fl (.wake x)).jobs x).pc = .evtWait) := by
  refine ⟨fun k hk => (runCb_frame fl s (.wake x)).2.2.2.2.1 k hk, ?_, ?_, ?_⟩
  · intro hr
    simp only [St.runCb, hr, if_true]
    simp
  · intro hr hf
    simp only [St.runCb, hr, if_false]
    have := put_loopHead_fin s x { (s.jobs x) with event := false } [] hf
    exact ⟨this.1, this.2.1, by simpa using this.2.2⟩
  · intro hr hf
    simp only [St.runCb, hr, if_false]
    have := put_loopHead_eff s x { (s.jobs x) with event := false } [] hf rfl
    refine ⟨this.1, this.2.1, this.2.2.1, this.2.2.2.1, this.2.2.2.2.1, ?_⟩
    rcases this.2.2.2.2.2.1 with e | ⟨_, e⟩
    · exact e
    · exact absurd e hr



theorem bJ_loop_same {s s' : St} (x : Nat) (hd : (s'.jobs x).deps = (s.jobs x).deps)
    (hst : ∀ o, s'.status o = s.status o) (hs : (s'.jobs x).state = (s.jobs x).state)
    (hp : ((s.jobs x).pc = .evtWait ∨ (s.jobs x).pc = .lockEnter))
    (hp' : ((s'.jobs x).pc = .evtWait ∨ (s'.jobs x).pc = .lockEnter)) : bJ s' x = bJ s x := by
  have hS := sBlk_same (s := s) x hd hst
  unfold bJ
  rcases hp with e | e <;> rcases hp' with e' | e' <;> simp only [e, e', hS, hs]

theorem wake_mu (fl : Flags) (s : St) (rest : List Cb) (x : Nat) (hr : s.ready = .wake x :: rest) (hC : InvC s) :
    mu (St.runCb fl ({ s with ready := rest } : St) (.wake x)) < mu s := by
  have hpc := head_wake_pc (s := s) hC.a.ctl hr
  have hI := pop_wake hC.a.ctl hr
  have hxn : x < s.n := hI.2.2.2.2
  have hsl : (s.jobs x).sleeping = false := idle_sleeping (s := ({ s with ready := rest } : St)) hI.2
  have hM := runCb_mono fl s (.wake x) rest hC.a.ctl hr
  have hgc : gCount s.ready = gCount rest := by rw [hr, gCount_cons]; simp [isPlainB]
  have hq0 : qJ (s.jobs x) = 8 := by simp [qJ, hpc, hsl]
  obtain ⟨eo, eR, eF, eS⟩ := wake_effect fl ({ s with ready := rest } : St) x
  refine mu_lt_job x hxn hM.n hM.lens eo ?_
  generalize St.runCb fl ({ s with ready := rest } : St) (.wake x) = s' at eo eR eF eS ⊢
  by_cases hrd : (s.jobs x).state = .ready
  · obtain ⟨p1, p2, p3, p4, p5, p6⟩ := eR hrd
    left
    have hst : ∀ o, s'.status o = s.status o :=
      status_same_of x p4 eo (by rw [hrd]; rfl) (by rw [p2]; rfl)
    refine ⟨0, fun k hk => bJ_congr k (eo k hk) hst, ?_, ?_, ?_⟩
    · simp [aJ, p1, p2, hpc, hrd, wPc]
    · rw [Nat.add_zero]; exact bJ_loop_same x p3 hst (by rw [p2, hrd]) (Or.inl hpc) (Or.inr p1)
    · have p5' : s'.threads.length = s.threads.length + 1 := p5
      have p6' : gCount s'.ready = gCount rest := p6
      have hq1 : qJ (s'.jobs x) = 5 := by simp [qJ, p1]
      rw [hq1, hq0, hgc, p5', p6']; omega
  · by_cases hfin : (s.jobs x).state.finished = true
    · obtain ⟨p1, p2, p3⟩ := eF hrd hfin
      right
      refine ⟨?_, by have := p3.1; simp at this; omega, by have := p3.2; simpa using this⟩
      simp [aJ, p1, p2, hpc, wPc, hfin]
    · have hfin' : (s.jobs x).state.finished = false := by simpa using hfin
      obtain ⟨p1, p2, p3, p4, p5, p6⟩ := eS hrd hfin'
      left
      have hst : ∀ o, s'.status o = s.status o := status_same_of x p3 eo hfin' (by rw [p4]; exact hfin')
      refine ⟨0, fun k hk => bJ_congr k (eo k hk) hst, ?_, ?_, ?_⟩
      · simp only [aJ, p6, p4, hpc]
      · rw [Nat.add_zero]; exact bJ_loop_same x p5 hst p4 (Or.inl hpc) (Or.inl p6)
      · have p1' : qJ (s'.jobs x) + s'.threads.length ≤ 7 + s.threads.length := p1
        have p2' : gCount s'.ready = gCount rest := p2
        rw [p2', hq0, hgc]; omega



/-- what the first segment does. -/
theorem start_effect (fl : Flags) (s : St) (x : Nat) :
    (∀ k, k ≠ x → ((s.startJob fl x).jobs k) = s.jobs k) ∧ (s.startJob fl x).avail = s.avail ∧
    ((((s.startJob fl x).jobs x).state.finished = true ∧ ((s.startJob fl x).jobs x).pc = .doneHandler ∧
        Grow s (s.startJob fl x) 0 1) ∨
     (((s.startJob fl x).jobs x).state.finished = false ∧
        (((s.startJob fl x).jobs x).pc = .evtWait ∨ ((s.startJob fl x).jobs x).pc = .lockEnter) ∧
        qJ ((s.startJob fl x).jobs x) + (s.startJob fl x).threads.length ≤ 7 + s.threads.length ∧
        gCount (s.startJob fl x).ready ≤ gCount s.ready)) := by
  refine ⟨fun k hk => (startJob_frame fl s x).2.2.2.2.1 k hk, ?_, ?_⟩
  · rw [startJob_eq, (marker_loopHead_shape _ x).avail]; exact regPhase_avail fl s x
  · have hG := regPhase_grow fl s x
    rw [startJob_eq]
    generalize regPhase fl s x = s2 at hG
    have hG1 : gCount s2.ready ≤ gCount s.ready := by simpa using hG.1
    have hG2 : s2.threads.length ≤ s.threads.length := by simpa using hG.2
    split
    · -- marker: DONE
      left
      have := put_loopHead_fin s2 x { (s2.jobs x) with state := .done } [] rfl
      refine ⟨by rw [this.2.1]; rfl, this.1, Grow.trans' hG this.2.2 (by simp) (by omega)⟩
    · by_cases hf : (s2.jobs x).state.finished = true
      · left
        refine ⟨?_, ?_, Grow.trans' hG (loopHead_grow s2 x) (by omega) (by omega)⟩
        · rw [loopHead_job]; simp [loopHeadJ, hf]
        · rw [loopHead_job]; simp [loopHeadJ, hf]
      · right
        have hf' : (s2.jobs x).state.finished = false := by simpa using hf
        obtain ⟨e1, e2, _, e4, _, e6⟩ := loopHead_eff s2 x hf'
        refine ⟨by rw [e4]; exact hf', ?_, by omega, by omega⟩
        rcases e6 with e | ⟨e, _⟩
        · exact Or.inl e
        · exact Or.inr e

theorem start_mu (fl : Flags) (s : St) (rest : List Cb) (x : Nat) (hr : s.ready = .start x :: rest) (hC : InvC s) :
    mu (St.runCb fl ({ s with ready := rest } : St) (.start x)) < mu s := by
  have hpc := head_start_pc (s := s) hC.a.ctl hr
  have hI := pop_start hC.a.ctl hr
  have hxn : x < s.n := hI.2.2.2.2
  have hun : (s.jobs x).state = .unscheduled := hC.f x (Or.inr hpc)
  have hM := runCb_mono fl s (.start x) rest hC.a.ctl hr
  have hgc : gCount s.ready = gCount rest := by rw [hr, gCount_cons]; simp [isPlainB]
  have hq0 : qJ (s.jobs x) = 11 := by simp [qJ, hpc]
  have hb0 : bJ s x = 1 := by simp [bJ, hpc]
  have hunf : (s.jobs x).state.finished = false := by rw [hun]; rfl
  obtain ⟨eo, eav, ecase⟩ := start_effect fl ({ s with ready := rest } : St) x
  refine mu_lt_job x hxn hM.n hM.lens eo ?_
  show _ ∨ _
  simp only [St.runCb]
  generalize St.startJob fl ({ s with ready := rest } : St) x = s' at eo eav ecase ⊢
  rcases ecase with ⟨p1, p2, p3⟩ | ⟨p1, p2, p3, p4⟩
  · right
    refine ⟨?_, by have := p3.1; simp at this; omega, by have := p3.2; simpa using this⟩
    simp [aJ, p1, p2, hpc, hunf, wPc]
  · left
    have hst : ∀ o, s'.status o = s.status o := status_same_of x eav eo (by rw [hun]; rfl) p1
    have hb1 := bJ_le_one s' x
    refine ⟨1 - bJ s' x, fun k hk => bJ_congr k (eo k hk) hst, ?_, by omega, ?_⟩
    · rcases p2 with e | e <;> simp [aJ, e, p1, hpc, hunf, wPc]
    · have p3' : qJ (s'.jobs x) + s'.threads.length ≤ 7 + s.threads.length := p3
      have p4' : gCount s'.ready ≤ gCount rest := p4
      rw [hq0, hgc]; omega



/-- no job names the same token in two dependencies. -/
def NoDoubleTok (s : St) : Prop :=
  ∀ j i i' t c c', (depAt (s.jobs j) i).origin = .tok t c → (depAt (s.jobs j) i').origin = .tok t c' → i = i'

/-- what the termination argument uses about a state. -/
structure InvT (fl : Flags) (s : St) : Prop where
  e : InvE fl s
  r : InvR s
  heldRun : ∀ j, pcRun (s.jobs j).pc = true → (s.jobs j).held.length ≤ (s.jobs j).deps.length
  nodouble : NoDoubleTok s

theorem len_le_dTot (s : St) (x : Nat) (hx : x < s.n) : (s.jobs x).deps.length ≤ dTot s :=
  sumTo_ge (fun j => (s.jobs j).deps.length) s.n x hx

/-- the record written by the aborted-start tail, and whether a wake-up is queued. -/
def abortRec (fl : Flags) (jb : Job) : Job × Bool :=
  if fl.abortRechecks ∧ jb.unsat = 0 then eventSet { jb with state := .ready } else ({ jb with state := .waiting }, false)

theorem abortTail_eq (fl : Flags) (s : St) (x : Nat) :
    abortTail fl s x = (s.put x (abortRec fl (s.jobs x)).1 (if (abortRec fl (s.jobs x)).2 then [.wake x] else [])).loopHead x := rfl

theorem abortRec_facts (fl : Flags) (ha : fl.abortRechecks = true) (jb : Job) :
    (abortRec fl jb).1.deps = jb.deps ∧ (abortRec fl jb).1.unsat = jb.unsat ∧
    ((jb.unsat = 0 ∧ (abortRec fl jb).1.state = .ready) ∨ (jb.unsat ≠ 0 ∧ (abortRec fl jb).1.state = .waiting)) := by
  have e := eventSet_frame { jb with state := JS.ready }
  unfold abortRec
  by_cases hu : jb.unsat = 0
  · rw [if_pos ⟨ha, hu⟩]
    exact ⟨e.2.2.2.2.2.2.2.2.1, e.2.2.2.2.2.2.2.2.2.1, Or.inl ⟨hu, e.2.1⟩⟩
  · rw [if_neg (fun h => hu h.2)]
    exact ⟨rfl, rfl, Or.inr ⟨hu, rfl⟩⟩

/-- the aborted-start tail (after the release of nothing): back to sleep, or straight to a new start. -/
theorem abortTail_effect (fl : Flags) (ha : fl.abortRechecks = true) (s1 : St) (x : Nat) :
    (∀ k, k ≠ x → (abortTail fl s1 x).jobs k = s1.jobs k) ∧ (abortTail fl s1 x).avail = s1.avail ∧
    qJ ((abortTail fl s1 x).jobs x) + (abortTail fl s1 x).threads.length ≤ 7 + s1.threads.length ∧
    gCount (abortTail fl s1 x).ready = gCount s1.ready ∧
    ((abortTail fl s1 x).jobs x).deps = (s1.jobs x).deps ∧
    (((s1.jobs x).unsat = 0 ∧ ((abortTail fl s1 x).jobs x).state = .ready) ∨
     ((s1.jobs x).unsat ≠ 0 ∧ ((abortTail fl s1 x).jobs x).state = .waiting)) ∧
    (((abortTail fl s1 x).jobs x).pc = .evtWait ∨ ((abortTail fl s1 x).jobs x).pc = .lockEnter) := by
  rw [abortTail_eq]
  obtain ⟨f1, _, f3⟩ := abortRec_facts fl ha (s1.jobs x)
  have hnf : (abortRec fl (s1.jobs x)).1.state.finished = false := by
    rcases f3 with ⟨_, e⟩ | ⟨_, e⟩ <;> rw [e] <;> rfl
  have h := put_loopHead_eff s1 x (abortRec fl (s1.jobs x)).1
    (if (abortRec fl (s1.jobs x)).2 = true then [Cb.wake x] else []) hnf (gCount_wake _ x)
  refine ⟨h.2.2.2.2.2.2, h.2.2.1, h.1, h.2.1, by rw [h.2.2.2.2.1]; exact f1, ?_, ?_⟩
  · rw [h.2.2.2.1]; exact f3
  · rcases h.2.2.2.2.2.1 with p | ⟨p, _⟩
    · exact Or.inl p
    · exact Or.inr p



theorem releaseAll_nil_eq (s : St) (x : Nat) : St.releaseAll s x [] = s.put x { (s.jobs x) with held := [] } := by
  simp [St.releaseAll]

theorem aJ_pre (jb : Job) (hp : wPc jb.pc = 4) (hf : jb.state.finished = false) : aJ jb = 9 := by
  simp [aJ, hp, hf]

theorem resume_mu (fl : Flags) (hg : fl.readyGuarded = true) (ha : fl.abortRechecks = true)
    (hrel : fl.abortReleases = true) (s : St) (rest : List Cb) (x : Nat) (hr : s.ready = .resume x :: rest)
    (hT : InvT fl s) : mu (St.runCb fl ({ s with ready := rest } : St) (.resume x)) < mu s := by
  have hC := hT.e.c
  have hI := pop_resume hC.a.ctl hr
  have hxn : x < s.n := hI.1.2.2.2.2
  have hM := runCb_mono fl s (.resume x) rest hC.a.ctl hr
  have hF := runCb_frame fl ({ s with ready := rest } : St) (.resume x)
  have hC' : InvC (St.runCb fl ({ s with ready := rest } : St) (.resume x)) := by
    have := step_invC fl hg s hC
    unfold St.step at this; rw [hr] at this; exact this
  have hgc : gCount s.ready = gCount rest := by rw [hr, gCount_cons]; simp [isPlainB]
  have hD := len_le_dTot s x hxn
  have hRt : ∀ t, (s.tokDeps t).length ≤ dTot s := fun t => Nat.le_trans (hT.r.tok t) (regTot_le_dTot s)
  have hRj : (s.jobDeps x).length ≤ dTot s := Nat.le_trans (hT.r.job x) (regTot_le_dTot s)
  have hJ := hC.d.recs x
  have hQ := hT.e.q x
  refine mu_lt_job x hxn hM.n hM.lens (fun k hk => hF.2.2.2.2.1 k hk) ?_
  simp only [St.runCb]
  cases hp : (s.jobs x).pc with
  | lockExitRun =>
    right
    rw [resume_lockExitRun fl ({ s with ready := rest } : St) x hp]
    refine ⟨?_, by simp [hgc], by simp⟩
    simp only [put_jobs, upd_same, aJ, hp, wPc]
    split <;> omega
  | doneHandler =>
    right
    rw [resume_doneHandler fl ({ s with ready := rest } : St) x hp]
    have hG := doneStep_grow ({ s with ready := rest } : St) x
    refine ⟨?_, ?_, by have := hG.2; simp at this; omega⟩
    · simp only [doneStep, put_jobs, upd_same, aJ, hp, wPc]
      split <;> omega
    · have h1 : gCount (doneStep ({ s with ready := rest } : St) x).ready ≤ gCount rest + ((s.jobDeps x).length + 1) := hG.1
      rw [hgc]; omega
  | codeWait =>
    right
    rw [resume_codeWait fl ({ s with ready := rest } : St) x hp]
    rw [show (({ s with ready := rest } : St).jobs x).held = (s.jobs x).held from rfl]
    have hh := hT.heldRun x (by rw [hp]; rfl)
    have hG1 := releaseAll_grow ({ s with ready := rest } : St) x (dTot s) (s.jobs x).held ({ s with ready := rest } : St) hRt
    have hG2 := codeTail_grow (St.releaseAll ({ s with ready := rest } : St) x (s.jobs x).held) x
    have hG := Grow.trans' hG1 hG2 (Nat.le_refl _) (Nat.le_refl _)
    have hmul : (s.jobs x).held.length * dTot s ≤ dTot s * dTot s := Nat.mul_le_mul_right _ (by omega)
    refine ⟨?_, ?_, by have := hG.2; simpa using this⟩
    · unfold codeTail
      rw [finish_job]
      simp only [put_jobs, upd_same, releaseAll_job]
      have : aJ (s.jobs x) ≥ 4 := by simp [aJ, hp, wPc]
      have h2 : ∀ st : JS, st = .done ∨ st = .error →
          aJ { ({ (s.jobs x) with held := [] } : Job) with state := st, pc := .doneHandler } = 2 := by
        intro st hst; rcases hst with e | e <;> simp [aJ, e, wPc, JS.finished]
      split
      · rw [h2 _ (Or.inl rfl)]; omega
      · rw [h2 _ (Or.inr rfl)]; omega
    · have h1 : gCount (codeTail (St.releaseAll ({ s with ready := rest } : St) x (s.jobs x).held) x).ready ≤
          gCount rest + ((s.jobs x).held.length * dTot s + 0) := hG.1
      rw [hgc]; omega
  | lockExitAbort =>
    -- nothing is held (repair `abortReleases`): the segment only goes back to the loop head
    have hheld : (s.jobs x).held = [] := by
      cases hh : (s.jobs x).held with
      | nil => rfl
      | cons a l =>
        rcases hQ.2 (by rw [hh]; simp) with ⟨e, _⟩ | e | e
        · rw [hrel] at e; cases e
        · rw [hp] at e; cases e
        · rw [hp] at e; cases e
    have hrd := hJ.lockReady (Or.inr hp)
    have hst0 := started_of_pc hJ (by rw [hp]; exact ⟨fun e => (by cases e), fun e => (by cases e)⟩)
    have hcnt := hJ.counter hst0
    left
    rw [resume_lockExitAbort fl ({ s with ready := rest } : St) x hp]
    have hrel0 : St.releaseAll ({ s with ready := rest } : St) x (s.jobs x).held
        = ({ s with ready := rest } : St).put x { (s.jobs x) with held := [] } := by
      rw [hheld]; exact releaseAll_nil_eq _ x
    rw [hrel0]
    obtain ⟨eo, eav, eq, eg, ed, es, epc⟩ := abortTail_effect fl ha
      (({ s with ready := rest } : St).put x { (s.jobs x) with held := [] }) x
    simp only [put_jobs, upd_same, put_avail, put_threads, put_ready, List.append_nil] at eo eav eq eg ed es
    generalize abortTail fl (({ s with ready := rest } : St).put x { (s.jobs x) with held := [] }) x = s' at *
    have eo' : ∀ k, k ≠ x → s'.jobs k = s.jobs k := fun k hk => by rw [eo k hk]; simp [upd_ne _ _ hk]
    have hnf' : (s'.jobs x).state.finished = false := by
      rcases es with ⟨_, e⟩ | ⟨_, e⟩ <;> rw [e] <;> rfl
    have hst : ∀ o, s'.status o = s.status o := status_same_of x eav eo' (by rw [hrd]; rfl) hnf'
    have hS := sBlk_same (s := s) x ed hst
    refine ⟨0, fun k hk => bJ_congr k (eo' k hk) hst, ?_, ?_, ?_⟩
    · rw [aJ_pre (s.jobs x) (by rw [hp]; rfl) (by rw [hrd]; rfl)]
      exact aJ_pre (s'.jobs x) (by rcases epc with e | e <;> rw [e] <;> rfl) hnf'
    · rw [Nat.add_zero]
      have hb0 : bJ s x = if sBlk s x then 0 else 1 := by simp [bJ, hp]
      rw [hb0]
      rcases es with ⟨hu, e⟩ | ⟨hu, e⟩
      · -- all dependencies recorded OK: not blocked
        have hall := cntBad_zero _ (by rw [← hcnt]; exact hu)
        have hnS : sBlk s x = false := by
          cases hS0 : sBlk s x
          · rfl
          · rw [sBlk_iff] at hS0
            obtain ⟨i, hi, hc, _⟩ := hS0
            exact absurd (hall i hi) hc
        rcases epc with e' | e' <;> simp [bJ, e', hS, hnS, e]
      · rcases epc with e' | e' <;> simp [bJ, e', hS, e]
    · have hq0 : qJ (s.jobs x) = 9 := by simp [qJ, hp]
      have eq' : qJ (s'.jobs x) + s'.threads.length ≤ 7 + s.threads.length := eq
      have eg' : gCount s'.ready = gCount rest := eg
      rw [hq0, hgc, eg']; omega
  | lockEnter =>
    have hheld : (s.jobs x).held = [] :=
      heldPc_nil hQ.2 (by rw [hp]; exact ⟨fun e => (by cases e), fun e => (by cases e), fun e => (by cases e)⟩)
    have hrd := hJ.lockReady (Or.inl hp)
    cases hfa : (St.acquireAll ({ s with ready := rest } : St) x (s.jobs x).deps.length 0).2 with
    | none =>
      -- launch
      right
      rw [resume_lockEnter fl ({ s with ready := rest } : St) x hp]
      have hG := acquireAll_grow ({ s with ready := rest } : St) x (s.jobs x).deps.length 0
      generalize St.acquireAll ({ s with ready := rest } : St) x (s.jobs x).deps.length 0 = r at hfa hG
      obtain ⟨s1, fa⟩ := r
      simp only at hfa; subst hfa
      simp only [enterTail]
      refine ⟨?_, ?_, ?_⟩
      · rw [aJ_pre (s.jobs x) (by rw [hp]; rfl) (by rw [hrd]; rfl)]
        simp [aJ, wPc, JS.finished]
      · have h1 : gCount s1.ready ≤ gCount rest + 0 := hG.1
        simp only [put_ready, List.append_nil]; rw [hgc]; omega
      · have h2 : s1.threads.length ≤ s.threads.length + 0 := hG.2
        simp only [put_threads, List.length_append, List.length_singleton]; omega
    | some e =>
      -- aborted start: the budget of `x` pays for the notifications
      left
      have hpc0 : (({ s with ready := rest } : St).jobs x).pc = .lockEnter := hp
      obtain ⟨c1, c2, c3⟩ := abort_changes_nothing fl hrel ({ s with ready := rest } : St) x e hpc0 hheld hfa
      obtain ⟨r1, r2, t, c, ho, hlt⟩ := abort_records_wait fl hrel ({ s with ready := rest } : St) x e hpc0 hheld hfa
        (fun i t c c' hne h1 h2 => hne (hT.nodouble x i e t c' c h2 h1))
      -- growth
      have hGa := acquireAll_grow ({ s with ready := rest } : St) x (s.jobs x).deps.length 0
      have hHl := acquireAll_held_len x (s.jobs x).deps.length 0 ({ s with ready := rest } : St)
      have hFD := acquireAll_frameD ({ s with ready := rest } : St) x (s.jobs x).deps.length 0
      have hGe := enterTail_grow fl (St.acquireAll ({ s with ready := rest } : St) x (s.jobs x).deps.length 0) x (dTot s)
        (by rw [hFD.1]; exact hRt)
      have hG := Grow.trans' hGa hGe (Nat.le_refl _) (Nat.le_refl _)
      rw [← resume_lockEnter fl ({ s with ready := rest } : St) x hp] at hG
      have hhl : ((St.acquireAll ({ s with ready := rest } : St) x (s.jobs x).deps.length 0).1.jobs x).held.length
          ≤ (s.jobs x).deps.length := by
        have : (({ s with ready := rest } : St).jobs x).held.length = 0 := by
          show (s.jobs x).held.length = 0; rw [hheld]; rfl
        omega
      have hmul : ((St.acquireAll ({ s with ready := rest } : St) x (s.jobs x).deps.length 0).1.jobs x).held.length * dTot s
          ≤ dTot s * dTot s := Nat.mul_le_mul_right _ (by omega)
      generalize ((St.acquireAll ({ s with ready := rest } : St) x (s.jobs x).deps.length 0).1.jobs x).held.length * dTot s
        = NN at hG hmul
      have hJ' := hC'.d.recs x
      simp only [St.runCb] at hJ' hM hF
      generalize St.resume fl ({ s with ready := rest } : St) x = s' at *
      have c1' : s'.avail = s.avail := c1
      have hrd' : (s'.jobs x).state = .ready := hJ'.lockReady (Or.inr c3)
      have eo' : ∀ k, k ≠ x → s'.jobs k = s.jobs k := fun k hk => hF.2.2.2.2.1 k hk
      have hst : ∀ o, s'.status o = s.status o :=
        status_same_of x c1' eo' (by rw [hrd]; rfl) (by rw [hrd']; rfl)
      have hS' : sBlk s' x = true := by
        rw [sBlk_iff]
        refine ⟨e, by rw [hM.lens]; exact r1, by rw [r2]; simp, ?_⟩
        rw [hM.origins]
        have ho' : (depAt (s.jobs x) e).origin = .tok t c := ho
        rw [ho', hst]
        have hlt' : s.avail t < c := hlt
        simp only [St.status]
        split
        · omega
        · simp
      refine ⟨1, fun k hk => bJ_congr k (eo' k hk) hst, ?_, ?_, ?_⟩
      · rw [aJ_pre (s.jobs x) (by rw [hp]; rfl) (by rw [hrd]; rfl)]
        exact aJ_pre (s'.jobs x) (by rw [c3]; rfl) (by rw [hrd']; rfl)
      · simp [bJ, c3, hS', hp, hrd]
      · have hq0 : qJ (s.jobs x) = 5 := by simp [qJ, hp]
        have hq1 : qJ (s'.jobs x) = 9 := by simp [qJ, c3]
        have g1 : gCount s'.ready ≤ gCount rest + (0 + NN) := hG.1
        have g2 : s'.threads.length ≤ s.threads.length + (0 + 1) := hG.2
        rw [hq0, hq1, hgc]
        unfold cW
        omega
  | _ =>
    have := hI.2
    rw [hp] at this
    simp [pcKind] at this



/-! ## every enabled `step` / `deliver` event decreases the measure -/

/-- the events of a run without new submissions: a `step` on a non-empty queue, the delivery of a pending thread. -/
def Enabled (s : St) : Ev → Prop
  | .step => s.ready ≠ []
  | .deliver k => k < s.threads.length
  | _ => False

theorem waiterRun_avail (s : St) : s.waiterRun.avail = s.avail := by
  unfold St.waiterRun; split <;> rfl

theorem mu_decreases (fl : Flags) (hg : fl.readyGuarded = true) (ha : fl.abortRechecks = true)
    (hrel : fl.abortReleases = true) (s : St) (hT : InvT fl s) (hnr : nReg s.ready = 0) (ev : Ev)
    (hen : Enabled s ev) : mu (s.apply fl ev) < mu s := by
  have hC := hT.e.c
  cases ev with
  | submit _ _ _ _ => exact absurd hen id
  | wait => exact absurd hen id
  | deliver k =>
    have hk : k < s.threads.length := hen
    simp only [St.apply]
    rw [List.getElem?_eq_getElem hk]
    simp only
    refine mu_lt_queues rfl rfl rfl ?_
    simp only [gCount_append, gCount_cons, gCount_nil, isPlainB, List.length_eraseIdx, hk, if_true,
      Bool.false_eq_true, if_false]
    omega
  | step =>
    have hne : s.ready ≠ [] := hen
    simp only [St.apply]
    unfold St.step
    cases hr : s.ready with
    | nil => exact absurd hr hne
    | cons cb rest =>
      simp only
      have hC' : InvC (St.runCb fl ({ s with ready := rest } : St) cb) := by
        have := step_invC fl hg s hC
        unfold St.step at this; rw [hr] at this; exact this
      have hpop : ∀ (hpl : isPlainB cb = true), 2 * gCount rest + s.threads.length < 2 * gCount s.ready + s.threads.length := by
        intro hpl; rw [hr, gCount_cons, hpl]; simp
      cases cb with
      | register j =>
        rw [hr] at hnr
        have := (isReg_of_nReg hnr).1
        simp [isReg] at this
      | start j => exact start_mu fl s rest j hr hC
      | wake j => exact wake_mu fl s rest j hr hC
      | resume j => exact resume_mu fl hg ha hrel s rest j hr hT
      | check j d =>
        exact check_mu fl hg s _ rest j d hr rfl hC hC' (hC.d.wf.cbOK j d (Or.inl (by rw [hr]; exact List.mem_cons_self ..)))
      | notifyCheck j d =>
        have hok := hC.d.wf.cbOK j d (Or.inr (by rw [hr]; exact List.mem_cons_self ..))
        rcases notifyCheck_cases fl ({ s with ready := rest } : St) j d with e | e
        · rw [e] at hC' ⊢
          exact check_mu fl hg s _ rest j d hr rfl hC hC' hok
        · rw [e]
          exact mu_lt_queues rfl rfl rfl (hpop rfl)
      | waiterRun =>
        have f := waiterRun_jobs ({ s with ready := rest } : St)
        refine mu_lt_queues f.1 f.2.2.2.1 (waiterRun_avail _) ?_
        simp only [St.runCb]
        rw [f.2.1, f.2.2.1]
        exact hpop rfl



/-! ## runs -/

theorem reachable_invT {fl : Flags} (hg : fl.readyGuarded = true) (ha : fl.abortRechecks = true)
    {totals : List Nat} {s : St} (h : Reachable fl totals s) (hnd : NoDoubleTok s) : InvT fl s := by
  refine ⟨reachable_invE hg ha h, reachable_invR hg h, ?_, hnd⟩
  obtain ⟨N, hi⟩ := (reachable_cap h).inv
  intro j hp
  have := (hi.job j).2.1 (by revert hp; cases (s.jobs j).pc <;> simp [pcRun, PC.run])
  rw [this]; simp

theorem noDoubleTok_of_origins {s s' : St} (ho : ∀ j i, (depAt (s'.jobs j) i).origin = (depAt (s.jobs j) i).origin)
    (h : NoDoubleTok s) : NoDoubleTok s' := by
  intro j i i' t c c' h1 h2
  rw [ho] at h1 h2
  exact h j i i' t c c' h1 h2

theorem noDoubleTok_enabled (fl : Flags) (s : St) (hI : Inv1 s) (ev : Ev) (hen : Enabled s ev) (h : NoDoubleTok s) :
    NoDoubleTok (s.apply fl ev) := by
  cases ev with
  | submit _ _ _ _ => exact absurd hen id
  | wait => exact absurd hen id
  | deliver k => simp only [St.apply]; split <;> exact h
  | step =>
    simp only [St.apply]
    unfold St.step
    split
    · exact h
    · rename_i cb rest hr
      exact noDoubleTok_of_origins (runCb_mono fl s cb rest hI hr).origins h

/-- a run of enabled `step` / `deliver` events. -/
def RunOK (fl : Flags) : St → List Ev → Prop
  | _, [] => True
  | s, ev :: evs => Enabled s ev ∧ RunOK fl (s.apply fl ev) evs

theorem evOK_enabled (s : St) (ev : Ev) (hen : Enabled s ev) : EvOK s ev := by
  cases ev with
  | submit _ _ _ _ => exact absurd hen id
  | _ => trivial

/-- along a run the state stays reachable and the measure pays one unit per event. -/
theorem run_bound {fl : Flags} (hg : fl.readyGuarded = true) (hf : fl.resubmitRegisters = true)
    (ha : fl.abortRechecks = true) (hrel : fl.abortReleases = true) {totals : List Nat} (evs : List Ev) :
    ∀ s, Reachable fl totals s → NoDoubleTok s → RunOK fl s evs →
      Reachable fl totals (evs.foldl (St.apply fl) s) ∧ NoDoubleTok (evs.foldl (St.apply fl) s) ∧
      evs.length + mu (evs.foldl (St.apply fl) s) ≤ mu s := by
  induction evs with
  | nil => intro s h hnd _; exact ⟨h, hnd, by simp⟩
  | cons ev evs ih =>
    intro s h hnd hrun
    obtain ⟨hen, hrest⟩ := hrun
    have hT := reachable_invT hg ha h hnd
    have hdec := mu_decreases fl hg ha hrel s hT (reachable_invB hg hf h).noreg ev hen
    have h' : Reachable fl totals (s.apply fl ev) := .next h (evOK_enabled s ev hen)
    have hnd' := noDoubleTok_enabled fl s hT.e.c.a.ctl ev hen hnd
    obtain ⟨r1, r2, r3⟩ := ih (s.apply fl ev) h' hnd' hrest
    refine ⟨r1, r2, ?_⟩
    simp only [List.foldl_cons, List.length_cons]
    omega

/-- a state in which no `step` / `deliver` event is enabled. -/
theorem quiescent_of_not_enabled (s : St) (h : ∀ ev, ¬ Enabled s ev) : s.ready = [] ∧ s.threads = [] := by
  constructor
  · cases hr : s.ready with
    | nil => rfl
    | cons a l => exact absurd (show Enabled s .step by simp [Enabled, hr]) (h .step)
  · cases ht : s.threads with
    | nil => rfl
    | cons a l => exact absurd (show Enabled s (.deliver 0) by simp [Enabled, ht]) (h (.deliver 0))

theorem tokFit_enabled (fl : Flags) (s : St) (ev : Ev) (hen : Enabled s ev) (h : TokFit s) : TokFit (s.apply fl ev) :=
  tokFit_apply fl s ev (by cases ev <;> first | trivial | exact absurd hen id) h

theorem tokFit_run (fl : Flags) (evs : List Ev) : ∀ s, RunOK fl s evs → TokFit s → TokFit (evs.foldl (St.apply fl) s) := by
  induction evs with
  | nil => intro s _ h; exact h
  | cons ev evs ih => intro s hr h; exact ih _ hr.2 (tokFit_enabled fl s ev hr.1 h)



/-! ## `NoDoubleTok` from the events; existence of maximal runs -/

def tokOf : Origin → Option Nat
  | .tok t _ => some t
  | _ => none

/-- a submission names each token at most once. -/
def EvNoDouble : Ev → Prop
  | .submit _ deps _ _ => (deps.filterMap tokOf).Nodup
  | _ => True

instance (ev : Ev) : Decidable (EvNoDouble ev) := by
  cases ev <;> unfold EvNoDouble <;> infer_instance

theorem nodup_filterMap_index (l : List Origin) (h : (l.filterMap tokOf).Nodup) :
    ∀ (i i' t c c' : Nat), l[i]? = some (Origin.tok t c) → l[i']? = some (Origin.tok t c') → i = i' := by
  induction l with
  | nil => intro i i' t c c' h1; simp at h1
  | cons a l ih =>
    intro i i' t c c' h1 h2
    have hmem : ∀ (k c'' : Nat), l[k]? = some (Origin.tok t c'') → t ∈ l.filterMap tokOf := by
      intro k c'' hk
      rw [List.mem_filterMap]
      exact ⟨.tok t c'', List.mem_of_getElem? hk, rfl⟩
    cases ha : tokOf a with
    | none =>
      have hl : (l.filterMap tokOf).Nodup := by simpa [List.filterMap_cons, ha] using h
      cases i with
      | zero => simp at h1; rw [h1] at ha; simp [tokOf] at ha
      | succ i =>
        cases i' with
        | zero => simp at h2; rw [h2] at ha; simp [tokOf] at ha
        | succ i' => simp at h1 h2; rw [ih hl i i' t c c' h1 h2]
    | some ta =>
      have hl : ta ∉ l.filterMap tokOf ∧ (l.filterMap tokOf).Nodup := by
        simpa [List.filterMap_cons, ha] using h
      cases i with
      | zero =>
        simp at h1
        cases i' with
        | zero => rfl
        | succ i' =>
          simp at h2
          rw [h1] at ha; simp [tokOf] at ha; subst ha
          exact absurd (hmem i' c' h2) hl.1
      | succ i =>
        simp at h1
        cases i' with
        | zero =>
          simp at h2
          rw [h2] at ha; simp [tokOf] at ha; subst ha
          exact absurd (hmem i c h1) hl.1
        | succ i' => simp at h2; rw [ih hl.2 i i' t c c' h1 h2]

theorem newJob_origin_tok (s : St) (ident : Nat) (deps : List Origin) (code : Nat) (marker : Bool) (i t c : Nat)
    (h : (depAt (newJob s ident deps code marker) i).origin = .tok t c) : deps[i]? = some (Origin.tok t c) := by
  unfold depAt newJob at h
  simp only [List.getD_eq_getElem?_getD, List.getElem?_map] at h
  cases hd : deps[i]? with
  | none => rw [hd] at h; simp at h; cases h
  | some o =>
    rw [hd] at h
    simp only [Option.map_some, Option.getD_some] at h
    cases o with
    | job d => simp at h
    | tok t' c' => simp at h; rw [h.1, h.2]

theorem step_noDoubleTok (fl : Flags) (s : St) (hI : Inv1 s) (h : NoDoubleTok s) : NoDoubleTok (s.step fl) := by
  unfold St.step; split
  · exact h
  · rename_i cb rest hr
    exact noDoubleTok_of_origins (runCb_mono fl s cb rest hI hr).origins h

theorem noDoubleTok_apply (fl : Flags) (hg : fl.readyGuarded = true) (s : St) (ev : Ev) (hA : InvA s)
    (hnd : EvNoDouble ev) (h : NoDoubleTok s) : NoDoubleTok (s.apply fl ev) := by
  cases ev with
  | step => exact step_noDoubleTok fl s hA.ctl h
  | wait => exact h
  | deliver k => simp only [St.apply]; split <;> exact h
  | submit ident deps code marker =>
    rw [apply_submit]
    have h0 : NoDoubleTok (submitPre s ident deps code marker) := by
      intro j i i' t c c' h1 h2
      by_cases hj : j = s.n
      · subst hj
        have e : (submitPre s ident deps code marker).jobs s.n = newJob s ident deps code marker := by
          simp only [submitPre, upd_same]
        rw [e] at h1 h2
        exact nodup_filterMap_index deps hnd i i' t c c' (newJob_origin_tok s ident deps code marker i t c h1)
          (newJob_origin_tok s ident deps code marker i' t c' h2)
      · rw [submitPre_jobs_ne _ _ _ _ _ _ hj] at h1 h2
        exact h j i i' t c c' h1 h2
    have h1 := steps_ind (fun s' => InvA s' ∧ NoDoubleTok s') fl
      (fun s' hs' => ⟨step_invA fl hg s' hs'.1, step_noDoubleTok fl s' hs'.1.ctl hs'.2⟩)
      (s.ready.length + 1) _ ⟨submitPre_invA s ident deps code marker hA, h0⟩
    generalize St.steps fl (submitPre s ident deps code marker) (s.ready.length + 1) = s2 at h1
    refine noDoubleTok_of_origins ?_ h1.2
    intro j i
    by_cases hj : j = s.n
    · subst hj
      unfold submitPost; split
      · rfl
      · simp [depAt]
    · rw [submitPost_jobs_ne _ _ _ hj]

theorem noDoubleTok_foldl {fl : Flags} (hg : fl.readyGuarded = true) {totals : List Nat} (evs : List Ev) :
    ∀ s, Reachable fl totals s → runOK fl s evs = true → (∀ ev ∈ evs, EvNoDouble ev) → NoDoubleTok s →
      NoDoubleTok (evs.foldl (St.apply fl) s) := by
  induction evs with
  | nil => intro s _ _ _ h; exact h
  | cons ev evs ih =>
    intro s hR hok hnd h
    simp only [runOK, Bool.and_eq_true] at hok
    exact ih _ (.next hR (evOKb_sound s ev hok.1)) hok.2 (fun e he => hnd e (List.mem_cons_of_mem _ he))
      (noDoubleTok_apply fl hg s ev (reachable_invA hg hR) (hnd ev (List.mem_cons_self ..)) h)

theorem noDoubleTok_runEvs {fl : Flags} (hg : fl.readyGuarded = true) (totals : List Nat) (evs : List Ev)
    (hok : runOK fl (St.init totals) evs = true) (hnd : ∀ ev ∈ evs, EvNoDouble ev) :
    NoDoubleTok (runEvs fl totals evs) :=
  noDoubleTok_foldl hg evs _ .init hok hnd (fun j i i' t c c' h1 => by
    have : (depAt ((St.init totals).jobs j) i).origin = .job 0 := rfl
    rw [this] at h1; cases h1)

/-- from every reachable state (no doubled token) some run of `step` / `deliver` events reaches quiescence. -/
theorem maximal_run_exists {fl : Flags} (hg : fl.readyGuarded = true) (hf : fl.resubmitRegisters = true)
    (ha : fl.abortRechecks = true) (hrel : fl.abortReleases = true) {totals : List Nat} :
    ∀ m s, mu s ≤ m → Reachable fl totals s → NoDoubleTok s →
      ∃ evs, RunOK fl s evs ∧ (evs.foldl (St.apply fl) s).ready = [] ∧ (evs.foldl (St.apply fl) s).threads = [] := by
  intro m
  induction m with
  | zero =>
    intro s hm h hnd
    refine ⟨[], trivial, ?_⟩
    apply quiescent_of_not_enabled
    intro ev hen
    have := mu_decreases fl hg ha hrel s (reachable_invT hg ha h hnd) (reachable_invB hg hf h).noreg ev hen
    omega
  | succ m ih =>
    intro s hm h hnd
    by_cases hq : s.ready = [] ∧ s.threads = []
    · exact ⟨[], trivial, hq⟩
    · have : ∃ ev, Enabled s ev := by
        cases hr : s.ready with
        | cons a l => exact ⟨.step, by simp [Enabled, hr]⟩
        | nil =>
          cases ht : s.threads with
          | cons a l => exact ⟨.deliver 0, by simp [Enabled, ht]⟩
          | nil => exact absurd ⟨hr, ht⟩ hq
      obtain ⟨ev, hen⟩ := this
      have hdec := mu_decreases fl hg ha hrel s (reachable_invT hg ha h hnd) (reachable_invB hg hf h).noreg ev hen
      obtain ⟨evs, h1, h2⟩ := ih (s.apply fl ev) (by omega) (.next h (evOK_enabled s ev hen))
        (noDoubleTok_enabled fl s (reachable_invA hg h).ctl ev hen hnd)
      exact ⟨ev :: evs, ⟨hen, h1⟩, h2⟩

/-- executable form of `RunOK` (for examples). -/
def enabledB (s : St) : Ev → Bool
  | .step => !s.ready.isEmpty
  | .deliver k => decide (k < s.threads.length)
  | _ => false

def runOKb (fl : Flags) : St → List Ev → Bool
  | _, [] => true
  | s, ev :: evs => enabledB s ev && runOKb fl (s.apply fl ev) evs

theorem enabledB_sound (s : St) (ev : Ev) (h : enabledB s ev = true) : Enabled s ev := by
  cases ev with
  | step => simp only [enabledB, Bool.not_eq_true', List.isEmpty_eq_false_iff] at h; exact h
  | deliver k => simp only [enabledB, decide_eq_true_eq] at h; exact h
  | _ => simp [enabledB] at h

theorem runOK_of_b (fl : Flags) (evs : List Ev) : ∀ s, runOKb fl s evs = true → RunOK fl s evs := by
  induction evs with
  | nil => intro s _; trivial
  | cons ev evs ih =>
    intro s h
    simp only [runOKb, Bool.and_eq_true] at h
    exact ⟨enabledB_sound s ev h.1, ih _ h.2⟩


end XpmVerif.SchedFinal
