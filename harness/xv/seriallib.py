"""Shared by C12 / C13: generators on top of xv.gen.cfggen (DataPath arguments, tags, root choice,
structures of configurations for state_dict), worker / driver plumbing, comparison."""
import copy
import json
import os

from . import common, identlib
from .gen import cfggen

WORKER = "xv.impl.serial_worker"
DRIVER = "Serial"
TAGVALS = ["bm25", 1, 0.5, "x y", 3, True, 0, False]
DATA_PAIRS = [("/XVDATA/q/model.bin", "/XVDATA/d/model.bin"), ("/XVDATA/q/weights.pt", "/XVDATA/d/weights.pt")]
DATA_POOL = [f"/XVDATA/f{i}.bin" for i in range(8)] + [p for pair in DATA_PAIRS for p in pair]


DUNDERS = ["len", "bool", "eq", "iter", "getattr"]


def gen_lib(rng, tag, data=True, dunders=None):
    """a cfggen library; some configuration classes additionally get a DataPath argument `dp`; some classes
    (configurations, tasks, lightweight tasks) define special methods — `__len__` (length of a container parameter,
    often 0), `__bool__` (False), `__eq__`/`__hash__` (all objects of the class are equal), `__iter__`, `__getattr__`
    (default for unknown attributes) — that the machinery must not depend on"""
    lib = cfggen.gen_library(rng, tag)
    dunders = DUNDERS if dunders is None else dunders
    if dunders:
        pkg = lib["pkg"]
        lib["classes"][2:2] = [
            {"name": "LWE", "xpmid": f"{pkg}.lwe", "parent": None, "kind": "light", "deprecated": False, "dunder": [d for d in ("len",) if d in dunders],
             "args": [{"name": "items", "decl": "param", "ty": {"list": "int"}, "optional": False, "default": {"l": []}}]},
            {"name": "LWB", "xpmid": f"{pkg}.lwb", "parent": None, "kind": "light", "deprecated": False,
             "dunder": [d for d in ("bool", "eq") if d in dunders],
             "args": [{"name": "v", "decl": "param", "ty": "int", "optional": False}]}]
        for c in lib["classes"]:
            if c["name"].startswith("C") and rng.random() < 0.4:
                k = rng.choice([1, 1, 2, 3])
                c["dunder"] = sorted(rng.sample(dunders, min(k, len(dunders))))
                if c["kind"] == "task":
                    # `submit` probes the optional hook `task_outputs` with hasattr(): a catch-all __getattr__ on a task class
                    # answers it with None (outside C12/C13: noted in the report, not generated)
                    c["dunder"] = [d for d in c["dunder"] if d != "getattr"]
    if data:
        for c in lib["classes"]:
            if c["name"].startswith("C") and rng.random() < 0.35:
                inherited = {a["name"] for a in cfggen.all_args(lib, c["name"])}
                if "dp" not in inherited and "dp2" not in inherited:
                    c["args"].append({"name": "dp", "decl": "data", "ty": "path", "optional": False})
                    if rng.random() < 0.5:      # two data files held by ONE configuration
                        c["args"].append({"name": "dp2", "decl": "data", "ty": "path", "optional": False})
    return lib


def kind_of(lib, cname):
    return next(c for c in lib["classes"] if c["name"] == cname)["kind"]


def type_keys(rng, v, p=0.3):
    """dictionaries with a key "type" (finding F9: written wrapped as {"type": "dict", "value": …} since fix 738540e), sometimes
    together with a key "value" (the shape of a serialised object), at any depth"""
    if isinstance(v, dict):
        if "l" in v:
            return {"l": [type_keys(rng, x, p) for x in v["l"]]}
        if "d" in v:
            items = [[k, type_keys(rng, x, p)] for k, x in v["d"]]
            keys = [k for k, _ in items]
            if items and "type" not in keys and rng.random() < p:
                i = rng.randrange(len(items))
                items[i][0] = "type"
                if len(items) > 1 and "value" not in keys and rng.random() < 0.5:
                    j = rng.choice([x for x in range(len(items)) if x != i])
                    items[j][0] = "value"
            return {"d": items}
    return v


# set by props/c13.py: dictionary keys that the path encoding of the configuration walk rewrites ('/', '%', '', '.', '..') — the runtime
# objects must keep the configuration's own keys (seeded change C13h); off elsewhere: the random streams of the other checks are unchanged
PATH_KEYS = False
_PATH_KEYS = ["a/b", "50%", "..", ".", "", "%2F", "x/"]


def path_keys(rng, v, p=0.5):
    if isinstance(v, dict):
        if "l" in v:
            return {"l": [path_keys(rng, x, p) for x in v["l"]]}
        if "d" in v:
            items = [[k, path_keys(rng, x, p)] for k, x in v["d"]]
            for i in range(len(items)):
                if items[i][0] not in ("type", "value") and rng.random() < p:
                    free = [k for k in _PATH_KEYS if k not in [kk for kk, _ in items]]
                    if free:
                        items[i][0] = rng.choice(free)
            return {"d": items}
    return v


def gen_graph(rng, lib, max_nodes=8, cycles=True, task_links=True, tags=True):
    g = cfggen.gen_graph(rng, lib, max_nodes=max_nodes, cycles=cycles)
    for nd in g["nodes"]:
        data = {a["name"] for a in cfggen.all_args(lib, nd["cls"]) if a["decl"] == "data"}
        # data files: often two files with the same base name in different directories (different contents)
        pair = rng.choice(DATA_PAIRS) if len(data) > 1 and rng.random() < 0.6 else None
        if pair and rng.random() < 0.5:
            pair = pair[::-1]
        pool = iter(pair or ())
        nd["values"] = [[k, ({"p": next(pool, None) or rng.choice(DATA_POOL)} if k in data else type_keys(rng, v))] for k, v in nd["values"]]
        if PATH_KEYS:
            nd["values"] = [[k, v if k in data else path_keys(rng, v)] for k, v in nd["values"]]
        if not task_links:
            nd["task"] = None
        if tags and rng.random() < 0.25:
            nd["tags"] = [[rng.choice(["model", "lr", "k"]), rng.choice(TAGVALS)] for _ in range(rng.choice([1, 2]))]
    add_pretask_repeats(rng, g)
    if any(c["name"] == "LWE" for c in lib["classes"]):
        for nd in g["nodes"]:      # lightweight tasks that are empty containers / false / all equal
            if nd["cls"] == "LW" and rng.random() < 0.5:
                if rng.random() < 0.5:
                    nd["cls"] = "LWB"
                else:
                    nd["cls"] = "LWE"
                    nd["values"] = [] if rng.random() < 0.4 else [["items", {"l": [] if rng.random() < 0.6 else [1, 2]}]]
    return g


def add_pretask_repeats(rng, g):
    """pre-task lists are plain lists (`add_pretasks` / `add_pretasks_from` do not de-duplicate): the same
    lightweight task may occur several times in the list of one node and in the lists of several nodes, in any order"""
    nodes = g["nodes"]
    n0 = len(nodes)
    lw = lambda: {"cls": "LW", "values": [["v", rng.choice([1, 2, 3])]], "meta": None, "pre": [], "init": [], "task": None}
    hosts = [i for i, nd in enumerate(nodes) if nd["cls"] not in ("LW", "LW2")]
    if not hosts:
        return
    r = rng.random()
    if r < 0.18:      # a fresh pre-task listed twice (or three times) by one node only
        i = rng.choice(hosts)
        nodes.append(lw())
        k = len(nodes) - 1
        nodes[i]["pre"] += [k] * rng.choice([2, 2, 3])
        if rng.random() < 0.4:   # ... around another one: [p, q, p]
            nodes.append(lw())
            nodes[i]["pre"].insert(1, len(nodes) - 1)
    elif r < 0.30:    # two pre-tasks shared by two nodes in opposite orders, one of them repeated
        nodes.append(lw())
        nodes.append(lw())
        p, q = len(nodes) - 2, len(nodes) - 1
        i = rng.choice(hosts)
        j = rng.choice(hosts)
        nodes[i]["pre"] += [p, q, p] if rng.random() < 0.5 else [p, q]
        if j != i:
            nodes[j]["pre"] += [q, p, q] if rng.random() < 0.5 else [q, p]
    elif r < 0.40:    # repeat an existing entry of some list
        having = [i for i in hosts if nodes[i]["pre"]]
        if having:
            i = rng.choice(having)
            nodes[i]["pre"].append(rng.choice(nodes[i]["pre"]))


def gen_value(rng, g):
    """a list/dict structure of configurations of the graph (argument of state_dict / save)"""
    n = len(g["nodes"])
    r = rng.random()
    if r < 0.35:
        return {"r": 0}
    if r < 0.7:
        return {"l": [{"r": rng.randrange(n)} for _ in range(rng.choice([1, 2, 3]))]}
    ks = rng.sample(cfggen.KEYS + ["type", "value", "type"], rng.choice([1, 2, 3]))
    ks = list(dict.fromkeys(ks))
    return {"d": [[k, ({"r": rng.randrange(n)} if rng.random() < 0.7 else {"l": [{"r": rng.randrange(n)}, {"r": 0}]})] for k in ks]}


def graph_stats(lib, g):
    st = identlib.graph_stats(g)
    st["data"] = sum(1 for nd in g["nodes"] for k, v in nd["values"] if isinstance(v, dict) and str(v.get("p", "")).startswith("/XVDATA"))
    st["data2"] = sum(1 for nd in g["nodes"] if len({os.path.basename(v["p"]) for k, v in nd["values"] if isinstance(v, dict) and str(v.get("p", "")).startswith("/XVDATA")})
                      < sum(1 for k, v in nd["values"] if isinstance(v, dict) and str(v.get("p", "")).startswith("/XVDATA")))
    st["meta_false"] = sum(1 for nd in g["nodes"] if nd["meta"] is False)
    st["paths"] = sum(1 for nd in g["nodes"] for k, v in nd["values"] if isinstance(v, dict) and "p" in v)
    st["tags"] = sum(len(nd.get("tags", [])) for nd in g["nodes"])
    st["typekey"] = sum(1 for nd in g["nodes"] for k, v in nd["values"] if has_type_key(v))
    st["prerepeat"] = sum(1 for nd in g["nodes"] if len(set(nd["pre"])) < len(nd["pre"]))
    dun = {c["name"] for c in lib["classes"] if c.get("dunder")}
    st["dunder"] = sum(1 for nd in g["nodes"] if nd["cls"] in dun)
    return st


def has_type_key(v):
    if isinstance(v, dict):
        if "l" in v:
            return any(has_type_key(x) for x in v["l"])
        if "d" in v:
            return any(k == "type" or has_type_key(x) for k, x in v["d"])
    return False


def run(ctx, libs, cases, shards=8):
    return identlib.run_cases(ctx, libs, cases, shards=shards, module=WORKER)[None]


def model_outputs(ctx, records, chunks=8):
    """the driver keeps no state across cases (every case re-sends library and graph): run the chunks in parallel"""
    from concurrent.futures import ThreadPoolExecutor
    n = len(records)
    if n < 64:
        return identlib.model_outputs(ctx, records, driver=DRIVER)
    size = (n + chunks - 1) // chunks
    parts = [records[i:i + size] for i in range(0, n, size)]
    with ThreadPoolExecutor(max_workers=chunks) as ex:
        outs = list(ex.map(lambda part: identlib.model_outputs(ctx, part, driver=DRIVER), parts))
    return [o for part in outs for o in part]


def _refs(v):
    if isinstance(v, dict):
        if "r" in v:
            return [v["r"]]
        if "l" in v:
            return [r for x in v["l"] for r in _refs(x)]
        if "d" in v:
            return [r for _, x in v["d"] for r in _refs(x)]
    return []


def canon_log(log, attrs=None):
    """a call log (events `new` / `init` / `post` + names of the parameters already set / `exec` / `body`, objects named by
    their configuration) up to the order C13 leaves free.  The property (Properties/C13.lean) fixes, per object, the
    sequence of what happens to it (created once, `__init__`, its parameters, `__post_init__` once with all of them set),
    that an object exists when a `__post_init__` receives it in a parameter, that everything is built before anything is
    executed, and the sequence of executions (pre-tasks in first-occurrence order, init tasks in the order given, body
    last); it fixes no order between the construction events of DIFFERENT objects (e.g. all `__post_init__` calls moved
    after the last assignment is the same behaviour).  Kept exactly: the per-object sequences, the execution sequence;
    kept as facts: `built_before_executions`, `post_init_sees_existing_objects`."""
    objects, execs, late_build = {}, [], False
    created_at, post_at = {}, []
    for i, ev in enumerate(log):
        kind, k = ev[0], ev[1]
        if kind in ("exec", "body"):
            execs.append(list(ev))
            continue
        if execs:
            late_build = True
        objects.setdefault(json.dumps(k), []).append([kind] + list(ev[2:]))
        if kind == "new":
            created_at.setdefault(json.dumps(k), i)
        elif kind == "post":
            post_at.append((i, k))
    out = {"objects": sorted([k, v] for k, v in objects.items()), "executions": execs, "built_before_executions": not late_build}
    if attrs is not None and created_at:
        held = {json.dumps(k): [r for _, v in fields for r in _refs(v)] for k, fields in attrs}
        out["post_init_sees_existing_objects"] = all(
            created_at.get(json.dumps(r), len(log)) < i for i, k in post_at for r in held.get(json.dumps(k), []))
    return out


def norm(x):
    """order-insensitive where the real code iterates over a set (store contents) and where the property leaves the
    order free (`canon_log`; the attribute table is a table: sorted by object)"""
    if isinstance(x, dict) and "store" in x:
        x = dict(x)
        x["store"] = sorted(x["store"])
        x.pop("pre", None)
    if isinstance(x, dict) and isinstance(x.get("tags"), list):     # a dictionary: the property fixes no order of the tags
        x = dict(x)
        x["tags"] = sorted(x["tags"], key=lambda kv: kv[0])
    if isinstance(x, dict) and isinstance(x.get("dir"), list):      # a directory: name -> content (first binding wins), no order
        x = dict(x)
        seen = {}
        for k, c in x["dir"]:
            seen.setdefault(k, c)
        x["dir"] = sorted([k, c] for k, c in seen.items())
        if isinstance(x.get("gen2"), dict):
            x["gen2"] = norm(x["gen2"])
    if isinstance(x, dict) and isinstance(x.get("log"), list):
        x = dict(x)
        x["log"] = canon_log(x["log"], x.get("attrs"))
        if isinstance(x.get("attrs"), list):
            x["attrs"] = sorted(x["attrs"], key=lambda a: json.dumps(a[0]))
    return x


def compare(ctx, case_desc, rec, mouts, what):
    """line-by-line comparison of the model's output with the implementation's; returns the number of lines compared"""
    n = 0
    for i, (line, m, im) in enumerate(zip(rec["lines"], mouts, rec["impl"])):
        n += 1
        if norm(m) != norm(im):
            small = {k: v for k, v in line.items() if k not in ("nodes", "classes")}
            ctx.disagree({"case": case_desc, "at_line": i, "line": small}, _first_diff(norm(m), norm(im)), None, f"{what}: op {line.get('op')}")
            return n
    return n


def _first_diff(a, b, path=""):
    if type(a) is not type(b):
        return f"{path}: model {json.dumps(a)[:300]} / impl {json.dumps(b)[:300]}"
    if isinstance(a, dict):
        for k in sorted(set(a) | set(b)):
            if a.get(k) != b.get(k):
                return _first_diff(a.get(k), b.get(k), f"{path}.{k}")
    if isinstance(a, list):
        if len(a) != len(b):
            return f"{path}: lengths model {len(a)} / impl {len(b)}: {json.dumps(a)[:200]} / {json.dumps(b)[:200]}"
        for i, (x, y) in enumerate(zip(a, b)):
            if x != y:
                return _first_diff(x, y, f"{path}[{i}]")
    return f"{path}: model {json.dumps(a)[:300]} / impl {json.dumps(b)[:300]}"


def install_local_findings(prop):
    """known_findings.json is assembled by the lead from known_findings.d/*.json; until then read the
    fragment of this property directly (entries already present in the assembled file win)."""
    orig = common.load_findings
    if getattr(orig, "_xv_local", False):
        return

    def load(p):
        res = orig(p)
        frag = common.VERIF / "known_findings.d" / f"{p}.json"
        if frag.exists():
            have = {f.get("id") for f in res}
            res = res + [f for f in json.loads(frag.read_text()) if f.get("property") == p and f.get("id") not in have]
        return res

    load._xv_local = True
    common.load_findings = load


# ----------------------------------------------------------------- check skeleton shared by c12.py / c13.py


def feature_key(st):
    return "+".join(k for k in ("files", "dunder", "meta", "pre", "prerepeat", "init", "taskout", "data", "data2", "paths", "tags", "typekey", "cyclic") if st.get(k)) or "plain"


def make_cases(ctx, rng, kind, nlibs, per, tag):
    """(libs, cases): `kind` in {"c12", "c13"}"""
    libs, cases = [], []
    for li in range(nlibs):
        lib = gen_lib(rng, f"{tag}_{ctx.seed}_{li}")
        libs.append(lib)
        for _ in range(per):
            for _ in range(4):   # single-node graphs are kept with probability 1/4 only
                g = gen_graph(rng, lib, max_nodes=rng.choice([2, 4, 6, 9, 12]))
                if len(g["nodes"]) > 1 or rng.random() < 0.25:
                    break
            if kind == "c12" and len(g["nodes"]) > 10 and identlib.has_cycle(g):
                # the cache-free identifier specification re-hashes a cyclic region once per path (SHA-256 runs in the Lean
                # interpreter): large cyclic graphs are left to C01/C13, C12 keeps cyclic graphs of at most 10 nodes
                g = gen_graph(rng, lib, max_nodes=rng.choice([4, 6, 8]))
            c = {"lib": li, "kind": kind, "graph": g, "root_is_task": kind_of(lib, g["nodes"][0]["cls"]) == "task"}
            if kind == "c12":
                c["value"] = gen_value(rng, g) if rng.random() < 0.5 else None
                c["save"] = rng.random() < 0.5
                c["job"] = rng.random() < 0.6
                c["gen2"] = rng.random() < 0.6
                if rng.random() < 0.5:   # 2-3 generations through a mix of entry points
                    c["routes"] = [rng.choice(["json", "state", "save", "state+mix"]) for _ in range(rng.choice([2, 2, 3]))]
            else:
                if rng.random() < 0.35 and len(g["nodes"]) > 1:
                    c["first"] = rng.randrange(1, len(g["nodes"]))
            cases.append(c)
    return libs, cases


def make_proc_cases(ctx, rng, which, nlibs, per, tag):
    libs, cases = [], []
    for li in range(nlibs):
        lib = gen_lib(rng, f"{tag}_{ctx.seed}_{li}")
        libs.append(lib)
        n = tries = 0
        while n < per and tries < per * 30:
            tries += 1
            g = gen_graph(rng, lib, max_nodes=rng.choice([3, 6, 9]), cycles=False, task_links=False)
            if kind_of(lib, g["nodes"][0]["cls"]) != "task" or identlib.has_cycle(g):
                continue
            n += 1
            cases.append({"lib": li, "kind": "proc", "graph": g, "monitors": which, "root_is_task": True})
    return libs, cases


FILE_POOL = ["train.Settings", "train.Only", "a.Settings", "a.Only", "b.Settings", "b.Only", "eval.Settings", "eval.Only"]


def make_file_cases(ctx, rng, n):
    """configurations whose classes live in plain scripts / top-level modules (recorded with "file"): two scripts
    both run as `__main__` and two `defs.py` in different directories; same-named and differently-named classes"""
    cases = []
    for i in range(n):
        same_only = rng.random() < 0.5     # only the same-named classes: a wrong lookup is silent
        pool = [k for k in FILE_POOL if k.endswith(".Settings")] if same_only else list(FILE_POOL)
        order = rng.sample(pool, rng.randrange(max(2, len(pool) - 3), len(pool) + 1))
        if not {"a", "b"} <= {k.split(".")[0] for k in order}:   # both files named `defs` are present
            order += [k for k in ("a.Settings", "b.Settings") if k not in order]
        if "train.Settings" not in order and rng.random() < 0.8:  # both `__main__` scripts are present (Holder is in evaluate.py)
            order.insert(rng.randrange(len(order) + 1), "train.Settings")
        if rng.random() < 0.5:
            order.append(rng.choice(order))     # a shared object
        rng.shuffle(order)
        spec = {"x": {t: rng.choice([1, 2, 3, 7, 12, 255]) for t in ("train", "a", "b", "eval")}, "order": order,
                "first": rng.choice(pool), "dict": rng.sample(pool, rng.choice([0, 1, 2]))}
        cases.append({"lib": 0, "kind": "files", "spec": spec, "graph": {"nodes": []}})
    return cases


def case_desc(libs, c):
    d = {k: v for k, v in c.items() if k != "lib"}
    d["lib"] = libs[c["lib"]]
    return d


def evaluate(ctx, libs, cases, recs, what, with_model=True):
    """monitors -> ctx.monitor_fail, evidence counters, then the comparison with the Lean model"""
    errs = 0
    for c, r in zip(cases, recs):
        if c["kind"] == "files":
            st = {"nodes": len(set(c["spec"]["order"])) + 1, "shared": 0, "refs": len(c["spec"]["order"]), "files": 1}
        else:
            st = graph_stats(libs[c["lib"]], c["graph"])
        ctx.count("nodes", min(st["nodes"], 15))
        ctx.count("shared", min(st["shared"], 3))
        ctx.count("features", feature_key(st))
        ctx.count("kind", c["kind"] + (":" + c.get("monitors", "") if c["kind"] == "proc" else ""))
        if r["error"]:
            errs += 1
            ctx.count("case_errors", r["error"][:80])
            continue
        for k, v in r.get("stats", {}).items():
            if isinstance(v, (bool, str)):
                ctx.count("stat:" + k, v)
        small = {"lib": libs[c["lib"]]["pkg"], **{k: v for k, v in c.items() if k != "lib"}}
        ctx.case(small, st["refs"] >= 1)
        for m in r["monitors"]:
            ctx.count("monitor", m["key"])
            ctx.monitor_fail(m["key"], m["what"], {"case": case_desc(libs, c), "detail": m.get("detail")})
    if errs > max(3, len(cases) // 10):
        first = next(r for r in recs if r["error"])
        raise RuntimeError(f"{errs}/{len(cases)} generated cases could not be run: {first['error']}\n{first.get('trace', '')}")
    if not with_model:
        return
    good = [(c, r) for c, r in zip(cases, recs) if not r["error"] and r["lines"]]
    if not good:
        return
    try:
        mouts = model_outputs(ctx, [r for _, r in good])
    except Exception as e:
        ctx.disagree({"driver": DRIVER}, None, None, f"model driver failed: {e}")
        return
    for (c, r), mo in zip(good, mouts):
        ctx.traces_validated += 1
        n = compare(ctx, {"lib": libs[c["lib"]]["pkg"], "graph": c["graph"], "root": c.get("root", 0), "value": c.get("value"), "spec": c.get("spec")}, r, mo, what)
        ctx.count("model_lines_compared", "total", n)
        for line in r["lines"]:
            ctx.count("ops", line["op"])


def replay_cases(ctx, obj, kinds):
    """re-run the failing inputs recorded in a replay file (implementation-only monitors)"""
    n = 0
    for f in obj.get("failures", []):
        c = (f.get("case") or {}).get("case")
        if not c or c.get("kind") not in kinds:
            continue
        lib = c["lib"]
        case = dict(c)
        case["lib"] = 0
        rec = run(ctx, [lib], [case], shards=1)[0]
        n += 1
        if rec["error"]:
            ctx.notes.append(f"replayed case raised {rec['error']}")
            continue
        for m in rec["monitors"]:
            ctx.monitor_fail(m["key"], m["what"], {"case": c, "detail": m.get("detail")})
    return n
