import XpmVerif.Model.Ident
/-! M6w: dependency collection at submission (`core/objects.py` `updatedependencies`,
    `ConfigInformation.updatedependencies`).  No visited set in the real code: a tree recursion.
    `acc` is the list of task nodes already added (`taskids`), initialised with the submitted task itself. -/
namespace XpmVerif.Ident

/-- `ConfigInformation.updatedependencies` of node `n`. -/
def depsNode (g : Graph) : Nat → Nat → List Nat → List Nat
  | 0, _, acc => acc
  | fuel + 1, n, acc =>
    let nd := g.node n
    let rec_ := depsNode g fuel
    let acc := walkNodes rec_ nd.preTasks acc
    let acc := walkNodes rec_ nd.initTasks acc
    match nd.task with
    | some t => if acc.contains t then acc else acc ++ [t]
    | none => walkVals rec_ (nd.args.map (·.value)) acc

/-- the job dependencies of the task `root` being submitted (its own `task` field is still unset),
    without `root` itself. -/
def collectDeps (g : Graph) (root : Nat) : List Nat :=
  (depsNode g (g.size + 1) root [root]).filter (· ≠ root)

end XpmVerif.Ident
