import XpmVerif.Basic.JsonUtil
import XpmVerif.Basic.Sha256
import XpmVerif.Model.Serial
import XpmVerif.Model.SerialData
import XpmVerif.Generated.SerialFlags
import XpmVerif.Generated.SerialKeys
/-! Line-protocol driver for M5 (serialisation, runtime objects): C12 C13.
    Graph / value JSON as in Drive/Ident.lean, plus `cls` per node and a class library. -/
open Lean XpmVerif XpmVerif.J XpmVerif.Ident XpmVerif.Serial

def hexVal (c : Char) : Nat :=
  if c.isDigit then c.toNat - '0'.toNat else if 'a' ≤ c ∧ c ≤ 'f' then c.toNat - 'a'.toNat + 10 else c.toNat - 'A'.toNat + 10
def unhex (s : String) : List Nat :=
  let rec go : List Char → List Nat
    | a :: b :: r => (hexVal a * 16 + hexVal b) :: go r
    | _ => []
  go s.toList
def hexOf (l : List Nat) : String :=
  let d := "0123456789abcdef".toList.toArray
  l.foldl (fun s x => (s.push d[x / 16]!).push d[x % 16]!) ""

partial def valOf (j : Json) : Val :=
  if isNull j then .none else
  match j.getObjVal? "b" with
  | .ok b => .bool (J.bool b)
  | _ =>
  match j.getObjVal? "i" with
  | .ok i => .int ((J.str i).toInt?.getD 0)
  | _ =>
  match j.getObjVal? "f" with
  | .ok f => .float ((unhex (J.str f)).foldl (fun a b => a * 256 + b) 0)
  | _ =>
  match j.getObjVal? "s" with
  | .ok s => .str (unhex (J.str s))
  | _ =>
  match j.getObjVal? "e" with
  | .ok s => .enum (unhex (J.str s))
  | _ =>
  match j.getObjVal? "p" with
  | .ok s => .path (unhex (J.str s))
  | _ =>
  match j.getObjVal? "l" with
  | .ok l => .list ((arr l).map valOf)
  | _ =>
  match j.getObjVal? "d" with
  | .ok d => .dict ((arr d).map (fun kv => unhex (J.str ((arr kv).getD 0 Json.null)))) ((arr d).map (fun kv => valOf ((arr kv).getD 1 Json.null)))
  | _ =>
  match j.getObjVal? "r" with
  | .ok r => .ref (nat r)
  | _ => .none

def f64hex (n : Nat) : String := hexOf (pack8 n)

partial def valJ : Val → Json
  | .none => Json.null
  | .bool b => Json.mkObj [("b", b)]
  | .int i => Json.mkObj [("i", toString i)]
  | .float b => Json.mkObj [("f", f64hex b)]
  | .str s => Json.mkObj [("s", hexOf s)]
  | .enum s => Json.mkObj [("e", hexOf s)]
  | .path s => Json.mkObj [("p", hexOf s)]
  | .list l => Json.mkObj [("l", Json.arr (l.map valJ).toArray)]
  | .dict ks vs => Json.mkObj [("d", Json.arr ((ks.zip vs).map (fun kv => Json.arr #[Json.str (hexOf kv.1), valJ kv.2])).toArray)]
  | .ref n => Json.mkObj [("r", n)]

partial def jvalJ : JVal → Json
  | .null => Json.null
  | .bool b => Json.mkObj [("b", b)]
  | .int i => Json.mkObj [("i", toString i)]
  | .float b => Json.mkObj [("f", f64hex b)]
  | .str s => Json.mkObj [("s", hexOf s)]
  | .arr l => Json.mkObj [("a", Json.arr (l.map jvalJ).toArray)]
  | .obj ks vs => Json.mkObj [("o", Json.arr ((ks.zip vs).map (fun kv => Json.arr #[Json.str (hexOf kv.1), jvalJ kv.2])).toArray)]

def argOf (j : Json) : Arg :=
  { name := unhex (strF j "name"), ignored := boolF j "ignored", generator := boolF j "generator",
    constant := boolF j "constant", required := boolF j "required",
    default := (if isNull (fld j "default") then none else some (valOf (fld j "default"))),
    value := valOf (fld j "value") }

def argJ (a : Arg) : Json :=
  Json.mkObj [("name", hexOf a.name), ("ignored", a.ignored), ("generator", a.generator), ("constant", a.constant),
    ("required", a.required), ("default", match a.default with | some d => valJ d | none => Json.null), ("value", valJ a.value)]

def optBool (j : Json) : Option Bool := if isNull j then none else some (J.bool j)
def optBoolJ : Option Bool → Json | some b => b | none => Json.null
def optNatJ : Option Nat → Json | some n => n | none => Json.null
def natsJ (l : List Nat) : Json := Json.arr (l.map (fun (n : Nat) => (n : Json))).toArray
def optNatsJ : Option (List Nat) → Json | some l => natsJ l | none => Json.null

def nodeOf (j : Json) : Node :=
  { typeId := unhex (strF j "typeId"), args := (arrF j "args").map argOf, task := optNat (fld j "task"),
    mflag := optBool (fld j "meta"), sealed := boolF j "sealed",
    preTasks := (arrF j "pre").map nat, initTasks := (arrF j "init").map nat }

def nodeJ (nd : Node) : List (String × Json) :=
  [("typeId", hexOf nd.typeId), ("args", Json.arr (nd.args.map argJ).toArray), ("task", optNatJ nd.task),
   ("meta", optBoolJ nd.mflag), ("sealed", nd.sealed), ("pre", natsJ nd.preTasks), ("init", natsJ nd.initTasks)]

def clsOf (j : Json) : Cls :=
  { name := unhex (strF j "name"), typeId := unhex (strF j "typeId"), args := (arrF j "args").map argOf,
    data := (arrF j "data").map (fun x => unhex (J.str x)) }

abbrev D := List Nat
def hc : HC D := { H := Sha256.hashBytes, emb := id, le := bytesLe }
def fl : Flags := Gen.serialFlags

def dfl : DFlags := Gen.dataFlags

structure DSt where
  sg : SGraph := { g := { nodes := [] }, cname := [] }
  lib : List Cls := []
  tags : List Tags := []

def tagsOf (j : Json) : Tags :=
  (arrF j "tags").map (fun kv => (unhex (J.str ((arr kv).getD 0 Json.null)), valOf ((arr kv).getD 1 Json.null)))
def tagsJ (t : Tags) : Json :=
  Json.arr (t.map (fun kv => Json.arr #[Json.str (hexOf kv.1), valJ kv.2])).toArray
def fsOf (j : Json) : FS := (arr j).map (fun kv => (unhex (J.str ((arr kv).getD 0 Json.null)), nat ((arr kv).getD 1 Json.null)))
def fsJ (fs : FS) : Json := Json.arr (fs.map (fun kv => Json.arr #[Json.str (hexOf kv.1), (kv.2 : Json)])).toArray

def defJ (sg : SGraph) (d : Def) (withId : Bool := true) : Json :=
  Json.mkObj ([("id", (d.id : Json)), ("cls", Json.str (hexOf d.cname)),
    ("fields", Json.arr (d.fields.map (fun f => Json.arr #[Json.str (hexOf f.1), jvalJ f.2])).toArray),
    ("pre", optNatsJ d.pre), ("init", optNatsJ d.init), ("meta", optBoolJ d.mflag), ("task", optNatJ d.task)] ++
    (if withId then [("identifier", Json.str (hexOf (fullId hc sg.g d.id)))] else []))

def errJ : Err → Json
  | .duplicateId _ => Json.mkObj [("err", "duplicate-id")]
  | .unknownClass => Json.mkObj [("err", "unknown-class")]
  | .unknownObject _ => Json.mkObj [("err", "key-error")]
  | .unhandledType => Json.mkObj [("err", "unhandled-type")]
  | .malformed => Json.mkObj [("err", "key-error")]
  | .unknownField => Json.mkObj [("err", "key-error")]
  | .requiredNone => Json.mkObj [("err", "attribute-error")]
  | .empty => Json.mkObj [("err", "index-error")]
  | .noDataLoader => Json.mkObj [("err", "other:RuntimeError")]

def loadedJ (l : Loaded) : Json :=
  Json.arr (l.map (fun (p : Nat × LObj) => Json.mkObj ([("id", (p.1 : Json)), ("cls", Json.str (hexOf p.2.cname))] ++ nodeJ p.2.node))).toArray

/-- the observable log: `init`, `post` (with the parameters assigned to that object before), `exec`, `body`. -/
def logJ (log : List Ev) (withNew : Bool := false) : Json :=
  let rec go : List Ev → List (Nat × List Nat) → List Json → List Json
    | [], _, acc => acc.reverse
    | .new n :: r, sets, acc => go r sets (if withNew then Json.arr #["new", (n : Json)] :: acc else acc)
    | .init n :: r, sets, acc => go r sets (Json.arr #["init", (n : Json)] :: acc)
    | .set n a :: r, sets, acc => go r ((n, a) :: sets) acc
    | .postInit n :: r, sets, acc =>
      let names := (sets.filter (fun p => p.1 == n)).reverse.map (fun p => Json.str (hexOf p.2))
      go r sets (Json.arr #["post", (n : Json), Json.arr names.toArray] :: acc)
    | .exec n :: r, sets, acc => go r sets (Json.arr #["exec", (n : Json)] :: acc)
    | .body n :: r, sets, acc => go r sets (Json.arr #["body", (n : Json)] :: acc)
  Json.arr (go log [] []).toArray

def stepJ (s : DSt) (j : Json) : DSt × Json :=
  let okJ : Json := Json.mkObj [("ok", true)]
  let roots := (arrF j "roots").map nat
  match strF j "op" with
  | "lib" => ({ s with lib := (arrF j "classes").map clsOf }, okJ)
  | "graph" =>
    let ns := arrF j "nodes"
    ({ s with sg := { g := { nodes := ns.map nodeOf }, cname := ns.map (fun x => unhex (strF x "cls")) },
              tags := ns.map tagsOf }, okJ)
  | "serialize" =>
    (s, Json.mkObj [("defs", Json.arr ((serialize fl s.lib s.sg roots).map (defJ s.sg)).toArray)])
  | "statedict" =>
    let st := stateDict fl s.lib s.sg (valOf (fld j "v"))
    (s, Json.mkObj [("defs", Json.arr (st.1.map (defJ s.sg)).toArray), ("data", jvalJ st.2)])
  | "reload" =>
    (s, match load fl s.lib (serialize fl s.lib s.sg roots) with
      | .ok l => Json.mkObj [("objs", loadedJ l)]
      | .error e => errJ e)
  | "restate" =>
    (s, match fromStateDict fl s.lib (stateDict fl s.lib s.sg (valOf (fld j "v"))) with
      | .ok (l, v) => Json.mkObj [("objs", loadedJ l), ("data", valJ v)]
      | .error e => errJ e)
  | "reid" =>
    let root := natF j "root"
    (s, match fromParameters fl s.lib (serialize fl s.lib s.sg [root]) with
      | .ok (l, r) => Json.mkObj [("id", hexOf (fullId hc (toGraph l s.sg.g.size) r)), ("orig", hexOf (fullId hc s.sg.g root))]
      | .error e => errJ e)
  | "instance" =>
    let root := natF j "root"
    let cons := (arrF j "constructed").map nat
    let r := instanceWalk s.sg.g cons root
    let attrs := (instanceAttrs s.sg.g cons root).map (fun (p : Nat × List (List Nat × Val)) =>
      Json.arr #[(p.1 : Json), Json.arr (p.2.map (fun f => Json.arr #[Json.str (hexOf f.1), valJ f.2])).toArray])
    (s, Json.mkObj [("log", logJ (instanceLog s.sg.g cons root)), ("store", natsJ r.store), ("pre", natsJ r.preTasks),
                    ("attrs", Json.arr attrs.toArray)])
  | "loadinst" =>
    let defs := serialize fl s.lib s.sg [natF j "root"]
    (s, Json.mkObj [("log", logJ (if boolF j "body" then runLog defs else loadInstanceLog defs) (withNew := boolF j "new"))])
  | "generation2" =>
    (s, match reloadTwice fl s.lib s.sg roots with
      | .ok (l1, defs2, l2) =>
        let sg1 := regraph l1 s.sg.g.size
        let r := roots.headD 0
        Json.mkObj [("defs", Json.arr (defs2.map (defJ sg1)).toArray), ("objs", loadedJ l2),
                    ("id", hexOf (fullId hc (toGraph l2 s.sg.g.size) r)), ("orig", hexOf (fullId hc s.sg.g r))]
      | .error e => errJ e)
  | "loadstate" =>
    -- a saved value with several roots loaded as runtime objects: `from_state_dict(state_dict(v), as_instance=True)`
    let st := stateDict fl s.lib s.sg (valOf (fld j "v"))
    (s, match fromStateDictInst st with
      | .ok (attrs, v) =>
        Json.mkObj [("log", logJ (loadStateLog st.1 st.2) (withNew := true)),
                    ("attrs", Json.arr (attrs.map (fun (p : Nat × List (List Nat × Val)) =>
                      Json.arr #[(p.1 : Json), Json.arr (p.2.map (fun f => Json.arr #[Json.str (hexOf f.1), valJ f.2])).toArray])).toArray),
                    ("data", valJ v)]
      | .error e => errJ e)
  | "save" =>
    -- `serialization.save(v, dir)` then `serialization.load(dir)`; optionally a second generation into another directory
    let v := valOf (fld j "v")
    let fs := fsOf (fld j "fs")
    let base := unhex (strF j "base")
    let sv := save fl dfl s.lib s.sg fs v
    let savedJ (sv : Saved) (sg : SGraph) : List (String × Json) :=
      [("defs", Json.arr (sv.defs.map (fun d => defJ sg d (withId := false))).toArray), ("data", jvalJ sv.data), ("dir", fsJ sv.dir)]
    if boolF j "gen2" then
      (s, match saveLoadTwice fl dfl s.lib s.sg fs v base (unhex (strF j "base2")) with
        | .ok (s1, l1, s2, l2, v2) =>
          Json.mkObj (savedJ s1 s.sg ++ [("objs", loadedJ l1),
            ("gen2", Json.mkObj (savedJ s2 (regraph l1 s.sg.g.size) ++ [("objs", loadedJ l2), ("value", valJ v2)]))])
        | .error e => errJ e)
    else
      (s, match loadSaved fl dfl s.lib base sv with
        | .ok (l, v') => Json.mkObj (savedJ sv s.sg ++ [("objs", loadedJ l), ("value", valJ v')])
        | .error e => Json.mkObj (savedJ sv s.sg ++ [("load", errJ e)]))
  | "tags" =>
    (s, match jobTags s.sg.g (fun n => s.tags.getD n []) (natF j "root") with
      | .ok t => Json.mkObj [("tags", tagsJ t)]
      | .error e => errJ e)
  | "instvalues" =>
    (s, match instanceValues (serialize fl s.lib s.sg [natF j "root"]) with
      | .ok l => Json.mkObj [("values", Json.arr (l.map (fun (p : Nat × List (List Nat × Val)) =>
          Json.arr #[(p.1 : Json), Json.arr (p.2.map (fun f => Json.arr #[Json.str (hexOf f.1), valJ f.2])).toArray])).toArray)]
      | .error e => errJ e)
  | op => (s, Json.mkObj [("error", Json.str s!"bad-op {op}")])

def main : IO Unit := J.loop stepJ {}
