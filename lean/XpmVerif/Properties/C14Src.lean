import XpmVerif.Generated.SealSrc
import XpmVerif.Generated.WalkSrc
import XpmVerif.Properties.C14
/-! C14 — source obligations on the *guards of the mutators*.  `Generated/SealSrc.lean` is rewritten on every run by
    `harness/xv/translate/sealsrc.py` from `core/objects.py` (`ConfigInformation.set`, `set_meta`, `add_dependencies`,
    `addtag`, `seal`/`Sealer`, `__unseal__`, `identifiers`; `TypeConfig.add_pretasks`, `add_pretasks_from`,
    `add_dependencies`, `tag`) and `core/types.py` (the property setter behind `cfg.name = v`): the ordered effect
    sequence of each, as data.  The theorems below are about that data; the last ones carry `sealed_rejects` /
    `sealed_frozen` over to the model step whose mutators *are* the interpreted sequences. -/
namespace XpmVerif.C14Src
open XpmVerif.Ident XpmVerif.Seal XpmVerif.Gen

/-- asserts are enabled (the interpreter is not run with `-O`): `set_meta`'s guard is an `assert`. -/
abbrev AssertsEnabled (ae : Bool) : Prop := ae = true

/-- **the sealed test precedes every write** — in the three mutators the property names the first effect is the sealed
    test (only `set` has an escape, its internal `bypass` argument), and every public entry point that reaches them
    (`cfg.name = v`, `add_pretasks_from`), run on a sealed configuration with no escape condition holding, is rejected
    before anything is written or any cached identifier is forgotten; and so is **every entry point of the generated list**
    `entryPointsSrc` — all methods of the public object and the setter / deleter of the per-parameter property from which a
    write of a value, of the meta flag or of the pre-tasks is reachable (a new entry point without the sealed test fails
    this obligation even if no generator exercises it). -/
theorem mutators_check_sealed_first :
    (mutSrc .set).head? = some (.checkSealed .raise ["bypass"]) ∧
    (mutSrc .setMeta).head? = some (.checkSealed .assert []) ∧
    (mutSrc .addPretasks).head? = some (.checkSealed .raise []) ∧
    (∀ m ∈ [Mut.set, .setMeta, .addPretasks, .setattr, .addPretasksFrom],
        interp true mutSrc true 16 noEscape (mutSrc m) = ⟨[], true⟩) ∧
    (∀ ep ∈ entryPointsSrc, interp true mutSrc true 16 noEscape ep.2 = ⟨[], true⟩) := by decide

/-- … for every assignment of the escape conditions other than the internal `bypass` (whatever else the configuration
    is — loaded from disk, a task, …): no state-dependent way around the test. -/
theorem sealed_test_has_no_escape (esc : String → Bool) (hb : esc "bypass" = false) :
    ∀ m ∈ [Mut.set, .setMeta, .addPretasks, .setattr, .addPretasksFrom],
      interp true mutSrc true 16 esc (mutSrc m) = ⟨[], true⟩ := by
  intro m hm
  simp only [List.mem_cons, List.not_mem_nil, or_false] at hm
  rcases hm with rfl | rfl | rfl | rfl | rfl <;> simp [interp, mutSrc, hb]

/-- on an unsealed configuration each of them performs exactly its own write. -/
theorem mutators_write_when_unsealed :
    interp true mutSrc false 16 noEscape (mutSrc .setattr) = ⟨[some .value], false⟩ ∧
    interp true mutSrc false 16 noEscape (mutSrc .setMeta) = ⟨[some .metaFlag], false⟩ ∧
    interp true mutSrc false 16 noEscape (mutSrc .addPretasks) = ⟨[some .preTasks], false⟩ ∧
    interp true mutSrc false 16 noEscape (mutSrc .addPretasksFrom) = ⟨[some .preTasks], false⟩ := by decide

/-- **what `Sealer` does per node**: it descends only into configurations that are not sealed yet, `postprocess` runs
    after everything below the configuration was walked (`walkPlanSrc`), generates the values through `set(…,
    bypass=True)` — its only other effect — and marks the configuration sealed. -/
theorem seal_marks_after_children :
    sealerSrc.descendsOnlyUnsealed = true ∧ walkPlanSrc.postprocessLast = true ∧
    Eff.write .sealedFlag ∈ sealerSrc.post ∧
    (∀ e ∈ sealerSrc.post, e = .write .sealedFlag ∨ e = .delegate .set true) := by decide

/-- **identifiers are cached only when sealed** (and recomputed on every request otherwise), for both identifiers. -/
theorem identifiers_cached_only_when_sealed :
    identCacheSrc = { rawStoredOnlyWhenSealed := true, fullStoredOnlyWhenSealed := true,
                      rawRecomputedWhenUnsealed := true, fullRecomputedWhenUnsealed := true } := by decide

/-- **the model's `step` is the interpreter of the generated sequences** (asserts enabled): assignment = the property
    setter's sequence, meta flag = `set_meta`'s, pre-task = `add_pretasks`'. -/
theorem stepSrc_eq_step {D : Type} (hc : HC D) (fl : Bool) (ae : Bool) (hae : AssertsEnabled ae) (s : St D) (o : Op) :
    stepSrc hc fl ae mutSrc s o = step hc fl s o := by
  subst hae
  cases o with
  | set n name v => cases h : (s.g.node n).sealed <;> simp [stepSrc, runMut, step, h, interp, mutSrc, noEscape, applyWrite]
  | setMeta n b => cases h : (s.g.node n).sealed <;> simp [stepSrc, runMut, step, h, interp, mutSrc, noEscape, applyWrite]
  | addPretask n p => cases h : (s.g.node n).sealed <;> simp [stepSrc, runMut, step, h, interp, mutSrc, noEscape, applyWrite]
  | sealOp n => rfl
  | reqRaw n => rfl
  | reqFull n => rfl

/-- **`sealed_rejects` for the regenerated guards**: with asserts enabled, every attempt on a sealed configuration is
    rejected and leaves graph and caches unchanged. -/
theorem sealed_rejects_src {D : Type} (hc : HC D) (fl : Bool) (ae : Bool) (hae : AssertsEnabled ae) (s : St D) (n : Nat)
    (h : (s.g.node n).sealed = true) :
    (∀ name v, stepSrc hc fl ae mutSrc s (.set n name v) = (s, .sealedError)) ∧
    (∀ b, stepSrc hc fl ae mutSrc s (.setMeta n b) = (s, .sealedError)) ∧
    (∀ p, stepSrc hc fl ae mutSrc s (.addPretask n p) = (s, .sealedError)) := by
  simp only [stepSrc_eq_step hc fl ae hae]
  exact C14.sealed_rejects hc fl s n h

def runSrc {D : Type} (hc : HC D) (fl : Bool) (ae : Bool) (s : St D) (os : List Op) : St D :=
  os.foldl (fun s o => (stepSrc hc fl ae mutSrc s o).1) s

theorem runSrc_eq_run {D : Type} (hc : HC D) (fl : Bool) (ae : Bool) (hae : AssertsEnabled ae) (s : St D) (os : List Op) :
    runSrc hc fl ae s os = Sealing.run hc fl s os := by
  unfold runSrc
  induction os generalizing s with
  | nil => rfl
  | cons o os ih => rw [List.foldl_cons, ih, stepSrc_eq_step hc fl ae hae]; rfl

/-- **`sealed_frozen` for the regenerated guards**: whatever is attempted, a sealed node and everything reachable from it
    keep their content. -/
theorem sealed_frozen_src {D : Type} (hc : HC D) (fl : Bool) (ae : Bool) (hae : AssertsEnabled ae) (s : St D)
    (hcl : Sealing.SealedClosed s.g) (n : Nat) (hn : (s.g.node n).sealed = true) (os : List Op) :
    ∀ m, Sealing.Reach s.g n m → (runSrc hc fl ae s os).g.node m = s.g.node m := by
  rw [runSrc_eq_run hc fl ae hae]
  exact (C14.sealed_frozen hc fl s hcl n hn os).1

/-- **without asserts (`python -O`) the meta flag of a sealed configuration can be changed**: the guard of `set_meta` is
    an `assert`; kernel-checked counter-example on a one-node graph (and the same attempt is rejected with asserts). -/
theorem setMeta_unguarded_without_asserts :
    let hc : HC Nat := { H := fun l => l.length, emb := fun d => [d], le := fun a b => decide (a ≤ b) }
    let s : St Nat := { g := { nodes := [{ typeId := [1], args := [], sealed := true }] }, c := Caches.empty }
    ((stepSrc hc true false mutSrc s (.setMeta 0 (some true))).1.g.node 0).mflag = some true ∧
    (stepSrc hc true false mutSrc s (.setMeta 0 (some true))).2 matches .ok ∧
    ((stepSrc hc true true mutSrc s (.setMeta 0 (some true))).1.g.node 0).mflag = none := by decide

/-! ### `AssertsEnabled` is satisfiable, on a non-trivial state (audit round 8, item 6)
    two nodes, node 0 (sealed) referring to node 1 (sealed); `ae = true`. -/

def aeHC : HC Nat := { H := fun l => l.length, emb := fun d => [d], le := fun a b => decide (a ≤ b) }
def aeState : St Nat :=
  { g := { nodes := [{ typeId := [1], args := [{ name := [120], value := .ref 1 }], sealed := true },
                     { typeId := [2], args := [{ name := [121], value := .int 3 }], sealed := true }] },
    c := Caches.empty }

example : AssertsEnabled true := rfl
/-- under `AssertsEnabled` the sealed configurations of `aeState` really reject an assignment, a meta flag change and a
    pre-task, on both nodes, and a history of three attempts leaves both nodes what they were (`sealed_rejects_src`,
    `sealed_frozen_src`, `stepSrc_eq_step`, `runSrc_eq_run` instantiated). -/
example : (stepSrc aeHC true true mutSrc aeState (.set 1 [121] (.int 9))).2 matches .sealedError := by decide
example : (stepSrc aeHC true true mutSrc aeState (.setMeta 0 (some true))).2 matches .sealedError := by decide
example : (stepSrc aeHC true true mutSrc aeState (.addPretask 0 1)).2 matches .sealedError := by decide
example : runSrc aeHC true true aeState [.set 1 [121] (.int 9), .setMeta 0 (some true), .addPretask 0 1] = aeState := by
  have h0 := sealed_rejects_src aeHC true true rfl aeState 0 rfl
  have h1 := sealed_rejects_src aeHC true true rfl aeState 1 rfl
  simp [runSrc, h0.2.1, h0.2.2, h1.1]
example : ∀ name v, stepSrc aeHC true true mutSrc aeState (.set 0 name v) = (aeState, .sealedError) :=
  (sealed_rejects_src aeHC true true rfl aeState 0 rfl).1

end XpmVerif.C14Src
