"""Worker: producing task of embedded task outputs (C03 "the task that produced an embedded task output",
C01 request order) through real submits.

usage: python -m xv.impl.prod_worker <in.json> <out.json>
in:  {"cases": [{"mode": "dry"|"generate", "producers": [{"cls": "GP"|"GF"|None, "k": int, "v": int}],
                 "consumers": [{"embed": "o"|"os"|"h", "of": producer index}], "request_first": [consumer indices]}]}
     producer cls None = a plain Out(v) not produced by any task; "GP" marks its own (sealed) parameter as output,
     "GF" returns a freshly built output.
out: [{"ids": [consumer identifiers], "out_ids": [identifier of each output object], "lines": [...], "impl": [...], "error": ...}]"""
import contextlib
import importlib
import io
import json
import shutil
import sys
import tempfile
import traceback
from pathlib import Path

SRC = '''
from typing import List, Optional
from experimaestro import Config, Task, Param

class Out(Config):
    __xpmid__ = "xvprod.out"
    v: Param[int]

class Holder(Config):
    __xpmid__ = "xvprod.holder"
    inner: Param[Out]

class GP(Task):
    """marks one of its own (already sealed) parameters as its output"""
    __xpmid__ = "xvprod.gp"
    k: Param[int]
    src: Param[Out]
    def task_outputs(self, dep):
        return dep(self.src)
    def execute(self):
        pass

class GF(Task):
    """returns a freshly built output"""
    __xpmid__ = "xvprod.gf"
    k: Param[int]
    v: Param[int]
    def task_outputs(self, dep):
        return dep(Out(v=self.v))
    def execute(self):
        pass

class Use(Task):
    __xpmid__ = "xvprod.use"
    o: Param[Optional[Out]]
    os: Param[List[Out]] = []
    h: Param[Optional[Holder]]
    def execute(self):
        pass
'''


def main():
    from experimaestro import experiment, RunMode
    from . import cfgbuild
    data = json.loads(Path(sys.argv[1]).read_text())
    root = Path(tempfile.mkdtemp(prefix="xvprod-"))
    out = []
    try:
        (root / "xvprod").mkdir()
        (root / "xvprod" / "__init__.py").write_text(SRC)
        sys.path.insert(0, str(root))
        mod = importlib.import_module("xvprod")
        for ci, case in enumerate(data["cases"]):
            rec = {"error": None, "lines": [], "impl": []}
            try:
                mode = RunMode.DRY_RUN if case["mode"] == "dry" else RunMode.GENERATE_ONLY
                created = []
                with contextlib.redirect_stderr(io.StringIO()):
                    with experiment(root / f"ws{ci}", "prod", port=-1, run_mode=mode):
                        outs = []
                        for p in case["producers"]:
                            if p["cls"] is None:
                                o = mod.Out(v=p["v"])
                                created.append(o)
                            elif p["cls"] == "GP":
                                src = mod.Out(v=p["v"])
                                t = mod.GP(k=p["k"], src=src)
                                created += [src, t]
                                o = t.submit()
                            else:
                                t = mod.GF(k=p["k"], v=p["v"])
                                created.append(t)
                                o = t.submit()
                                created.append(o)
                            outs.append(o)
                        consumers = []
                        for c in case["consumers"]:
                            o = outs[c["of"]]
                            if c["embed"] == "o":
                                u = mod.Use(o=o)
                            elif c["embed"] == "os":
                                u = mod.Use(os=[o])
                            else:
                                h = mod.Holder(inner=o)
                                created.append(h)
                                u = mod.Use(h=h)
                            created.append(u)
                            consumers.append(u)
                        ids = [None] * len(consumers)
                        order = case["request_first"] + [i for i in range(len(consumers)) if i not in case["request_first"]]
                        for i in order:
                            ids[i] = consumers[i].__xpm__.identifier.all.hex()
                        if case.get("poke"):
                            # C14: attempts to assign a parameter of every submitted task (must be rejected) interleaved with
                            # identifier / job directory requests (must not move)
                            pokes = []
                            for t in [c for c in created if getattr(c.__xpm__, "job", None) is not None]:
                                before = (t.__xpm__.identifier.all.hex(), str(t.__xpm__.job.path))
                                try:
                                    t.k = 4242
                                    rejected = False
                                except Exception:
                                    rejected = True
                                after = (t.__xpm__.identifier.all.hex(), str(t.__xpm__.job.path))
                                pokes.append({"cls": type(t).__name__, "rejected": rejected, "before": before, "after": after})
                            rec["pokes"] = pokes
                        rec["ids"] = ids
                        rec["out_ids"] = [o.__xpm__.identifier.all.hex() for o in outs]
                        rec["producers_of"] = [None if o.__xpm__.task is None else created.index(o.__xpm__.task) for o in outs]
                        index = {id(o): i for i, o in enumerate(created)}
                        nodes = cfgbuild.model_graph(created)
                        for nd in nodes:
                            nd["sealed"] = False   # the specification is asked (cache-free)
                        rec["lines"].append({"op": "graph", "nodes": nodes})
                        rec["impl"].append({"ok": True})
                        for u, i in zip(consumers, ids):
                            rec["lines"].append({"op": "spec", "n": index[id(u)]})
                            rec["impl"].append({"id": i})
            except Exception as e:
                rec["error"] = f"{type(e).__name__}: {e}"
                rec["trace"] = traceback.format_exc()[-1200:]
            out.append(rec)
    finally:
        shutil.rmtree(root, ignore_errors=True)
    Path(sys.argv[2]).write_text(json.dumps(out))


if __name__ == "__main__":
    main()
