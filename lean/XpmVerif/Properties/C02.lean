import XpmVerif.Proofs.IdentPerm
namespace XpmVerif.C02
open XpmVerif.Ident
theorem placeholder_trivial : True := trivial
end XpmVerif.C02
