import XpmVerif.Model.Deps
/-! `updatedependencies` collects exactly the tasks embedded in the parameters (C04, second sentence). -/
namespace XpmVerif.Ident
open List

mutual
/-- configuration `m` occurs in the value at any depth (through lists and dicts). -/
def occursVal (m : Nat) : Val → Bool
  | .ref n => n = m
  | .list l => occursVals m l
  | .dict _ vs => occursVals m vs
  | _ => false
def occursVals (m : Nat) : List Val → Bool
  | [] => false
  | v :: vs => occursVal m v || occursVals m vs
end

/-! generic facts about the callback walkers -/
section walkers
variable (cfg : Nat → List Nat → List Nat)

mutual
theorem walkVal_mono (hm : ∀ k a x, x ∈ a → x ∈ cfg k a) : ∀ (v : Val) (acc : List Nat) (x : Nat), x ∈ acc → x ∈ walkVal cfg v acc
  | .list l, acc, x, h => by simpa [walkVal] using walkVals_mono hm l acc x h
  | .dict _ vs, acc, x, h => by simpa [walkVal] using walkVals_mono hm vs acc x h
  | .ref n, acc, x, h => by simpa [walkVal] using hm n acc x h
  | .none, _, _, h | .bool _, _, _, h | .int _, _, _, h | .float _, _, _, h | .str _, _, _, h | .enum _, _, _, h | .path _, _, _, h => by
    simpa [walkVal] using h
theorem walkVals_mono (hm : ∀ k a x, x ∈ a → x ∈ cfg k a) : ∀ (vs : List Val) (acc : List Nat) (x : Nat), x ∈ acc → x ∈ walkVals cfg vs acc
  | [], _, _, h => by simpa [walkVals] using h
  | v :: vs, acc, x, h => by
    simp only [walkVals]
    exact walkVals_mono hm vs _ x (walkVal_mono hm v acc x h)
end

mutual
theorem walkVal_mem (hm : ∀ k a x, x ∈ a → x ∈ cfg k a) (m t : Nat) (ht : ∀ a, t ∈ cfg m a) :
    ∀ (v : Val) (acc : List Nat), occursVal m v = true → t ∈ walkVal cfg v acc
  | .list l, acc, h => by simp only [occursVal] at h; simpa [walkVal] using walkVals_mem hm m t ht l acc h
  | .dict _ vs, acc, h => by simp only [occursVal] at h; simpa [walkVal] using walkVals_mem hm m t ht vs acc h
  | .ref n, acc, h => by
    simp only [occursVal, decide_eq_true_eq] at h
    subst h; simpa [walkVal] using ht acc
  | .none, _, h | .bool _, _, h | .int _, _, h | .float _, _, h | .str _, _, h | .enum _, _, h | .path _, _, h => by
    simp [occursVal] at h
theorem walkVals_mem (hm : ∀ k a x, x ∈ a → x ∈ cfg k a) (m t : Nat) (ht : ∀ a, t ∈ cfg m a) :
    ∀ (vs : List Val) (acc : List Nat), occursVals m vs = true → t ∈ walkVals cfg vs acc
  | [], _, h => by simp [occursVals] at h
  | v :: vs, acc, h => by
    simp only [occursVals, Bool.or_eq_true] at h
    simp only [walkVals]
    rcases h with h | h
    · exact walkVals_mono cfg hm vs _ t (walkVal_mem hm m t ht v acc h)
    · exact walkVals_mem hm m t ht vs _ h
end

mutual
theorem walkVal_sound (P : Nat → Nat → Prop) (hs : ∀ k a x, x ∈ cfg k a → x ∈ a ∨ P k x) :
    ∀ (v : Val) (acc : List Nat) (x : Nat), x ∈ walkVal cfg v acc → x ∈ acc ∨ ∃ k, occursVal k v = true ∧ P k x
  | .list l, acc, x, h => by simp only [walkVal] at h; simpa [occursVal] using walkVals_sound P hs l acc x h
  | .dict _ vs, acc, x, h => by simp only [walkVal] at h; simpa [occursVal] using walkVals_sound P hs vs acc x h
  | .ref n, acc, x, h => by
    simp only [walkVal] at h
    rcases hs n acc x h with h | h
    · exact .inl h
    · exact .inr ⟨n, by simp [occursVal], h⟩
  | .none, _, _, h | .bool _, _, _, h | .int _, _, _, h | .float _, _, _, h | .str _, _, _, h | .enum _, _, _, h | .path _, _, _, h => by
    simp only [walkVal] at h; exact .inl h
theorem walkVals_sound (P : Nat → Nat → Prop) (hs : ∀ k a x, x ∈ cfg k a → x ∈ a ∨ P k x) :
    ∀ (vs : List Val) (acc : List Nat) (x : Nat), x ∈ walkVals cfg vs acc → x ∈ acc ∨ ∃ k, occursVals k vs = true ∧ P k x
  | [], _, _, h => by simp only [walkVals] at h; exact .inl h
  | v :: vs, acc, x, h => by
    simp only [walkVals] at h
    rcases walkVals_sound P hs vs _ x h with h | ⟨k, hk, hp⟩
    · rcases walkVal_sound P hs v acc x h with h | ⟨k, hk, hp⟩
      · exact .inl h
      · exact .inr ⟨k, by simp [occursVals, hk], hp⟩
    · exact .inr ⟨k, by simp [occursVals, hk], hp⟩
end

theorem walkNodes_mono (hm : ∀ k a x, x ∈ a → x ∈ cfg k a) : ∀ (ns : List Nat) (acc : List Nat) (x : Nat), x ∈ acc → x ∈ walkNodes cfg ns acc
  | [], _, _, h => by simpa [walkNodes] using h
  | n :: ns, acc, x, h => by simp only [walkNodes]; exact walkNodes_mono hm ns _ x (hm n acc x h)

theorem walkNodes_mem (hm : ∀ k a x, x ∈ a → x ∈ cfg k a) (m t : Nat) (ht : ∀ a, t ∈ cfg m a) :
    ∀ (ns : List Nat) (acc : List Nat), m ∈ ns → t ∈ walkNodes cfg ns acc
  | [], _, h => by simp at h
  | n :: ns, acc, h => by
    simp only [walkNodes]
    simp only [mem_cons] at h
    rcases h with rfl | h
    · exact walkNodes_mono cfg hm ns _ t (ht acc)
    · exact walkNodes_mem hm m t ht ns _ h

theorem walkNodes_sound (P : Nat → Nat → Prop) (hs : ∀ k a x, x ∈ cfg k a → x ∈ a ∨ P k x) :
    ∀ (ns : List Nat) (acc : List Nat) (x : Nat), x ∈ walkNodes cfg ns acc → x ∈ acc ∨ ∃ k, k ∈ ns ∧ P k x
  | [], _, _, h => by simp only [walkNodes] at h; exact .inl h
  | n :: ns, acc, x, h => by
    simp only [walkNodes] at h
    rcases walkNodes_sound P hs ns _ x h with h | ⟨k, hk, hp⟩
    · rcases hs n acc x h with h | h
      · exact .inl h
      · exact .inr ⟨n, by simp, h⟩
    · exact .inr ⟨k, by simp [hk], hp⟩

end walkers

/-- `m` is visited directly from `n` by `updatedependencies`. -/
inductive Child (g : Graph) (ld : Nat → Bool) (n m : Nat) : Prop
  | pre : m ∈ (g.node n).preTasks → Child g ld n m
  | init : m ∈ (g.node n).initTasks → Child g ld n m
  | arg : effTask g ld n = none → occursVals m ((g.node n).args.map (·.value)) = true → Child g ld n m

/-- walking from `n` reaches a configuration that carries task `t` (without crossing a task boundary:
    the parameters of a configuration that has a producing task and is not loaded are not inspected; those of a loaded
    configuration are). -/
inductive Emb (g : Graph) (ld : Nat → Bool) : Nat → Nat → Prop
  | here {n t} : effTask g ld n = some t → Emb g ld n t
  | step {n m t} : Child g ld n m → Emb g ld m t → Emb g ld n t

theorem depsNode_mono (g : Graph) (ld : Nat → Bool) : ∀ fuel n acc x, x ∈ acc → x ∈ depsNode g ld fuel n acc := by
  intro fuel
  induction fuel with
  | zero => intro n acc x h; simpa [depsNode] using h
  | succ fuel ih =>
    intro n acc x h
    simp only [depsNode]
    have h1 := walkNodes_mono _ ih (g.node n).preTasks acc x h
    have h2 := walkNodes_mono _ ih (g.node n).initTasks _ x h1
    split
    · split
      · exact h2
      · simp [h2]
    · exact walkVals_mono _ ih _ _ x h2

/-- **completeness**: every task embedded in the parameters (at any depth, through lists, dicts, nested
    configurations, task outputs, pre-tasks and init tasks) is collected — for acyclic parameter graphs
    (the real code has no visited set and does not terminate on cycles). -/
theorem depsNode_complete (g : Graph) (ld : Nat → Bool) (rank : Nat → Nat) (hr : ∀ n m, Child g ld n m → rank m < rank n) :
    ∀ fuel n t, Emb g ld n t → rank n < fuel → ∀ acc, t ∈ depsNode g ld fuel n acc := by
  intro fuel
  induction fuel with
  | zero => intro n t _ h; omega
  | succ fuel ih =>
    intro n t he hf acc
    simp only [depsNode]
    cases he with
    | here htask =>
      simp only [htask]
      split
      · rename_i hc; simpa using hc
      · simp
    | step hc hemb =>
      rename_i m
      have hm : rank m < fuel := by have := hr n m hc; omega
      have hcb : ∀ a, t ∈ depsNode g ld fuel m a := ih m t hemb hm
      have mono := depsNode_mono g ld fuel
      cases hc with
      | pre hp =>
        have h1 := walkNodes_mem _ mono m t hcb (g.node n).preTasks acc hp
        have h2 := walkNodes_mono _ mono (g.node n).initTasks _ t h1
        split
        · split
          · exact h2
          · simp [h2]
        · exact walkVals_mono _ mono _ _ t h2
      | init hp =>
        have h2 := walkNodes_mem _ mono m t hcb (g.node n).initTasks (walkNodes (depsNode g ld fuel) (g.node n).preTasks acc) hp
        split
        · split
          · exact h2
          · simp [h2]
        · exact walkVals_mono _ mono _ _ t h2
      | arg hnone hocc =>
        simp only [hnone]
        exact walkVals_mem _ mono m t hcb _ _ hocc

/-- **soundness**: nothing else is collected. -/
theorem depsNode_sound (g : Graph) (ld : Nat → Bool) : ∀ fuel n acc x, x ∈ depsNode g ld fuel n acc → x ∈ acc ∨ Emb g ld n x := by
  intro fuel
  induction fuel with
  | zero => intro n acc x h; simp only [depsNode] at h; exact .inl h
  | succ fuel ih =>
    intro n acc x h
    simp only [depsNode] at h
    have hpre : ∀ a, x ∈ walkNodes (depsNode g ld fuel) (g.node n).preTasks a → x ∈ a ∨ Emb g ld n x := by
      intro a hx
      rcases walkNodes_sound _ (fun k y => Emb g ld k y) ih _ a x hx with h | ⟨k, hk, hp⟩
      · exact .inl h
      · exact .inr (.step (.pre hk) hp)
    have hinit : ∀ a, x ∈ walkNodes (depsNode g ld fuel) (g.node n).initTasks a → x ∈ a ∨ Emb g ld n x := by
      intro a hx
      rcases walkNodes_sound _ (fun k y => Emb g ld k y) ih _ a x hx with h | ⟨k, hk, hp⟩
      · exact .inl h
      · exact .inr (.step (.init hk) hp)
    have hboth : ∀ y, y ∈ walkNodes (depsNode g ld fuel) (g.node n).initTasks (walkNodes (depsNode g ld fuel) (g.node n).preTasks acc) → y = x → x ∈ acc ∨ Emb g ld n x := by
      intro y hy hyx; subst hyx
      rcases hinit _ hy with h | h
      · exact hpre _ h
      · exact .inr h
    split at h
    · rename_i t htask
      split at h
      · exact hboth x h rfl
      · simp only [mem_append, mem_singleton] at h
        rcases h with h | h
        · exact hboth x h rfl
        · subst h; exact .inr (.here htask)
    · rename_i hnone
      rcases walkVals_sound _ (fun k y => Emb g ld k y) ih _ _ x h with h | ⟨k, hk, hp⟩
      · exact hboth x h rfl
      · exact .inr (.step (.arg hnone hk) hp)

end XpmVerif.Ident
