import XpmVerif.Model.Serial
/-! M5, continued: what travels *next to* the definitions.

    (a) `DataPath` values.  `serialization.save(obj, dir)` / `ConfigInformation.serialize(dir)` run `__get_objects__`
    with a `SerializationContext(save_directory=dir)`: for every data argument (`argument.is_data`) holding a path,
    `context.serialize(var_path, value)` copies the file to `dir / Path(*var_path)` and the definition records the
    *relative* name `str(Path(*var_path))` as a `path.serialized` object; `var_path` is
    `[str(len(objects)), argument.name]` — the position the definition will have in the list and the name of the
    argument (fix d61a308; before: `[argument.name]`, finding C12-N1).  `serialization.load(dir)` reads the list back
    and `load_objects` hands every `SerializedPath` to the data loader of the directory: `dir / name` (fix 0198de3:
    `load` forwards the loader; before, the loader that raises "No serialization path was given" was used, C12-N2).
    Without a save directory (`__json__`, `state_dict(SerializationContext())`, the `params.json` of a job) the
    recorded name is the path itself and the job process, which has no loader, is given `SerializedPath.path`:
    a `Path` since fix 6f3c8f7 (before: the `str` found in the JSON, C12-N3).

    The file system is a finite map path ↦ content id (`FS`, first binding wins); a save directory is the map
    relative name ↦ content id made of the copies, the last copy to a name winning (`shutil.copy` overwrites).

    (b) Tags.  `outputjson` writes `"tags": {k: v for k, v in self.tags().items()}` next to `"objects"`;
    `tags()` is a `ConfigWalk(recurse_task=True)` whose `postprocess` does `self.tags.update(config.__xpm__._tags)`:
    a dictionary updated in the order the configurations are *completed*; `run.py::run` assigns
    `task.__tags__ = params["tags"]`.

    Abstractions: a path is the list of its characters, `/`-joined (`inDir`); `is_folder` is not modelled (files
    only); the content of a missing source file is content id 0 (the generators only name existing files). -/
namespace XpmVerif.Serial
open XpmVerif.Ident

/-- what the current source does at the places where the findings C12-N1 / N2 / N3 / N4 live
    (`Generated/SerialKeys.lean` is produced from the source on every run). -/
structure DFlags where
  /-- `__get_objects__` pushes `str(len(objects))` before the argument name (N1, fix d61a308). -/
  perObject : Bool
  /-- `serialization.load` passes its data loader on to `from_state_dict` (N2, fix 0198de3). -/
  loadForwards : Bool
  /-- `_objectFromParameters` wraps the recorded name in `Path(…)` (N3, fix 6f3c8f7). -/
  pathWrapped : Bool
  /-- `serialization.from_task_dir` passes its data loader on to `from_state_dict` (N4, fix aede015). -/
  taskDirForwards : Bool := true
  /-- `SerializationContext.serialize` names the copy `Path(*var_path)`: after the *parameter* (false: after the
      data file, `data_path.name` — seeded change C12g). -/
  nameByParam : Bool := true
  deriving Repr, DecidableEq

/-! ### names -/

def slash : Nat := 47

/-- `str(n)` for a natural number, as character codes. -/
def dec (n : Nat) : List Nat := (Nat.toDigits 10 n).map Char.toNat

/-- `str(Path(*var_path))`: position of the definition, `/`, name of the argument. -/
def paramName (dfl : DFlags) (pos : Nat) (arg : List Nat) : List Nat :=
  if dfl.perObject then dec pos ++ slash :: arg else arg

/-- `Path.name`: what follows the last `/`. -/
def baseName (s : List Nat) : List Nat := (s.reverse.takeWhile (· != slash)).reverse

/-- the relative name `SerializationContext.serialize` gives to the copy of the file `src` held by argument `arg` of the
    definition at position `pos`. -/
def relName (dfl : DFlags) (pos : Nat) (arg src : List Nat) : List Nat :=
  if dfl.nameByParam then paramName dfl pos arg else paramName dfl pos (baseName src)

/-- `dir / name`. -/
def inDir (base rel : List Nat) : List Nat := base ++ slash :: rel

/-! ### file system -/

abbrev FS := List (List Nat × Nat)

def fsGet : FS → List Nat → Option Nat
  | [], _ => none
  | (q, c) :: r, p => if p = q then some c else fsGet r p

/-- index of `n` in the emitted list = `len(objects)` when the definition of `n` is built. -/
def posOf : List Nat → Nat → Nat
  | [], _ => 0
  | x :: xs, n => if n = x then 0 else posOf xs n + 1

def dataNames (lib : List Cls) (sg : SGraph) (n : Nat) : List (List Nat) :=
  match findCls lib (sg.cls n) with
  | some c => c.data
  | none => []

/-- `value = context.serialize(var_path, value)` for a data argument that holds a path. -/
def renameArg (dfl : DFlags) (data : List (List Nat)) (pos : Nat) (a : Arg) : Arg :=
  match data.contains a.name, a.value with
  | true, .path s => { a with value := .path (relName dfl pos a.name s) }
  | _, _ => a

/-- the graph as `__get_objects__` writes it into a save directory: every data path of an emitted configuration
    replaced by its relative name. -/
def savedGraph (dfl : DFlags) (lib : List Cls) (sg : SGraph) (order : List Nat) : SGraph :=
  { g := { nodes := (List.range sg.g.size).map (fun n =>
      let nd := sg.g.node n
      if order.contains n then
        { nd with args := nd.args.map (renameArg dfl (dataNames lib sg n) (posOf order n)) }
      else nd) },
    cname := sg.cname }

/-- the copies made while the definition of one configuration is built: (relative name, content). -/
def copiesOfArgs (dfl : DFlags) (fs : FS) (data : List (List Nat)) (pos : Nat) : List Arg → List (List Nat × Nat)
  | [] => []
  | a :: r =>
    match data.contains a.name, a.value with
    | true, .path s => (relName dfl pos a.name s, (fsGet fs s).getD 0) :: copiesOfArgs dfl fs data pos r
    | _, _ => copiesOfArgs dfl fs data pos r

/-- all the copies of a save, in the order they are made. -/
def copies (dfl : DFlags) (lib : List Cls) (sg : SGraph) (fs : FS) (order : List Nat) : List (List Nat × Nat) :=
  order.flatMap (fun n => copiesOfArgs dfl fs (dataNames lib sg n) (posOf order n) (sg.g.node n).args)

/-- the save directory as a finite map (the last copy to a name comes first). -/
def dirOf (cs : List (List Nat × Nat)) : FS := cs.reverse

/-- the file system after the save into directory `base`. -/
def fsAfter (base : List Nat) (fs : FS) (cs : List (List Nat × Nat)) : FS :=
  (dirOf cs).map (fun p => (inDir base p.1, p.2)) ++ fs

structure Saved where
  defs : List Def
  data : JVal
  dir : FS
  deriving Repr

/-- `serialization.save(v, dir)` (and, with `v = .ref root`, `ConfigInformation.serialize(dir)`): `definition.json`
    and the files of the directory. -/
def save (fl : Flags) (dfl : DFlags) (lib : List Cls) (sg : SGraph) (fs : FS) (v : Val) : Saved :=
  let order := serialOrder sg.g (cfgRefs v)
  { defs := serialize fl lib (savedGraph dfl lib sg order) (cfgRefs v),
    data := encJ v,
    dir := dirOf (copies dfl lib sg fs order) }

/-! ### loading with a data loader -/

/-- `data_loader(v)` of a directory on a data argument (`v` a `SerializedPath`). -/
def relocateArg (base : List Nat) (data : List (List Nat)) (a : Arg) : Arg :=
  match data.contains a.name, a.value with
  | true, .path s => { a with value := .path (inDir base s) }
  | _, _ => a

def relocateObj (lib : List Cls) (base : List Nat) (o : LObj) : LObj :=
  let data := match findCls lib o.cname with | some c => c.data | none => []
  { o with node := { o.node with args := o.node.args.map (relocateArg base data) } }

def hasDataPath (lib : List Cls) (o : LObj) : Bool :=
  let data := match findCls lib o.cname with | some c => c.data | none => []
  o.node.args.any (fun a => data.contains a.name && (match a.value with | .path _ => true | _ => false))

/-- `serialization.load(dir)` on what `save` wrote (configuration objects): the objects of `load`, every data path
    relocated into the directory; when the loader is not forwarded, the first data path raises. -/
def loadSaved (fl : Flags) (dfl : DFlags) (lib : List Cls) (base : List Nat) (s : Saved) : Except Err (Loaded × Val) :=
  match fromStateDict fl lib (s.defs, s.data) with
  | .error e => .error e
  | .ok (L, v) =>
    if !dfl.loadForwards && L.any (fun p => hasDataPath lib p.2) then .error .noDataLoader
    else .ok (L.map (fun p => (p.1, relocateObj lib base p.2)), v)

/-- save into `base1`, load, save the loaded value into `base2`, load again (the second save reads the files of the
    first directory). -/
def saveLoadTwice (fl : Flags) (dfl : DFlags) (lib : List Cls) (sg : SGraph) (fs : FS) (v : Val) (base1 base2 : List Nat) :
    Except Err (Saved × Loaded × Saved × Loaded × Val) :=
  let s1 := save fl dfl lib sg fs v
  match loadSaved fl dfl lib base1 s1 with
  | .error e => .error e
  | .ok (l1, v1) =>
    let fs1 := fsAfter base1 fs (copies dfl lib sg fs (serialOrder sg.g (cfgRefs v)))
    let s2 := save fl dfl lib (regraph l1 sg.g.size) fs1 v1
    match loadSaved fl dfl lib base2 s2 with
    | .error e => .error e
    | .ok (l2, v2) => .ok (s1, l1, s2, l2, v2)

/-- what the job process (no data loader: `fromParameters(params["objects"])`) assigns for a data argument whose
    definition records the path `s`: `SerializedPath.path`. -/
def jobDataValue (dfl : DFlags) (s : List Nat) : Val := if dfl.pathWrapped then .path s else .str s

/-! ### tags -/

abbrev Tags := List (List Nat × Val)

/-- `dict.__setitem__`: an existing key keeps its place and takes the new value, a new key goes last. -/
def setTag : Tags → List Nat → Val → Tags
  | [], k, v => [(k, v)]
  | (k', v') :: r, k, v => if k = k' then (k', v) :: r else (k', v') :: setTag r k v

/-- `dict.update`. -/
def updTags (acc : Tags) : Tags → Tags
  | [] => acc
  | (k, v) :: r => updTags (setTag acc k v) r

def getTag : Tags → List Nat → Option Val
  | [], _ => none
  | (k', v) :: r, k => if k = k' then some v else getTag r k

/-- children in the order `ConfigWalk.__call__` visits them with `recurse_task=True`: values, pre-tasks, init
    tasks, producing task. -/
def succTags (g : Graph) (n : Nat) : List Nat :=
  let nd := g.node n
  argRefs nd ++ nd.preTasks ++ nd.initTasks ++ optL nd.task

/-- the order in which `TagFinder.postprocess` sees the configurations. -/
def tagOrder (g : Graph) (root : Nat) : List Nat :=
  exitsOf (dfs (succTags g) (g.size + 1) root ([], [])).1

/-- `config.__xpm__.tags()`; `tg n` = the `_tags` dictionary of configuration `n`. -/
def collectTags (g : Graph) (tg : Nat → Tags) (root : Nat) : Tags :=
  (tagOrder g root).foldl (fun acc n => updTags acc (tg n)) []

/-- the `"tags"` member of `params.json`. -/
def encTags (t : Tags) : JVal := .obj (t.map (·.1)) (encJs (t.map (·.2)))

/-- `params["tags"]` as the job process reads it (`json.load`: an object whose members are plain values). -/
def decTags : JVal → Except Err Tags
  | .obj ks vs =>
    match decJs [] vs with
    | .error e => .error e
    | .ok l => .ok (ks.zip l)
  | _ => .error .malformed

/-- `task.__tags__` in the job process of `root`. -/
def jobTags (g : Graph) (tg : Nat → Tags) (root : Nat) : Except Err Tags :=
  decTags (encTags (collectTags g tg root))

/-- a tag value: `str`, `int`, `float`, `bool` (what `tag()` accepts). -/
def isScalar : Val → Bool
  | .bool _ | .int _ | .float _ | .str _ => true
  | _ => false

/-! ### what the translator compares with (`harness/xv/translate/serialkeys.py` → `Generated/SerialKeys.lean`) -/

/-- what the guards of `__get_objects__` may look at (`self.loaded`, `self.task`, `self.meta`, `self.pre_tasks`,
    `self.init_tasks`, `self.xpmtype._package`). -/
structure WEnv where
  loaded : Bool
  task : Option Nat
  mflag : Option Bool
  pre : List Nat
  init : List Nat
  package : Bool
  deriving Repr

def sameKeys (a b : List String) : Bool := a.all (b.contains ·) && b.all (a.contains ·)

/-- members of a definition known to the model (`Def`): `id`; `module` / `type` / `file` (the class, `cname`);
    `typename` / `identifier` (recomputed by the model, restored as given for runtime objects); `fields`;
    `pre-tasks`; `init-tasks`; `task`; `meta`. -/
def defKeysModel : List String :=
  ["id", "module", "type", "typename", "identifier", "fields", "pre-tasks", "init-tasks", "task", "meta", "file"]

/-- values of the member `"type"` of a typed JSON object (`encJ` / `decJ`: `sDict`, `sPython`, `sPath`, `sPathSer`, `sEnum`). -/
def typeTagsModel : List String := ["dict", "python", "path", "path.serialized", "enum"]

def tagBytes (s : String) : List Nat := s.toUTF8.toList.map (·.toNat)

/-- kinds of values `_outputjsonvalue` distinguishes (constructors of `Val`: `none`, `list`, `dict`, `path`, a data
    path already turned into a `SerializedPath` (`encField`), `bool`/`int`/`float`/`str`, `enum`, `ref`). -/
def dispatchKinds : List String := ["none", "list", "dict", "path", "serializedpath", "scalar", "enum", "config"]

def before (l : List String) (a b : String) : Bool := l.idxOf a < l.idxOf b

/-- when the model's writer (`mkDef`) emits an optional member. -/
def modelGuard (fl : Flags) (e : WEnv) : String → Bool
  | "pre-tasks" => !e.pre.isEmpty
  | "init-tasks" => !e.init.isEmpty
  | "meta" => (writeMeta fl e.mflag).isSome
  | "task" => e.task.isSome
  | _ => true

def envOf (nd : Node) (loaded package : Bool) : WEnv :=
  { loaded := loaded, task := nd.task, mflag := nd.mflag, pre := nd.preTasks, init := nd.initTasks, package := package }

end XpmVerif.Serial
