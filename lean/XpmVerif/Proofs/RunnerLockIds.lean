import XpmVerif.Model.RunnerLockIds
namespace XpmVerif.RunnerLockIds
open XpmVerif.Runner (Holder Eff)

theorem inv_init : Inv {} := ⟨by intro h i hh; simp at hh, by intro i h hh; simp at hh⟩

theorem step_openL (fs : FS) (h : Holder) : step fs (.openL h) =
    if fs.fd h ≠ none then fs
    else if fs.name ≠ none then { fs with fd := updH fs.fd h fs.name }
    else { fs with name := some fs.next, next := fs.next + 1, fd := updH fs.fd h (some fs.next) } := by
  simp only [step]
  cases hf : fs.fd h <;> cases hn : fs.name <;> simp [hn]

theorem step_acquire (fs : FS) (h : Holder) : step fs (.acquire h) =
    match fs.fd h with
    | none => fs
    | some i => if fs.holder i = none then { fs with holder := updI fs.holder i (some h) } else fs := by
  simp only [step]
  cases hf : fs.fd h <;> simp

theorem inv_step (fs : FS) (o : Op) (ho : o ≠ .unlink) (inv : Inv fs) : Inv (step fs o) := by
  obtain ⟨h1, h2⟩ := inv
  cases o with
  | unlink => exact absurd rfl ho
  | openL h =>
    rw [step_openL]
    by_cases hf : fs.fd h = none
    · by_cases hn : fs.name = none
      · simp only [hf, hn, ne_eq, not_true_eq_false, if_false]
        constructor <;> intro a b hab <;> simp only [updH] at hab ⊢ <;> grind
      · simp only [hf, hn, ne_eq, not_true_eq_false, not_false_eq_true, if_false, if_true]
        constructor <;> intro a b hab <;> simp only [updH] at hab ⊢ <;> grind
    · simp only [hf, ne_eq, not_false_eq_true, if_true]; exact ⟨h1, h2⟩
  | acquire h =>
    simp only [step]
    cases hf : fs.fd h with
    | none => exact ⟨h1, h2⟩
    | some i =>
      simp only []
      by_cases hh : fs.holder i = none
      · simp only [hh, if_true]
        constructor <;> intro a b hab <;> simp only [updI] at hab ⊢ <;> grind
      · simp only [hh, if_false]; exact ⟨h1, h2⟩
  | releaseL h =>
    simp only [step]
    cases hf : fs.fd h with
    | none => exact ⟨h1, h2⟩
    | some i =>
      simp only []
      by_cases hh : fs.holder i = some h
      · simp only [hh, if_true]
        constructor <;> intro a b hab <;> simp only [updH, updI] at hab ⊢ <;> grind
      · simp only [hh, if_false]
        constructor <;> intro a b hab <;> simp only [updH] at hab ⊢ <;> grind

def noUnlink (ops : List Op) : Prop := ∀ o ∈ ops, o ≠ Op.unlink

theorem inv_run (ops : List Op) (fs : FS) (hn : noUnlink ops) (inv : Inv fs) : Inv (run fs ops) := by
  induction ops generalizing fs with
  | nil => exact inv
  | cons o os ih =>
    exact ih (step fs o) (fun x hx => hn x (List.mem_cons_of_mem _ hx)) (inv_step fs o (hn o (List.mem_cons_self)) inv)

/-- without `unlink` a name, once it points to an inode, points to that inode for ever -/
theorem name_step (fs : FS) (o : Op) (ho : o ≠ .unlink) (i : Nat) (h : fs.name = some i) : (step fs o).name = some i := by
  cases o with
  | unlink => exact absurd rfl ho
  | openL x => rw [step_openL]; split; exact h; simp [h]
  | acquire x =>
    simp only [step]
    cases fs.fd x with
    | none => exact h
    | some j => simp only []; split <;> exact h
  | releaseL x =>
    simp only [step]
    cases fs.fd x with
    | none => exact h
    | some j => exact h

theorem name_run (ops : List Op) (fs : FS) (hn : noUnlink ops) (i : Nat) (h : fs.name = some i) : (run fs ops).name = some i := by
  induction ops generalizing fs with
  | nil => exact h
  | cons o os ih =>
    exact ih (step fs o) (fun x hx => hn x (List.mem_cons_of_mem _ hx)) (name_step fs o (hn o (List.mem_cons_self)) i h)

theorem holds_iff_abs (fs : FS) (inv : Inv fs) (h : Holder) : holds fs h ↔ abs fs = some h := by
  constructor
  · rintro ⟨i, hf, hh⟩
    simp [abs, inv.fdName h i hf, hh]
  · intro ha
    simp only [abs] at ha
    cases hn : fs.name with
    | none => rw [hn] at ha; cases ha
    | some i =>
      rw [hn] at ha
      exact ⟨i, inv.holderFd i h ha, ha⟩

theorem opsOf_noUnlink (h : Holder) (p : List Eff) (hp : p.contains .unlinkLock = false) : noUnlink (opsOf h p) := by
  induction p with
  | nil => intro o ho; cases ho
  | cons e es ih =>
    simp only [List.contains_cons, Bool.or_eq_false_iff] at hp
    intro o ho
    simp only [opsOf, List.mem_append] at ho
    rcases ho with ho | ho
    · cases e <;> simp [opsOfEff] at ho <;> first | (simp_all; done) | (rcases ho with rfl | rfl <;> simp)
    · exact ih hp.2 o ho

/-- open + acquire by a process that has nothing open = the abstract `tryLock` of `Runner.mainStep`: taken iff free -/
theorem abs_tryLock (fs : FS) (inv : Inv fs) (h : Holder) (hf : fs.fd h = none) :
    abs (run fs [.openL h, .acquire h]) = if abs fs = none then some h else abs fs := by
  obtain ⟨h1, h2⟩ := inv
  simp only [run, step_openL, hf, ne_eq, not_true_eq_false, if_false]
  cases hn : fs.name with
  | none =>
    have hfree : fs.holder fs.next = none := by
      cases hh : fs.holder fs.next with
      | none => rfl
      | some x => have := h1 x fs.next (h2 fs.next x hh); rw [hn] at this; cases this
    simp [step, updH, updI, abs, hn, hfree]
  | some i =>
    simp only [ne_eq, reduceCtorEq, not_false_eq_true, if_true, step, updH, abs, hn]
    cases hh : fs.holder i <;> simp [updI, hh]

/-- release / close / death = the abstract `Runner.release` -/
theorem abs_release (fs : FS) (inv : Inv fs) (h : Holder) :
    abs (step fs (.releaseL h)) = if abs fs = some h then none else abs fs := by
  have hq := holds_iff_abs fs inv h
  obtain ⟨h1, h2⟩ := inv
  simp only [step]
  cases hf : fs.fd h with
  | none =>
    have : ¬ abs fs = some h := fun ha => by
      obtain ⟨i, hi, _⟩ := hq.mpr ha
      rw [hf] at hi; cases hi
    simp [this]
  | some i =>
    have hn := h1 h i hf
    simp only [abs, hn]
    by_cases hh : fs.holder i = some h
    · simp [hh, updI]
    · simp [hh]

end XpmVerif.RunnerLockIds
