import XpmVerif.Proofs.FilterClean
/-! C19 — job filters mean what they say; cleaning commands delete only what is selected.
    Property theorems only.  Model: `Model/Filter.lean` (filter language, expression objects),
    `Model/Clean.lean` (workspace layouts, `jobs clean`, `orphans`).  `Quirks.none` is the repaired
    code; `Quirks.legacy` reproduces the defects F14, F17, F21 of the pinned source, for which the
    negative theorems at the end hold.  `rx` (regular-expression matching) and `sc` (script name of a
    task identifier) are arbitrary functions: every theorem holds for all of them. -/
namespace XpmVerif.C19
open XpmVerif.Filter

/-! ### first sentence: a filter evaluates according to its documented meaning -/

/-- **C19, first sentence.** For every expression, every job information (tags, state, name) and
    every regular-expression semantics, the object chain built by the parse actions
    (`LogicExpr.summary`) and evaluated by the `filter` methods (right operand first) yields the
    documented meaning `evalSpec`, and `createFilter` does not raise. -/
theorem evalImpl_eq_spec (rx : Rx) (e : Expr) (i : Info) :
    evalImpl Quirks.none rx e i = some (evalSpec rx e i) := by
  simp [evalImpl, compile_none, summary_filter_none]

/-- what `evalSpec` means, operator by operator (so that the specification itself is visible):
    equality with a constant / another variable, membership, negated membership, regular expression
    on a present non-empty value. -/
theorem spec_atoms (rx : Rx) (i : Info) (v w : Var) (c pat : String) (cs : List String) :
    (evalSpec rx ⟨.eqConst v c, []⟩ i = true ↔ v.get i = some c) ∧
    (evalSpec rx ⟨.eqVar v w, []⟩ i = true ↔ v.get i = w.get i) ∧
    (evalSpec rx ⟨.isIn v cs, []⟩ i = true ↔ ∃ s, v.get i = some s ∧ s ∈ cs) ∧
    (evalSpec rx ⟨.notIn v cs, []⟩ i = true ↔ ¬ ∃ s, v.get i = some s ∧ s ∈ cs) ∧
    (evalSpec rx ⟨.regex v pat, []⟩ i = true ↔ ∃ s, v.get i = some s ∧ s ≠ "" ∧ rx pat s = true) := by
  refine ⟨?_, ?_, ?_, ?_, ?_⟩ <;> simp [evalSpec, Atom.spec, memberOf, rxMatch] <;>
    cases v.get i <;> simp

/-- `and` / `or` chains associate to the left: appending `op b` to a chain combines the value of the
    chain so far with `b`. -/
theorem spec_chain (rx : Rx) (i : Info) (a b : Atom) (rest : List (Op × Atom)) (op : Op) :
    evalSpec rx ⟨a, rest ++ [(op, b)]⟩ i
      = (match op with
         | .and => evalSpec rx ⟨a, rest⟩ i && evalSpec rx ⟨b, []⟩ i
         | .or => evalSpec rx ⟨a, rest⟩ i || evalSpec rx ⟨b, []⟩ i) := by
  cases op <;> simp [evalSpec, List.foldl_append, Op.apply]

/-- non-vacuity: `model = "bm25" or mode in ["b"] and @state = "ERROR"` on a finished job. -/
example : evalImpl Quirks.none (fun _ _ => false)
    ⟨.eqConst (.tag "model") "bm25", [(.or, .isIn (.tag "mode") ["b"]), (.and, .eqConst .state "ERROR")]⟩
    { state := some "DONE", name := "pkg.task", tags := [("model", "bm25"), ("mode", "a")] } = some false := by decide
example : evalImpl Quirks.none (fun _ _ => false)
    ⟨.notIn (.tag "model") ["bm25"], [(.and, .isIn (.tag "mode") ["a", "b"])]⟩
    { state := none, name := "pkg.task", tags := [("model", "tfidf"), ("mode", "a")] } = some true := by decide

/-! ### second sentence: `jobs clean` -/

/-- **`jobs clean` removes exactly the finished jobs selected by the filter, only with `--perform`.**
    For every layout and every option set the command succeeds, leaves the experiments untouched, and
    a job directory is gone afterwards iff `--perform` was given, the job belongs to the index of the
    experiment named by `--experiment` (if given), the filter (documented meaning, on the job's tags,
    name and marker-derived state) selects it, and its state is finished (DONE or ERROR). -/
theorem clean_exact (rx : Rx) (sc : String → String) (L : Layout) (o : CleanOpts) :
    ∃ L', cleanImpl Quirks.none rx sc L o = some L' ∧ L'.xps = L.xps ∧
      ∀ j, j ∈ L'.jobs ↔
        j ∈ L.jobs ∧ ¬ (o.perform = true ∧ inScope L o j = true ∧ selected rx o j = true
                        ∧ isFinished (stateSpec j) = true) := by
  refine ⟨clean rx L o, cleanImpl_none rx sc L o, rfl, fun j => ?_⟩
  rw [mem_clean]
  simp [toRemove]

/-- the scope and selection predicates used by `clean_exact`, spelled out. -/
theorem clean_scope_meaning (rx : Rx) (L : Layout) (j : Job) (X : String) (e : Expr) (p : Bool) :
    (inScope L { experiment := some X, filter := some e, perform := p } j = true ↔
        ∃ x ∈ L.xps, x.name = X ∧ j.key ∈ x.index) ∧
    (selected rx { experiment := some X, filter := some e, perform := p } j = true ↔
        evalSpec rx e { state := (stateSpec j).map JState.name, name := j.ty, tags := j.tags } = true) ∧
    (isFinished (stateSpec j) = true ↔ (j.done = true ∨ (j.failed = true ∧ j.pid = false))) := by
  refine ⟨?_, ?_, ?_⟩
  · simp [inScope, inXp]
  · simp [selected, infoOf]
  · cases hd : j.done <;> cases hf : j.failed <;> cases hp : j.pid <;>
      simp [stateSpec, isFinished, JState.finished, hd, hf, hp]

/-- **never a running job**: a job whose process is alive (and that has not recorded completion)
    survives `jobs clean`, whatever the filter, the experiment restriction and `--perform`. -/
theorem clean_never_running (rx : Rx) (sc : String → String) (L : Layout) (o : CleanOpts) (j : Job)
    (hj : j ∈ L.jobs) (hr : j.running = true) :
    ∃ L', cleanImpl Quirks.none rx sc L o = some L' ∧ j ∈ L'.jobs := by
  refine ⟨clean rx L o, cleanImpl_none rx sc L o, ?_⟩
  rw [mem_clean]
  exact ⟨hj, by simp [toRemove, running_not_finished j hr]⟩

/-- **only with `--perform`**: without it the workspace is unchanged. -/
theorem clean_noop_without_perform (rx : Rx) (sc : String → String) (L : Layout) (o : CleanOpts)
    (h : o.perform = false) : cleanImpl Quirks.none rx sc L o = some L := by
  rw [cleanImpl_none, clean_of_not_perform rx L o h]

/-! ### third sentence: `orphans` -/

/-- **`orphans --clean` removes exactly the job directories referenced by no experiment index or
    backup index** (`--ignore-old` drops the backup indexes from the reference set; without
    `--clean` nothing is removed); experiments are untouched. -/
theorem orphans_exact (L : Layout) (o : OrphOpts) :
    (orphansImpl L o).xps = L.xps ∧
    ∀ j, j ∈ (orphansImpl L o).jobs ↔
      j ∈ L.jobs ∧ ¬ (o.clean = true ∧
        ¬ ∃ x ∈ L.xps, j.key ∈ x.index ∨ (o.ignoreOld = false ∧ ∃ b, x.backup = some b ∧ j.key ∈ b)) := by
  refine ⟨rfl, fun j => ?_⟩
  rw [mem_orphans]
  have href : referenced L o j = true ↔
      ∃ x ∈ L.xps, j.key ∈ x.index ∨ (o.ignoreOld = false ∧ ∃ b, x.backup = some b ∧ j.key ∈ b) := by
    simp only [referenced, List.any_eq_true, Bool.or_eq_true, Bool.and_eq_true, List.contains_iff_mem,
      Bool.not_eq_true']
    constructor
    · rintro ⟨x, hx, h | ⟨h1, h2⟩⟩
      · exact ⟨x, hx, Or.inl h⟩
      · refine ⟨x, hx, Or.inr ⟨h1, ?_⟩⟩
        cases hb : x.backup with
        | none => simp [hb] at h2
        | some b => exact ⟨b, rfl, by simpa [hb] using h2⟩
    · rintro ⟨x, hx, h | ⟨h1, b, hb, h2⟩⟩
      · exact ⟨x, hx, Or.inl h⟩
      · exact ⟨x, hx, Or.inr ⟨h1, by simpa [hb] using h2⟩⟩
  rw [href]
  constructor
  · rintro ⟨hj, h⟩
    refine ⟨hj, ?_⟩
    rintro ⟨hc, hn⟩
    rcases h with h | h
    · simp [hc] at h
    · exact hn h
  · rintro ⟨hj, h⟩
    refine ⟨hj, ?_⟩
    cases hc : o.clean with
    | false => exact Or.inl rfl
    | true =>
      refine Or.inr ?_
      by_cases hr : ∃ x ∈ L.xps, j.key ∈ x.index ∨ (o.ignoreOld = false ∧ ∃ b, x.backup = some b ∧ j.key ∈ b)
      · exact hr
      · exact absurd ⟨hc, hr⟩ h

/-! ### histories -/

/-- **any history of `jobs clean` / `orphans` commands** (any options): no job appears, the experiments
    are untouched, and a job that is not finished and is indexed by some experiment is never removed —
    in particular a running one. -/
theorem history_safe (rx : Rx) (sc : String → String) (cs : List Cmd) (L : Layout) :
    (runCmds Quirks.none rx sc L cs).xps = L.xps ∧
    (∀ j, j ∈ (runCmds Quirks.none rx sc L cs).jobs → j ∈ L.jobs) ∧
    (∀ j, j ∈ L.jobs → isFinished (stateSpec j) = false → (∃ x ∈ L.xps, j.key ∈ x.index) →
        j ∈ (runCmds Quirks.none rx sc L cs).jobs) := by
  induction cs generalizing L with
  | nil => exact ⟨rfl, fun j h => h, fun j h _ _ => h⟩
  | cons c cs ih =>
    have hx := runCmd_xps rx sc L c
    obtain ⟨i1, i2, i3⟩ := ih (runCmd Quirks.none rx sc L c)
    simp only [runCmds, List.foldl_cons] at i1 i2 i3 ⊢
    refine ⟨i1.trans hx, fun j hj => ?_, fun j hj hf hi => ?_⟩
    · have := i2 j hj
      cases c with
      | clean o => simp only [runCmd, cleanImpl_none, Option.getD_some] at this; exact ((mem_clean rx L o j).1 this).1
      | orphans o => exact ((mem_orphans L o j).1 this).1
    · apply i3 j _ hf (by rw [hx]; exact hi)
      cases c with
      | clean o =>
        simp only [runCmd, cleanImpl_none, Option.getD_some]
        exact (mem_clean rx L o j).2 ⟨hj, by simp [toRemove, hf]⟩
      | orphans o =>
        refine (mem_orphans L o j).2 ⟨hj, Or.inr ?_⟩
        obtain ⟨x, hx', hk⟩ := hi
        simp only [referenced, List.any_eq_true, Bool.or_eq_true, List.contains_iff_mem]
        exact ⟨x, hx', Or.inl hk⟩

/-- a history in which no command carries `--perform` / `--clean` changes nothing. -/
theorem history_noop (rx : Rx) (sc : String → String) (cs : List Cmd) (L : Layout)
    (h : ∀ c ∈ cs, match c with | .clean o => o.perform = false | .orphans o => o.clean = false) :
    runCmds Quirks.none rx sc L cs = L := by
  induction cs generalizing L with
  | nil => rfl
  | cons c cs ih =>
    have hc := h c (by simp)
    have : runCmd Quirks.none rx sc L c = L := by
      cases c with
      | clean o => simp only [runCmd, cleanImpl_none, Option.getD_some]; exact clean_of_not_perform rx L o hc
      | orphans o => cases L; simp only at hc; simp [runCmd, orphansImpl, hc]
    simp only [runCmds, List.foldl_cons, this]
    exact ih L (fun c hc' => h c (by simp [hc']))

/-! ### non-vacuity: a concrete workspace -/

/-- script names (last dotted component) of the three task identifiers used below. -/
def scOf (s : String) : String := if s = "a.t" then "t" else if s = "c.t" then "t" else if s = "c.u" then "u" else s

def jA : Job := { ty := "a.t", id := "in_e1", done := true, failed := false, pid := false, alive := false, tags := [("model", "bm25")] }
def jB : Job := { ty := "a.t", id := "only_e2", done := true, failed := false, pid := false, alive := false, tags := [("model", "tfidf")] }
def jC : Job := { ty := "c.t", id := "x", done := false, failed := true, pid := false, alive := false, tags := [("model", "bm25")] }
def jR : Job := { ty := "c.u", id := "restarting", done := false, failed := true, pid := true, alive := true, tags := [("model", "bm25")] }
def jO : Job := { ty := "c.u", id := "orphan", done := true, failed := false, pid := false, alive := false, tags := [] }
def L0 : Layout :=
  { jobs := [jA, jB, jC, jR, jO],
    xps := [{ name := "e1", index := [("a.t", "in_e1")], backup := none },
            { name := "e2", index := [("a.t", "only_e2"), ("c.t", "x")], backup := some [("c.u", "restarting")] }] }

/-- `jobs clean --experiment e1 --perform` removes only `a.t/in_e1`;
    `jobs clean --filter 'model not in ["bm25"]' --perform` removes `a.t/only_e2` and the untagged `c.u/orphan`;
    `jobs clean --perform` keeps the restarting job; `orphans --clean` removes only `c.u/orphan`. -/
example : (cleanImpl Quirks.none (fun _ _ => false) scOf L0 { experiment := some "e1", perform := true }).map (·.jobs)
    = some [jB, jC, jR, jO] := by decide
example : (cleanImpl Quirks.none (fun _ _ => false) scOf L0
      { filter := some ⟨.notIn (.tag "model") ["bm25"], []⟩, perform := true }).map (·.jobs)
    = some [jA, jC, jR] := by decide
example : (cleanImpl Quirks.none (fun _ _ => false) scOf L0 { perform := true }).map (·.jobs) = some [jR] := by decide
example : jR.running = true ∧ jR ∈ L0.jobs := by decide
example : (orphansImpl L0 { clean := true }).jobs = [jA, jB, jC, jR] := by decide
example : (orphansImpl L0 { clean := true, ignoreOld := true }).jobs = [jA, jB, jC] := by decide

/-! ### the defects of the pinned source, as theorems about `Quirks.legacy` -/

/-- F14: with the parse objects kept in the set, `in` never holds and `not in` always holds. -/
theorem legacy_membership_ignores_job (rx : Rx) (i : Info) (v : Var) (cs : List String) :
    evalImpl { Quirks.none with memberObj := true } rx ⟨.isIn v cs, []⟩ i = some false ∧
    evalImpl { Quirks.none with memberObj := true } rx ⟨.notIn v cs, []⟩ i = some true := by
  simp [evalImpl, compile, summary, Obj.filter, Atom.impl, Quirks.none, Expr.atoms, Atom.isRegex]

/-- F14: any expression with a `~` comparison makes `createFilter` raise. -/
theorem legacy_regex_raises (rx : Rx) (i : Info) (v : Var) (pat : String) (rest : List (Op × Atom)) :
    evalImpl Quirks.legacy rx ⟨.regex v pat, rest⟩ i = none := by
  simp [evalImpl, compile, Quirks.legacy, Expr.atoms, Atom.isRegex]

/-- F14 → deletion, for every workspace: on the pinned source a `not in` filter selects every job, so
    `jobs clean --filter 'v not in [...]' --perform` deletes every finished job whatever its tags. -/
theorem legacy_notin_clean_ignores_tags (rx : Rx) (sc : String → String) (L : Layout) (v : Var) (cs : List String) :
    cleanImpl { Quirks.none with memberObj := true } rx sc L { filter := some ⟨.notIn v cs, []⟩, perform := true }
      = some { L with jobs := L.jobs.filter (fun j => !isFinished (stateSpec j)) } := by
  simp [cleanImpl, compile, Expr.atoms, Atom.isRegex, Quirks.none, removesImpl, summary, Obj.filter, Atom.impl,
    cleanEnabled, stateImpl, stateSpec]

/-- F14 → deletion: `jobs clean --filter 'model not in ["bm25"]' --perform` on the pinned source also
    deletes the `bm25` jobs. -/
theorem legacy_notin_clean_deletes_unselected :
    (cleanImpl { Quirks.none with memberObj := true } (fun _ _ => false) scOf L0
      { filter := some ⟨.notIn (.tag "model") ["bm25"], []⟩, perform := true }).map (·.jobs) = some [jR] := by decide

/-- F21: `jobs clean --experiment e1 --perform` on the pinned source deletes finished jobs of `e2`
    whose task has the same script name `t`. -/
theorem legacy_clean_crosses_experiments :
    (cleanImpl { Quirks.none with xpByScript := true } (fun _ _ => false) scOf L0
      { experiment := some "e1", perform := true }).map (·.jobs) = some [jR, jO] := by decide

/-- F17: with `.failed` tested before `.pid`, `jobs clean --perform` deletes the restarting job
    although its process is alive. -/
theorem legacy_clean_removes_running :
    jR.running = true ∧
    (cleanImpl { Quirks.none with failedFirst := true } (fun _ _ => false) scOf L0 { perform := true }).map (·.jobs)
      = some [] := by decide

end XpmVerif.C19
