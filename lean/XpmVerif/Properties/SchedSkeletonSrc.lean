import XpmVerif.Generated.SchedSkeleton
import XpmVerif.Generated.SchedSrc
import XpmVerif.Proofs.SchedSrc
import XpmVerif.Proofs.SchedFinal
/-! Source obligations on the *control skeleton* of the scheduler coroutines (`Generated/SchedSkeleton.lean`, read off the AST of
    `Scheduler.aio_submit` / `Scheduler.aio_start` on every run by harness/xv/translate/schedskeleton.py), in the style of
    `Properties/WalkSrc.lean`: (1) `skeleton_is_source` — the skeleton in the source IS `SchedSkel.expected`; (2) hand-written
    links — the program-counter graph of `Model/Sched.lean` (`St.loopHead`, the cases of `St.resume`, `St.finish`, which helper
    thread each suspension starts, which callbacks the tail queues) interprets `SchedSkel.expected` (`actSem` / `runActs` /
    `suspend` below).  Together: the model follows the skeleton of the source; `abortReleases_from_source` makes the last of the
    four repair flags a consequence of generated data.  The decision functions named by the acts are tied separately
    (`Properties/SchedSrc.lean`: `submitDeps`, `afterStart`, `exitState`, `recheckDep` = `check_is_source`, …).
    Definitions here are the interpreter of a skeleton; everything else is a property theorem. -/
set_option linter.unusedSimpArgs false
namespace XpmVerif.SchedSkeletonSrc
open XpmVerif.Sched XpmVerif.SchedSkel XpmVerif.SchedSrc

/-- what one act of the skeleton does to the state of the model, for job `j` (and, in the abort handler, the dependency `d`
    that refused its lock).  Acts that only structure the control flow, or that the model does not represent, do nothing. -/
def actSem (fl : Flags) (j d : Nat) : Act → St → St
  | .releaseLocks, s => s.releaseAll j (s.jobs j).held
  | .locksExit, s => s.releaseAll j (s.jobs j).held
  | .recheckDep, s => s.check fl j d
  | .launch, s => s.put j { (s.jobs j) with launches := (s.jobs j).launches + 1, state := .running }
  | .exitState, s => s.put j { (s.jobs j) with state := if (s.jobs j).code = 0 then .done else .error }
  | .recordFailure, s =>
    if (s.jobs j).state ≠ .done ∧ !s.failed.contains (s.jobs j).ident then { s with failed := s.failed ++ [(s.jobs j).ident] } else s
  | .decUnfinished, s => { s with unfinished := s.unfinished - 1 }
  | .notifyExit, s => if s.waiter = .sleeping then { s with ready := s.ready ++ [.waiterRun], waiter := .notified } else s
  | .wakeDependents, s => { s with ready := s.ready ++ (s.jobDeps j).map (fun (p : Nat × Nat) => Cb.check p.1 p.2) }
  | _, s => s

def runActs (fl : Flags) (j d : Nat) (acts : List Act) (s : St) : St := acts.foldl (fun s a => actSem fl j d a s) s

/-- suspend the coroutine of `j`: new program counter, helper thread of the suspension kind. -/
def suspend (s : St) (j : Nat) (pc : PC) (next : Susp) : St :=
  s.put j { (s.jobs j) with pc := pc } [] (match suspThread next with | some k => [(k, j)] | none => [])

/-- **the skeleton read off the source is the skeleton the model was written after**: same segments between the same suspension
    points, same acts in the same order, same `LockError` handler.  A statement moved across a suspension point (seeded C10f:
    `aio_run` after the job-lock exit; C16d: link created inside `aio_start`; C07c: dependents woken before the tail), a changed link
    test (C06b, C07d), a handler that re-checks before it releases or does not release (F32) give another value: this fails. -/
theorem skeleton_is_source : Gen.schedSkeletonSrc = expected := by decide

/-- **aborted start (F32 site)**: when the acquisition loop is refused the lock of dependency `d`, the model runs the acts of
    the expected `except LockError` handler in their order — give back what was taken, *then* re-check the dependency —, and
    suspends on the job-lock exit (helper thread `lockExit`, program counter `lockExitAbort`). -/
theorem abort_follows_skeleton (s : St) (j d : Nat) (hp : (s.jobs j).pc = .lockEnter)
    (hf : (s.acquireAll j (s.jobs j).deps.length 0).2 = some d) :
    St.resume repaired s j =
      suspend (runActs repaired j d expected.abort.body (s.acquireAll j (s.jobs j).deps.length 0).1) j .lockExitAbort expected.abort.next := by
  unfold St.resume
  simp only [hp]
  generalize hq : s.acquireAll j (s.jobs j).deps.length 0 = q at hf
  obtain ⟨s1, r⟩ := q
  simp only at hf
  subst hf
  simp [repaired, expected, runActs, actSem, suspend, suspThread]

/-- start that takes every lock: the model runs the in-lock segment of the expected skeleton (`launch` inside the job lock) and
    suspends on what that segment ends with (job-lock exit). -/
theorem launch_follows_skeleton (fl : Flags) (s : St) (j : Nat) (hp : (s.jobs j).pc = .lockEnter)
    (hf : (s.acquireAll j (s.jobs j).deps.length 0).2 = none) :
    St.resume fl s j =
      (match segAt expected.start .lockEnter with
       | some g => suspend (runActs fl j 0 g.body (s.acquireAll j (s.jobs j).deps.length 0).1) j .lockExitRun g.next
       | none => s) := by
  unfold St.resume
  simp only [hp]
  generalize hq : s.acquireAll j (s.jobs j).deps.length 0 = q at hf
  obtain ⟨s1, r⟩ := q
  simp only at hf
  subst hf
  simp [expected, segAt, runActs, actSem, suspend, suspThread, St.put, upd]

/-- **tail of `aio_submit`** (after `done_handler`): the model runs the acts of the expected last segment in their order —
    `unfinishedJobs -= 1`, `notify_all` on the exit condition, one `check` callback per dependent — and the coroutine returns
    the job state. -/
theorem tail_follows_skeleton (fl : Flags) (s : St) (j : Nat) (hp : (s.jobs j).pc = .doneHandler) :
    St.resume fl s j =
      (match segAt expected.submit .doneHandler with
       | some g => let s1 := runActs fl j 0 g.body s
                   s1.put j { (s1.jobs j) with pc := .finished (s1.jobs j).state }
       | none => s) := by
  unfold St.resume
  simp only [hp]
  by_cases hw : s.waiter = .sleeping <;> simp [expected, segAt, runActs, actSem, hw]

/-- `St.finish` is the end of the expected loop segment: record the failure, suspend on `done_handler` (helper thread `doneH`). -/
theorem finish_follows_skeleton (fl : Flags) (s : St) (j : Nat) :
    St.finish s j = suspend (actSem fl j 0 .recordFailure s) j .doneHandler .doneHandler := by
  unfold St.finish
  simp only [actSem, suspend, suspThread]
  split <;> simp_all [St.put]

/-- after the job-lock exit of a launched job the model runs the (empty) expected segment and suspends on the process exit code. -/
theorem lockExitRun_follows_skeleton (fl : Flags) (s : St) (j : Nat) (hp : (s.jobs j).pc = .lockExitRun) :
    St.resume fl s j =
      (match segAt expected.start .lockExitRun with
       | some g => suspend (runActs fl j 0 g.body s) j .codeWait g.next
       | none => s) := by
  unfold St.resume
  simp [hp, expected, segAt, runActs, suspend, suspThread]

/-- when the exit code arrives the model gives back the locks (`with Locks()` exit), applies the state computed from the code and
    goes to the end of the loop; the expected segment has these two acts (the source computes the state into a local *before*
    the locks are given back and assigns it to the job afterwards — `Gen.afterStartSrc` —, which is why the model applies it after). -/
theorem codeWait_follows_skeleton (fl : Flags) (s : St) (j : Nat) (hp : (s.jobs j).pc = .codeWait) :
    St.resume fl s j = St.finish (runActs fl j 0 [.locksExit, .exitState] s) j
    ∧ (∃ g, segAt expected.start .codeWait = some g ∧ g.body = [.exitState, .locksExit, .ret .startState] ∧ g.next = .returnState) := by
  refine ⟨?_, ⟨_, rfl, rfl, rfl⟩⟩
  unfold St.resume
  simp [hp, runActs, actSem]

/-- **the `while not job.state.finished()` loop**: `St.loopHead` leaves the loop to the tail when the state is final; otherwise it
    consumes a set event and, READY, enters `aio_start` — suspended on what the first expected segment of `aio_start` ends with
    (job-lock enter, helper thread `lockEnter`) —, or sleeps on the event. -/
theorem loopHead_follows_skeleton (s : St) (j : Nat) :
    St.loopHead s j =
      if (s.jobs j).state.finished then s.finish j
      else if (s.jobs j).event = true ∧ (s.jobs j).state = .ready then
        (match segAt expected.start .evtWait with
         | some g => suspend (s.put j { (s.jobs j) with event := false }) j .lockEnter g.next
         | none => s)
      else s.put j { (s.jobs j) with event := false, pc := .evtWait, sleeping := true } := by
  unfold St.loopHead
  by_cases hf : (s.jobs j).state.finished = true
  · simp [hf]
  · by_cases he : (s.jobs j).event = true
    · by_cases hr : (s.jobs j).state = .ready
      · simp [hf, he, hr, expected, segAt, suspend, suspThread, St.put, upd]
      · simp [hf, he, hr]
    · have he' : (s.jobs j).event = false := by simpa using he
      simp only [hf, he', Bool.false_eq_true, false_and, if_false]

/-- the aborted start of the model interprets the handler *of the source* (corollary of the two links). -/
theorem abort_is_source (s : St) (j d : Nat) (hp : (s.jobs j).pc = .lockEnter)
    (hf : (s.acquireAll j (s.jobs j).deps.length 0).2 = some d) :
    St.resume repaired s j =
      suspend (runActs repaired j d Gen.schedSkeletonSrc.abort.body (s.acquireAll j (s.jobs j).deps.length 0).1) j .lockExitAbort
        Gen.schedSkeletonSrc.abort.next := by
  rw [skeleton_is_source]; exact abort_follows_skeleton s j d hp hf

/-- the flag `abortReleases` is a consequence of the generated skeleton: any flag set for which the model interprets the handler
    of the source has it (witness: a job asking one token of 1 twice — the second request is refused and the first must be back). -/
theorem abortReleases_from_source (fl : Flags)
    (h : ∀ s j d, (s.jobs j).pc = .lockEnter → (s.acquireAll j (s.jobs j).deps.length 0).2 = some d →
      St.resume fl s j =
        suspend (runActs fl j d Gen.schedSkeletonSrc.abort.body (s.acquireAll j (s.jobs j).deps.length 0).1) j .lockExitAbort
          Gen.schedSkeletonSrc.abort.next) : fl.abortReleases = true := by
  have := congrArg (fun s => s.avail 0)
    (h { jobs := fun _ => { ident := 0, deps := [{ origin := .tok 0 1 }, { origin := .tok 0 1 }], pc := .lockEnter },
         avail := fun _ => 1 } 0 1 rfl rfl)
  cases hg : fl.abortReleases
  · rw [skeleton_is_source] at this
    simp [St.resume, hg, St.acquireAll, St.releaseAll, St.put, upd, St.check, depChanged, St.status, expected, runActs, actSem, suspend] at this
  · rfl

/-- the order in the handler matters (F32): re-checking before giving back leaves the token taken while the job re-checks. -/
example :
    let s : St := { jobs := fun _ => { ident := 0, deps := [{ origin := .tok 0 1 }, { origin := .tok 0 1 }], pc := .lockEnter },
                    avail := fun _ => 1 }
    (runActs repaired 0 1 [.releaseLocks, .recheckDep] (s.acquireAll 0 2 0).1).avail 0 = 1
    ∧ (runActs repaired 0 1 [.recheckDep] (s.acquireAll 0 2 0).1).avail 0 = 0 := by decide

end XpmVerif.SchedSkeletonSrc
