import XpmVerif.Model.Sched
/-! Proofs for C04 (scheduling part): the dependency counter is sound, `ok` means the origin is
    `done`, `done` is stable, and a launch happens only when every job dependency is `done`.
    One invariant `Inv`, preserved by every callback / event of `Model/Sched.lean`. -/
namespace XpmVerif.SchedDeps
open XpmVerif.Sched

/-! ### `eventSet` and `depChanged` on the five fields that matter -/

@[simp] theorem eventSet_state (jb : Job) : (eventSet jb).1.state = jb.state := by
  unfold eventSet; split
  · rfl
  · split <;> rfl
@[simp] theorem eventSet_pc (jb : Job) : (eventSet jb).1.pc = jb.pc := by
  unfold eventSet; split
  · rfl
  · split <;> rfl
@[simp] theorem eventSet_deps (jb : Job) : (eventSet jb).1.deps = jb.deps := by
  unfold eventSet; split
  · rfl
  · split <;> rfl
@[simp] theorem eventSet_unsat (jb : Job) : (eventSet jb).1.unsat = jb.unsat := by
  unfold eventSet; split
  · rfl
  · split <;> rfl
@[simp] theorem eventSet_launches (jb : Job) : (eventSet jb).1.launches = jb.launches := by
  unfold eventSet; split
  · rfl
  · split <;> rfl

/-- the state component of `depChanged`. -/
def dcState (fl : Flags) (state : JS) (unsat : Int) (st cur : DS) : JS :=
  if st = cur then state else
  let s1 := if st = .fail ∧ !state.finished then JS.error else state
  if unsat - (val st - val cur) = 0 ∧ (!fl.readyGuarded ∨ s1 = .waiting) then .ready else s1

theorem depChanged_fields (fl : Flags) (jb : Job) (d : Nat) (st : DS) (hd : d < jb.deps.length) :
    let r := (depChanged fl jb d st).1
    r.deps = jb.deps.set d { jb.deps[d] with cur := st } ∧ r.pc = jb.pc ∧ r.launches = jb.launches ∧
    r.unsat = jb.unsat - (val st - val jb.deps[d].cur) ∧
    r.state = dcState fl jb.state jb.unsat st jb.deps[d].cur := by
  have hg : jb.deps.getD d default = jb.deps[d] := by simp [List.getD, hd]
  simp only [depChanged, hg, dcState]
  by_cases h1 : st = jb.deps[d].cur
  · subst h1; simp; exact (List.set_getElem_self hd).symm
  · simp only [h1, if_false]
    by_cases h2 : st = DS.fail ∧ (!jb.state.finished) = true
    · simp only [h2, and_self, if_true, eventSet_unsat, eventSet_state]
      split <;> simp [List.getElem?_eq_getElem hd]
    · simp only [h2, if_false]
      split <;> simp [List.getElem?_eq_getElem hd]

/-! ### the counter -/

/-- number of dependencies whose recorded status is not `ok`. -/
def nok (l : List Dep) : Nat := l.countP (fun d => decide (d.cur ≠ .ok))

theorem nok_set (l : List Dep) (d : Nat) (h : d < l.length) (st : DS) :
    (nok (l.set d { l[d] with cur := st }) : Int) = nok l - (val st - val l[d].cur) := by
  unfold nok
  rw [List.countP_set h]
  have : List.countP (fun d => decide (d.cur ≠ .ok)) l ≥ (if (fun d : Dep => decide (d.cur ≠ .ok)) l[d] = true then 1 else 0) := by
    split
    · rename_i hh
      exact List.countP_pos_iff.mpr ⟨l[d], List.getElem_mem h, hh⟩
    · omega
  generalize List.countP (fun d => decide (d.cur ≠ .ok)) l = c at *
  cases st <;> cases hc : l[d].cur <;> simp [val, hc] at * <;> omega

theorem nok_zero {l : List Dep} (h : nok l = 0) : ∀ d ∈ l, d.cur = .ok := by
  intro d hd
  have := (List.countP_eq_zero.mp h) d hd
  simpa using this

theorem nok_all_wait {l : List Dep} (h : ∀ d ∈ l, d.cur = .wait) : nok l = l.length := by
  apply List.countP_eq_length.mpr
  intro d hd; simp [h d hd]

/-! ### the local invariant of one job record and the step relation on one record -/

/-- local (one record) part of the invariant; depends only on five fields. -/
structure JLoc' (state : JS) (pc : PC) (deps : List Dep) (unsat : Int) (launches : Nat) : Prop where
  none_unsched : pc = .none → state = .unscheduled
  unsched : state = .unscheduled → (pc = .none ∨ pc = .created) ∧ (∀ d ∈ deps, d.cur = .wait) ∧ launches = 0
  done_pc : state = .done → pc ≠ .lockEnter ∧ pc ≠ .lockExitAbort ∧ pc ≠ .lockExitRun ∧ pc ≠ .codeWait
  counter : state ≠ .unscheduled → unsat = (nok deps : Int)
  ready_ok : (state = .ready ∨ pc = .lockEnter) → ∀ d ∈ deps, ∀ o, d.origin = .job o → d.cur = .ok

def JLoc (jb : Job) : Prop := JLoc' jb.state jb.pc jb.deps jb.unsat jb.launches

/-- what one callback may do to one record. -/
structure JStep (a b : Job) : Prop where
  done : a.state = .done → b.state = .done
  origins : b.deps.map (·.origin) = a.deps.map (·.origin)
  pcnone : a.pc = .none → b.pc = .none
  act : a.state ≠ .unscheduled → b.state ≠ .unscheduled
  launch : b.launches > a.launches → a.pc = .lockEnter

theorem JStep.refl (a : Job) : JStep a a := by
  constructor <;> simp

theorem JStep.len {a b : Job} (h : JStep a b) : b.deps.length = a.deps.length := by
  have := congrArg List.length h.origins
  simpa using this

/-- a record change that keeps `pc` and `launches`. -/
structure JKeep (a b : Job) : Prop where
  done : a.state = .done → b.state = .done
  origins : b.deps.map (·.origin) = a.deps.map (·.origin)
  act : a.state ≠ .unscheduled → b.state ≠ .unscheduled
  pc : b.pc = a.pc
  launches : b.launches = a.launches

theorem JKeep.refl (a : Job) : JKeep a a := by constructor <;> simp
theorem JKeep.trans {a b c : Job} (h1 : JKeep a b) (h2 : JKeep b c) : JKeep a c :=
  ⟨fun h => h2.done (h1.done h), h2.origins.trans h1.origins, fun h => h2.act (h1.act h),
   h2.pc.trans h1.pc, h2.launches.trans h1.launches⟩
theorem JKeep.step {a b : Job} (h : JKeep a b) : JStep a b :=
  ⟨h.done, h.origins, fun e => h.pc.trans e, h.act, fun e => by have := h.launches; omega⟩
theorem JKeep.then {a b c : Job} (h1 : JKeep a b) (h2 : JStep b c) : JStep a c :=
  ⟨fun h => h2.done (h1.done h), h2.origins.trans h1.origins, fun e => h2.pcnone (h1.pc.trans e),
   fun h => h2.act (h1.act h), fun e => by rw [← h1.pc]; apply h2.launch; have := h1.launches; omega⟩

theorem dcState_cases (fl : Flags) (hfl : fl.readyGuarded = true) (state : JS) (unsat : Int) (st cur : DS) :
    let r := dcState fl state unsat st cur
    (state = .done → r = .done) ∧ (r = .done → state = .done) ∧ (state ≠ .unscheduled → r ≠ .unscheduled) ∧
    (r = .ready → (st ≠ cur ∧ unsat - (val st - val cur) = 0) ∨ state = .ready) := by
  simp only [dcState, hfl]
  cases state <;> cases st <;> cases cur <;> simp [JS.finished] <;> (try split) <;> simp_all

theorem depChanged_ok (fl : Flags) (hfl : fl.readyGuarded = true) (jb : Job) (d : Nat) (st : DS)
    (hd : d < jb.deps.length) (hact : jb.state ≠ .unscheduled) (hloc : JLoc jb)
    (hst : ∀ o, jb.deps[d].origin = .job o → jb.deps[d].cur = .ok → st = .ok) :
    JLoc (depChanged fl jb d st).1 ∧ JKeep jb (depChanged fl jb d st).1 := by
  obtain ⟨e1, e2, e3, e4, e5⟩ := depChanged_fields fl jb d st hd
  obtain ⟨c1, c2, c3, c4⟩ := dcState_cases fl hfl jb.state jb.unsat st jb.deps[d].cur
  have hcnt : (depChanged fl jb d st).1.unsat = nok (depChanged fl jb d st).1.deps := by
    rw [e1, e4, nok_set _ _ hd, hloc.counter hact]
  refine ⟨⟨?_, ?_, ?_, ?_, ?_⟩, ⟨?_, ?_, ?_, ?_, ?_⟩⟩
  · rw [e2, e5]; intro h; exact absurd (hloc.none_unsched h) hact
  · rw [e5]; intro h; exact absurd h (c3 hact)
  · rw [e2, e5]; intro h; exact hloc.done_pc (c2 h)
  · intro _; exact hcnt
  · rw [e2, e5]
    intro hp x hx o ho
    have hold : (jb.state = .ready ∨ jb.pc = .lockEnter) → x.cur = .ok := by
      intro hp'
      rw [e1] at hx
      rcases List.mem_or_eq_of_mem_set hx with hx | hx
      · exact hloc.ready_ok hp' x hx o ho
      · subst hx
        have := hloc.ready_ok hp' _ (List.getElem_mem hd) o ho
        exact hst o ho this
    rcases hp with hp | hp
    · rcases c4 hp with ⟨_, h0⟩ | h
      · rw [← e4, hcnt] at h0
        exact nok_zero (by omega) x hx
      · exact hold (Or.inl h)
    · exact hold (Or.inr hp)
  · rw [e5]; exact c1
  · rw [e1, List.map_set]
    apply List.ext_getElem (by simp)
    intro i h1 h2
    simp only [List.getElem_set, List.getElem_map]
    split
    · rename_i h; subst h; rfl
    · rfl
  · rw [e5]; exact c3
  · exact e2
  · exact e3

/-! ### the global invariant -/

def act (jb : Job) : Prop := jb.state ≠ .unscheduled

/-- what a queued callback may assume about its target. -/
def CbOK (jobs : Nat → Job) : Cb → Prop
  | .check j d => act (jobs j) ∧ d < (jobs j).deps.length
  | .notifyCheck j d => act (jobs j) ∧ d < (jobs j).deps.length
  | .wake j => act (jobs j)
  | .start j => (jobs j).state = .unscheduled ∧ (jobs j).pc = .created
  | _ => True

def notStart : Cb → Prop
  | .start _ => False
  | _ => True

def PairOK (jobs : Nat → Job) (p : Nat × Nat) : Prop := act (jobs p.1) ∧ p.2 < (jobs p.1).deps.length

structure Inv' (n : Nat) (jobs : Nat → Job) (ready : List Cb) (jobDeps tokDeps : Nat → List (Nat × Nat)) : Prop where
  loc : ∀ j, JLoc (jobs j)
  fresh : ∀ j, n ≤ j → (jobs j).pc = .none
  okdone : ∀ j, ∀ d ∈ (jobs j).deps, ∀ o, d.origin = .job o → d.cur = .ok → (jobs o).state = .done
  cbs : ∀ cb ∈ ready, CbOK jobs cb
  starts : ∀ j, ready.count (.start j) ≤ 1
  jdeps : ∀ o, ∀ p ∈ jobDeps o, PairOK jobs p
  tdeps : ∀ t, ∀ p ∈ tokDeps t, PairOK jobs p

def Inv (s : St) : Prop := Inv' s.n s.jobs s.ready s.jobDeps s.tokDeps

/-- pointwise step relation on job tables. -/
def JTr (jobs jobs' : Nat → Job) : Prop := ∀ i, JStep (jobs i) (jobs' i)

theorem JTr.refl (jobs : Nat → Job) : JTr jobs jobs := fun _ => JStep.refl _

theorem JTr.updJob {jobs : Nat → Job} {j : Nat} {jb' : Job} (h : JStep (jobs j) jb') : JTr jobs (upd jobs j jb') := by
  intro i; unfold Sched.upd; split
  · rename_i e; subst e; exact h
  · exact JStep.refl _

theorem PairOK.mono {jobs jobs' : Nat → Job} (h : JTr jobs jobs') {p : Nat × Nat} (hp : PairOK jobs p) : PairOK jobs' p :=
  ⟨(h p.1).act hp.1, by rw [(h p.1).len]; exact hp.2⟩

/-- replacing one record. -/
theorem Inv'.updJob {n jobs ready jd td} (h : Inv' n jobs ready jd td) (j : Nat) (jb' : Job)
    (hloc : JLoc jb') (hst : JStep (jobs j) jb')
    (hstart : Cb.start j ∈ ready → jb'.state = .unscheduled ∧ jb'.pc = .created)
    (hK : ∀ d ∈ jb'.deps, ∀ o, d.origin = .job o → d.cur = .ok → (upd jobs j jb' o).state = .done) :
    Inv' n (upd jobs j jb') ready jd td := by
  have htr : JTr jobs (Sched.upd jobs j jb') := JTr.updJob hst
  refine ⟨?_, ?_, ?_, ?_, h.starts, ?_, ?_⟩
  · intro i; unfold Sched.upd; split
    · exact hloc
    · exact h.loc i
  · intro i hi; exact (htr i).pcnone (h.fresh i hi)
  · intro i d hd o ho hc
    by_cases e : i = j
    · subst e; simp only [Sched.upd, if_true] at hd; exact hK d hd o ho hc
    · simp only [Sched.upd, e, if_false] at hd
      exact (htr o).done (h.okdone i d hd o ho hc)
  · intro cb hcb
    have := h.cbs cb hcb
    cases cb with
    | check i d => exact PairOK.mono htr (p := (i, d)) this
    | notifyCheck i d => exact PairOK.mono htr (p := (i, d)) this
    | wake i => exact (htr i).act this
    | start i =>
      show (Sched.upd jobs j jb' i).state = _ ∧ (Sched.upd jobs j jb' i).pc = _
      unfold Sched.upd; split
      · rename_i e; subst e; exact hstart hcb
      · exact this
    | _ => trivial
  · intro o p hp; exact PairOK.mono htr (h.jdeps o p hp)
  · intro o p hp; exact PairOK.mono htr (h.tdeps o p hp)

theorem hK_same {n jobs ready jd td} (h : Inv' n jobs ready jd td) (j : Nat) (jb' : Job)
    (hst : JStep (jobs j) jb') (hdeps : jb'.deps = (jobs j).deps) :
    ∀ d ∈ jb'.deps, ∀ o, d.origin = .job o → d.cur = .ok → (upd jobs j jb' o).state = .done := by
  intro d hd o ho hc
  rw [hdeps] at hd
  exact (JTr.updJob hst o).done (h.okdone j d hd o ho hc)

/-- appending callbacks that are not `start`. -/
theorem Inv'.addReady {n jobs ready jd td} (h : Inv' n jobs ready jd td) (cbs : List Cb)
    (hcbs : ∀ cb ∈ cbs, CbOK jobs cb ∧ notStart cb) : Inv' n jobs (ready ++ cbs) jd td := by
  refine ⟨h.loc, h.fresh, h.okdone, ?_, ?_, h.jdeps, h.tdeps⟩
  · intro cb hcb
    rcases List.mem_append.mp hcb with hcb | hcb
    · exact h.cbs cb hcb
    · exact (hcbs cb hcb).1
  · intro i
    rw [List.count_append]
    have : List.count (Cb.start i) cbs = 0 := by
      apply List.count_eq_zero.mpr
      intro hm; exact (hcbs _ hm).2
    have := h.starts i
    omega

/-- popping the head of the queue. -/
theorem Inv'.tail {n jobs cb rest jd td} (h : Inv' n jobs (cb :: rest) jd td) :
    Inv' n jobs rest jd td ∧ CbOK jobs cb ∧ (∀ j, cb = .start j → Cb.start j ∉ rest) := by
  refine ⟨⟨h.loc, h.fresh, h.okdone, fun c hc => h.cbs c (List.mem_cons_of_mem _ hc), ?_, h.jdeps, h.tdeps⟩,
    h.cbs cb (List.mem_cons_self), ?_⟩
  · intro i
    have := h.starts i
    rw [List.count_cons] at this
    omega
  · intro j e hm
    subst e
    have h1 := h.starts j
    rw [List.count_cons] at h1
    simp only [beq_self_eq_true, if_true] at h1
    have : List.count (Cb.start j) rest ≥ 1 := List.count_pos_iff.mpr hm
    omega

theorem Inv'.addJobDep {n jobs ready jd td} (h : Inv' n jobs ready jd td) (o : Nat) (p : Nat × Nat)
    (hp : PairOK jobs p) : Inv' n jobs ready (Sched.upd jd o (jd o ++ [p])) td := by
  refine ⟨h.loc, h.fresh, h.okdone, h.cbs, h.starts, ?_, h.tdeps⟩
  intro o' q hq
  unfold Sched.upd at hq; split at hq
  · rcases List.mem_append.mp hq with hq | hq
    · exact h.jdeps o q hq
    · simp at hq; subst hq; exact hp
  · exact h.jdeps o' q hq

theorem Inv'.addTokDep {n jobs ready jd td} (h : Inv' n jobs ready jd td) (t : Nat) (p : Nat × Nat)
    (hp : PairOK jobs p) : Inv' n jobs ready jd (Sched.upd td t (td t ++ [p])) := by
  refine ⟨h.loc, h.fresh, h.okdone, h.cbs, h.starts, h.jdeps, ?_⟩
  intro o' q hq
  unfold Sched.upd at hq; split at hq
  · rcases List.mem_append.mp hq with hq | hq
    · exact h.tdeps t q hq
    · simp at hq; subst hq; exact hp
  · exact h.tdeps o' q hq

def JKTr (jobs jobs' : Nat → Job) : Prop := ∀ i, JKeep (jobs i) (jobs' i)
theorem JKTr.refl (jobs : Nat → Job) : JKTr jobs jobs := fun _ => JKeep.refl _
theorem JKTr.trans {a b c : Nat → Job} (h1 : JKTr a b) (h2 : JKTr b c) : JKTr a c := fun i => (h1 i).trans (h2 i)
theorem JKTr.step {a b : Nat → Job} (h : JKTr a b) : JTr a b := fun i => (h i).step
theorem JKTr.then {a b c : Nat → Job} (h1 : JKTr a b) (h2 : JTr b c) : JTr a c := fun i => (h1 i).then (h2 i)
theorem JKTr.updJob {jobs : Nat → Job} {j : Nat} {jb' : Job} (h : JKeep (jobs j) jb') : JKTr jobs (upd jobs j jb') := by
  intro i; unfold Sched.upd; split
  · rename_i e; subst e; exact h
  · exact JKeep.refl _

theorem Inv.start_not_mem {s : St} (h : Inv s) {j : Nat} (hact : act (s.jobs j)) : Cb.start j ∉ s.ready :=
  fun hm => hact (h.cbs _ hm).1

/-- `St.put` of a record that satisfies the local invariant. -/
theorem Inv.put {s : St} (h : Inv s) (j : Nat) (jb' : Job) (cbs : List Cb) (ths : List (TK × Nat))
    (hloc : JLoc jb') (hst : JStep (s.jobs j) jb')
    (hstart : Cb.start j ∈ s.ready → jb'.state = .unscheduled ∧ jb'.pc = .created)
    (hK : ∀ d ∈ jb'.deps, ∀ o, d.origin = .job o → d.cur = .ok → (upd s.jobs j jb' o).state = .done)
    (hcbs : ∀ cb ∈ cbs, CbOK (upd s.jobs j jb') cb ∧ notStart cb) :
    Inv (s.put j jb' cbs ths) :=
  (Inv'.updJob h j jb' hloc hst hstart hK).addReady cbs hcbs

/-- `St.put` on an active job whose `deps` are unchanged. -/
theorem Inv.putAct {s : St} (h : Inv s) (j : Nat) (jb' : Job) (cbs : List Cb) (ths : List (TK × Nat))
    (hact : act (s.jobs j)) (hloc : JLoc jb') (hst : JStep (s.jobs j) jb') (hdeps : jb'.deps = (s.jobs j).deps)
    (hcbs : ∀ cb ∈ cbs, CbOK (upd s.jobs j jb') cb ∧ notStart cb) :
    Inv (s.put j jb' cbs ths) :=
  h.put j jb' cbs ths hloc hst (fun hm => absurd hm (h.start_not_mem hact)) (hK_same h j jb' hst hdeps) hcbs

theorem upd_same {α : Type} (f : Nat → α) (j : Nat) (v : α) : upd f j v j = v := by simp [Sched.upd]

theorem Inv.check {s : St} (fl : Flags) (hfl : fl.readyGuarded = true) (h : Inv s) (j d : Nat)
    (hact : act (s.jobs j)) (hd : d < (s.jobs j).deps.length) :
    Inv (s.check fl j d) ∧ JKTr s.jobs (s.check fl j d).jobs := by
  have hg : (s.jobs j).deps.getD d default = (s.jobs j).deps[d] := by simp [List.getD, hd]
  have hst : ∀ o, (s.jobs j).deps[d].origin = .job o → (s.jobs j).deps[d].cur = .ok →
      s.status ((s.jobs j).deps.getD d default).origin = .ok := by
    intro o ho hc
    have := h.okdone j _ (List.getElem_mem hd) o ho hc
    rw [hg, ho]; simp [St.status, this]
  obtain ⟨hloc, hkeep⟩ := depChanged_ok fl hfl (s.jobs j) d _ hd hact (h.loc j) hst
  obtain ⟨e1, -⟩ := depChanged_fields fl (s.jobs j) d (s.status ((s.jobs j).deps.getD d default).origin) hd
  rcases hdc : depChanged fl (s.jobs j) d (s.status ((s.jobs j).deps.getD d default).origin) with ⟨jb', w⟩
  rw [hdc] at hloc hkeep e1
  simp only at hloc hkeep e1
  have hjobs : (s.check fl j d).jobs = upd s.jobs j jb' := by simp only [St.check, hdc, St.put]
  refine ⟨?_, ?_⟩
  · simp only [St.check, hdc]
    apply h.put j jb' _ _ hloc hkeep.step (fun hm => absurd hm (h.start_not_mem hact))
    · intro x hx o ho hc
      rw [e1] at hx
      have hdone : (s.jobs o).state = .done := by
        rcases List.mem_or_eq_of_mem_set hx with hx | hx
        · exact h.okdone j x hx o ho hc
        · subst hx
          simp only at ho hc
          rw [hg, ho] at hc
          simp only [St.status] at hc
          split at hc <;> simp_all
      exact (JTr.updJob hkeep.step o).done hdone
    · intro cb hcb
      split at hcb
      · simp at hcb; subst hcb
        refine ⟨?_, trivial⟩
        show act (upd s.jobs j jb' j)
        rw [upd_same]; exact hkeep.act hact
      · simp at hcb
  · rw [hjobs]; exact JKTr.updJob hkeep

end XpmVerif.SchedDeps
