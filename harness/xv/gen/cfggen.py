"""Generators of class libraries, configuration graphs and operation histories.

Pure Python (no experimaestro import): produces JSON-able *specs*; `emit_source`
turns a library spec into the source of a real Python package; `xv.impl.cfgbuild`
builds the real objects from a graph spec.

Library spec:  {"pkg": str, "enums": [{"name","members"}], "classes": [ClassSpec]}
ClassSpec:     {"name", "xpmid", "parent": name|None, "kind": "config"|"task"|"light",
                "deprecated": bool, "args": [ArgSpec]}
ArgSpec:       {"name", "decl": "param"|"meta"|"option"|"constant"|"pathgen"|"factory",
                "ty": Ty, "optional": bool, "default": Val|absent}
Ty:            "int"|"float"|"str"|"bool"|"path"|{"enum": name}|{"cfg": name}|{"list": Ty}|{"dict": Ty}
Val (spec):    None | bool | int | {"f": float-hex} | str | {"e": [enum, member]} | {"p": str}
               | {"l": [Val]} | {"d": [[key, Val]]} | {"r": node index}
               | {"c": {"cls": name, "kw": [[name, Val]]}}   (a configuration literal `Cls(k=v, …)`: only inside declared defaults)
Graph spec:    {"nodes": [{"cls", "values": [[name, Val]] (keyword order), "meta": None|bool,
                "pre": [idx], "init": [idx], "task": idx|None}]}
"""
import copy
import struct

WORDS = ["a", "b", "x", "yy", "model", "lr", "bm25", "é", "中文", "", "a b", "x/y", "k1", "zz9", "Abc", "~", "naïve"]
KEYS = ["a", "b", "k", "key", "z", "aa", "ab", "k2", "é", "m"]
INTS = [0, 1, -1, 2, 3, 7, 10, 255, 256, -300, 65536, 2**31, -(2**31) - 1, 2**62, -(2**63), 2**63 - 1, 5, 12]
FLOATS = [0.0, 1.0, -1.0, 0.5, 1.5, 2.0, 3.14, 1e-3, 1e300, -2.5e-7, 0.1, 100.0, float("inf")]
ARGNAMES = ["a", "b", "c", "x", "y", "z", "lr", "model", "sub", "items", "opts", "ab", "a_b", "k", "name", "n", "data", "w", "v", "u"]


def fhex(x: float) -> str:
    return struct.pack("!d", x).hex()


# --------------------------------------------------------------------- types


def gen_ty(rng, cfg_names, enum_names, depth=0, allow_cfg=True, max_dict_depth=2, dict_depth=0):
    r = rng.random()
    if depth >= 3 or r < 0.45:
        choices = ["int", "float", "str", "bool"]
        if enum_names:
            choices.append({"enum": rng.choice(enum_names)})
        if allow_cfg and cfg_names:
            choices += [{"cfg": rng.choice(cfg_names)}] * 3
        return rng.choice(choices)
    if r < 0.60 and allow_cfg and cfg_names:
        return {"cfg": rng.choice(cfg_names)}
    if r < 0.82 or dict_depth >= max_dict_depth:
        return {"list": gen_ty(rng, cfg_names, enum_names, depth + 1, allow_cfg, max_dict_depth, dict_depth)}
    return {"dict": gen_ty(rng, cfg_names, enum_names, depth + 1, allow_cfg, max_dict_depth, dict_depth + 1)}


def has_cfg(ty):
    if isinstance(ty, dict):
        if "cfg" in ty:
            return True
        return has_cfg(ty.get("list") or ty.get("dict") or "int") if ("list" in ty or "dict" in ty) else False
    return False


def ty_src(ty):
    if isinstance(ty, str):
        return {"int": "int", "float": "float", "str": "str", "bool": "bool", "path": "Path"}[ty]
    if "enum" in ty:
        return ty["enum"]
    if "cfg" in ty:
        return f'"{ty["cfg"]}"' if ty.get("fwd") else ty["cfg"]
    if "list" in ty:
        return f"List[{ty_src(ty['list'])}]"
    return f"Dict[str, {ty_src(ty['dict'])}]"


def gen_scalar(rng, ty, lib):
    if ty == "int":
        return rng.choice(INTS)
    if ty == "bool":
        return rng.random() < 0.5
    if ty == "float":
        return {"f": fhex(rng.choice(FLOATS))}
    if ty == "str":
        return rng.choice(WORDS)
    if ty == "path":
        return {"p": rng.choice(["a.txt", "dir/b", "/abs/c", "x"])}
    if isinstance(ty, dict) and "enum" in ty:
        en = next(e for e in lib["enums"] if e["name"] == ty["enum"])
        return {"e": [en["name"], rng.choice(en["members"])]}
    raise ValueError(ty)


# set by a check (C02) that wants nested-container defaults in its class libraries; off: the random stream of the other checks is unchanged
NESTED_DEFAULTS = False


def gen_plain_default(rng, ty, lib):
    """a default value without configuration objects"""
    if ty == "float" and rng.random() < 0.3:
        return rng.choice([0, 1, 2, 10, -1])  # `x: Param[float] = 1`: the literal keeps its Python type (int)
    if NESTED_DEFAULTS and isinstance(ty, dict) and ("list" in ty or "dict" in ty):
        # `xs: Param[List[List[C]]] = [[]]`, `d: Param[Dict[str, List[C]]] = {"k": []}`: a default whose inner containers can
        # receive meta-flagged members (the comparison with the default drops ignored members at EVERY level)
        inner = ty.get("list") or ty.get("dict")
        if isinstance(inner, dict) and ("list" in inner or "dict" in inner) and has_cfg(inner) and rng.random() < 0.7:
            one = gen_plain_default(rng, inner, lib)
            if "list" in ty:
                return {"l": [one] + ([gen_plain_default(rng, inner, lib)] if rng.random() < 0.3 else [])}
            return {"d": [[k, gen_plain_default(rng, inner, lib)] for k in rng.sample(KEYS, rng.choice([1, 2]))]}
    if isinstance(ty, dict) and "list" in ty:
        if has_cfg(ty["list"]) or rng.random() < 0.5:
            return {"l": []}
        return {"l": [gen_plain_default(rng, ty["list"], lib) for _ in range(rng.choice([1, 2]))]}
    if isinstance(ty, dict) and "dict" in ty:
        if has_cfg(ty["dict"]) or rng.random() < 0.5:
            return {"d": []}
        ks = rng.sample(KEYS, rng.choice([1, 2]))
        return {"d": [[k, gen_plain_default(rng, ty["dict"], lib)] for k in ks]}
    return gen_scalar(rng, ty, lib)


def gen_cfg_literal(rng, classes, enums, cname, depth=0):
    """a configuration literal of class `cname` for a declared default (`x: Param[C] = C(a=1)`), or None when the class
    cannot be built from literals (a required configuration-typed parameter too deep, a forward reference, a task)"""
    c = next(x for x in classes if x["name"] == cname)
    if c["kind"] != "config" or c.get("deprecated"):
        return None
    args, p = [], c
    chain = []
    while p:
        chain.append(p)
        p = next((x for x in classes if x["name"] == p["parent"]), None)
    for p in reversed(chain):
        args += p["args"]
    kw = []
    for a in args:
        if a["decl"] in ("constant", "pathgen", "factory"):
            continue
        ty = a["ty"]
        required = not a["optional"] and "default" not in a
        if not required and rng.random() < 0.5:
            continue
        if ty == "path":
            v = {"p": "lit.txt"}
        elif isinstance(ty, dict) and "cfg" in ty:
            v = None if (depth >= 1 or ty.get("fwd")) else gen_cfg_literal(rng, classes, enums, ty["cfg"], depth + 1)
            if v is None:
                if required:
                    return None
                continue
        elif isinstance(ty, dict) and ("list" in ty or "dict" in ty):
            v = gen_plain_default(rng, ty, {"enums": enums})
        else:
            v = gen_scalar(rng, ty, {"enums": enums})
        kw.append([a["name"], v])
    return {"c": {"cls": cname, "kw": kw}}


def has_literal(v):
    if isinstance(v, dict):
        if "c" in v:
            return True
        return any(has_literal(x) for x in v.get("l", [])) or any(has_literal(x) for _, x in v.get("d", []))
    return False


def materialize(nodes, v):
    """the value `v` with every configuration literal replaced by a reference to a fresh node appended to `nodes`
    (a configuration equal to the literal, built explicitly)"""
    if isinstance(v, dict):
        if "c" in v:
            nd = {"cls": v["c"]["cls"], "values": [], "meta": None, "pre": [], "init": [], "task": None}
            nodes.append(nd)
            i = len(nodes) - 1
            nd["values"] = [[k, materialize(nodes, x)] for k, x in v["c"]["kw"]]
            return {"r": i}
        if "l" in v:
            return {"l": [materialize(nodes, x) for x in v["l"]]}
        if "d" in v:
            return {"d": [[k, materialize(nodes, x)] for k, x in v["d"]]}
    return v


# --------------------------------------------------------------------- libraries


def gen_library(rng, tag, n_classes=None, unamb=False, with_deprecated=False, with_twins=False, cfg_defaults=False, multi=None):
    """classes are numbered so that argument types only mention earlier classes (plus
    optional forward references for cycles)"""
    pkg = f"xvlib_{tag}"
    enums = [{"name": "Color", "members": ["RED", "GREEN", "BLUE"]}, {"name": "Mode", "members": ["FAST", "SLOW"]}]
    classes = []
    n = n_classes or rng.choice([4, 5, 6, 7])
    light = {"name": "LW", "xpmid": f"{pkg}.lw", "parent": None, "kind": "light", "deprecated": False,
             "args": [{"name": "v", "decl": "param", "ty": "int", "optional": False}]}
    light2 = {"name": "LW2", "xpmid": f"{pkg}.lw2", "parent": None, "kind": "light", "deprecated": False,
              "args": [{"name": "s", "decl": "param", "ty": "str", "optional": False, "default": "d"}]}
    classes += [light, light2]
    cfg_names = []
    for i in range(n):
        name = f"C{i}"
        kind = "task" if (i == n - 1 or rng.random() < 0.25) else "config"
        parent = None
        if cfg_names and kind == "config" and rng.random() < 0.2:
            parent = rng.choice(cfg_names)
        used = set()
        if parent:
            p = next(c for c in classes if c["name"] == parent)
            while p:
                used |= {a["name"] for a in p["args"]}
                p = next((c for c in classes if c["name"] == p["parent"]), None)
        args = []
        for _ in range(rng.choice([1, 2, 3, 3, 4, 5])):
            an = rng.choice([a for a in ARGNAMES if a not in used])
            used.add(an)
            r = rng.random()
            if r < 0.60:
                decl = "param"
            elif r < 0.75:
                decl = "meta"
            elif r < 0.82:
                decl = "option"
            elif r < 0.89:
                decl = "constant"
            elif r < 0.94:
                decl = "factory"
            else:
                decl = "pathgen"
            arg = {"name": an, "decl": decl, "optional": False}
            if decl == "factory":
                # `x: Param[int] = field(default_factory=...)`: a generated value that is neither a path nor Meta —
                # the argument has a generator but is not `ignored`; its value appears when the graph is sealed
                arg["ty"] = rng.choice(["int", "str"])
                arg["fval"] = gen_scalar(rng, arg["ty"], {"enums": enums})
            elif decl == "pathgen":
                arg["ty"] = "path"
                arg["file"] = rng.choice(["out.txt", "model.pt", "d"])
            elif decl == "constant":
                arg["ty"] = rng.choice(["int", "str", "float", "bool"])
                arg["default"] = gen_scalar(rng, arg["ty"], {"enums": enums})
            else:
                if rng.random() < 0.08:
                    arg["ty"] = "path"
                else:
                    arg["ty"] = gen_ty(rng, cfg_names, [e["name"] for e in enums],
                                       max_dict_depth=1 if unamb else 2)
                r2 = rng.random()
                is_cfg = isinstance(arg["ty"], dict) and "cfg" in arg["ty"]
                lit = None
                if cfg_defaults and decl == "param" and r2 < 0.45:
                    # a configuration-valued default: `x: Param[C] = C(a=1)`, `xs: Param[List[C]] = [C(a=1)]`, `d: Param[Dict[str, C]] = {"k": C()}`
                    t = arg["ty"]
                    inner = t if is_cfg else (t.get("list") or t.get("dict")) if isinstance(t, dict) else None
                    if isinstance(inner, dict) and "cfg" in inner and not inner.get("fwd"):
                        one = gen_cfg_literal(rng, classes, enums, inner["cfg"])
                        if one is not None:
                            if is_cfg:
                                lit = one
                            elif "list" in t:
                                lit = {"l": [one] + ([gen_cfg_literal(rng, classes, enums, inner["cfg"])] if rng.random() < 0.3 else [])}
                                lit["l"] = [x for x in lit["l"] if x is not None]
                            else:
                                lit = {"d": [[rng.choice(KEYS), one]]}
                if lit is not None:
                    arg["default"] = lit
                elif arg["ty"] != "path" and not is_cfg and r2 < 0.35:
                    arg["default"] = gen_plain_default(rng, arg["ty"], {"enums": enums})
                elif r2 < 0.55:
                    arg["optional"] = True
            args.append(arg)
        # a self/forward reference to allow cycles
        if kind == "config" and rng.random() < 0.3:
            an = next((a for a in ["nxt", "peer", "back"] if a not in used), None)
            if an:
                args.append({"name": an, "decl": "param", "ty": {"cfg": name, "fwd": True}, "optional": True})
        if NESTED_DEFAULTS and cfg_names and rng.random() < 0.5:
            # a parameter whose declared default is a container of empty containers of configurations
            cn = rng.choice(cfg_names)
            if rng.random() < 0.5:
                args.append({"name": f"nl{i}", "decl": "param", "optional": False, "ty": {"list": {"list": {"cfg": cn}}},
                             "default": {"l": [{"l": []}] * rng.choice([1, 2])}})
            else:
                args.append({"name": f"nd{i}", "decl": "param", "optional": False, "ty": {"dict": {"list": {"cfg": cn}}},
                             "default": {"d": [[k, {"l": []}] for k in rng.sample(KEYS, rng.choice([1, 2]))]}})
        classes.append({"name": name, "xpmid": f"{pkg}.c{i}", "parent": parent, "kind": kind, "deprecated": False, "args": args})
        if kind == "config":  # a task-typed parameter only accepts a *submitted* task: not generated here
            cfg_names.append(name)
    if with_deprecated:
        # Old_k(C_k) deprecated in favour of C_k: same arguments (none of its own)
        for c in list(classes):
            if c["name"].startswith("C") and rng.random() < 0.5:
                classes.append({"name": f"Old{c['name']}", "xpmid": f"{pkg}.old{c['name'].lower()}", "parent": c["name"],
                                "kind": c["kind"], "deprecated": True, "args": []})
    if with_twins:
        import copy
        for c in list(classes):
            if c["name"].startswith("C") and not c["deprecated"]:
                classes.append({"name": "T" + c["name"][1:], "xpmid": f"{pkg}.t{c['name'][1:]}", "parent": c["parent"], "kind": c["kind"],
                                "deprecated": False, "args": copy.deepcopy(c["args"]), "twin_of": c["name"]})
    lib = {"pkg": pkg, "enums": enums, "classes": classes}
    if multi is None:
        multi = False
    elif multi == "some":
        import random as _random
        multi = _random.Random(f"multi-{tag}").random() < 0.18    # does not consume `rng`: the other classes stay what they were
    if multi:
        import random as _random
        add_multiple_inheritance(_random.Random(f"mi-{tag}"), lib)
    return lib


# --------------------------------------------------------------------- multiple inheritance


def bases_of(c):
    """names of the configuration bases of a class, in `__bases__` order"""
    return list(c.get("bases") or ([c["parent"]] if c["parent"] else []))


def cls_of(lib, name):
    return next(x for x in lib["classes"] if x["name"] == name)


def mro_of(lib, cname):
    """Python's C3 linearisation restricted to the classes of the library (the class itself first)"""
    def merge(seqs):
        res = []
        seqs = [list(q) for q in seqs if q]
        while seqs:
            for q in seqs:
                h = q[0]
                if not any(h in r[1:] for r in seqs):
                    break
            else:
                raise ValueError(f"inconsistent hierarchy at {cname}")
            res.append(h)
            seqs = [[x for x in q if x != h] for q in seqs]
            seqs = [q for q in seqs if q]
        return res
    bs = bases_of(cls_of(lib, cname))
    return [cname] + merge([mro_of(lib, b) for b in bs] + [bs])


def own_arg(c, name):
    return next((a for a in c["args"] if a["name"] == name), None)


def resolve_arg(lib, cname, name):
    """(owner class, its declaration) of parameter `name` for class `cname` as `ObjectType.__initialize__` finds it: the
    class's own declarations, then the argument tables of its bases in `__bases__` order, each searched the same way
    (a ChainMap of ChainMaps: depth-first, base by base)"""
    c = cls_of(lib, cname)
    a = own_arg(c, name)
    if a is not None:
        return cname, a
    for b in bases_of(c):
        r = resolve_arg(lib, b, name)
        if r is not None:
            return r
    return None


def resolve_arg_mro(lib, cname, name):
    """the same under the other rule (nearest declaration in the MRO)"""
    for k in mro_of(lib, cname):
        a = own_arg(cls_of(lib, k), name)
        if a is not None:
            return k, a
    return None


def effective_arg(lib, owner, a):
    """the declaration as `ArgumentOptions.create` sees it: a class attribute `= v` missing in the class body is looked up by
    Python along the MRO of the declaring class (`getattr(originaltype, name, None)`)"""
    if "default" in a or a["decl"] in ("factory", "pathgen"):
        return a
    for k in mro_of(lib, owner)[1:]:
        b = own_arg(cls_of(lib, k), a["name"])
        if b is not None and "default" in b:
            e = dict(a)
            e["default"] = b["default"]
            e["inherited_default"] = k
            return e
    return a


def arg_names(lib, cname):
    """parameter names of a class: those of its bases first (base by base), then its own; each once"""
    c = cls_of(lib, cname)
    names = []
    for b in bases_of(c):
        names += [n for n in arg_names(lib, b) if n not in names]
    names += [a["name"] for a in c["args"] if a["name"] not in names]
    return names


def add_multiple_inheritance(rng, lib):
    """classes with two configuration bases.  Shapes on which "depth-first through the bases" (the code) and "nearest in the
    MRO" give the same declaration for every parameter:
      diamond  A <- B1 (re-declares a parameter of A: other annotation, default or type), A <- B2 (adds a parameter, and may
               re-declare the same one as B1), M(B1, B2);
      join     P1, P2 unrelated, both declaring `w` differently, Q(P1, P2)."""
    pkg = lib["pkg"]
    classes = lib["classes"]
    enums = lib["enums"]
    used_all = {a["name"] for c in classes for a in c["args"]}
    fresh = [n for n in ["mi_p", "mi_q", "mi_r", "mi_s", "mi_t", "mi_u"] if n not in used_all]
    k = 0

    def redeclare(a):
        """another declaration for the same name"""
        b = {"name": a["name"], "optional": a["optional"], "ty": a["ty"]}
        r = rng.random()
        if r < 0.45:
            b["decl"] = rng.choice(["meta", "option"]) if a["decl"] == "param" else "param"
            if "default" in a and rng.random() < 0.4:
                b["default"] = a["default"]
        elif r < 0.8:
            b["decl"] = a["decl"]
            b["default"] = gen_plain_default(rng, a["ty"], {"enums": enums})
            b["optional"] = False
        else:
            b["decl"] = rng.choice(["param", "meta"])
            b["ty"] = rng.choice([t for t in ["int", "str", "bool"] if t != a["ty"]])
            b["default"] = gen_scalar(rng, b["ty"], {"enums": enums})      # its own default: the inherited one has another type
            b["optional"] = False
        return b

    cands = [c for c in classes if c["kind"] == "config" and not c["deprecated"] and not c.get("twin_of") and c["name"].startswith("C")
             and any(a["decl"] in ("param", "meta", "option") and a["ty"] in ("int", "str", "bool", "float") for a in c["args"])]
    for _ in range(rng.choice([1, 1, 2])):
        if cands and rng.random() < 0.75 and len(fresh) >= 2:
            A = rng.choice(cands)
            x = rng.choice([a for a in A["args"] if a["decl"] in ("param", "meta", "option") and a["ty"] in ("int", "str", "bool", "float")])
            b1 = {"name": f"CB{k}a", "xpmid": f"{pkg}.cb{k}a", "parent": A["name"], "bases": [A["name"]], "kind": "config", "deprecated": False,
                  "args": [redeclare(x)]}
            b2args = [{"name": fresh.pop(0), "decl": rng.choice(["param", "meta"]), "ty": rng.choice(["int", "str"]), "optional": True}]
            if rng.random() < 0.3:
                b2args.append(redeclare(x))
            b2 = {"name": f"CB{k}b", "xpmid": f"{pkg}.cb{k}b", "parent": A["name"], "bases": [A["name"]], "kind": "config", "deprecated": False, "args": b2args}
            margs = []
            if rng.random() < 0.4:
                margs.append({"name": fresh.pop(0), "decl": "param", "ty": "int", "optional": False, "default": rng.choice(INTS)})
            m = {"name": f"CM{k}", "xpmid": f"{pkg}.cm{k}", "parent": b1["name"], "bases": [b1["name"], b2["name"]], "kind": "config", "deprecated": False,
                 "args": margs}
            classes += [b1, b2, m]
        elif len(fresh) >= 1:
            w = fresh.pop(0)
            p1 = {"name": f"CP{k}a", "xpmid": f"{pkg}.cp{k}a", "parent": None, "kind": "config", "deprecated": False,
                  "args": [{"name": w, "decl": rng.choice(["param", "meta", "option"]), "ty": "int", "optional": False, "default": rng.choice(INTS)}]}
            p2 = {"name": f"CP{k}b", "xpmid": f"{pkg}.cp{k}b", "parent": None, "kind": "config", "deprecated": False,
                  "args": [{"name": w, "decl": rng.choice(["param", "meta"]), "ty": rng.choice(["int", "str"]), "optional": True},
                           {"name": "k", "decl": "param", "ty": "int", "optional": False}]}
            q = {"name": f"CQ{k}", "xpmid": f"{pkg}.cq{k}", "parent": p1["name"], "bases": [p1["name"], p2["name"]], "kind": "config", "deprecated": False,
                 "args": []}
            classes += [p1, p2, q]
        k += 1
    for c in classes:
        # the two rules must agree on every generated class (C15-N5 is about the shapes on which they do not)
        for n in arg_names(lib, c["name"]):
            assert resolve_arg(lib, c["name"], n)[0] == resolve_arg_mro(lib, c["name"], n)[0], (c["name"], n)


def val_src(v):
    if v is None or isinstance(v, (bool, int, str)):
        return repr(v)
    if "f" in v:
        x = struct.unpack("!d", bytes.fromhex(v["f"]))[0]
        return f'float("{x!r}")' if x in (float("inf"), float("-inf")) or x != x else repr(x)
    if "e" in v:
        return f"{v['e'][0]}.{v['e'][1]}"
    if "p" in v:
        return f"Path({v['p']!r})"
    if "l" in v:
        return "[" + ", ".join(val_src(x) for x in v["l"]) + "]"
    if "d" in v:
        return "{" + ", ".join(f"{k!r}: {val_src(x)}" for k, x in v["d"]) + "}"
    if "c" in v:
        return v["c"]["cls"] + "(" + ", ".join(f"{k}={val_src(x)}" for k, x in v["c"]["kw"]) + ")"
    raise ValueError(v)


def emit_source(lib, extra_body=None):
    """source text of `<pkg>/__init__.py`"""
    out = ["from pathlib import Path", "from enum import Enum", "from typing import List, Dict, Optional, Annotated",
           "from experimaestro import Config, Task, Param, Meta, Option, Constant, pathgenerator, LightweightTask, deprecate, field", ""]
    for e in lib["enums"]:
        out.append(f"class {e['name']}(Enum):")
        for i, m in enumerate(e["members"]):
            out.append(f"    {m} = {i}")
        out.append("")
    for c in lib["classes"]:
        base = ", ".join(bases_of(c)) or {"config": "Config", "task": "Task", "light": "LightweightTask"}[c["kind"]]
        if c["deprecated"]:
            out.append("@deprecate")
        out.append(f"class {c['name']}({base}):")
        out.append(f"    __xpmid__ = {c['xpmid']!r}")
        for a in c["args"]:
            t = ty_src(a["ty"])
            if a["optional"]:
                t = f"Optional[{t}]"
            if a["decl"] == "pathgen":
                out.append(f"    {a['name']}: Annotated[Path, pathgenerator({a['file']!r})]")
                continue
            if a["decl"] == "factory":
                out.append(f"    {a['name']}: Param[{t}] = field(default_factory=lambda: {val_src(a['fval'])})")
                continue
            ann = {"param": "Param", "meta": "Meta", "option": "Option", "constant": "Constant"}[a["decl"]]
            line = f"    {a['name']}: {ann}[{t}]"
            if "default" in a:
                line += f" = {val_src(a['default'])}"
            out.append(line)
        if c["kind"] in ("task", "light"):
            out.append("    def execute(self):")
            out.append("        pass")
        if extra_body:
            out += extra_body(c)
        out.append("")
    return "\n".join(out) + "\n"


# --------------------------------------------------------------------- graphs


def all_args(lib, cname):
    """the argument specs in force for a class (inherited ones first): for each name the declaration
    `ObjectType.__initialize__` resolves (`resolve_arg`), with the class attribute Python finds for it (`effective_arg`)"""
    out = []
    for n in arg_names(lib, cname):
        owner, a = resolve_arg(lib, cname, n)
        out.append(effective_arg(lib, owner, a))
    return out


def subclasses(lib, cname):
    res = [cname]
    for c in lib["classes"]:
        if any(b in res for b in bases_of(c)) and c["name"] not in res and not c["deprecated"] and not c.get("twin_of"):
            res.append(c["name"])
    return res


class GraphGen:
    def __init__(self, rng, lib, max_nodes=10, cycles=True, control_chars=False):
        self.rng, self.lib, self.max_nodes = rng, lib, max_nodes
        self.nodes = []
        self.cycles = cycles

    def new_node(self, cname, depth):
        idx = len(self.nodes)
        node = {"cls": cname, "values": [], "meta": None, "pre": [], "init": [], "task": None}
        self.nodes.append(node)
        rng = self.rng
        for a in all_args(self.lib, cname):
            if a["decl"] in ("constant", "pathgen", "factory"):
                continue
            if "default" in a and has_literal(a["default"]):
                r = rng.random()
                if r < 0.35:
                    continue                          # left unset: the constructor stores a clone of the default
                if r < 0.7:
                    # explicitly a configuration equal to the default (other objects, same content) …
                    v = materialize(self.nodes, a["default"])
                    if r >= 0.5:
                        # … or one scalar away from it
                        tgt = next((x["r"] for x in ([v] + v.get("l", []) + [y for _, y in v.get("d", [])]) if isinstance(x, dict) and "r" in x), None)
                        if tgt is not None:
                            tn = self.nodes[tgt]
                            sc = [aa for aa in all_args(self.lib, tn["cls"]) if aa["decl"] == "param" and aa["ty"] in ("int", "str", "bool", "float")]
                            if sc:
                                aa = rng.choice(sc)
                                tn["values"] = [kv for kv in tn["values"] if kv[0] != aa["name"]] + [[aa["name"], gen_scalar(rng, aa["ty"], self.lib)]]
                    node["values"].append([a["name"], v])
                    continue
            elif NESTED_DEFAULTS and "default" in a and isinstance(a["default"], dict) and any(
                    isinstance(x, dict) and ("l" in x or "d" in x)
                    for x in a["default"].get("l", []) + [kv[1] for kv in a["default"].get("d", [])]) and rng.random() < 0.6:
                node["values"].append([a["name"], copy.deepcopy(a["default"])])  # explicitly the nested default: inner containers to edit
                continue
            elif "default" in a and rng.random() < 0.4:
                if rng.random() < 0.5:
                    node["values"].append([a["name"], a["default"]])  # explicitly the default
                continue
            if a["optional"] and rng.random() < 0.4:
                if rng.random() < 0.3:
                    node["values"].append([a["name"], None])
                continue
            node["values"].append([a["name"], self.gen_val(a["ty"], depth + 1, idx)])
        rng.shuffle(node["values"])
        return idx

    def pick_cfg(self, cname, depth, owner):
        """an existing node of a compatible class (sharing / cycles) or a new one"""
        rng = self.rng
        ok = subclasses(self.lib, cname)
        existing = [i for i, n in enumerate(self.nodes) if n["cls"] in ok]
        if existing and (rng.random() < 0.35 or len(self.nodes) >= self.max_nodes or depth > 5):
            cands = existing if self.cycles else [i for i in existing if i > owner]
            if cands:
                return rng.choice(cands)
        if len(self.nodes) >= self.max_nodes or depth > 5:
            return None
        return self.new_node(rng.choice(ok), depth)

    def gen_val(self, ty, depth, owner):
        rng = self.rng
        if isinstance(ty, dict) and "cfg" in ty:
            i = self.pick_cfg(ty["cfg"], depth, owner)
            if i is None:  # node budget exhausted: a fresh node anyway (types only mention earlier classes: terminates)
                i = self.new_node(self.rng.choice(subclasses(self.lib, ty["cfg"])), depth)
            return {"r": i}
        if isinstance(ty, dict) and "list" in ty:
            items = [self.gen_val(ty["list"], depth + 1, owner) for _ in range(rng.choice([0, 1, 2, 2, 3]))]
            return {"l": [x for x in items if x is not None or not has_cfg(ty["list"])]}
        if isinstance(ty, dict) and "dict" in ty:
            ks = rng.sample(KEYS, rng.choice([0, 1, 2, 3]))
            items = [[k, self.gen_val(ty["dict"], depth + 1, owner)] for k in ks]
            return {"d": [kv for kv in items if kv[1] is not None or not has_cfg(ty["dict"])]}
        return gen_scalar(rng, ty, self.lib)


def fix_required(lib, g):
    """a required configuration-typed value that could not be filled (node budget): drop it
    by pointing to any compatible node, else leave missing (identifier computation does not validate)"""
    return g


def gen_graph(rng, lib, max_nodes=10, cycles=True, extras=True):
    gg = GraphGen(rng, lib, max_nodes, cycles)
    roots = [c["name"] for c in lib["classes"] if c["name"].startswith("C")]
    gg.new_node(rng.choice(roots[-2:] if rng.random() < 0.6 else roots), 0)
    nodes = gg.nodes
    if extras:
        n0 = len(nodes)
        for i in range(n0):
            r = rng.random()
            if r < 0.12:
                nodes[i]["meta"] = rng.choice([True, False])
            if rng.random() < 0.12:
                nodes.append({"cls": "LW", "values": [["v", rng.choice([1, 2, 3])]], "meta": None, "pre": [], "init": [], "task": None})
                nodes[i]["pre"].append(len(nodes) - 1)
                if rng.random() < 0.3:  # a shared pre-task
                    j = rng.randrange(n0)
                    if len(nodes) - 1 not in nodes[j]["pre"]:
                        nodes[j]["pre"].append(len(nodes) - 1)
            if i == 0 and rng.random() < 0.25:
                for _ in range(rng.choice([1, 2])):
                    nodes.append({"cls": rng.choice(["LW", "LW2"]), "values": [], "meta": None, "pre": [], "init": [], "task": None})
                    if nodes[-1]["cls"] == "LW":
                        nodes[-1]["values"] = [["v", rng.choice([1, 2, 3])]]
                    nodes[0]["init"].append(len(nodes) - 1)
        # task outputs: a non-task node produced by a task node of the graph
        tasks = [i for i, n in enumerate(nodes) if next(c for c in lib["classes"] if c["name"] == n["cls"])["kind"] == "task"]
        for i in range(n0):
            if i not in tasks and tasks and rng.random() < 0.12:
                t = rng.choice(tasks)
                if t != i:
                    nodes[i]["task"] = t
    return {"nodes": nodes}


def gen_history(rng, g, n_ops=None, mutate_after_seal=False):
    """identifier-neutral operations: seal / request raw / request full on random nodes"""
    n = len(g["nodes"])
    ops = []
    for _ in range(n_ops if n_ops is not None else rng.choice([2, 4, 6, 10, 14])):
        r = rng.random()
        k = rng.randrange(n)
        if r < 0.25:
            ops.append({"op": "seal", "n": k})
        elif r < 0.6:
            ops.append({"op": "full", "n": k})
        else:
            ops.append({"op": "raw", "n": k})
    return ops
