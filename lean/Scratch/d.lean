import XpmVerif.Model.SerialData
import XpmVerif.Proofs.SerialLoad
namespace XpmVerif.Serial
open XpmVerif.Ident

/-- what `save` then `load(base)` make of an argument -/
def placedArg (dfl : DFlags) (base : List Nat) (data : List (List Nat)) (pos : Nat) (a : Arg) : Arg :=
  match data.contains a.name, a.value with
  | true, .path _ => { a with value := .path (inDir base (relName dfl pos a.name)) }
  | _, _ => a

theorem relocate_rename (dfl : DFlags) (base : List Nat) (data : List (List Nat)) (pos : Nat) (a : Arg) :
    relocateArg base data (renameArg dfl data pos a) = placedArg dfl base data pos a := by
  obtain ⟨name, ig, gen, cst, req, dflt, value⟩ := a
  cases hd : data.contains name <;> cases value <;> simp only [renameArg, relocateArg, placedArg, hd]

theorem relocate_id (base : List Nat) (data : List (List Nat)) (a : Arg)
    (h : ∀ s, data.contains a.name = true → a.value ≠ .path s) : relocateArg base data a = a := by
  unfold relocateArg
  split
  · next h1 h2 => exact absurd h2 (h _ h1)
  · rfl

theorem lookupObj_map (f : LObj → LObj) (n : Nat) : ∀ (L : Loaded),
    lookupObj n (L.map (fun p => (p.1, f p.2))) = (lookupObj n L).map f
  | [] => rfl
  | (k, o) :: r => by
    simp only [List.map_cons, lookupObj]
    split
    · rfl
    · exact lookupObj_map f n r

theorem mem_copiesOfArgs (dfl : DFlags) (fs : FS) (data : List (List Nat)) (pos : Nat) (x : List Nat × Nat) :
    ∀ (args : List Arg), x ∈ copiesOfArgs dfl fs data pos args ↔
      ∃ a ∈ args, data.contains a.name = true ∧ ∃ s, a.value = .path s ∧ x = (relName dfl pos a.name, (fsGet fs s).getD 0)
  | [] => by simp [copiesOfArgs]
  | a :: r => by
    have ih := mem_copiesOfArgs dfl fs data pos x r
    unfold copiesOfArgs
    split
    · next h1 h2 =>
      simp only [List.mem_cons, ih]
      constructor
      · rintro (h | ⟨a', ha', h⟩)
        · exact ⟨a, Or.inl rfl, h1, _, h2, h⟩
        · exact ⟨a', Or.inr ha', h⟩
      · rintro ⟨a', (rfl | ha'), hd, s, hs, hx⟩
        · left
          rw [h2] at hs
          cases hs
          exact hx
        · exact Or.inr ⟨a', ha', hd, s, hs, hx⟩
    · next hne =>
      rw [ih]
      constructor
      · rintro ⟨a', ha', h⟩; exact ⟨a', List.mem_cons_of_mem _ ha', h⟩
      · rintro ⟨a', ha', hd, s, hs, hx⟩
        rcases List.mem_cons.1 ha' with rfl | ha'
        · exact absurd hs (hne s hd)
        · exact ⟨a', ha', hd, s, hs, hx⟩

theorem eq_of_name_nodup : ∀ (l : List Arg), (l.map (·.name)).Nodup → ∀ a ∈ l, ∀ b ∈ l, a.name = b.name → a = b
  | [], _, a, ha, _, _, _ => by cases ha
  | x :: r, hnd, a, ha, b, hb, hab => by
    simp only [List.map_cons, List.nodup_cons, List.mem_map, not_exists, not_and] at hnd
    rcases List.mem_cons.1 ha with rfl | ha' <;> rcases List.mem_cons.1 hb with rfl | hb'
    · rfl
    · exact absurd hab.symm (hnd.1 b hb')
    · exact absurd hab (hnd.1 a ha')
    · exact eq_of_name_nodup r hnd.2 a ha' b hb' hab
end XpmVerif.Serial
