import XpmVerif.Model.Validate
/-! Helper lemmas for C15 (model `Model/Validate.lean`): soundness of `validate`, identity on conforming
    values, reflexivity of `pyEq`, and the completeness of the validation walk (a depth-first search with
    a visited set = the `_validated` flags). Core Lean only. -/
namespace XpmVerif.Validate

/-! ### `validate` only returns members of the declared type -/

theorem mapE_ok_all {f : PyVal → Except Err PyVal} {P : PyVal → Prop} :
    ∀ (vs ws : List PyVal), mapE f vs = .ok ws → (∀ x ∈ vs, ∀ y, f x = .ok y → P y) → ∀ y ∈ ws, P y
  | [], ws, h, _ => by simp [mapE] at h; subst h; simp
  | v :: vs, ws, h, hp => by
    simp only [mapE] at h
    cases hv : f v with
    | error e => simp [hv] at h
    | ok w =>
      simp only [hv] at h
      cases hr : mapE f vs with
      | error e => simp [hr] at h
      | ok ws' =>
        simp only [hr, Except.ok.injEq] at h
        subst h
        intro y hy
        rcases List.mem_cons.mp hy with rfl | hy
        · exact hp v (List.mem_cons_self) _ hv
        · exact mapE_ok_all vs ws' hr (fun x hx => hp x (List.mem_cons_of_mem _ hx)) y hy

theorem mapD_ok_all {f : PyVal → Except Err PyVal} {P : PyVal → Prop} :
    ∀ (ks : List Key) (vs ws : List PyVal), mapD f ks vs = .ok ws → (∀ x ∈ vs, ∀ y, f x = .ok y → P y) →
      ks.length = ws.length ∧ ks.all keyOk = true ∧ ∀ y ∈ ws, P y
  | [], [], ws, h, _ => by simp [mapD] at h; subst h; simp
  | [], _ :: _, ws, h, _ => by simp [mapD] at h
  | _ :: _, [], ws, h, _ => by simp [mapD] at h
  | k :: ks, v :: vs, ws, h, hp => by
    simp only [mapD] at h
    by_cases hk : keyOk k = true
    · simp only [hk, if_true] at h
      cases hv : f v with
      | error e => simp [hv] at h
      | ok w =>
        simp only [hv] at h
        cases hr : mapD f ks vs with
        | error e => simp [hr] at h
        | ok ws' =>
          simp only [hr, Except.ok.injEq] at h
          subst h
          have ih := mapD_ok_all ks vs ws' hr (fun x hx => hp x (List.mem_cons_of_mem _ hx))
          refine ⟨by simp [ih.1], by simp [hk, ih.2.1], ?_⟩
          intro y hy
          rcases List.mem_cons.mp hy with rfl | hy
          · exact hp v (List.mem_cons_self) _ hv
          · exact ih.2.2 y hy
    · simp [hk] at h

theorem conforms_opt (t : Ty) (v : PyVal) : conforms (.opt t) v = ((match v with | .none => true | _ => false) || conforms t v) := by
  cases v <;> simp [conforms]


theorem vInt_conf {v w : PyVal} (h : vInt v = .ok w) : conforms .int w = true := by
  cases v with
  | float f =>
    cases f with
    | fin n m e =>
      simp only [vInt] at h
      split at h
      · simp at h; subst h; simp [conforms]
      · simp at h
    | inf n => simp [vInt] at h
    | nan => simp [vInt] at h
  | int i => simp [vInt] at h; subst h; simp [conforms]
  | bool b => simp [vInt] at h; subst h; simp [conforms]
  | _ => simp [vInt] at h

theorem vFloat_conf {v w : PyVal} (h : vFloat v = .ok w) : conforms .float w = true := by
  cases v with
  | float f => simp [vFloat] at h; subst h; simp [conforms]
  | int i =>
    simp only [vFloat] at h
    split at h
    · simp at h; subst h; simp [conforms]
    · simp at h
  | bool b => simp [vFloat] at h; subst h; simp [conforms]
  | _ => simp [vFloat] at h

theorem vStr_conf {v w : PyVal} (h : vStr v = .ok w) : conforms .str w = true := by
  unfold vStr at h
  split at h <;> simp at h
  subst h; simp [conforms]

theorem pathOf_conf {o : Option PyVal} {w : PyVal} (h : pathOf o = .ok w) : conforms .path w = true := by
  unfold pathOf at h
  split at h <;> simp at h <;> (subst h; simp [conforms])

theorem vPath_conf {v w : PyVal} (h : vPath v = .ok w) : conforms .path w = true := by
  unfold vPath at h
  split at h
  · split at h
    · exact pathOf_conf h
    · simp at h
  · simp at h; subst h; simp [conforms]
  · simp at h; subst h; simp [conforms]
  · simp at h

theorem vEnum_conf {I : Impl} {c : Nat} {v w : PyVal} (h : vEnum I c v = .ok w) : conforms (.enum c) w = true := by
  unfold vEnum at h
  split at h
  · split at h
    · simp at h; subst h; simp [conforms, *]
    · simp at h
  · simp at h

theorem vCfg_conf {I : Impl} (hI : I.cfgNoneOk = false) {c : Nat} {v w : PyVal} (h : vCfg I c v = .ok w) :
    conforms (.cfg c) w = true := by
  unfold vCfg at h
  split at h
  · simp [hI] at h
  · split at h
    · simp at h; subst h; simp [conforms, *]
    · simp at h
  · simp at h

mutual
/-- soundness, with the two switches needed only where the type mentions a union / a configuration class -/
theorem validate_sound_aux (I : Impl) :
    ∀ (t : Ty), (I.unionDictNone = false ∨ t.unionFree = true) → (I.cfgNoneOk = false ∨ t.cfgFree = true) →
      ∀ (v w : PyVal), validate I t v = .ok w → conforms t w = true
  | .bool, _, _, v, w, h => by simp [validate] at h; subst h; simp [conforms]
  | .int, _, _, v, w, h => by simp only [validate] at h; exact vInt_conf h
  | .float, _, _, v, w, h => by simp only [validate] at h; exact vFloat_conf h
  | .str, _, _, v, w, h => by simp only [validate] at h; exact vStr_conf h
  | .path, _, _, v, w, h => by simp only [validate] at h; exact vPath_conf h
  | .enum c, _, _, v, w, h => by simp only [validate] at h; exact vEnum_conf h
  | .cfg c, _, h2, v, w, h => by
    simp only [validate] at h
    exact vCfg_conf (h2.resolve_right (by simp [Ty.cfgFree])) h
  | .any, _, _, v, w, h => by simp [conforms]
  | .opt t, h1, h2, v, w, h => by
    rw [conforms_opt]
    cases v with
    | none => simp [validate] at h; subst h; simp
    | _ =>
      simp only [validate] at h
      simp [validate_sound_aux I t (h1.imp_right (by simp [Ty.unionFree])) (h2.imp_right (by simp [Ty.cfgFree])) _ w h]
  | .list t, h1, h2, v, w, h => by
    cases v with
    | list vs =>
      simp only [validate] at h
      cases hm : mapE (validate I t) vs with
      | error e => simp [hm] at h
      | ok ws =>
        simp only [hm, Except.ok.injEq] at h
        subst h
        have := mapE_ok_all (P := fun y => conforms t y = true) vs ws hm
          (fun x _ y hy => validate_sound_aux I t (h1.imp_right (by simp [Ty.unionFree])) (h2.imp_right (by simp [Ty.cfgFree])) x y hy)
        simpa [conforms, List.all_eq_true] using this
    | _ => simp [validate] at h
  | .dict t, h1, h2, v, w, h => by
    cases v with
    | dict ks vs =>
      simp only [validate] at h
      cases hm : mapD (validate I t) ks vs with
      | error e => simp [hm] at h
      | ok ws =>
        simp only [hm, Except.ok.injEq] at h
        subst h
        have := mapD_ok_all (P := fun y => conforms t y = true) ks vs ws hm
          (fun x _ y hy => validate_sound_aux I t (h1.imp_right (by simp [Ty.unionFree])) (h2.imp_right (by simp [Ty.cfgFree])) x y hy)
        simp only [conforms, Bool.and_eq_true, beq_iff_eq, List.all_eq_true]
        exact ⟨⟨this.1, by simpa [List.all_eq_true] using this.2.1⟩, this.2.2⟩
    | _ => simp [validate] at h
  | .union ts, h1, h2, v, w, h => by
    have h1' : I.unionDictNone = false := h1.resolve_right (by simp [Ty.unionFree])
    simp only [validate] at h
    cases hu : validateU I ts v with
    | some r =>
      simp only [hu] at h
      subst h
      simp only [conforms]
      exact validateU_sound_aux I h1' ts (h2.imp_right (by simp [Ty.cfgFree])) v w hu
    | none => simp [hu, h1'] at h
theorem validateU_sound_aux (I : Impl) (h1 : I.unionDictNone = false) :
    ∀ (ts : List Ty), (I.cfgNoneOk = false ∨ Ty.cfgFreeAll ts = true) →
      ∀ (v w : PyVal), validateU I ts v = some (.ok w) → conformsAny ts w = true
  | [], _, v, w, h => by simp [validateU] at h
  | t :: ts, h2, v, w, h => by
    simp only [validateU] at h
    simp only [conformsAny, Bool.or_eq_true]
    cases hv : validate I t v with
    | ok w' =>
      simp only [hv, Option.some.injEq, Except.ok.injEq] at h
      subst h
      exact Or.inl (validate_sound_aux I t (Or.inl h1) (h2.imp_right (by simp [Ty.cfgFreeAll]; exact fun a _ => a)) v w' hv)
    | error e =>
      cases e with
      | invalid =>
        simp only [hv] at h
        exact Or.inr (validateU_sound_aux I h1 ts (h2.imp_right (by simp [Ty.cfgFreeAll])) v w h)
      | _ => simp [hv] at h
end

/-! ### conforming values pass unchanged -/

theorem mapE_id {f : PyVal → Except Err PyVal} : ∀ (vs : List PyVal), (∀ x ∈ vs, f x = .ok x) → mapE f vs = .ok vs
  | [], _ => by simp [mapE]
  | v :: vs, h => by
    simp [mapE, h v (List.mem_cons_self), mapE_id vs (fun x hx => h x (List.mem_cons_of_mem _ hx))]

theorem mapD_id {f : PyVal → Except Err PyVal} : ∀ (ks : List Key) (vs : List PyVal), ks.length = vs.length →
    ks.all keyOk = true → (∀ x ∈ vs, f x = .ok x) → mapD f ks vs = .ok vs
  | [], [], _, _, _ => by simp [mapD]
  | [], _ :: _, hl, _, _ => by simp at hl
  | _ :: _, [], hl, _, _ => by simp at hl
  | k :: ks, v :: vs, hl, hk, h => by
    simp only [List.all_cons, Bool.and_eq_true] at hk
    simp only [List.length_cons, Nat.add_right_cancel_iff] at hl
    simp [mapD, hk.1, h v (List.mem_cons_self), mapD_id ks vs hl hk.2 (fun x hx => h x (List.mem_cons_of_mem _ hx))]

theorem validate_id_aux (I : Impl) : ∀ (t : Ty), t.unionFree = true → ∀ (v : PyVal), conforms t v = true → validate I t v = .ok v
  | .bool, _, v, hc => by cases v <;> simp [conforms] at hc; simp [validate, PyVal.truthy]
  | .int, _, v, hc => by cases v <;> simp [conforms] at hc <;> simp [validate, vInt]
  | .float, _, v, hc => by cases v <;> simp [conforms] at hc; simp [validate, vFloat]
  | .str, _, v, hc => by cases v <;> simp [conforms] at hc; simp [validate, vStr]
  | .path, _, v, hc => by cases v <;> simp [conforms] at hc; simp [validate, vPath]
  | .enum c, _, v, hc => by cases v <;> simp [conforms] at hc; simp [validate, vEnum, hc]
  | .cfg c, _, v, hc => by cases v <;> simp [conforms] at hc; simp [validate, vCfg, hc]
  | .any, _, v, _ => by simp [validate]
  | .opt t, hu, v, hc => by
    rw [conforms_opt] at hc
    cases v with
    | none => simp [validate]
    | _ => simp only [validate]; exact validate_id_aux I t (by simpa [Ty.unionFree] using hu) _ (by simpa using hc)
  | .list t, hu, v, hc => by
    cases v with
    | list vs =>
      simp only [conforms, List.all_eq_true] at hc
      simp only [validate]
      rw [mapE_id vs (fun x hx => validate_id_aux I t (by simpa [Ty.unionFree] using hu) x (hc x hx))]
    | _ => simp [conforms] at hc
  | .dict t, hu, v, hc => by
    cases v with
    | dict ks vs =>
      simp only [conforms, Bool.and_eq_true, beq_iff_eq, List.all_eq_true] at hc
      simp only [validate]
      rw [mapD_id ks vs hc.1.1 (by simpa [List.all_eq_true] using hc.1.2)
        (fun x hx => validate_id_aux I t (by simpa [Ty.unionFree] using hu) x (hc.2 x hx))]
    | _ => simp [conforms] at hc
  | .union ts, hu, _, _ => by simp [Ty.unionFree] at hu

theorem Fl.eq_refl (x : Fl) : x.eq x = true := by cases x <;> simp [Fl.eq]

theorem Num.eq_refl (x : Num) : x.eq x = true := by cases x <;> simp [Num.eq, Fl.eq_refl]

mutual
theorem pyEq_refl : ∀ (v : PyVal), pyEq v v = true
  | .none => by simp [pyEq]
  | .bool b => by simp [pyEq, numOf, Num.eq]
  | .int i => by simp [pyEq, numOf, Num.eq]
  | .float f => by simp [pyEq, numOf, Num.eq, Fl.eq_refl]
  | .str s => by simp [pyEq]
  | .path s => by simp [pyEq]
  | .enumMember c n => by simp [pyEq]
  | .list vs => by simp [pyEq, pyEqL_refl vs]
  | .tuple vs => by simp [pyEq, pyEqL_refl vs]
  | .dict ks vs => by simp [pyEq, pyEqL_refl vs]
  | .config m i => by simp [pyEq]
  | .other s t => by simp [pyEq]
theorem pyEqL_refl : ∀ (vs : List PyVal), pyEqL vs vs = true
  | [] => by simp [pyEqL]
  | v :: vs => by simp [pyEqL, pyEq_refl v, pyEqL_refl vs]
end


/-! ### the validation walk (generic in the items of a node) -/

@[simp] theorem visits_nil : visits [] = [] := rfl
@[simp] theorem visits_fail (l : List Item) : visits (.fail :: l) = visits l := by simp [visits]
@[simp] theorem visits_visit (m : Nat) (l : List Item) : visits (.visit m :: l) = m :: visits l := by simp [visits]
@[simp] theorem hasFail_nil : hasFail [] = false := rfl
@[simp] theorem hasFail_fail (l : List Item) : hasFail (.fail :: l) = true := by simp [hasFail]
@[simp] theorem hasFail_visit (m : Nat) (l : List Item) : hasFail (.visit m :: l) = hasFail l := by
  simp [hasFail]

section walk
variable (items : Nat → List Item)

/-- every node that became flagged during a run is complete and all its successors are flagged -/
def Closed (vis vis' : List Nat) : Prop :=
  ∀ m ∈ vis', m ∈ vis ∨ (hasFail (items m) = false ∧ ∀ k ∈ visits (items m), k ∈ vis')

theorem Closed.trans {a b c : List Nat} (h1 : Closed items a b) (h2 : Closed items b c) (hbc : b ⊆ c) : Closed items a c := by
  intro m hm
  rcases h2 m hm with hb | hg
  · rcases h1 m hb with ha | ⟨hf, hk⟩
    · exact Or.inl ha
    · exact Or.inr ⟨hf, fun k hk' => hbc (hk k hk')⟩
  · exact Or.inr hg

theorem Closed.refl (a : List Nat) : Closed items a a := fun _ hm => Or.inl hm

/-- what a callback must satisfy (the induction hypothesis on the fuel) -/
def CbOk (cb : List Nat → Nat → Out × List Nat) : Prop :=
  ∀ vis m vis', cb vis m = (.ok, vis') → m ∈ vis' ∧ vis ⊆ vis' ∧ Closed items vis vis'

theorem walkItems_ok {cb : List Nat → Nat → Out × List Nat} (hcb : CbOk items cb) :
    ∀ (l : List Item) (vis vis' : List Nat), walkItems cb vis l = (.ok, vis') →
      hasFail l = false ∧ (∀ k ∈ visits l, k ∈ vis') ∧ vis ⊆ vis' ∧ Closed items vis vis'
  | [], vis, vis', h => by
    simp only [walkItems, Prod.mk.injEq, true_and] at h
    subst h
    exact ⟨rfl, by simp, fun _ h => h, Closed.refl items _⟩
  | .fail :: l, vis, vis', h => by simp [walkItems] at h
  | .visit m :: l, vis, vis', h => by
    simp only [walkItems] at h
    cases hc : cb vis m with
    | mk o vis1 =>
      cases o with
      | ok =>
        simp only [hc] at h
        obtain ⟨hm, hsub, hcl⟩ := hcb vis m vis1 hc
        obtain ⟨hf, hk, hsub2, hcl2⟩ := walkItems_ok hcb l vis1 vis' h
        refine ⟨by simpa using hf, ?_, fun _ hx => hsub2 (hsub hx), Closed.trans items hcl hcl2 hsub2⟩
        intro k hk'
        simp only [visits_visit, List.mem_cons] at hk'
        rcases hk' with rfl | hk'
        · exact hsub2 hm
        · exact hk k hk'
      | missing => simp [hc] at h
      | fuel => simp [hc] at h

theorem walkNode_ok : ∀ (f : Nat), CbOk items (walkNode items f)
  | 0 => by intro vis m vis' h; simp [walkNode] at h
  | f + 1 => by
    intro vis n vis' h
    simp only [walkNode] at h
    by_cases hn : n ∈ vis
    · simp only [hn, if_true, Prod.mk.injEq, true_and] at h
      subst h
      exact ⟨hn, fun _ h => h, Closed.refl items _⟩
    · simp only [hn, if_false] at h
      obtain ⟨hf, hk, hsub, hcl⟩ := walkItems_ok items (walkNode_ok f) (items n) (n :: vis) vis' h
      refine ⟨hsub (List.mem_cons_self), fun _ hx => hsub (List.mem_cons_of_mem _ hx), ?_⟩
      intro m hm
      rcases hcl m hm with hmv | hg
      · rcases List.mem_cons.mp hmv with rfl | hmv
        · exact Or.inr ⟨hf, hk⟩
        · exact Or.inl hmv
      · exact Or.inr hg

/-- **the walk is complete**: started with no flag set, an `ok` result means that every node reachable
    along the edges the walk follows is free of `fail` items -/
theorem walk_ok_all_reachable (f root : Nat) (vis' : List Nat) (h : walkNode items f [] root = (.ok, vis'))
    (n : Nat) (hr : Reach (fun m => visits (items m)) root n) : n ∈ vis' ∧ hasFail (items n) = false := by
  obtain ⟨hroot, _, hcl⟩ := walkNode_ok items f [] root vis' h
  have key : ∀ m ∈ vis', hasFail (items m) = false ∧ ∀ k ∈ visits (items m), k ∈ vis' := by
    intro m hm
    rcases hcl m hm with h0 | hg
    · simp at h0
    · exact hg
  have : n ∈ vis' := by
    induction hr with
    | refl => exact hroot
    | step _ hc ih => exact (key _ ih).2 _ hc
  exact ⟨this, (key n this).1⟩

/-! a `missing` result comes from a reachable node with a `fail` item -/

def CbMiss (cb : List Nat → Nat → Out × List Nat) : Prop :=
  ∀ vis m vis', cb vis m = (.missing, vis') → ∃ k, Reach (fun m => visits (items m)) m k ∧ hasFail (items k) = true

theorem walkItems_missing {cb : List Nat → Nat → Out × List Nat} (hcb : CbMiss items cb) :
    ∀ (l : List Item) (vis vis' : List Nat), walkItems cb vis l = (.missing, vis') →
      hasFail l = true ∨ ∃ m ∈ visits l, ∃ k, Reach (fun m => visits (items m)) m k ∧ hasFail (items k) = true
  | [], vis, vis', h => by simp [walkItems] at h
  | .fail :: l, vis, vis', h => by simp
  | .visit m :: l, vis, vis', h => by
    simp only [walkItems] at h
    cases hc : cb vis m with
    | mk o vis1 =>
      cases o with
      | ok =>
        simp only [hc] at h
        rcases walkItems_missing hcb l vis1 vis' h with hf | ⟨m', hm', hk⟩
        · exact Or.inl (by simpa using hf)
        · exact Or.inr ⟨m', by simp [hm'], hk⟩
      | missing =>
        exact Or.inr ⟨m, by simp, hcb vis m vis1 hc⟩
      | fuel => simp [hc] at h

theorem Reach.head {S : Nat → List Nat} {a b c : Nat} (hab : b ∈ S a) (h : Reach S b c) : Reach S a c := by
  induction h with
  | refl => exact Reach.step Reach.refl hab
  | step _ hc ih => exact Reach.step ih hc

theorem walkNode_missing : ∀ (f : Nat), CbMiss items (walkNode items f)
  | 0 => by intro vis m vis' h; simp [walkNode] at h
  | f + 1 => by
    intro vis n vis' h
    simp only [walkNode] at h
    by_cases hn : n ∈ vis
    · simp [hn] at h
    · simp only [hn, if_false] at h
      rcases walkItems_missing items (walkNode_missing f) (items n) (n :: vis) vis' h with hf | ⟨m, hm, k, hr, hk⟩
      · exact ⟨n, Reach.refl, hf⟩
      · exact ⟨k, Reach.head hm hr, hk⟩

/-! the fuel `nodes + 1` is never exhausted -/

/-- nodes below `N` that carry no flag -/
def unv (N : Nat) (vis : List Nat) : Nat := (List.range N).countP (fun x => decide (x ∉ vis))

theorem unv_mono {N : Nat} {a b : List Nat} (h : a ⊆ b) : unv N b ≤ unv N a := by
  unfold unv
  apply List.countP_mono_left
  intro x _ hx
  simp only [decide_eq_true_eq] at hx ⊢
  exact fun hxa => hx (h hxa)

theorem countP_lt_generic (p p' : Nat → Bool) (n : Nat) (h2 : p' n = false) (h3 : p n = true)
    (h4 : ∀ x, x ≠ n → p' x = p x) : ∀ (l : List Nat), n ∈ l → l.countP p' < l.countP p
  | [], h => by simp at h
  | x :: l, h => by
    have hmono : l.countP p' ≤ l.countP p := by
      apply List.countP_mono_left
      intro y _ hy
      by_cases hyn : y = n
      · subst hyn; rw [h2] at hy; exact absurd hy (by simp)
      · rw [← h4 y hyn]; exact hy
    rw [List.countP_cons, List.countP_cons]
    by_cases hx : x = n
    · subst hx
      rw [h2, h3]
      simp
      omega
    · have hin : n ∈ l := by
        rcases List.mem_cons.mp h with rfl | h
        · exact absurd rfl hx
        · exact h
      have ih := countP_lt_generic p p' n h2 h3 h4 l hin
      rw [h4 x hx]
      omega

theorem countP_lt_of_mem {n : Nat} {vis : List Nat} (hn : n ∉ vis) (l : List Nat) (h : n ∈ l) :
    l.countP (fun x => decide (x ∉ n :: vis)) < l.countP (fun x => decide (x ∉ vis)) := by
  apply countP_lt_generic _ _ n _ _ _ l h
  · simp
  · simp [hn]
  · intro x hx; simp [hx]

theorem unv_lt {N n : Nat} {vis : List Nat} (hN : n < N) (hn : n ∉ vis) : unv N (n :: vis) < unv N vis :=
  countP_lt_of_mem hn (List.range N) (List.mem_range.mpr hN)

def CbFuel (N : Nat) (cb : List Nat → Nat → Out × List Nat) (f : Nat) : Prop :=
  ∀ vis m, m < N → unv N vis < f → (cb vis m).1 ≠ .fuel ∧ vis ⊆ (cb vis m).2

theorem walkItems_fuel {N f : Nat} {cb : List Nat → Nat → Out × List Nat} (hcb : CbFuel N cb f) :
    ∀ (l : List Item) (vis : List Nat), (∀ k ∈ visits l, k < N) → unv N vis < f →
      (walkItems cb vis l).1 ≠ .fuel ∧ vis ⊆ (walkItems cb vis l).2
  | [], vis, _, _ => by simp [walkItems]
  | .fail :: l, vis, _, _ => by simp [walkItems]
  | .visit m :: l, vis, hl, hf => by
    simp only [walkItems]
    have hm : m < N := hl m (by simp)
    obtain ⟨h1, h2⟩ := hcb vis m hm hf
    cases hc : cb vis m with
    | mk o vis1 =>
      rw [hc] at h1 h2
      cases o with
      | ok =>
        simp only
        have := walkItems_fuel hcb l vis1 (fun k hk => hl k (by simp [hk])) (Nat.lt_of_le_of_lt (unv_mono h2) hf)
        exact ⟨this.1, fun _ hx => this.2 (h2 hx)⟩
      | missing => exact ⟨by simp, h2⟩
      | fuel => simp at h1

theorem walkNode_fuel (N : Nat) (hwf : ∀ n, n < N → ∀ k ∈ visits (items n), k < N) :
    ∀ (f : Nat), CbFuel N (walkNode items f) f
  | 0 => by intro vis m _ h; omega
  | f + 1 => by
    intro vis n hn hf
    simp only [walkNode]
    by_cases hv : n ∈ vis
    · simp [hv]
    · simp only [hv, if_false]
      have hlt : unv N (n :: vis) < f := by have := unv_lt hn hv; omega
      have := walkItems_fuel (walkNode_fuel N hwf f) (items n) (n :: vis) (hwf n hn) hlt
      exact ⟨this.1, fun _ hx => this.2 (List.mem_cons_of_mem _ hx)⟩

theorem unv_le (N : Nat) (vis : List Nat) : unv N vis ≤ N := by
  unfold unv
  have := List.countP_le_length (p := fun x => decide (x ∉ vis)) (l := List.range N)
  simpa using this

end walk

/-! ### unions: the first alternative that accepts decides, and it returns an equal value -/

mutual
/-- no float anywhere in a list/dict structure -/
def ffree : PyVal → Bool
  | .float _ => false
  | .list vs => ffreeL vs
  | .dict _ vs => ffreeL vs
  | _ => true
def ffreeL : List PyVal → Bool
  | [] => true
  | v :: vs => ffree v && ffreeL vs
end

theorem ffreeL_mem : ∀ (vs : List PyVal), ffreeL vs = true → ∀ x ∈ vs, ffree x = true
  | [], _, x, hx => by simp at hx
  | v :: vs, h, x, hx => by
    simp only [ffreeL, Bool.and_eq_true] at h
    rcases List.mem_cons.mp hx with rfl | hx
    · exact h.1
    · exact ffreeL_mem vs h.2 x hx

theorem ffreeL_of_all : ∀ (vs : List PyVal), (∀ x ∈ vs, ffree x = true) → ffreeL vs = true
  | [], _ => by simp [ffreeL]
  | v :: vs, h => by
    simp [ffreeL, h v (List.mem_cons_self), ffreeL_of_all vs (fun x hx => h x (List.mem_cons_of_mem _ hx))]

mutual
theorem alt_ffree : ∀ (t : Ty), t.alt = true → ∀ (v : PyVal), conforms t v = true → ffree v = true
  | .int, _, v, hc => by cases v <;> simp [conforms] at hc <;> simp [ffree]
  | .str, _, v, hc => by cases v <;> simp [conforms] at hc; simp [ffree]
  | .enum c, _, v, hc => by cases v <;> simp [conforms] at hc; simp [ffree]
  | .cfg c, _, v, hc => by cases v <;> simp [conforms] at hc; simp [ffree]
  | .list t, ha, v, hc => by
    cases v with
    | list vs =>
      simp only [conforms, List.all_eq_true] at hc
      simp only [ffree]
      exact ffreeL_of_all vs (fun x hx => alt_ffree t (by simpa [Ty.alt] using ha) x (hc x hx))
    | _ => simp [conforms] at hc
  | .dict t, ha, v, hc => by
    cases v with
    | dict ks vs =>
      simp only [conforms, Bool.and_eq_true, List.all_eq_true] at hc
      simp only [ffree]
      exact ffreeL_of_all vs (fun x hx => alt_ffree t (by simpa [Ty.alt] using ha) x (hc.2 x hx))
    | _ => simp [conforms] at hc
  | .union ts, ha, v, hc => by
    simp only [conforms] at hc
    exact altAll_ffree ts (by simpa [Ty.alt] using ha) v hc
  | .bool, ha, _, _ => by simp [Ty.alt] at ha
  | .float, ha, _, _ => by simp [Ty.alt] at ha
  | .path, ha, _, _ => by simp [Ty.alt] at ha
  | .opt _, ha, _, _ => by simp [Ty.alt] at ha
  | .any, ha, _, _ => by simp [Ty.alt] at ha
theorem altAll_ffree : ∀ (ts : List Ty), Ty.altAll ts = true → ∀ (v : PyVal), conformsAny ts v = true → ffree v = true
  | [], _, v, hc => by simp [conformsAny] at hc
  | t :: ts, ha, v, hc => by
    simp only [Ty.altAll, Bool.and_eq_true] at ha
    simp only [conformsAny, Bool.or_eq_true] at hc
    rcases hc with hc | hc
    · exact alt_ffree t ha.1 v hc
    · exact altAll_ffree ts ha.2 v hc
end

theorem mapE_err {f : PyVal → Except Err PyVal} {e : Err} :
    ∀ (vs : List PyVal), mapE f vs = .error e → ∃ x ∈ vs, f x = .error e
  | [], h => by simp [mapE] at h
  | v :: vs, h => by
    simp only [mapE] at h
    cases hv : f v with
    | error e' => simp only [hv, Except.error.injEq] at h; subst h; exact ⟨v, List.mem_cons_self, hv⟩
    | ok w =>
      simp only [hv] at h
      cases hr : mapE f vs with
      | error e' =>
        simp only [hr, Except.error.injEq] at h; subst h
        obtain ⟨x, hx, hfx⟩ := mapE_err vs hr
        exact ⟨x, List.mem_cons_of_mem _ hx, hfx⟩
      | ok ws => simp [hr] at h

theorem mapD_err {f : PyVal → Except Err PyVal} {e : Err} :
    ∀ (ks : List Key) (vs : List PyVal), mapD f ks vs = .error e → e = .invalid ∨ ∃ x ∈ vs, f x = .error e
  | [], [], h => by simp [mapD] at h
  | [], _ :: _, h => by simp [mapD] at h; exact Or.inl h.symm
  | _ :: _, [], h => by simp [mapD] at h; exact Or.inl h.symm
  | k :: ks, v :: vs, h => by
    simp only [mapD] at h
    by_cases hk : keyOk k = true
    · simp only [hk, if_true] at h
      cases hv : f v with
      | error e' => simp only [hv, Except.error.injEq] at h; subst h; exact Or.inr ⟨v, List.mem_cons_self, hv⟩
      | ok w =>
        simp only [hv] at h
        cases hr : mapD f ks vs with
        | error e' =>
          simp only [hr, Except.error.injEq] at h; subst h
          rcases mapD_err ks vs hr with h1 | ⟨x, hx, hfx⟩
          · exact Or.inl h1
          · exact Or.inr ⟨x, List.mem_cons_of_mem _ hx, hfx⟩
        | ok ws => simp [hr] at h
    · simp [hk] at h; exact Or.inl h.symm

/-- the switch values under which a union behaves as "first alternative that accepts" -/
def Impl.unionOk (I : Impl) : Prop := I.unionDictNone = false ∧ I.enumAssert = false ∧ I.enumNameFails = false

mutual
theorem alt_err (I : Impl) (hI : I.unionOk) : ∀ (t : Ty), t.alt = true → ∀ (v : PyVal) (e : Err), ffree v = true →
    validate I t v = .error e → e = .invalid
  | .int, _, v, e, hf, h => by
    simp only [validate] at h
    cases v <;> simp [vInt, ffree] at h hf <;> exact h.symm
  | .str, _, v, e, _, h => by
    simp only [validate] at h
    cases v <;> simp [vStr] at h <;> exact h.symm
  | .enum c, _, v, e, _, h => by
    simp only [validate] at h
    cases v <;> simp only [vEnum, hI.2.1] at h
    all_goals (first | (split at h <;> simp at h <;> exact h.symm) | (simp at h; exact h.symm))
  | .cfg c, _, v, e, _, h => by
    simp only [validate] at h
    cases v <;> simp only [vCfg] at h
    all_goals (first | (split at h <;> simp at h <;> exact h.symm) | (simp at h; exact h.symm))
  | .list t, ha, v, e, hf, h => by
    cases v with
    | list vs =>
      simp only [validate] at h
      cases hm : mapE (validate I t) vs with
      | ok ws => simp [hm] at h
      | error e' =>
        simp only [hm, Except.error.injEq] at h; subst h
        obtain ⟨x, hx, hfx⟩ := mapE_err vs hm
        exact alt_err I hI t (by simpa [Ty.alt] using ha) x _ (ffreeL_mem vs (by simpa [ffree] using hf) x hx) hfx
    | _ => simp [validate] at h; exact h.symm
  | .dict t, ha, v, e, hf, h => by
    cases v with
    | dict ks vs =>
      simp only [validate] at h
      cases hm : mapD (validate I t) ks vs with
      | ok ws => simp [hm] at h
      | error e' =>
        simp only [hm, Except.error.injEq] at h; subst h
        rcases mapD_err ks vs hm with h1 | ⟨x, hx, hfx⟩
        · exact h1
        · exact alt_err I hI t (by simpa [Ty.alt] using ha) x _ (ffreeL_mem vs (by simpa [ffree] using hf) x hx) hfx
    | _ => simp [validate] at h; exact h.symm
  | .union ts, ha, v, e, hf, h => by
    simp only [validate] at h
    cases hu : validateU I ts v with
    | some r =>
      simp only [hu] at h
      subst h
      exact altAll_err I hI ts (by simpa [Ty.alt] using ha) v e hf hu
    | none =>
      simp [hu, hI.1, hI.2.2] at h
      exact h.symm
  | .bool, ha, _, _, _, _ => by simp [Ty.alt] at ha
  | .float, ha, _, _, _, _ => by simp [Ty.alt] at ha
  | .path, ha, _, _, _, _ => by simp [Ty.alt] at ha
  | .opt _, ha, _, _, _, _ => by simp [Ty.alt] at ha
  | .any, ha, _, _, _, _ => by simp [Ty.alt] at ha
theorem altAll_err (I : Impl) (hI : I.unionOk) : ∀ (ts : List Ty), Ty.altAll ts = true → ∀ (v : PyVal) (e : Err), ffree v = true →
    validateU I ts v = some (.error e) → e = .invalid
  | [], _, v, e, _, h => by simp [validateU] at h
  | t :: ts, ha, v, e, hf, h => by
    simp only [Ty.altAll, Bool.and_eq_true] at ha
    simp only [validateU] at h
    cases hv : validate I t v with
    | ok w => simp [hv] at h
    | error e' =>
      have := alt_err I hI t ha.1 v e' hf hv
      subst this
      simp only [hv] at h
      exact altAll_err I hI ts ha.2 v e hf h
end


theorem mapE_rel {f : PyVal → Except Err PyVal} :
    ∀ (vs ws : List PyVal), mapE f vs = .ok ws → (∀ x ∈ vs, ∀ y, f x = .ok y → pyEq y x = true) → pyEqL ws vs = true
  | [], ws, h, _ => by simp [mapE] at h; subst h; simp [pyEqL]
  | v :: vs, ws, h, hp => by
    simp only [mapE] at h
    cases hv : f v with
    | error e => simp [hv] at h
    | ok w =>
      simp only [hv] at h
      cases hr : mapE f vs with
      | error e => simp [hr] at h
      | ok ws' =>
        simp only [hr, Except.ok.injEq] at h
        subst h
        simp [pyEqL, hp v (List.mem_cons_self) w hv, mapE_rel vs ws' hr (fun x hx => hp x (List.mem_cons_of_mem _ hx))]

theorem mapD_rel {f : PyVal → Except Err PyVal} :
    ∀ (ks : List Key) (vs ws : List PyVal), mapD f ks vs = .ok ws → (∀ x ∈ vs, ∀ y, f x = .ok y → pyEq y x = true) → pyEqL ws vs = true
  | [], [], ws, h, _ => by simp [mapD] at h; subst h; simp [pyEqL]
  | [], _ :: _, ws, h, _ => by simp [mapD] at h
  | _ :: _, [], ws, h, _ => by simp [mapD] at h
  | k :: ks, v :: vs, ws, h, hp => by
    simp only [mapD] at h
    by_cases hk : keyOk k = true
    · simp only [hk, if_true] at h
      cases hv : f v with
      | error e => simp [hv] at h
      | ok w =>
        simp only [hv] at h
        cases hr : mapD f ks vs with
        | error e => simp [hr] at h
        | ok ws' =>
          simp only [hr, Except.ok.injEq] at h
          subst h
          simp [pyEqL, hp v (List.mem_cons_self) w hv, mapD_rel ks vs ws' hr (fun x hx => hp x (List.mem_cons_of_mem _ hx))]
    · simp [hk] at h

theorem vInt_eq {v w : PyVal} (h : vInt v = .ok w) : pyEq w v = true := by
  cases v with
  | float f =>
    cases f with
    | fin n m e =>
      simp only [vInt] at h
      split at h
      · rename_i i hi
        simp at h; subst h
        simp [pyEq, numOf, Num.eq, hi]
      · simp at h
    | inf n => simp [vInt] at h
    | nan => simp [vInt] at h
  | int i => simp [vInt] at h; subst h; exact pyEq_refl _
  | bool b => simp [vInt] at h; subst h; exact pyEq_refl _
  | _ => simp [vInt] at h

mutual
theorem alt_eq (I : Impl) (hI : I.unionOk) : ∀ (t : Ty), t.alt = true → ∀ (v w : PyVal), validate I t v = .ok w → pyEq w v = true
  | .int, _, v, w, h => by simp only [validate] at h; exact vInt_eq h
  | .str, _, v, w, h => by
    simp only [validate] at h
    cases v <;> simp [vStr] at h
    subst h; exact pyEq_refl _
  | .enum c, _, v, w, h => by
    simp only [validate] at h
    cases v <;> simp only [vEnum] at h
    all_goals (first | (split at h <;> simp at h; subst h; exact pyEq_refl _) | (simp at h))
  | .cfg c, _, v, w, h => by
    simp only [validate] at h
    cases v <;> simp only [vCfg] at h
    all_goals (first | (split at h <;> simp at h; subst h; exact pyEq_refl _) | (simp at h))
  | .list t, ha, v, w, h => by
    cases v with
    | list vs =>
      simp only [validate] at h
      cases hm : mapE (validate I t) vs with
      | error e => simp [hm] at h
      | ok ws =>
        simp only [hm, Except.ok.injEq] at h
        subst h
        simp only [pyEq]
        exact mapE_rel vs ws hm (fun x _ y hy => alt_eq I hI t (by simpa [Ty.alt] using ha) x y hy)
    | _ => simp [validate] at h
  | .dict t, ha, v, w, h => by
    cases v with
    | dict ks vs =>
      simp only [validate] at h
      cases hm : mapD (validate I t) ks vs with
      | error e => simp [hm] at h
      | ok ws =>
        simp only [hm, Except.ok.injEq] at h
        subst h
        simp only [pyEq, Bool.and_eq_true, beq_self_eq_true, true_and]
        exact mapD_rel ks vs ws hm (fun x _ y hy => alt_eq I hI t (by simpa [Ty.alt] using ha) x y hy)
    | _ => simp [validate] at h
  | .union ts, ha, v, w, h => by
    simp only [validate] at h
    cases hu : validateU I ts v with
    | some r =>
      simp only [hu] at h
      subst h
      exact altAll_eq I hI ts (by simpa [Ty.alt] using ha) v w hu
    | none => simp [hu, hI.1] at h
  | .bool, ha, _, _, _ => by simp [Ty.alt] at ha
  | .float, ha, _, _, _ => by simp [Ty.alt] at ha
  | .path, ha, _, _, _ => by simp [Ty.alt] at ha
  | .opt _, ha, _, _, _ => by simp [Ty.alt] at ha
  | .any, ha, _, _, _ => by simp [Ty.alt] at ha
theorem altAll_eq (I : Impl) (hI : I.unionOk) : ∀ (ts : List Ty), Ty.altAll ts = true → ∀ (v w : PyVal),
    validateU I ts v = some (.ok w) → pyEq w v = true
  | [], _, v, w, h => by simp [validateU] at h
  | t :: ts, ha, v, w, h => by
    simp only [Ty.altAll, Bool.and_eq_true] at ha
    simp only [validateU] at h
    cases hv : validate I t v with
    | ok w' =>
      simp only [hv, Option.some.injEq, Except.ok.injEq] at h
      subst h
      exact alt_eq I hI t ha.1 v w' hv
    | error e =>
      cases e with
      | invalid => simp only [hv] at h; exact altAll_eq I hI ts ha.2 v w h
      | _ => simp [hv] at h
end

mutual
theorem alt_unionDom : ∀ (t : Ty), t.alt = true → t.unionDom = true
  | .list t, h => by simpa [Ty.unionDom] using alt_unionDom t (by simpa [Ty.alt] using h)
  | .dict t, h => by simpa [Ty.unionDom] using alt_unionDom t (by simpa [Ty.alt] using h)
  | .union ts, h => by simpa [Ty.unionDom, Ty.alt] using h
  | .int, _ => rfl
  | .str, _ => rfl
  | .enum _, _ => rfl
  | .cfg _, _ => rfl
  | .bool, _ => rfl
  | .float, _ => rfl
  | .path, _ => rfl
  | .any, _ => rfl
  | .opt _, h => by simp [Ty.alt] at h
end

theorem mapE_ex {f : PyVal → Except Err PyVal} :
    ∀ (vs : List PyVal), (∀ x ∈ vs, ∃ y, f x = .ok y ∧ pyEq y x = true) → ∃ ws, mapE f vs = .ok ws ∧ pyEqL ws vs = true
  | [], _ => ⟨[], by simp [mapE], by simp [pyEqL]⟩
  | v :: vs, h => by
    obtain ⟨y, hy, he⟩ := h v (List.mem_cons_self)
    obtain ⟨ws, hws, hes⟩ := mapE_ex vs (fun x hx => h x (List.mem_cons_of_mem _ hx))
    exact ⟨y :: ws, by simp [mapE, hy, hws], by simp [pyEqL, he, hes]⟩

theorem mapD_ex {f : PyVal → Except Err PyVal} :
    ∀ (ks : List Key) (vs : List PyVal), ks.length = vs.length → ks.all keyOk = true →
      (∀ x ∈ vs, ∃ y, f x = .ok y ∧ pyEq y x = true) → ∃ ws, mapD f ks vs = .ok ws ∧ pyEqL ws vs = true
  | [], [], _, _, _ => ⟨[], by simp [mapD], by simp [pyEqL]⟩
  | [], _ :: _, hl, _, _ => by simp at hl
  | _ :: _, [], hl, _, _ => by simp at hl
  | k :: ks, v :: vs, hl, hk, h => by
    simp only [List.all_cons, Bool.and_eq_true] at hk
    simp only [List.length_cons, Nat.add_right_cancel_iff] at hl
    obtain ⟨y, hy, he⟩ := h v (List.mem_cons_self)
    obtain ⟨ws, hws, hes⟩ := mapD_ex ks vs hl hk.2 (fun x hx => h x (List.mem_cons_of_mem _ hx))
    exact ⟨y :: ws, by simp [mapD, hk.1, hy, hws], by simp [pyEqL, he, hes]⟩

mutual
theorem conf_union (I : Impl) (hI : I.unionOk) : ∀ (t : Ty), t.unionDom = true → ∀ (v : PyVal), conforms t v = true →
    ∃ w, validate I t v = .ok w ∧ pyEq w v = true
  | .bool, _, v, hc => ⟨v, validate_id_aux I .bool rfl v hc, pyEq_refl v⟩
  | .int, _, v, hc => ⟨v, validate_id_aux I .int rfl v hc, pyEq_refl v⟩
  | .float, _, v, hc => ⟨v, validate_id_aux I .float rfl v hc, pyEq_refl v⟩
  | .str, _, v, hc => ⟨v, validate_id_aux I .str rfl v hc, pyEq_refl v⟩
  | .path, _, v, hc => ⟨v, validate_id_aux I .path rfl v hc, pyEq_refl v⟩
  | .enum c, _, v, hc => ⟨v, validate_id_aux I (.enum c) rfl v hc, pyEq_refl v⟩
  | .cfg c, _, v, hc => ⟨v, validate_id_aux I (.cfg c) rfl v hc, pyEq_refl v⟩
  | .any, _, v, hc => ⟨v, validate_id_aux I .any rfl v hc, pyEq_refl v⟩
  | .opt t, hd, v, hc => by
    rw [conforms_opt] at hc
    cases v with
    | none => exact ⟨.none, by simp [validate], pyEq_refl _⟩
    | _ =>
      simp only [validate]
      exact conf_union I hI t (by simpa [Ty.unionDom] using hd) _ (by simpa using hc)
  | .list t, hd, v, hc => by
    cases v with
    | list vs =>
      simp only [conforms, List.all_eq_true] at hc
      obtain ⟨ws, hws, hes⟩ := mapE_ex (f := validate I t) vs
        (fun x hx => conf_union I hI t (by simpa [Ty.unionDom] using hd) x (hc x hx))
      exact ⟨.list ws, by simp [validate, hws], by simp [pyEq, hes]⟩
    | _ => simp [conforms] at hc
  | .dict t, hd, v, hc => by
    cases v with
    | dict ks vs =>
      simp only [conforms, Bool.and_eq_true, beq_iff_eq, List.all_eq_true] at hc
      obtain ⟨ws, hws, hes⟩ := mapD_ex (f := validate I t) ks vs hc.1.1 (by simpa [List.all_eq_true] using hc.1.2)
        (fun x hx => conf_union I hI t (by simpa [Ty.unionDom] using hd) x (hc.2 x hx))
      exact ⟨.dict ks ws, by simp [validate, hws], by simp [pyEq, hes]⟩
    | _ => simp [conforms] at hc
  | .union ts, hd, v, hc => by
    simp only [conforms] at hc
    obtain ⟨w, hw, he⟩ := conf_unionU I hI ts (by simpa [Ty.unionDom] using hd) v hc
    exact ⟨w, by simp [validate, hw], he⟩
theorem conf_unionU (I : Impl) (hI : I.unionOk) : ∀ (ts : List Ty), Ty.altAll ts = true → ∀ (v : PyVal), conformsAny ts v = true →
    ∃ w, validateU I ts v = some (.ok w) ∧ pyEq w v = true
  | [], _, v, hc => by simp [conformsAny] at hc
  | t :: ts, ha, v, hc => by
    have hff := altAll_ffree (t :: ts) ha v hc
    simp only [Ty.altAll, Bool.and_eq_true] at ha
    simp only [conformsAny, Bool.or_eq_true] at hc
    simp only [validateU]
    cases hv : validate I t v with
    | ok w => exact ⟨w, rfl, alt_eq I hI t ha.1 v w hv⟩
    | error e =>
      have := alt_err I hI t ha.1 v e hff hv
      subst this
      simp only
      rcases hc with hc | hc
      · obtain ⟨w, hw, _⟩ := conf_union I hI t (alt_unionDom t ha.1) v hc
        rw [hv] at hw
        exact absurd hw (by simp)
      · exact conf_unionU I hI ts ha.2 v hc
end

/-! ### the walk on configuration graphs -/

theorem hasFail_append (a b : List Item) : hasFail (a ++ b) = (hasFail a || hasFail b) := by
  simp [hasFail]

theorem hasFail_map_visit (l : List Nat) : hasFail (l.map Item.visit) = false := by
  induction l with
  | nil => rfl
  | cons x l ih => simpa using ih

theorem hasFail_argItems (d d' : Bool) (a : ArgDecl) (v : Option PyVal) :
    hasFail (argItems d a v) = hasFail (argItems d' a v) := by
  cases v with
  | none => simp [argItems]
  | some v => cases v <;> simp [argItems, hasFail_map_visit]

theorem hasFail_argsItems (d d' : Bool) : ∀ (as : List ArgDecl) (vs : List (Option PyVal)),
    hasFail (argsItems d as vs) = hasFail (argsItems d' as vs)
  | [], _ => by simp [argsItems]
  | a :: as, [] => by
    simp only [argsItems, hasFail_append]
    rw [hasFail_argItems d d', hasFail_argsItems d d' as []]
  | a :: as, v :: vs => by
    simp only [argsItems, hasFail_append]
    rw [hasFail_argItems d d', hasFail_argsItems d d' as vs]

theorem hasFail_nodeItems (d d' : Bool) (g : Graph) (n : Nat) :
    hasFail (nodeItems d g n) = hasFail (nodeItems d' g n) := by
  unfold nodeItems
  cases g.nodes[n]? with
  | none => rfl
  | some nd => simp only [hasFail_append]; rw [hasFail_argsItems d d']

theorem nodeMissing_eq (I : Impl) (g : Graph) (n : Nat) : nodeMissing g n = hasFail (nodeItems I.deepValidate g n) :=
  hasFail_nodeItems _ _ g n

theorem succs_deep (I : Impl) (h : I.deepValidate = true) (g : Graph) : succs I g = allSuccs g := by
  funext n; simp [succs, allSuccs, h]

/-! ### `ConfigInformation.set` -/

theorem setArg_cases {I : Impl} {a : ArgDecl} {v w : PyVal} (h : setArg I a v = .ok w) :
    (v = .none ∧ w = .none ∧ a.required = false) ∨ (v ≠ .none ∧ validate I a.ty.stripOpt v = .ok w) := by
  unfold setArg at h
  by_cases hg : (a.generator || a.constant) = true
  · simp [hg] at h
  · simp only [hg] at h
    cases v with
    | none =>
      left
      by_cases hr : a.required = true
      · simp [hr] at h
      · simp [hr] at h; exact ⟨rfl, h.symm, by simpa using hr⟩
    | _ => right; exact ⟨by simp, h⟩

theorem conforms_of_stripOpt {t : Ty} {w : PyVal} (h : conforms t.stripOpt w = true) : conforms t w = true := by
  cases t with
  | opt t => simp only [Ty.stripOpt] at h; rw [conforms_opt]; simp [h]
  | _ => simpa [Ty.stripOpt] using h

theorem unionFree_stripOpt {t : Ty} (h : t.unionFree = true) : t.stripOpt.unionFree = true := by
  cases t <;> simp_all [Ty.stripOpt, Ty.unionFree]

theorem cfgFree_stripOpt {t : Ty} (h : t.cfgFree = true) : t.stripOpt.cfgFree = true := by
  cases t <;> simp_all [Ty.stripOpt, Ty.cfgFree]

theorem set_sound_aux (I : Impl) (a : ArgDecl) (v w : PyVal)
    (hU : I.unionDictNone = false ∨ a.ty.unionFree = true) (hC : I.cfgNoneOk = false ∨ a.ty.cfgFree = true)
    (h : setArg I a v = .ok w) : conforms a.ty w = true ∨ (w = .none ∧ a.required = false) := by
  rcases setArg_cases h with ⟨_, hw, hr⟩ | ⟨_, hv⟩
  · exact Or.inr ⟨hw, hr⟩
  · exact Or.inl (conforms_of_stripOpt
      (validate_sound_aux I a.ty.stripOpt (hU.imp_right unionFree_stripOpt) (hC.imp_right cfgFree_stripOpt) v w hv))

theorem vCfg_conf_of_ne_none {I : Impl} {c : Nat} {v w : PyVal} (hv : v ≠ .none) (h : vCfg I c v = .ok w) :
    conforms (.cfg c) w = true := by
  unfold vCfg at h
  split at h
  · exact absurd rfl hv
  · split at h
    · simp at h; subst h; simp [conforms, *]
    · simp at h
  · simp at h

theorem set_sound_top_cfg (I : Impl) (a : ArgDecl) (c : Nat) (hc : a.ty.stripOpt = .cfg c) (v w : PyVal)
    (h : setArg I a v = .ok w) : conforms a.ty w = true ∨ (w = .none ∧ a.required = false) := by
  rcases setArg_cases h with ⟨_, hw, hr⟩ | ⟨hne, hv⟩
  · exact Or.inr ⟨hw, hr⟩
  · rw [hc] at hv
    simp only [validate] at hv
    exact Or.inl (conforms_of_stripOpt (by rw [hc]; exact vCfg_conf_of_ne_none hne hv))

theorem set_id_aux (I : Impl) (a : ArgDecl) (hw : a.generator = false ∧ a.constant = false)
    (hU : a.ty.unionFree = true) (v : PyVal) (hc : conforms a.ty v = true) (hn : v = .none → a.required = false) :
    setArg I a v = .ok v := by
  unfold setArg
  simp only [hw.1, hw.2, Bool.or_self, Bool.false_eq_true, if_false]
  have key : v ≠ .none → validate I a.ty.stripOpt v = .ok v := by
    intro hne
    apply validate_id_aux I _ (unionFree_stripOpt hU)
    cases hty : a.ty with
    | opt t =>
      rw [hty, conforms_opt] at hc
      cases v <;> simp_all [Ty.stripOpt]
    | _ => rw [hty] at hc; simpa [Ty.stripOpt] using hc
  cases v with
  | none => simp [hn rfl]
  | _ => exact key (by simp)

/-! ### `validateFrom` / `validateGraph` -/

theorem validateFrom_fst (I : Impl) (g : Graph) (vis : List Nat) (root : Nat) :
    (validateFrom I g vis root).1 = (walkNode (nodeItems I.deepValidate g) (g.nodes.length + 1) vis root).1 := by
  unfold validateFrom
  simp only
  split <;> rfl

theorem validateFrom_ok {I : Impl} {g : Graph} {vis : List Nat} {root : Nat} (h : (validateFrom I g vis root).1 = .ok) :
    walkNode (nodeItems I.deepValidate g) (g.nodes.length + 1) vis root = (.ok, (validateFrom I g vis root).2) := by
  have h1 := validateFrom_fst I g vis root
  rw [h] at h1
  unfold validateFrom
  simp only
  rw [← h1]
  simp only [bne_self_eq_false, Bool.and_false, Bool.false_eq_true, if_false]
  generalize walkNode (nodeItems I.deepValidate g) (g.nodes.length + 1) vis root = r at h1
  obtain ⟨o, v⟩ := r
  simp only at h1
  rw [← h1]

theorem validateFrom_reset {I : Impl} {g : Graph} {vis : List Nat} {root : Nat} (hI : I.resetOnFail = true)
    (h : (validateFrom I g vis root).1 ≠ .ok) : (validateFrom I g vis root).2 = vis := by
  have h1 := validateFrom_fst I g vis root
  unfold validateFrom at h ⊢
  simp only at h ⊢
  split
  · rfl
  · rename_i hc
    simp only [hI, Bool.true_and, bne_iff_ne, ne_eq, Decidable.not_not] at hc
    rw [if_neg (by simp [hI, hc])] at h
    exact absurd hc h

theorem validateFrom_ok_spec (I : Impl) (g : Graph) (vis : List Nat) (hinv : FlagsOk I g vis) (root : Nat)
    (h : (validateFrom I g vis root).1 = .ok) :
    (∀ n, Reach (succs I g) root n → nodeMissing g n = false) ∧ FlagsOk I g (validateFrom I g vis root).2 := by
  have hw := validateFrom_ok h
  generalize (validateFrom I g vis root).2 = vis' at hw
  obtain ⟨hroot, hsub, hcl⟩ := walkNode_ok (nodeItems I.deepValidate g) _ vis root vis' hw
  have key : FlagsOk I g vis' := by
    intro m hm
    rcases hcl m hm with h0 | ⟨hf, hk⟩
    · exact ⟨(hinv m h0).1, fun k hk => hsub ((hinv m h0).2 k hk)⟩
    · exact ⟨by rw [nodeMissing_eq I]; exact hf, hk⟩
  refine ⟨?_, key⟩
  intro n hr
  have : n ∈ vis' := by
    induction hr with
    | refl => exact hroot
    | step _ hc ih => exact (key _ ih).2 _ hc
  exact (key n this).1

theorem flagsOk_nil (I : Impl) (g : Graph) : FlagsOk I g [] := by intro m hm; simp at hm

theorem finds_missing_aux (I : Impl) (g : Graph) (root n : Nat)
    (hr : Reach (succs I g) root n) (hm : nodeMissing g n = true) : validateGraph I g root ≠ .ok := by
  intro hok
  have := (validateFrom_ok_spec I g [] (flagsOk_nil I g) root hok).1 n hr
  rw [hm] at this
  exact absurd this (by simp)

theorem accepts_complete_aux (I : Impl) (g : Graph) (root : Nat)
    (hwf : ∀ n, n < g.nodes.length → ∀ m ∈ succs I g n, m < g.nodes.length) (hroot : root < g.nodes.length)
    (hc : ∀ n, Reach (succs I g) root n → nodeMissing g n = false) : validateGraph I g root = .ok := by
  unfold validateGraph
  rw [validateFrom_fst]
  generalize hres : walkNode (nodeItems I.deepValidate g) (g.nodes.length + 1) [] root = res
  obtain ⟨o, vis'⟩ := res
  cases o with
  | ok => rfl
  | missing =>
    obtain ⟨k, hk, hf⟩ := walkNode_missing (nodeItems I.deepValidate g) _ [] root vis' hres
    have := hc k hk
    rw [nodeMissing_eq I, hf] at this
    exact absurd this (by simp)
  | fuel =>
    have := (walkNode_fuel (nodeItems I.deepValidate g) g.nodes.length hwf (g.nodes.length + 1) [] root hroot
      (by have := unv_le g.nodes.length []; omega)).1
    rw [hres] at this
    exact absurd rfl this

/-! ### which values the scalar types accept -/

theorem vInt_exact {v w : PyVal} (h : vInt v = .ok w) :
    (w = v ∧ conforms .int v = true) ∨ (∃ f i, v = .float f ∧ f.toInt? = some i ∧ w = .int i) := by
  cases v with
  | float f =>
    cases f with
    | fin n m e =>
      simp only [vInt] at h
      split at h
      · rename_i i hi
        simp at h; subst h
        exact Or.inr ⟨_, i, rfl, hi, rfl⟩
      · simp at h
    | inf n => simp [vInt] at h
    | nan => simp [vInt] at h
  | int i => simp [vInt] at h; subst h; exact Or.inl ⟨rfl, rfl⟩
  | bool b => simp [vInt] at h; subst h; exact Or.inl ⟨rfl, rfl⟩
  | _ => simp [vInt] at h

theorem vFloat_exact {v w : PyVal} (h : vFloat v = .ok w) :
    (w = v ∧ conforms .float v = true) ∨ (∃ i f, v = .int i ∧ Fl.ofInt? i = some f ∧ w = .float f) ∨
    (∃ b, v = .bool b ∧ w = .float (.fin false (if b then 1 else 0) 0)) := by
  cases v with
  | float f => simp [vFloat] at h; subst h; exact Or.inl ⟨rfl, rfl⟩
  | int i =>
    simp only [vFloat] at h
    split at h
    · rename_i f hf
      simp at h; subst h
      exact Or.inr (Or.inl ⟨i, f, rfl, hf, rfl⟩)
    · simp at h
  | bool b => simp [vFloat] at h; subst h; exact Or.inr (Or.inr ⟨b, rfl, rfl⟩)
  | _ => simp [vFloat] at h

theorem vStr_exact {v w : PyVal} (h : vStr v = .ok w) : w = v ∧ conforms .str v = true := by
  cases v <;> simp [vStr] at h
  subst h; exact ⟨rfl, rfl⟩

theorem vPath_exact {v w : PyVal} (h : vPath v = .ok w) :
    (w = v ∧ conforms .path v = true) ∨ (∃ s, v = .str s ∧ w = .path (pnorm s)) ∨
    (∃ ks vs, v = .dict ks vs ∧ isPathTag (lookup "$type" ks vs) = true ∧ pathOf (lookup "$value" ks vs) = .ok w) := by
  cases v with
  | dict ks vs =>
    simp only [vPath] at h
    split at h
    · rename_i ht
      exact Or.inr (Or.inr ⟨ks, vs, rfl, ht, h⟩)
    · simp at h
  | str s => simp [vPath] at h; subst h; exact Or.inr (Or.inl ⟨s, rfl, rfl⟩)
  | path s => simp [vPath] at h; subst h; exact Or.inl ⟨rfl, rfl⟩
  | _ => simp [vPath] at h

/-! ### histories -/

theorem nodeItems_setVal_ne (d : Bool) (g : Graph) (n k : Nat) (v : PyVal) (m : Nat) (h : m ≠ n) :
    nodeItems d (g.setVal n k v) m = nodeItems d g m := by
  unfold Graph.setVal
  cases hn : g.nodes[n]? with
  | none => rfl
  | some nd =>
    simp only [nodeItems, Graph.args]
    rw [List.getElem?_set_ne (Ne.symm h)]

theorem flagsOk_setVal (I : Impl) (g : Graph) (vis : List Nat) (h : FlagsOk I g vis) (n k : Nat) (v : PyVal)
    (hn : n ∉ vis) : FlagsOk I (g.setVal n k v) vis := by
  intro m hm
  have hne : m ≠ n := fun e => hn (e ▸ hm)
  have h1 := h m hm
  unfold nodeMissing succs at *
  rw [nodeItems_setVal_ne _ g n k v m hne, nodeItems_setVal_ne _ g n k v m hne]
  exact h1

theorem hstep_assign_cases (I : Impl) (s : HState) (n k : Nat) (v : PyVal) :
    ((hstep I s (.assign n k v)).2 = s) ∨
    (∃ w, (hstep I s (.assign n k v)).1 = .stored ∧ (hstep I s (.assign n k v)).2 = { s with g := s.g.setVal n k w }) := by
  simp only [hstep]
  split
  · exact Or.inl rfl
  · split
    · exact Or.inl rfl
    · split
      · exact Or.inl rfl
      · split
        · exact Or.inl rfl
        · exact Or.inl rfl
        · split
          · exact Or.inl rfl
          · exact Or.inr ⟨_, rfl, rfl⟩

theorem hstep_assign_not_accepted (I : Impl) (s : HState) (n k : Nat) (v : PyVal) :
    (hstep I s (.assign n k v)).1 ≠ .accepted := by
  simp only [hstep]
  repeat' split
  all_goals simp

/-- one operation of a history -/
theorem hstep_sound (I : Impl) (s : HState) (op : HOp) (hinv : FlagsOk I s.g s.flags)
    (hadm : ∀ n k v, op = .assign n k v → n ∉ s.flags) :
    (I.resetOnFail = true → FlagsOk I (hstep I s op).2.g (hstep I s op).2.flags) ∧
    (∀ n, op = .submit n → (hstep I s op).1 = .accepted →
        ∀ m, Reach (succs I s.g) n m → nodeMissing s.g m = false) ∧
    ((hstep I s op).1 ≠ .accepted → (hstep I s op).2.registry = s.registry) ∧
    (∀ n, op = .submit n → (hstep I s op).1 = .accepted → (hstep I s op).2.registry = n :: s.registry) := by
  cases op with
  | assign n k v =>
    refine ⟨?_, ?_, ?_, ?_⟩
    · intro _
      rcases hstep_assign_cases I s n k v with h | ⟨w, _, h⟩
      · rw [h]; exact hinv
      · rw [h]; exact flagsOk_setVal I s.g s.flags hinv n k w (hadm n k v rfl)
    · intro n' h; cases h
    · intro _
      rcases hstep_assign_cases I s n k v with h | ⟨w, _, h⟩ <;> rw [h]
    · intro n' h; cases h
  | submit n =>
    have triv : ∀ (o : HOut), o ≠ .accepted →
        (I.resetOnFail = true → FlagsOk I ((o, s) : HOut × HState).2.g ((o, s) : HOut × HState).2.flags) ∧
        (∀ n', HOp.submit n = .submit n' → ((o, s) : HOut × HState).1 = .accepted →
            ∀ m, Reach (succs I s.g) n' m → nodeMissing s.g m = false) ∧
        (((o, s) : HOut × HState).1 ≠ .accepted → ((o, s) : HOut × HState).2.registry = s.registry) ∧
        (∀ n', HOp.submit n = .submit n' → ((o, s) : HOut × HState).1 = .accepted →
            ((o, s) : HOut × HState).2.registry = n' :: s.registry) := by
      intro o ho
      exact ⟨fun _ => hinv, fun _ _ h => absurd h ho, fun _ => rfl, fun _ _ h => absurd h ho⟩
    simp only [hstep]
    by_cases hj : n ∈ s.jobAttr
    · rw [if_pos hj]; exact triv _ (by simp)
    · rw [if_neg hj]
      cases hnd : s.g.nodes[n]? with
      | none => exact triv _ (by simp)
      | some nd =>
        simp only
        by_cases ht : (!s.g.tasks.contains nd.cls) = true
        · rw [if_pos ht]; exact triv _ (by simp)
        · rw [if_neg ht]
          by_cases hok : (validateFrom I s.g s.flags n).1 = .ok
          · rw [if_pos hok]
            have hs := validateFrom_ok_spec I s.g s.flags hinv n hok
            refine ⟨fun _ => hs.2, ?_, ?_, ?_⟩
            · intro n' hn' _ m hr
              cases hn'
              exact hs.1 m hr
            · intro h; exact absurd rfl h
            · intro n' hn' _
              cases hn'
              rfl
          · rw [if_neg hok]
            refine ⟨?_, ?_, ?_, ?_⟩
            · intro hI
              show FlagsOk I s.g (validateFrom I s.g s.flags n).2
              rw [validateFrom_reset hI hok]
              exact hinv
            · intro _ _ h; simp at h
            · intro _; rfl
            · intro _ _ h; simp at h

/-- all operations of a history -/
theorem hrun_sound (I : Impl) (hI : I.resetOnFail = true) : ∀ (ops : List HOp) (s : HState),
    FlagsOk I s.g s.flags → Admissible I s ops →
    ∀ t ∈ hrun I s ops,
      (∀ n, t.2.1 = .submit n → t.2.2 = .accepted → ∀ m, Reach (succs I t.1.g) n m → nodeMissing t.1.g m = false) ∧
      (t.2.2 ≠ .accepted → (hstep I t.1 t.2.1).2.registry = t.1.registry) ∧
      (∀ n, t.2.1 = .submit n → t.2.2 = .accepted → (hstep I t.1 t.2.1).2.registry = n :: t.1.registry)
  | [], _, _, _, t, ht => by simp [hrun] at ht
  | op :: ops, s, hinv, hadm, t, ht => by
    simp only [hrun, List.mem_cons] at ht
    have hs := hstep_sound I s op hinv hadm.1
    rcases ht with rfl | ht
    · exact ⟨hs.2.1, hs.2.2.1, hs.2.2.2⟩
    · exact hrun_sound I hI ops (hstep I s op).2 (hs.1 hI) hadm.2 t ht

end XpmVerif.Validate
