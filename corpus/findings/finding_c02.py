"""C02: what the documentation excludes from the signature must not change an identifier -- also inside a value that is
(otherwise) the configuration-valued default of a parameter.  exit 1 = violated"""
import sys
sys._called_from_test = True
from pathlib import Path
from typing import List
from experimaestro import Config, Param, Meta, setmeta, deprecate

class Opt(Config):
    __xpmid__ = "f2.opt"
    lr: Param[float]
    verbose: Meta[bool] = False
    log: Meta[Path] = Path("log.txt")
    hooks: Param[List["Opt"]] = []

class Learner(Config):
    __xpmid__ = "f2.learner"
    opt: Param[Opt] = Opt(lr=1e-3)

class LearnerReq(Config):           # control: same parameter without default
    __xpmid__ = "f2.learnerreq"
    opt: Param[Opt]

@deprecate
class OldOpt(Opt):
    __xpmid__ = "f2.oldopt"

def ident(c): return c.__xpm__.identifier.all.hex()[:12]
bad = []
def same(what, a, b):
    ok = ident(a) == ident(b)
    print(f"[{'ok  ' if ok else 'FAIL'}] {what}: {ident(a)} {ident(b)}")
    if not ok: bad.append(what)

m = Opt(lr=7.0); setmeta(m, True)
same("control (no default): Meta value inside the sub-configuration", LearnerReq(opt=Opt(lr=1e-3)), LearnerReq(opt=Opt(lr=1e-3, verbose=True)))
same("Meta value inside a value equal to the default", Learner(), Learner(opt=Opt(lr=1e-3, verbose=True)))
same("Path (Meta) value inside a value equal to the default", Learner(), Learner(opt=Opt(lr=1e-3, log=Path("/tmp/other"))))
same("meta-flagged list member inside a value equal to the default", Learner(), Learner(opt=Opt(lr=1e-3, hooks=[m])))
same("C20: instance of a deprecated class equal to the default of its replacement", Learner(opt=Opt(lr=1e-3)), Learner(opt=OldOpt(lr=1e-3)))
if ident(Learner()) == ident(Learner(opt=Opt(lr=1e-2))):
    print("[FAIL] sanity: another learning rate must change the identifier"); bad.append("sanity")
print("C02 VIOLATED" if bad else "C02 holds on these inputs")
sys.exit(1 if bad else 0)
