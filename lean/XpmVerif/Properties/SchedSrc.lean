import XpmVerif.Generated.Enums
/-! Source obligations on the state enumerations of the scheduler (`JobState`, `DependencyStatus`), regenerated from
    `scheduler/base.py` / `scheduler/dependencies.py` on every run (`Generated/Enums.lean`, translator
    `harness/xv/translate/enums.py`).  The scheduler model (`Model/Sched.lean`) uses `JS.finished` wherever the code calls
    `state.finished()` (`Job.dependencychanged`, the `while not job.state.finished()` loop of `aio_submit`) and distinguishes
    states and dependency statuses only by identity: these theorems tie those uses to what the source says now.
    Property theorems only; all by kernel evaluation on the generated constants. -/
namespace XpmVerif.SchedSrc
open XpmVerif.Sched

/-- **`state.finished()` means what the model's `JS.finished` means**, for every state of the model. -/
theorem jobstate_finished_matches_model : ∀ s : JS, Gen.jsFinished (Gen.jsValue s) = s.finished := by
  intro s; cases s <;> decide

/-- the three predicates partition the members of `JobState`: every member is exactly one of not started / running /
    finished (so a job that is not finished and not running has not been started — what `jobs clean` and the waiting loops
    rely on). -/
theorem jobstate_predicates_partition :
    ∀ kv ∈ Gen.jobStateValues,
      (Gen.jsNotstarted kv.2 && !Gen.jsRunning kv.2 && !Gen.jsFinished kv.2)
      || (!Gen.jsNotstarted kv.2 && Gen.jsRunning kv.2 && !Gen.jsFinished kv.2)
      || (!Gen.jsNotstarted kv.2 && !Gen.jsRunning kv.2 && Gen.jsFinished kv.2) = true := by decide

/-- which model states are not started / running: WAITING and READY have not started, RUNNING runs. -/
theorem jobstate_model_states_classified :
    Gen.jsNotstarted (Gen.jsValue .unscheduled) = true ∧ Gen.jsNotstarted (Gen.jsValue .waiting) = true
    ∧ Gen.jsNotstarted (Gen.jsValue .ready) = true ∧ Gen.jsRunning (Gen.jsValue .running) = true
    ∧ Gen.jsFinished (Gen.jsValue .done) = true ∧ Gen.jsFinished (Gen.jsValue .error) = true := by decide

/-- members are distinguishable: distinct states of the model stand for members with distinct values, and every member of
    the two enumerations has its own value (states compared with `==` / `is` in the code are compared by identity in the model). -/
theorem enum_values_distinct :
    (∀ a b : JS, Gen.jsValue a = Gen.jsValue b → a = b) ∧ (∀ a b : DS, Gen.dsValue a = Gen.dsValue b → a = b)
    ∧ (Gen.jobStateValues.map Prod.snd).Nodup ∧ (Gen.depStatusValues.map Prod.snd).Nodup := by
  refine ⟨?_, ?_, by decide, by decide⟩
  · intro a b; cases a <;> cases b <;> decide
  · intro a b; cases a <;> cases b <;> decide

/-- non-vacuity: the tables are the ones of the source (six model states among the members, three statuses). -/
example : Gen.jobStateValues.length ≥ 6 ∧ Gen.depStatusValues.length = 3 := by decide

end XpmVerif.SchedSrc
