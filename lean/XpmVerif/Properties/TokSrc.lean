import XpmVerif.Proofs.FileTokSrc
import XpmVerif.Properties.C09Files
import XpmVerif.Properties.C08Files
/-! Source obligations of the file-token model M2' (C08/C09 file part): the decision points of `tokens.py` the model is
    parameterised with or assumes, as read off the source by `harness/xv/translate/tokflags.py`
    (`Generated/TokFlags.lean`, rewritten on every run), and the theorems of `C08Files`/`C09Files` instantiated with them. -/
namespace XpmVerif.TokSrc
open XpmVerif.FileTokens

/-- source obligation: the watcher callbacks tolerate a half-written token file, `release` notifies on every path, and
    `acquire` / `release` recount before they look at the counter or the cache (what `acquireBegin` / `release` of the model
    start with). -/
theorem token_flags : Gen.tokFlags = { tolerant := true, notifyMissing := true, acquireRecounts := true, releaseRecounts := true } := by
  decide

/-- C09 for the source as translated: no step other than the death of the process stops an observer … -/
theorem source_observer_survives (total : Nat) (req : Name → Nat) (s : St) (e : Ev) (p : Proc)
    (ha : (s.procs p).alive = true) (he : e ≠ .drop p) : ((apply (srcCfg total req) s e).1.procs p).alive = true :=
  C09Files.observer_survives (srcCfg total req) s e p (by simp [srcCfg, token_flags]) ha he

/-- … and every release notifies the waiting dependencies of its process. -/
theorem source_release_always_notifies (total : Nat) (req : Name → Nat) (s : St) (p : Proc) (f : Name) :
    (apply (srcCfg total req) s (.release p f)).2.notify = true :=
  C09Files.release_always_notifies (srcCfg total req) s p f (by simp [srcCfg, token_flags])

example : srcCfg 1 (fun _ => 1) = cfgFixed := by simp [srcCfg, token_flags, cfgFixed]

end XpmVerif.TokSrc
