import XpmVerif.Model.Filter
/-! Helper lemmas for C19, filter part: the object chain built by `LogicExpr.summary` evaluates to
    the left fold of the documented operators. -/
namespace XpmVerif.Filter

theorem Atom.impl_none (rx : Rx) (i : Info) (a : Atom) : a.impl Quirks.none rx i = a.spec rx i := by
  cases a <;> simp [Atom.impl, Atom.spec, Quirks.none]

/-- one `LogicExpr` node: `y` is evaluated first, the value is `x op y`. -/
theorem Obj.filter_logic (q : Quirks) (rx : Rx) (i : Info) (op : Op) (y : Atom) (x : Obj) :
    (Obj.logic op y x).filter q rx i = op.apply (x.filter q rx i) (y.impl q rx i) := by
  cases op <;> cases h : y.impl q rx i <;> simp [Obj.filter, Op.apply, h]

theorem filter_foldl (q : Quirks) (rx : Rx) (i : Info) (rest : List (Op × Atom)) (v : Obj) :
    (rest.foldl (fun v p => Obj.logic p.1 p.2 v) v).filter q rx i
      = rest.foldl (fun acc p => p.1.apply acc (p.2.impl q rx i)) (v.filter q rx i) := by
  induction rest generalizing v with
  | nil => rfl
  | cons p rest ih => simp only [List.foldl_cons, ih, Obj.filter_logic]

theorem summary_filter (q : Quirks) (rx : Rx) (i : Info) (e : Expr) :
    (summary e).filter q rx i
      = e.rest.foldl (fun acc p => p.1.apply acc (p.2.impl q rx i)) (e.first.impl q rx i) := by
  simp [summary, filter_foldl, Obj.filter]

theorem summary_filter_none (rx : Rx) (i : Info) (e : Expr) :
    (summary e).filter Quirks.none rx i = evalSpec rx e i := by
  rw [summary_filter]
  simp only [evalSpec, Atom.impl_none]

theorem compile_none (e : Expr) : compile Quirks.none e = some (summary e) := by
  simp [compile, Quirks.none]

/-- under quirk `memberObj` no membership comparison looks at the job. -/
theorem impl_member_const (rx : Rx) (i : Info) (v : Var) (cs : List String) (q : Quirks) (h : q.memberObj = true) :
    (Atom.isIn v cs).impl q rx i = false ∧ (Atom.notIn v cs).impl q rx i = true := by
  simp [Atom.impl, h]

end XpmVerif.Filter
