import XpmVerif.Model.Validate
/-! Helper lemmas for C15 (model `Model/Validate.lean`): soundness of `validate`, identity on conforming
    values, reflexivity of `pyEq`, and the completeness of the validation walk (a depth-first search with
    a visited set = the `_validated` flags). Core Lean only. -/
namespace XpmVerif.Validate

/-! ### `validate` only returns members of the declared type -/

theorem mapE_ok_all {f : PyVal → Except Err PyVal} {P : PyVal → Prop} :
    ∀ (vs ws : List PyVal), mapE f vs = .ok ws → (∀ x ∈ vs, ∀ y, f x = .ok y → P y) → ∀ y ∈ ws, P y
  | [], ws, h, _ => by simp [mapE] at h; subst h; simp
  | v :: vs, ws, h, hp => by
    simp only [mapE] at h
    cases hv : f v with
    | error e => simp [hv] at h
    | ok w =>
      simp only [hv] at h
      cases hr : mapE f vs with
      | error e => simp [hr] at h
      | ok ws' =>
        simp only [hr, Except.ok.injEq] at h
        subst h
        intro y hy
        rcases List.mem_cons.mp hy with rfl | hy
        · exact hp v (List.mem_cons_self) _ hv
        · exact mapE_ok_all vs ws' hr (fun x hx => hp x (List.mem_cons_of_mem _ hx)) y hy

theorem mapD_ok_all {f : PyVal → Except Err PyVal} {P : PyVal → Prop} :
    ∀ (ks : List Key) (vs ws : List PyVal), mapD f ks vs = .ok ws → (∀ x ∈ vs, ∀ y, f x = .ok y → P y) →
      ks.length = ws.length ∧ ks.all keyOk = true ∧ ∀ y ∈ ws, P y
  | [], [], ws, h, _ => by simp [mapD] at h; subst h; simp
  | [], _ :: _, ws, h, _ => by simp [mapD] at h
  | _ :: _, [], ws, h, _ => by simp [mapD] at h
  | k :: ks, v :: vs, ws, h, hp => by
    simp only [mapD] at h
    by_cases hk : keyOk k = true
    · simp only [hk, if_true] at h
      cases hv : f v with
      | error e => simp [hv] at h
      | ok w =>
        simp only [hv] at h
        cases hr : mapD f ks vs with
        | error e => simp [hr] at h
        | ok ws' =>
          simp only [hr, Except.ok.injEq] at h
          subst h
          have ih := mapD_ok_all ks vs ws' hr (fun x hx => hp x (List.mem_cons_of_mem _ hx))
          refine ⟨by simp [ih.1], by simp [hk, ih.2.1], ?_⟩
          intro y hy
          rcases List.mem_cons.mp hy with rfl | hy
          · exact hp v (List.mem_cons_self) _ hv
          · exact ih.2.2 y hy
    · simp [hk] at h

theorem conforms_opt (t : Ty) (v : PyVal) : conforms (.opt t) v = ((match v with | .none => true | _ => false) || conforms t v) := by
  cases v <;> simp [conforms]


theorem vInt_conf {v w : PyVal} (h : vInt v = .ok w) : conforms .int w = true := by
  cases v with
  | float f =>
    cases f with
    | fin n m e =>
      simp only [vInt] at h
      split at h
      · simp at h; subst h; simp [conforms]
      · simp at h
    | inf n => simp [vInt] at h
    | nan => simp [vInt] at h
  | int i => simp [vInt] at h; subst h; simp [conforms]
  | bool b => simp [vInt] at h; subst h; simp [conforms]
  | _ => simp [vInt] at h

theorem vFloat_conf {v w : PyVal} (h : vFloat v = .ok w) : conforms .float w = true := by
  cases v with
  | float f => simp [vFloat] at h; subst h; simp [conforms]
  | int i =>
    simp only [vFloat] at h
    split at h
    · simp at h; subst h; simp [conforms]
    · simp at h
  | bool b => simp [vFloat] at h; subst h; simp [conforms]
  | _ => simp [vFloat] at h

theorem vStr_conf {v w : PyVal} (h : vStr v = .ok w) : conforms .str w = true := by
  unfold vStr at h
  split at h <;> simp at h
  subst h; simp [conforms]

theorem pathOf_conf {o : Option PyVal} {w : PyVal} (h : pathOf o = .ok w) : conforms .path w = true := by
  unfold pathOf at h
  split at h <;> simp at h <;> (subst h; simp [conforms])

theorem vPath_conf {v w : PyVal} (h : vPath v = .ok w) : conforms .path w = true := by
  unfold vPath at h
  split at h
  · split at h
    · exact pathOf_conf h
    · simp at h
  · simp at h; subst h; simp [conforms]
  · simp at h; subst h; simp [conforms]
  · simp at h

theorem vEnum_conf {I : Impl} {c : Nat} {v w : PyVal} (h : vEnum I c v = .ok w) : conforms (.enum c) w = true := by
  unfold vEnum at h
  split at h
  · split at h
    · simp at h; subst h; simp [conforms, *]
    · simp at h
  · simp at h

theorem vCfg_conf {I : Impl} (hI : I.cfgNoneOk = false) {c : Nat} {v w : PyVal} (h : vCfg I c v = .ok w) :
    conforms (.cfg c) w = true := by
  unfold vCfg at h
  split at h
  · simp [hI] at h
  · split at h
    · simp at h; subst h; simp [conforms, *]
    · simp at h
  · simp at h

mutual
theorem validate_sound_aux (I : Impl) (h1 : I.unionDictNone = false) (h2 : I.cfgNoneOk = false) :
    ∀ (t : Ty) (v w : PyVal), validate I t v = .ok w → conforms t w = true
  | .bool, v, w, h => by simp [validate] at h; subst h; simp [conforms]
  | .int, v, w, h => by simp only [validate] at h; exact vInt_conf h
  | .float, v, w, h => by simp only [validate] at h; exact vFloat_conf h
  | .str, v, w, h => by simp only [validate] at h; exact vStr_conf h
  | .path, v, w, h => by simp only [validate] at h; exact vPath_conf h
  | .enum c, v, w, h => by simp only [validate] at h; exact vEnum_conf h
  | .cfg c, v, w, h => by simp only [validate] at h; exact vCfg_conf h2 h
  | .any, v, w, h => by simp [conforms]
  | .opt t, v, w, h => by
    rw [conforms_opt]
    cases v with
    | none => simp [validate] at h; subst h; simp
    | _ => simp only [validate] at h; simp [validate_sound_aux I h1 h2 t _ w h]
  | .list t, v, w, h => by
    cases v with
    | list vs =>
      simp only [validate] at h
      cases hm : mapE (validate I t) vs with
      | error e => simp [hm] at h
      | ok ws =>
        simp only [hm, Except.ok.injEq] at h
        subst h
        have := mapE_ok_all (P := fun y => conforms t y = true) vs ws hm (fun x _ y hy => validate_sound_aux I h1 h2 t x y hy)
        simpa [conforms, List.all_eq_true] using this
    | _ => simp [validate] at h
  | .dict t, v, w, h => by
    cases v with
    | dict ks vs =>
      simp only [validate] at h
      cases hm : mapD (validate I t) ks vs with
      | error e => simp [hm] at h
      | ok ws =>
        simp only [hm, Except.ok.injEq] at h
        subst h
        have := mapD_ok_all (P := fun y => conforms t y = true) ks vs ws hm (fun x _ y hy => validate_sound_aux I h1 h2 t x y hy)
        simp only [conforms, Bool.and_eq_true, beq_iff_eq, List.all_eq_true]
        exact ⟨⟨this.1, by simpa [List.all_eq_true] using this.2.1⟩, this.2.2⟩
    | _ => simp [validate] at h
  | .union ts, v, w, h => by
    simp only [validate] at h
    cases hu : validateU I ts v with
    | some r =>
      simp only [hu] at h
      subst h
      simp only [conforms]
      exact validateU_sound_aux I h1 h2 ts v w hu
    | none => simp [hu, h1] at h
theorem validateU_sound_aux (I : Impl) (h1 : I.unionDictNone = false) (h2 : I.cfgNoneOk = false) :
    ∀ (ts : List Ty) (v w : PyVal), validateU I ts v = some (.ok w) → conformsAny ts w = true
  | [], v, w, h => by simp [validateU] at h
  | t :: ts, v, w, h => by
    simp only [validateU] at h
    simp only [conformsAny, Bool.or_eq_true]
    cases hv : validate I t v with
    | ok w' =>
      simp only [hv, Option.some.injEq, Except.ok.injEq] at h
      subst h
      exact Or.inl (validate_sound_aux I h1 h2 t v w' hv)
    | error e =>
      cases e with
      | invalid => simp only [hv] at h; exact Or.inr (validateU_sound_aux I h1 h2 ts v w h)
      | _ => simp [hv] at h
end


/-! ### conforming values pass unchanged -/

theorem mapE_id {f : PyVal → Except Err PyVal} : ∀ (vs : List PyVal), (∀ x ∈ vs, f x = .ok x) → mapE f vs = .ok vs
  | [], _ => by simp [mapE]
  | v :: vs, h => by
    simp [mapE, h v (List.mem_cons_self), mapE_id vs (fun x hx => h x (List.mem_cons_of_mem _ hx))]

theorem mapD_id {f : PyVal → Except Err PyVal} : ∀ (ks : List Key) (vs : List PyVal), ks.length = vs.length →
    ks.all keyOk = true → (∀ x ∈ vs, f x = .ok x) → mapD f ks vs = .ok vs
  | [], [], _, _, _ => by simp [mapD]
  | [], _ :: _, hl, _, _ => by simp at hl
  | _ :: _, [], hl, _, _ => by simp at hl
  | k :: ks, v :: vs, hl, hk, h => by
    simp only [List.all_cons, Bool.and_eq_true] at hk
    simp only [List.length_cons, Nat.add_right_cancel_iff] at hl
    simp [mapD, hk.1, h v (List.mem_cons_self), mapD_id ks vs hl hk.2 (fun x hx => h x (List.mem_cons_of_mem _ hx))]

theorem validate_id_aux (I : Impl) : ∀ (t : Ty), t.unionFree = true → ∀ (v : PyVal), conforms t v = true → validate I t v = .ok v
  | .bool, _, v, hc => by cases v <;> simp [conforms] at hc; simp [validate, PyVal.truthy]
  | .int, _, v, hc => by cases v <;> simp [conforms] at hc <;> simp [validate, vInt]
  | .float, _, v, hc => by cases v <;> simp [conforms] at hc; simp [validate, vFloat]
  | .str, _, v, hc => by cases v <;> simp [conforms] at hc; simp [validate, vStr]
  | .path, _, v, hc => by cases v <;> simp [conforms] at hc; simp [validate, vPath]
  | .enum c, _, v, hc => by cases v <;> simp [conforms] at hc; simp [validate, vEnum, hc]
  | .cfg c, _, v, hc => by cases v <;> simp [conforms] at hc; simp [validate, vCfg, hc]
  | .any, _, v, _ => by simp [validate]
  | .opt t, hu, v, hc => by
    rw [conforms_opt] at hc
    cases v with
    | none => simp [validate]
    | _ => simp only [validate]; exact validate_id_aux I t (by simpa [Ty.unionFree] using hu) _ (by simpa using hc)
  | .list t, hu, v, hc => by
    cases v with
    | list vs =>
      simp only [conforms, List.all_eq_true] at hc
      simp only [validate]
      rw [mapE_id vs (fun x hx => validate_id_aux I t (by simpa [Ty.unionFree] using hu) x (hc x hx))]
    | _ => simp [conforms] at hc
  | .dict t, hu, v, hc => by
    cases v with
    | dict ks vs =>
      simp only [conforms, Bool.and_eq_true, beq_iff_eq, List.all_eq_true] at hc
      simp only [validate]
      rw [mapD_id ks vs hc.1.1 (by simpa [List.all_eq_true] using hc.1.2)
        (fun x hx => validate_id_aux I t (by simpa [Ty.unionFree] using hu) x (hc.2 x hx))]
    | _ => simp [conforms] at hc
  | .union ts, hu, _, _ => by simp [Ty.unionFree] at hu

theorem Fl.eq_refl (x : Fl) : x.eq x = true := by cases x <;> simp [Fl.eq]

theorem Num.eq_refl (x : Num) : x.eq x = true := by cases x <;> simp [Num.eq, Fl.eq_refl]

mutual
theorem pyEq_refl : ∀ (v : PyVal), pyEq v v = true
  | .none => by simp [pyEq]
  | .bool b => by simp [pyEq, numOf, Num.eq]
  | .int i => by simp [pyEq, numOf, Num.eq]
  | .float f => by simp [pyEq, numOf, Num.eq, Fl.eq_refl]
  | .str s => by simp [pyEq]
  | .path s => by simp [pyEq]
  | .enumMember c n => by simp [pyEq]
  | .list vs => by simp [pyEq, pyEqL_refl vs]
  | .tuple vs => by simp [pyEq, pyEqL_refl vs]
  | .dict ks vs => by simp [pyEq, pyEqL_refl vs]
  | .config m i => by simp [pyEq]
  | .other s t => by simp [pyEq]
theorem pyEqL_refl : ∀ (vs : List PyVal), pyEqL vs vs = true
  | [] => by simp [pyEqL]
  | v :: vs => by simp [pyEqL, pyEq_refl v, pyEqL_refl vs]
end


/-! ### the validation walk (generic in the items of a node) -/

@[simp] theorem visits_nil : visits [] = [] := rfl
@[simp] theorem visits_fail (l : List Item) : visits (.fail :: l) = visits l := by simp [visits]
@[simp] theorem visits_visit (m : Nat) (l : List Item) : visits (.visit m :: l) = m :: visits l := by simp [visits]
@[simp] theorem hasFail_nil : hasFail [] = false := rfl
@[simp] theorem hasFail_fail (l : List Item) : hasFail (.fail :: l) = true := by simp [hasFail]
@[simp] theorem hasFail_visit (m : Nat) (l : List Item) : hasFail (.visit m :: l) = hasFail l := by
  simp [hasFail]

section walk
variable (items : Nat → List Item)

/-- every node that became flagged during a run is complete and all its successors are flagged -/
def Closed (vis vis' : List Nat) : Prop :=
  ∀ m ∈ vis', m ∈ vis ∨ (hasFail (items m) = false ∧ ∀ k ∈ visits (items m), k ∈ vis')

theorem Closed.trans {a b c : List Nat} (h1 : Closed items a b) (h2 : Closed items b c) (hbc : b ⊆ c) : Closed items a c := by
  intro m hm
  rcases h2 m hm with hb | hg
  · rcases h1 m hb with ha | ⟨hf, hk⟩
    · exact Or.inl ha
    · exact Or.inr ⟨hf, fun k hk' => hbc (hk k hk')⟩
  · exact Or.inr hg

theorem Closed.refl (a : List Nat) : Closed items a a := fun _ hm => Or.inl hm

/-- what a callback must satisfy (the induction hypothesis on the fuel) -/
def CbOk (cb : List Nat → Nat → Out × List Nat) : Prop :=
  ∀ vis m vis', cb vis m = (.ok, vis') → m ∈ vis' ∧ vis ⊆ vis' ∧ Closed items vis vis'

theorem walkItems_ok {cb : List Nat → Nat → Out × List Nat} (hcb : CbOk items cb) :
    ∀ (l : List Item) (vis vis' : List Nat), walkItems cb vis l = (.ok, vis') →
      hasFail l = false ∧ (∀ k ∈ visits l, k ∈ vis') ∧ vis ⊆ vis' ∧ Closed items vis vis'
  | [], vis, vis', h => by
    simp only [walkItems, Prod.mk.injEq, true_and] at h
    subst h
    exact ⟨rfl, by simp, fun _ h => h, Closed.refl items _⟩
  | .fail :: l, vis, vis', h => by simp [walkItems] at h
  | .visit m :: l, vis, vis', h => by
    simp only [walkItems] at h
    cases hc : cb vis m with
    | mk o vis1 =>
      cases o with
      | ok =>
        simp only [hc] at h
        obtain ⟨hm, hsub, hcl⟩ := hcb vis m vis1 hc
        obtain ⟨hf, hk, hsub2, hcl2⟩ := walkItems_ok hcb l vis1 vis' h
        refine ⟨by simpa using hf, ?_, fun _ hx => hsub2 (hsub hx), Closed.trans items hcl hcl2 hsub2⟩
        intro k hk'
        simp only [visits_visit, List.mem_cons] at hk'
        rcases hk' with rfl | hk'
        · exact hsub2 hm
        · exact hk k hk'
      | missing => simp [hc] at h
      | fuel => simp [hc] at h

theorem walkNode_ok : ∀ (f : Nat), CbOk items (walkNode items f)
  | 0 => by intro vis m vis' h; simp [walkNode] at h
  | f + 1 => by
    intro vis n vis' h
    simp only [walkNode] at h
    by_cases hn : n ∈ vis
    · simp only [hn, if_true, Prod.mk.injEq, true_and] at h
      subst h
      exact ⟨hn, fun _ h => h, Closed.refl items _⟩
    · simp only [hn, if_false] at h
      obtain ⟨hf, hk, hsub, hcl⟩ := walkItems_ok items (walkNode_ok f) (items n) (n :: vis) vis' h
      refine ⟨hsub (List.mem_cons_self), fun _ hx => hsub (List.mem_cons_of_mem _ hx), ?_⟩
      intro m hm
      rcases hcl m hm with hmv | hg
      · rcases List.mem_cons.mp hmv with rfl | hmv
        · exact Or.inr ⟨hf, hk⟩
        · exact Or.inl hmv
      · exact Or.inr hg

/-- **the walk is complete**: started with no flag set, an `ok` result means that every node reachable
    along the edges the walk follows is free of `fail` items -/
theorem walk_ok_all_reachable (f root : Nat) (vis' : List Nat) (h : walkNode items f [] root = (.ok, vis'))
    (n : Nat) (hr : Reach (fun m => visits (items m)) root n) : n ∈ vis' ∧ hasFail (items n) = false := by
  obtain ⟨hroot, _, hcl⟩ := walkNode_ok items f [] root vis' h
  have key : ∀ m ∈ vis', hasFail (items m) = false ∧ ∀ k ∈ visits (items m), k ∈ vis' := by
    intro m hm
    rcases hcl m hm with h0 | hg
    · simp at h0
    · exact hg
  have : n ∈ vis' := by
    induction hr with
    | refl => exact hroot
    | step _ hc ih => exact (key _ ih).2 _ hc
  exact ⟨this, (key n this).1⟩

/-! a `missing` result comes from a reachable node with a `fail` item -/

def CbMiss (cb : List Nat → Nat → Out × List Nat) : Prop :=
  ∀ vis m vis', cb vis m = (.missing, vis') → ∃ k, Reach (fun m => visits (items m)) m k ∧ hasFail (items k) = true

theorem walkItems_missing {cb : List Nat → Nat → Out × List Nat} (hcb : CbMiss items cb) :
    ∀ (l : List Item) (vis vis' : List Nat), walkItems cb vis l = (.missing, vis') →
      hasFail l = true ∨ ∃ m ∈ visits l, ∃ k, Reach (fun m => visits (items m)) m k ∧ hasFail (items k) = true
  | [], vis, vis', h => by simp [walkItems] at h
  | .fail :: l, vis, vis', h => by simp
  | .visit m :: l, vis, vis', h => by
    simp only [walkItems] at h
    cases hc : cb vis m with
    | mk o vis1 =>
      cases o with
      | ok =>
        simp only [hc] at h
        rcases walkItems_missing hcb l vis1 vis' h with hf | ⟨m', hm', hk⟩
        · exact Or.inl (by simpa using hf)
        · exact Or.inr ⟨m', by simp [hm'], hk⟩
      | missing =>
        exact Or.inr ⟨m, by simp, hcb vis m vis1 hc⟩
      | fuel => simp [hc] at h

theorem Reach.head {S : Nat → List Nat} {a b c : Nat} (hab : b ∈ S a) (h : Reach S b c) : Reach S a c := by
  induction h with
  | refl => exact Reach.step Reach.refl hab
  | step _ hc ih => exact Reach.step ih hc

theorem walkNode_missing : ∀ (f : Nat), CbMiss items (walkNode items f)
  | 0 => by intro vis m vis' h; simp [walkNode] at h
  | f + 1 => by
    intro vis n vis' h
    simp only [walkNode] at h
    by_cases hn : n ∈ vis
    · simp [hn] at h
    · simp only [hn, if_false] at h
      rcases walkItems_missing items (walkNode_missing f) (items n) (n :: vis) vis' h with hf | ⟨m, hm, k, hr, hk⟩
      · exact ⟨n, Reach.refl, hf⟩
      · exact ⟨k, Reach.head hm hr, hk⟩

/-! the fuel `nodes + 1` is never exhausted -/

/-- nodes below `N` that carry no flag -/
def unv (N : Nat) (vis : List Nat) : Nat := (List.range N).countP (fun x => decide (x ∉ vis))

theorem unv_mono {N : Nat} {a b : List Nat} (h : a ⊆ b) : unv N b ≤ unv N a := by
  unfold unv
  apply List.countP_mono_left
  intro x _ hx
  simp only [decide_eq_true_eq] at hx ⊢
  exact fun hxa => hx (h hxa)

theorem countP_lt_generic (p p' : Nat → Bool) (n : Nat) (h2 : p' n = false) (h3 : p n = true)
    (h4 : ∀ x, x ≠ n → p' x = p x) : ∀ (l : List Nat), n ∈ l → l.countP p' < l.countP p
  | [], h => by simp at h
  | x :: l, h => by
    have hmono : l.countP p' ≤ l.countP p := by
      apply List.countP_mono_left
      intro y _ hy
      by_cases hyn : y = n
      · subst hyn; rw [h2] at hy; exact absurd hy (by simp)
      · rw [← h4 y hyn]; exact hy
    rw [List.countP_cons, List.countP_cons]
    by_cases hx : x = n
    · subst hx
      rw [h2, h3]
      simp
      omega
    · have hin : n ∈ l := by
        rcases List.mem_cons.mp h with rfl | h
        · exact absurd rfl hx
        · exact h
      have ih := countP_lt_generic p p' n h2 h3 h4 l hin
      rw [h4 x hx]
      omega

theorem countP_lt_of_mem {n : Nat} {vis : List Nat} (hn : n ∉ vis) (l : List Nat) (h : n ∈ l) :
    l.countP (fun x => decide (x ∉ n :: vis)) < l.countP (fun x => decide (x ∉ vis)) := by
  apply countP_lt_generic _ _ n _ _ _ l h
  · simp
  · simp [hn]
  · intro x hx; simp [hx]

theorem unv_lt {N n : Nat} {vis : List Nat} (hN : n < N) (hn : n ∉ vis) : unv N (n :: vis) < unv N vis :=
  countP_lt_of_mem hn (List.range N) (List.mem_range.mpr hN)

def CbFuel (N : Nat) (cb : List Nat → Nat → Out × List Nat) (f : Nat) : Prop :=
  ∀ vis m, m < N → unv N vis < f → (cb vis m).1 ≠ .fuel ∧ vis ⊆ (cb vis m).2

theorem walkItems_fuel {N f : Nat} {cb : List Nat → Nat → Out × List Nat} (hcb : CbFuel N cb f) :
    ∀ (l : List Item) (vis : List Nat), (∀ k ∈ visits l, k < N) → unv N vis < f →
      (walkItems cb vis l).1 ≠ .fuel ∧ vis ⊆ (walkItems cb vis l).2
  | [], vis, _, _ => by simp [walkItems]
  | .fail :: l, vis, _, _ => by simp [walkItems]
  | .visit m :: l, vis, hl, hf => by
    simp only [walkItems]
    have hm : m < N := hl m (by simp)
    obtain ⟨h1, h2⟩ := hcb vis m hm hf
    cases hc : cb vis m with
    | mk o vis1 =>
      rw [hc] at h1 h2
      cases o with
      | ok =>
        simp only
        have := walkItems_fuel hcb l vis1 (fun k hk => hl k (by simp [hk])) (Nat.lt_of_le_of_lt (unv_mono h2) hf)
        exact ⟨this.1, fun _ hx => this.2 (h2 hx)⟩
      | missing => exact ⟨by simp, h2⟩
      | fuel => simp at h1

theorem walkNode_fuel (N : Nat) (hwf : ∀ n, n < N → ∀ k ∈ visits (items n), k < N) :
    ∀ (f : Nat), CbFuel N (walkNode items f) f
  | 0 => by intro vis m _ h; omega
  | f + 1 => by
    intro vis n hn hf
    simp only [walkNode]
    by_cases hv : n ∈ vis
    · simp [hv]
    · simp only [hv, if_false]
      have hlt : unv N (n :: vis) < f := by have := unv_lt hn hv; omega
      have := walkItems_fuel (walkNode_fuel N hwf f) (items n) (n :: vis) (hwf n hn) hlt
      exact ⟨this.1, fun _ hx => this.2 (List.mem_cons_of_mem _ hx)⟩

theorem unv_le (N : Nat) (vis : List Nat) : unv N vis ≤ N := by
  unfold unv
  have := List.countP_le_length (p := fun x => decide (x ∉ vis)) (l := List.range N)
  simpa using this

end walk

end XpmVerif.Validate
