import XpmVerif.Model.RunnerEff
import XpmVerif.Proofs.Runner
/-! Lemmas on the effect view of the Runner model (`Model/RunnerEff.lean`), for every configuration of the model:
    * `step_shared_is_effects` — the label of a step is faithful: the step changes the shared state exactly as its effects say;
    * `body_loop`, `traceProc_add` — a process alone;
    * `trace_normal … trace_signal` — the effect trace of an undisturbed process on each path (`modelNormal cfg` …), which
      `Properties/C10Src.lean` compares with the sequences generated from the source. -/
namespace XpmVerif.Runner

theorem traceProc_add (cfg : Cfg) (me a b : Nat) (x : Shared × Proc) :
    traceProc cfg me (a + b) x = traceProc cfg me a x ++ traceProc cfg me b (runProc cfg me a x) := by
  induction a generalizing x with
  | zero => simp [traceProc, runProc]
  | succ n ih =>
    have : n + 1 + b = (n + b) + 1 := by omega
    rw [this]; simp only [traceProc, runProc, ih, List.append_assoc]

theorem runProc_add (cfg : Cfg) (me a b : Nat) (x : Shared × Proc) :
    runProc cfg me (a + b) x = runProc cfg me b (runProc cfg me a x) := by
  induction a generalizing x with
  | zero => simp [runProc]
  | succ n ih =>
    have : n + 1 + b = (n + b) + 1 := by omega
    rw [this]; simp only [runProc, ih]

/-- the body loop: `d` internal points pass without effect -/
theorem body_loop (cfg : Cfg) (me : Nat) (sh : Shared) (p : Proc) (k d : Nat)
    (hd : p.dead = none) (hh : p.hnd = none) (hl : p.loc = .body k) (hk : k + d ≤ p.blen) :
    runProc cfg me d (sh, p) = (sh, { p with loc := .body (k + d) }) ∧ traceProc cfg me d (sh, p) = [] := by
  induction d generalizing p k with
  | zero => cases p; simp_all [runProc, traceProc]
  | succ n ih =>
    have hlt : k < p.blen := by omega
    have hs : stepProc cfg me sh p = (sh, { p with loc := .body (k + 1) }) := by
      simp [stepProc, hd, hh, mainStep, hl, hlt]
    have he : stepEffs cfg sh p = [] := by simp [stepEffs, hd, hh, mainEffs, hl]
    have := ih { p with loc := .body (k + 1) } (k + 1) hd hh rfl (by simp; omega)
    simp only [runProc, traceProc, hs, he, this, List.nil_append]
    rw [show k + 1 + n = k + (n + 1) by omega]; exact ⟨rfl, trivial⟩

/-- **the effect labels are faithful**: whatever the state, one step of a process changes the shared state (marker files, pid file,
    lock, ghost counters) exactly as the effects it is labelled with say. -/
theorem step_shared_is_effects (cfg : Cfg) (me : Nat) (sh : Shared) (p : Proc) :
    (stepProc cfg me sh p).1 = applyEffs me sh (stepEffs cfg sh p) := by
  unfold stepProc stepEffs
  cases hd : p.dead with
  | some _ => simp [applyEffs]
  | none =>
    cases hh : p.hnd with
    | some hc =>
      obtain ⟨h, code⟩ := hc
      cases h <;> simp [handlerStep, hsEffs, csEffs, applyEffs, applyEff] <;> split <;> simp [applyEffs, applyEff]
    | none =>
      simp only [mainStep, mainEffs]
      cases hl : p.loc with
      | herr h code => cases h <;> simp [hsEffs, csEffs, applyEffs, applyEff] <;> split <;> simp [applyEffs, applyEff]
      | fin c st =>
        cases c with
        | none => simp [applyEffs, applyEff]
        | some c => cases c <;> simp [csEffs, applyEffs, applyEff] <;> split <;> simp [applyEffs, applyEff]
      | body k =>
        simp only []
        split
        · simp [applyEffs]
        · split <;> simp [applyEffs]
      | tryLock => simp only []; split <;> simp [applyEffs, applyEff]
      | restInt => simp only []; split <;> simp [applyEffs, applyEff]
      | _ => simp [applyEffs, applyEff]

/-! ### the undisturbed paths of the model -/

def start (done : Bool) (failed pid : Option Nat) : Shared := { done := done, failed := failed, pid := pid }

/-- shared state and process once the body has been entered -/
def shBody (pid : Option Nat) : Shared := { done := false, failed := none, pid := pid, lock := some (.run 0), starts := 1, epoch := 1 }
def atBody (o : Outcome) (blen k : Nat) : Proc :=
  { outcome := o, blen := blen, loc := .body k, reg := true, termH := true, intH := true, started := true }

def modelPrefix : List Eff := [.registerAtexit, .installTerm, .installInt, .lockAcquire, .testDone]
def modelRun : List Eff := modelPrefix ++ [.rmFailed, .markStarted, .body]
def modelCleanup : List Eff := [.testCleaned, .setCleaned, .rmPid, .lockRelease]
/-- `handle_error(code)` when the clean-up has not run yet -/
def modelHerr (cfg : Cfg) (code : Nat) : List Eff :=
  if cfg.markerFirst then [.writeFailed code] ++ modelCleanup ++ [.sysExit 1] else modelCleanup ++ [.writeFailed code, .sysExit 1]
/-- `handle_error(code)` after the clean-up -/
def modelHerr2 (cfg : Cfg) (code : Nat) : List Eff :=
  if cfg.markerFirst then [.writeFailed code, .testCleaned, .sysExit 1] else [.testCleaned, .writeFailed code, .sysExit 1]

def modelNormal (cfg : Cfg) : List Eff :=
  modelRun ++ [.restoreTerm, .restoreInt] ++ (if cfg.unregOnSuccess then [.unregisterAtexit] else [])
    ++ [.sysExit 0, .touchDone, .reraise] ++ (if cfg.unregOnSuccess then [] else modelCleanup) ++ [.exitProcess]
def modelDone : List Eff := modelPrefix ++ modelCleanup ++ [.exitProcess]
def modelFail (cfg : Cfg) (code : Nat) : List Eff := modelRun ++ modelHerr cfg code ++ [.testCleaned, .exitProcess]
def modelExit0 : List Eff := modelRun ++ [.touchDone, .reraise] ++ modelCleanup ++ [.exitProcess]
def modelSignal (cfg : Cfg) (code : Nat) : List Eff :=
  modelRun ++ [.signalDelivered] ++ modelHerr cfg code ++ modelHerr2 cfg 1 ++ [.testCleaned, .exitProcess]

theorem run_to_body (cfg : Cfg) (o : Outcome) (blen : Nat) (f pd : Option Nat) :
    runProc cfg 0 9 (start false f pd, newProc o blen) = (shBody pd, atBody o blen 0)
    ∧ traceProc cfg 0 9 (start false f pd, newProc o blen) = modelRun := by
  constructor <;> simp [runProc, traceProc, stepProc, stepEffs, mainStep, mainEffs, newProc, start, shBody, atBody, modelRun, modelPrefix]

theorem through_body (cfg : Cfg) (o : Outcome) (blen : Nat) (pd : Option Nat) :
    runProc cfg 0 blen (shBody pd, atBody o blen 0) = (shBody pd, atBody o blen blen)
    ∧ traceProc cfg 0 blen (shBody pd, atBody o blen 0) = [] := by
  have := body_loop cfg 0 (shBody pd) (atBody o blen 0) 0 blen rfl rfl rfl (by simp [atBody])
  simpa [atBody] using this

/-- undisturbed successful run: for every model configuration, body length and initial directory without success marker -/
theorem trace_normal (cfg : Cfg) (blen : Nat) (f pd : Option Nat) :
    traceProc cfg 0 (9 + (blen + 12)) (start false f pd, newProc .ok blen) = modelNormal cfg := by
  rw [traceProc_add, (run_to_body cfg .ok blen f pd).1, (run_to_body cfg .ok blen f pd).2, traceProc_add,
    (through_body cfg .ok blen pd).1, (through_body cfg .ok blen pd).2]
  obtain ⟨u, m⟩ := cfg
  cases u <;> simp [traceProc, stepProc, stepEffs, mainStep, mainEffs, csEffs, atBody, shBody, modelNormal, modelRun, modelPrefix, modelCleanup, finStart, release]

/-- a launch that finds the success marker -/
theorem trace_done (cfg : Cfg) (o : Outcome) (blen : Nat) (f pd : Option Nat) :
    traceProc cfg 0 12 (start true f pd, newProc o blen) = modelDone := by
  simp [traceProc, stepProc, stepEffs, mainStep, mainEffs, csEffs, newProc, start, modelDone, modelPrefix, modelCleanup, finStart, release]

/-- the body raises an exception -/
theorem trace_fail (cfg : Cfg) (blen : Nat) (f pd : Option Nat) :
    traceProc cfg 0 (9 + (blen + 9)) (start false f pd, newProc .exc blen) = modelFail cfg 1 := by
  rw [traceProc_add, (run_to_body cfg .exc blen f pd).1, (run_to_body cfg .exc blen f pd).2, traceProc_add,
    (through_body cfg .exc blen pd).1, (through_body cfg .exc blen pd).2]
  obtain ⟨u, m⟩ := cfg
  cases m <;> simp [traceProc, stepProc, stepEffs, mainStep, mainEffs, csEffs, hsEffs, hsFirst, hsAfterWrite, hsAfterClean, atBody, shBody,
    modelFail, modelHerr, modelRun, modelPrefix, modelCleanup, finStart, release, markEpoch]

/-- the body ends itself with `sys.exit(n + 1)` -/
theorem trace_exit (cfg : Cfg) (n blen : Nat) (f pd : Option Nat) :
    traceProc cfg 0 (9 + (blen + 9)) (start false f pd, newProc (.exit (n + 1)) blen) = modelFail cfg (n + 1) := by
  rw [traceProc_add, (run_to_body cfg _ blen f pd).1, (run_to_body cfg _ blen f pd).2, traceProc_add,
    (through_body cfg _ blen pd).1, (through_body cfg _ blen pd).2]
  obtain ⟨u, m⟩ := cfg
  cases m <;> simp [traceProc, stepProc, stepEffs, mainStep, mainEffs, csEffs, hsEffs, hsFirst, hsAfterWrite, hsAfterClean, atBody, shBody,
    modelFail, modelHerr, modelRun, modelPrefix, modelCleanup, finStart, release, markEpoch]

/-- the body ends itself with `sys.exit(0)` -/
theorem trace_exit0 (cfg : Cfg) (blen : Nat) (f pd : Option Nat) :
    traceProc cfg 0 (9 + (blen + 9)) (start false f pd, newProc (.exit 0) blen) = modelExit0 := by
  rw [traceProc_add, (run_to_body cfg _ blen f pd).1, (run_to_body cfg _ blen f pd).2, traceProc_add,
    (through_body cfg _ blen pd).1, (through_body cfg _ blen pd).2]
  simp [traceProc, stepProc, stepEffs, mainStep, mainEffs, csEffs, atBody, shBody, modelExit0, modelRun, modelPrefix, modelCleanup, finStart, release]

def sigCode : Sig → Nat | .term => 15 | .int => 2 | .kill => 9

/-- SIGTERM / SIGINT delivered at any point `j` inside the body (whatever the body would have done): the trace up to the delivery, the
    delivery, and the trace of the handler, the `except SystemExit` clause, the second `handle_error` and the interpreter exit -/
theorem trace_signal (cfg : Cfg) (o : Outcome) (sig : Sig) (hs : sig ≠ .kill) (blen j : Nat) (hj : j ≤ blen) (f pd : Option Nat) :
    let x := runProc cfg 0 (9 + j) (start false f pd, newProc o blen)
    traceProc cfg 0 (9 + j) (start false f pd, newProc o blen) ++ [.signalDelivered]
      ++ traceProc cfg 0 12 (deliver cfg 0 x.1 x.2 sig) = modelSignal cfg (sigCode sig) := by
  have hb := body_loop cfg 0 (shBody pd) (atBody o blen 0) 0 j rfl rfl rfl (by simpa [atBody] using hj)
  intro x
  have hx : x = (shBody pd, atBody o blen j) := by
    show runProc cfg 0 (9 + j) _ = _
    rw [runProc_add, (run_to_body cfg o blen f pd).1, hb.1]; simp [atBody]
  rw [hx, traceProc_add, (run_to_body cfg o blen f pd).1, (run_to_body cfg o blen f pd).2, hb.2]
  obtain ⟨u, m⟩ := cfg
  cases sig <;> first | exact absurd rfl hs | skip
  all_goals cases m <;> simp [traceProc, stepProc, stepEffs, handlerStep, deliver, mainStep, mainEffs, csEffs, hsEffs, hsFirst, hsAfterWrite, hsAfterClean,
    afterHandler, Loc.inTry, atBody, shBody, sigCode, modelSignal, modelHerr, modelHerr2, modelRun, modelPrefix, modelCleanup, finStart, release, markEpoch]

/-- scheduler side of one launch on a free lock: lock, spawn, pid file, release -/
theorem trace_launch (cfg : Cfg) (s : St) (l : Nat) (o : Outcome) (b : Nat) (hi : s.ls l = .idle) (hf : s.sh.lock = none) :
    traceActs cfg s [.lLock l, .lSpawn l o b, .lWrite l, .lRelease l] = [.jobLockAcquire, .spawn, .writePid, .jobLockRelease] := by
  simp [traceActs, launchEffs, act, hi, hf, upd]

/-- `runProc` is `runAlone` of the whole system seen from process `i` -/
theorem runAlone_proj (cfg : Cfg) (i n : Nat) (s : St) (hi : i < s.n) :
    ((runAlone cfg i n s).sh, (runAlone cfg i n s).procs i) = runProc cfg i n (s.sh, s.procs i) ∧ (runAlone cfg i n s).n = s.n := by
  induction n generalizing s with
  | zero => simp [runAlone, runProc]
  | succ k ih =>
    have hn : (act cfg s (.step i)).n = s.n := by simp [act, hi]
    have h1 : ((act cfg s (.step i)).sh, (act cfg s (.step i)).procs i) = stepProc cfg i s.sh (s.procs i) := by
      simp [act, hi, upd]
    have := ih (act cfg s (.step i)) (by omega)
    simp only [runAlone, runProc]
    rw [this.1, this.2, hn, h1]; exact ⟨rfl, rfl⟩

/-- `runProc` is the `soloIter` of `Proofs/Runner.lean` (the state side of the solo lemmas used by C10) -/
theorem runProc_eq_soloIter (cfg : Cfg) (i k : Nat) (x : Shared × Proc) : runProc cfg i k x = soloIter cfg i k x := by
  induction k generalizing x with
  | zero => rfl
  | succ k ih => simp only [runProc, soloIter, ih]

/-! ### meaning of the order checkers -/

/-- meaning of `underLock`: every selected effect of the sequence happens at a point where the lock is held -/
theorem underLock_sound (crit : Eff → Bool) : ∀ (l : List Eff) (h : Bool), underLock crit h l = true →
    ∀ pre e post, l = pre ++ e :: post → crit e = true → heldAfter h pre = true := by
  intro l
  induction l with
  | nil => intro h _ pre e post hl; simp at hl
  | cons x xs ih =>
    intro h hu pre e post hl hc
    simp only [underLock, Bool.and_eq_true, Bool.or_eq_true, Bool.not_eq_true'] at hu
    cases pre with
    | nil =>
      simp only [List.nil_append, List.cons.injEq] at hl
      obtain ⟨rfl, _⟩ := hl
      rcases hu.1 with h1 | h1
      · rw [h1] at hc; cases hc
      · simpa [heldAfter] using h1
    | cons y ys =>
      simp only [List.cons_append, List.cons.injEq] at hl
      obtain ⟨rfl, hl⟩ := hl
      simpa [heldAfter] using ih _ hu.2 ys e post hl hc

/-- meaning of `precededBy`: every `b` of the sequence has an `a` somewhere before it -/
theorem precededBy_sound (a b : Eff → Bool) : ∀ (l : List Eff) (seen : Bool), precededBy a b seen l = true →
    ∀ pre e post, l = pre ++ e :: post → b e = true → seen = true ∨ ∃ x ∈ pre, a x = true := by
  intro l
  induction l with
  | nil => intro h _ pre e post hl; simp at hl
  | cons x xs ih =>
    intro seen hu pre e post hl hb
    simp only [precededBy, Bool.and_eq_true, Bool.or_eq_true, Bool.not_eq_true'] at hu
    cases pre with
    | nil =>
      simp only [List.nil_append, List.cons.injEq] at hl
      obtain ⟨rfl, _⟩ := hl
      rcases hu.1 with h1 | h1
      · rw [h1] at hb; cases hb
      · exact Or.inl h1
    | cons y ys =>
      simp only [List.cons_append, List.cons.injEq] at hl
      obtain ⟨rfl, hl⟩ := hl
      rcases ih _ hu.2 ys e post hl hb with h1 | ⟨z, hz, hz'⟩
      · simp only [Bool.or_eq_true] at h1
        rcases h1 with h1 | h1
        · exact Or.inl h1
        · exact Or.inr ⟨x, by simp, h1⟩
      · exact Or.inr ⟨z, by simp [hz], hz'⟩

/-- meaning of `underJobLock` -/
theorem underJobLock_sound (crit : Eff → Bool) : ∀ (l : List Eff) (h : Bool), underJobLock crit h l = true →
    ∀ pre e post, l = pre ++ e :: post → crit e = true → jobHeldAfter h pre = true := by
  intro l
  induction l with
  | nil => intro h _ pre e post hl; simp at hl
  | cons x xs ih =>
    intro h hu pre e post hl hc
    simp only [underJobLock, Bool.and_eq_true, Bool.or_eq_true, Bool.not_eq_true'] at hu
    cases pre with
    | nil =>
      simp only [List.nil_append, List.cons.injEq] at hl
      obtain ⟨rfl, _⟩ := hl
      rcases hu.1 with h1 | h1
      · rw [h1] at hc; cases hc
      · simpa [jobHeldAfter] using h1
    | cons y ys =>
      simp only [List.cons_append, List.cons.injEq] at hl
      obtain ⟨rfl, hl⟩ := hl
      simpa [jobHeldAfter] using ih _ hu.2 ys e post hl hc

end XpmVerif.Runner
