import XpmVerif.Proofs.RestartTerm
/-! C11, adoption: the abstraction `abs ad s` of a state `s` of the world scheduler in which the jobs of the set `ad`
    have been adopted.  An adopted job is seen by everybody else as a job WITHOUT dependencies that was launched and
    waits for its exit code: its record is replaced by `absJob` (no dependencies, counter 0, one launch, nothing held),
    its entries in the dependent lists and the `check` / `notifyCheck` callbacks that target it are dropped.  Every
    primitive of M2 commutes with `abs` when it acts on a job that is not adopted (`abs_runCb`), the segments of an
    adopted job after its `codeWait` commute too (`abs_resume_ad`), and a dropped callback is invisible
    (`abs_check_ad`). -/
set_option linter.unusedSimpArgs false
set_option linter.unusedVariables false
namespace XpmVerif.RestartAbs
open XpmVerif.Sched hiding Reachable flOK submitPre submitPost sumTo
open XpmVerif.SchedFinal XpmVerif.Restart

/-- what the rest of the scheduler sees of an adopted job: identifier, exit code, state and program counter. -/
def absJob (jb : Job) : Job :=
  { ident := jb.ident, deps := [], code := jb.code, marker := false, state := jb.state, unsat := 0, event := false,
    sleeping := false, pc := jb.pc, held := [], launches := 1, failedDep := false }

def keepP (ad : Nat → Bool) (p : Nat × Nat) : Bool := !ad p.1

def keepCb (ad : Nat → Bool) : Cb → Bool
  | .check j _ => !ad j
  | .notifyCheck j _ => !ad j
  | _ => true

def absRec (ad : Nat → Bool) (i : Nat) (jb : Job) : Job := if ad i then absJob jb else jb

/-- the abstract state. -/
def abs (ad : Nat → Bool) (s : St) : St :=
  { s with jobs := fun i => absRec ad i (s.jobs i),
           tokDeps := fun t => (s.tokDeps t).filter (keepP ad),
           jobDeps := fun o => (s.jobDeps o).filter (keepP ad),
           ready := s.ready.filter (keepCb ad) }

section basic
variable (ad : Nat → Bool) (s : St)
@[simp] theorem abs_n : (abs ad s).n = s.n := rfl
@[simp] theorem abs_eff : (abs ad s).eff = s.eff := rfl
@[simp] theorem abs_ntok : (abs ad s).ntok = s.ntok := rfl
@[simp] theorem abs_total : (abs ad s).total = s.total := rfl
@[simp] theorem abs_avail : (abs ad s).avail = s.avail := rfl
@[simp] theorem abs_registry : (abs ad s).registry = s.registry := rfl
@[simp] theorem abs_unfinished : (abs ad s).unfinished = s.unfinished := rfl
@[simp] theorem abs_failed : (abs ad s).failed = s.failed := rfl
@[simp] theorem abs_threads : (abs ad s).threads = s.threads := rfl
@[simp] theorem abs_waiter : (abs ad s).waiter = s.waiter := rfl
@[simp] theorem abs_regResult : (abs ad s).regResult = s.regResult := rfl
theorem abs_ready : (abs ad s).ready = s.ready.filter (keepCb ad) := rfl
theorem abs_jobs (i : Nat) : (abs ad s).jobs i = absRec ad i (s.jobs i) := rfl
theorem abs_tokDeps (t : Nat) : (abs ad s).tokDeps t = (s.tokDeps t).filter (keepP ad) := rfl
theorem abs_jobDeps (o : Nat) : (abs ad s).jobDeps o = (s.jobDeps o).filter (keepP ad) := rfl
end basic

theorem absRec_na {ad : Nat → Bool} {i : Nat} (h : ad i = false) (jb : Job) : absRec ad i jb = jb := by
  simp [absRec, h]
theorem absRec_ad {ad : Nat → Bool} {i : Nat} (h : ad i = true) (jb : Job) : absRec ad i jb = absJob jb := by
  simp [absRec, h]

theorem abs_jobs_na {ad : Nat → Bool} {i : Nat} (h : ad i = false) (s : St) : (abs ad s).jobs i = s.jobs i := by
  rw [abs_jobs, absRec_na h]
theorem abs_jobs_ad {ad : Nat → Bool} {i : Nat} (h : ad i = true) (s : St) : (abs ad s).jobs i = absJob (s.jobs i) := by
  rw [abs_jobs, absRec_ad h]

@[simp] theorem absRec_state (ad : Nat → Bool) (i : Nat) (jb : Job) : (absRec ad i jb).state = jb.state := by
  unfold absRec; split <;> rfl
@[simp] theorem absRec_pc (ad : Nat → Bool) (i : Nat) (jb : Job) : (absRec ad i jb).pc = jb.pc := by
  unfold absRec; split <;> rfl
@[simp] theorem absRec_ident (ad : Nat → Bool) (i : Nat) (jb : Job) : (absRec ad i jb).ident = jb.ident := by
  unfold absRec; split <;> rfl
@[simp] theorem absRec_code (ad : Nat → Bool) (i : Nat) (jb : Job) : (absRec ad i jb).code = jb.code := by
  unfold absRec; split <;> rfl

theorem abs_status (ad : Nat → Bool) (s : St) (o : Origin) : (abs ad s).status o = s.status o := by
  cases o with
  | job k => simp only [St.status, abs_jobs, absRec_state]
  | tok t c => rfl

/-! ### `put` -/

theorem abs_put (ad : Nat → Bool) (s : St) (x : Nat) (jb : Job) (cbs : List Cb) (ths : List (TK × Nat)) :
    abs ad (s.put x jb cbs ths) = (abs ad s).put x (absRec ad x jb) (cbs.filter (keepCb ad)) ths := by
  unfold abs St.put
  simp only [List.filter_append]
  congr 1
  funext i
  unfold upd
  split
  · rename_i h; subst h; rfl
  · rfl

theorem abs_put_na {ad : Nat → Bool} {x : Nat} (h : ad x = false) (s : St) (jb : Job) (cbs : List Cb) (ths : List (TK × Nat)) :
    abs ad (s.put x jb cbs ths) = (abs ad s).put x jb (cbs.filter (keepCb ad)) ths := by
  rw [abs_put, absRec_na h]

theorem filter_wake (ad : Nat → Bool) (b : Bool) (x : Nat) :
    (if b = true then [Cb.wake x] else []).filter (keepCb ad) = (if b = true then [Cb.wake x] else []) := by
  cases b <;> simp [keepCb]

/-! ### the primitives on a job that is not adopted -/

theorem abs_check {ad : Nat → Bool} {x : Nat} (h : ad x = false) (fl : Flags) (s : St) (d : Nat) :
    abs ad (s.check fl x d) = (abs ad s).check fl x d := by
  unfold St.check
  simp only [abs_jobs_na h, abs_status]
  rw [abs_put_na h, filter_wake]

theorem abs_finish {ad : Nat → Bool} {x : Nat} (h : ad x = false) (s : St) :
    abs ad (s.finish x) = (abs ad s).finish x := by
  unfold St.finish
  simp only [abs_jobs_na h, abs_failed]
  split
  · rw [abs_put_na h]; rfl
  · rw [abs_put_na h]; rfl

theorem abs_loopHead {ad : Nat → Bool} {x : Nat} (h : ad x = false) (s : St) :
    abs ad (s.loopHead x) = (abs ad s).loopHead x := by
  unfold St.loopHead
  simp only [abs_jobs_na h]
  split
  · exact abs_finish h s
  · split
    · split
      · rw [abs_put_na h]; rfl
      · rw [abs_put_na h]; rfl
    · rw [abs_put_na h]; rfl

theorem abs_regOne {ad : Nat → Bool} {x : Nat} (h : ad x = false) (s : St) (d : Nat) :
    abs ad (regOne s x d) = regOne (abs ad s) x d := by
  unfold regOne
  simp only [abs_jobs_na h]
  split
  · unfold abs; simp only []
    congr 1
    funext o'
    unfold upd
    split
    · simp [List.filter_append, keepP, h]
    · rfl
  · unfold abs; simp only []
    congr 1
    funext o'
    unfold upd
    split
    · simp [List.filter_append, keepP, h]
    · rfl

theorem abs_registerDeps {ad : Nat → Bool} {x : Nat} (h : ad x = false) (fl : Flags) :
    ∀ (k d : Nat) (s : St), abs ad (St.registerDeps fl s x k d) = St.registerDeps fl (abs ad s) x k d := by
  intro k
  induction k with
  | zero => intro d s; rfl
  | succ k ih =>
    intro d s
    rw [registerDeps_succ, registerDeps_succ, ih, abs_check h, abs_regOne h]

def markStep (s : St) (x : Nat) : St :=
  if (s.jobs x).marker then s.put x { (s.jobs x) with state := .done } else s

def prefBody (fl : Flags) (s : St) (x : Nat) : St :=
  let jb := { (s.jobs x) with state := JS.waiting, event := false, sleeping := false }
  let s := s.put x jb
  if jb.deps.isEmpty then s.put x { jb with event := true, state := .ready }
  else St.registerDeps fl (s.put x { jb with unsat := jb.deps.length }) x jb.deps.length 0

theorem startPrefix_eq (fl : Flags) (s : St) (x : Nat) : startPrefix fl s x = markStep (prefBody fl s x) x := rfl

theorem abs_markStep {ad : Nat → Bool} {x : Nat} (h : ad x = false) (s : St) :
    abs ad (markStep s x) = markStep (abs ad s) x := by
  unfold markStep
  rw [abs_jobs_na h]
  split
  · rw [abs_put_na h]; rfl
  · rfl

theorem abs_prefBody {ad : Nat → Bool} {x : Nat} (h : ad x = false) (fl : Flags) (s : St) :
    abs ad (prefBody fl s x) = prefBody fl (abs ad s) x := by
  unfold prefBody
  simp only [abs_jobs_na h]
  split
  · rw [abs_put_na h, abs_put_na h]; rfl
  · rw [abs_registerDeps h, abs_put_na h, abs_put_na h]; rfl

theorem abs_startPrefix {ad : Nat → Bool} {x : Nat} (h : ad x = false) (fl : Flags) (s : St) :
    abs ad (startPrefix fl s x) = startPrefix fl (abs ad s) x := by
  rw [startPrefix_eq, startPrefix_eq, abs_markStep h, abs_prefBody h]

theorem abs_startJob {ad : Nat → Bool} {x : Nat} (h : ad x = false) (fl : Flags) (s : St) :
    abs ad (s.startJob fl x) = (abs ad s).startJob fl x := by
  rw [Restart.startJob_eq, Restart.startJob_eq, abs_loopHead h, abs_startPrefix h]

theorem filter_notify (ad : Nat → Bool) (l : List (Nat × Nat)) :
    (l.map (fun (p : Nat × Nat) => Cb.notifyCheck p.1 p.2)).filter (keepCb ad) =
      (l.filter (keepP ad)).map (fun (p : Nat × Nat) => Cb.notifyCheck p.1 p.2) := by
  induction l with
  | nil => rfl
  | cons p l ih =>
    simp only [List.map_cons, List.filter_cons, keepCb, keepP]
    by_cases hp : (!ad p.1) = true
    · simp only [hp, if_true, List.map_cons, ih]
    · simp only [hp, if_false, ih]; rfl

theorem filter_checks (ad : Nat → Bool) (l : List (Nat × Nat)) :
    (l.map (fun (p : Nat × Nat) => Cb.check p.1 p.2)).filter (keepCb ad) =
      (l.filter (keepP ad)).map (fun (p : Nat × Nat) => Cb.check p.1 p.2) := by
  induction l with
  | nil => rfl
  | cons p l ih =>
    simp only [List.map_cons, List.filter_cons, keepCb, keepP]
    by_cases hp : (!ad p.1) = true
    · simp only [hp, if_true, List.map_cons, ih]
    · simp only [hp, if_false, ih]; rfl

theorem abs_relOne {ad : Nat → Bool} {x : Nat} (h : ad x = false) (s : St) (d : Nat) :
    abs ad (relOne s x d) = relOne (abs ad s) x d := by
  unfold relOne
  simp only [abs_jobs_na h]
  split
  · rfl
  · unfold abs; simp only [List.filter_append, filter_notify]

theorem abs_releaseAll {ad : Nat → Bool} {x : Nat} (h : ad x = false) :
    ∀ (ds : List Nat) (s : St), abs ad (St.releaseAll s x ds) = St.releaseAll (abs ad s) x ds := by
  intro ds
  induction ds with
  | nil =>
    intro s
    simp only [St.releaseAll]
    rw [abs_put_na h, abs_jobs_na h]; rfl
  | cons d ds ih =>
    intro s
    rw [releaseAll_cons, releaseAll_cons, ih, abs_relOne h]

theorem abs_acquireAll {ad : Nat → Bool} {x : Nat} (h : ad x = false) :
    ∀ (k d : Nat) (s : St), abs ad (St.acquireAll s x k d).1 = (St.acquireAll (abs ad s) x k d).1 ∧
      (St.acquireAll s x k d).2 = (St.acquireAll (abs ad s) x k d).2 := by
  intro k
  induction k with
  | zero => intro d s; exact ⟨rfl, rfl⟩
  | succ k ih =>
    intro d s
    cases ho : ((s.jobs x).deps.getD d default).origin with
    | job o =>
      have ho' : (((abs ad s).jobs x).deps.getD d default).origin = .job o := by rw [abs_jobs_na h]; exact ho
      simp only [St.acquireAll, ho, ho']
      have := ih (d + 1) (s.put x { (s.jobs x) with held := (s.jobs x).held ++ [d] })
      rw [abs_put_na h] at this
      rw [abs_jobs_na h]
      exact this
    | tok t c =>
      have ho' : (((abs ad s).jobs x).deps.getD d default).origin = .tok t c := by rw [abs_jobs_na h]; exact ho
      simp only [St.acquireAll, ho, ho', abs_avail]
      by_cases hlt : s.avail t < c
      · simp only [hlt, if_true]; exact ⟨trivial, trivial⟩
      · simp only [hlt, if_false]
        have := ih (d + 1) (({ s with avail := upd s.avail t (s.avail t - c) } : St).put x { (s.jobs x) with held := (s.jobs x).held ++ [d] })
        rw [abs_put_na h] at this
        rw [abs_jobs_na h]
        exact this

theorem abs_abortRelease {ad : Nat → Bool} {x : Nat} (h : ad x = false) (fl : Flags) (s : St) :
    abs ad (abortRelease fl s x) = abortRelease fl (abs ad s) x := by
  unfold abortRelease
  split
  · rw [abs_releaseAll h, abs_jobs_na h]
  · rfl

theorem abs_enterTail {ad : Nat → Bool} {x : Nat} (h : ad x = false) (fl : Flags) (r : St × Option Nat) :
    abs ad (enterTail fl r x) = enterTail fl (abs ad r.1, r.2) x := by
  unfold enterTail
  cases r.2 with
  | some d =>
    simp only []
    rw [abs_put_na h, ← abs_jobs_na h (St.check fl (abortRelease fl r.1 x) x d), abs_check h, abs_abortRelease h]; rfl
  | none =>
    simp only []
    rw [abs_put_na h, ← abs_jobs_na h r.1]; rfl

theorem abs_abortTail {ad : Nat → Bool} {x : Nat} (h : ad x = false) (fl : Flags) (s : St) :
    abs ad (abortTail fl s x) = abortTail fl (abs ad s) x := by
  unfold abortTail
  simp only [abs_jobs_na h]
  rw [abs_loopHead h, abs_put_na h, filter_wake]

theorem abs_codeTail {ad : Nat → Bool} {x : Nat} (h : ad x = false) (s : St) :
    abs ad (codeTail s x) = codeTail (abs ad s) x := by
  unfold codeTail
  rw [abs_finish h, abs_put_na h, abs_jobs_na h]; rfl

theorem filter_waiterRun (ad : Nat → Bool) (b : Prop) [Decidable b] :
    (if b then [Cb.waiterRun] else []).filter (keepCb ad) = (if b then [Cb.waiterRun] else []) := by
  split <;> simp [keepCb]

theorem abs_doneStep (ad : Nat → Bool) (x : Nat) (s : St) :
    abs ad (doneStep s x) = doneStep (abs ad s) x := by
  unfold doneStep
  rw [abs_put]
  have e : absRec ad x { (s.jobs x) with pc := .finished (s.jobs x).state } =
      { ((abs ad s).jobs x) with pc := .finished ((abs ad s).jobs x).state } := by
    rw [abs_jobs]; unfold absRec; split <;> rfl
  rw [e]
  congr 1
  unfold abs
  simp only [List.filter_append, filter_checks, filter_waiterRun, List.filter_nil]

theorem abs_resume {ad : Nat → Bool} {x : Nat} (h : ad x = false) (fl : Flags) (s : St) :
    abs ad (s.resume fl x) = (abs ad s).resume fl x := by
  have hj := abs_jobs_na h s
  cases hp : (s.jobs x).pc with
  | lockEnter =>
    rw [resume_lockEnter fl s x hp, resume_lockEnter fl (abs ad s) x (by rw [hj]; exact hp), abs_enterTail h, hj]
    obtain ⟨e1, e2⟩ := abs_acquireAll h (s.jobs x).deps.length 0 s
    rw [e1, e2]
  | lockExitAbort =>
    rw [resume_lockExitAbort fl s x hp, resume_lockExitAbort fl (abs ad s) x (by rw [hj]; exact hp), abs_abortTail h,
      abs_releaseAll h, hj]
  | lockExitRun =>
    rw [resume_lockExitRun fl s x hp, resume_lockExitRun fl (abs ad s) x (by rw [hj]; exact hp), abs_put_na h, hj]; rfl
  | codeWait =>
    rw [resume_codeWait fl s x hp, resume_codeWait fl (abs ad s) x (by rw [hj]; exact hp), abs_codeTail h,
      abs_releaseAll h, hj]
  | doneHandler =>
    rw [resume_doneHandler fl s x hp, resume_doneHandler fl (abs ad s) x (by rw [hj]; exact hp), abs_doneStep]
  | none => rw [resume_other fl s x (by simp [hp, pcKind]), resume_other fl (abs ad s) x (by simp [hj, hp, pcKind])]
  | created => rw [resume_other fl s x (by simp [hp, pcKind]), resume_other fl (abs ad s) x (by simp [hj, hp, pcKind])]
  | evtWait => rw [resume_other fl s x (by simp [hp, pcKind]), resume_other fl (abs ad s) x (by simp [hj, hp, pcKind])]
  | finished r => rw [resume_other fl s x (by simp [hp, pcKind]), resume_other fl (abs ad s) x (by simp [hj, hp, pcKind])]

theorem abs_register (ad : Nat → Bool) (fl : Flags) (s : St) (j : Nat) :
    abs ad (s.register fl j) = (abs ad s).register fl j := by
  unfold St.register
  simp only [abs_jobs, absRec_ident, absRec_state, abs_registry]
  split
  · split
    · split <;> rfl
    · rfl
  · rfl

theorem abs_waiterRun (ad : Nat → Bool) (s : St) : abs ad s.waiterRun = (abs ad s).waiterRun := by
  unfold St.waiterRun
  simp only [abs_unfinished, abs_failed]
  by_cases hu : s.unfinished = 0
  · simp only [hu, if_true]; rfl
  · simp only [hu, if_false]; rfl

theorem abs_wake {ad : Nat → Bool} {x : Nat} (h : ad x = false) (fl : Flags) (s : St) :
    abs ad (s.runCb fl (.wake x)) = (abs ad s).runCb fl (.wake x) := by
  simp only [St.runCb, abs_jobs_na h]
  split
  · rw [abs_put_na h]; rfl
  · rw [abs_loopHead h, abs_put_na h]; rfl

/-- the job a callback acts on. -/
def cbJob : Cb → Option Nat
  | .start j | .wake j | .resume j | .check j _ | .notifyCheck j _ => some j
  | _ => none

/-- **commutation**: a callback that acts on a job that is not adopted does the same on the abstract state. -/
theorem abs_runCb {ad : Nat → Bool} (fl : Flags) (s : St) (cb : Cb) (h : ∀ x, cbJob cb = some x → ad x = false) :
    abs ad (s.runCb fl cb) = (abs ad s).runCb fl cb := by
  cases cb with
  | register j => exact abs_register ad fl s j
  | start j => exact abs_startJob (h j rfl) fl s
  | wake j => exact abs_wake (h j rfl) fl s
  | resume j => exact abs_resume (h j rfl) fl s
  | check j d => exact abs_check (h j rfl) fl s d
  | notifyCheck j d =>
    have hj := h j rfl
    simp only [St.runCb, abs_jobs_na hj, abs_avail]
    split
    · split
      · rename_i hpos; simp only [hpos, if_true]; exact abs_check hj fl s d
      · rename_i hpos; simp only [hpos, if_false]
    · exact abs_check hj fl s d
  | waiterRun => exact abs_waiterRun ad s

/-! ### an adopted job: its bookkeeping is invisible -/

theorem put_put (s : St) (x : Nat) (a b : Job) (cbs : List Cb) (ths : List (TK × Nat)) :
    (s.put x a [] []).put x b cbs ths = s.put x b cbs ths := by
  unfold St.put
  simp only [List.append_nil]
  congr 1
  funext i; unfold upd; split <;> rfl

theorem put_self' (s : St) (x : Nat) (jb : Job) (h : s.jobs x = jb) : s.put x jb [] [] = s := by
  subst h; exact Restart.put_self s x

theorem abs_put_ad {ad : Nat → Bool} {x : Nat} (h : ad x = true) (s : St) (jb : Job) (cbs : List Cb) (ths : List (TK × Nat)) :
    abs ad (s.put x jb cbs ths) = (abs ad s).put x (absJob jb) (cbs.filter (keepCb ad)) ths := by
  rw [abs_put, absRec_ad h]

theorem depChanged_awake (fl : Flags) (jb : Job) (d : Nat) (st : DS) (h : jb.sleeping = false) :
    (depChanged fl jb d st).2 = false ∧ (depChanged fl jb d st).1.sleeping = false := by
  unfold depChanged eventSet
  simp only []
  split
  · exact ⟨rfl, h⟩
  · split <;> split <;> (try split) <;> (try split) <;> (try split) <;> (try split) <;> simp_all

theorem abs_regOne_ad {ad : Nat → Bool} {x : Nat} (h : ad x = true) (s : St) (d : Nat) :
    abs ad (regOne s x d) = abs ad s := by
  unfold regOne
  split
  · unfold abs; simp only []
    congr 1
    funext o'
    unfold upd
    split
    · rename_i e; subst e; simp [List.filter_append, keepP, h]
    · rfl
  · unfold abs; simp only []
    congr 1
    funext o'
    unfold upd
    split
    · rename_i e; subst e; simp [List.filter_append, keepP, h]
    · rfl

theorem regOne_jobs (s : St) (x d : Nat) : (regOne s x d).jobs = s.jobs := by
  unfold regOne; split <;> rfl

/-- the abstract states agree except for the record of `x`. -/
def EqX (x : Nat) (t t' : St) : Prop := t' = t.put x (t'.jobs x) [] []

theorem EqX.refl (x : Nat) (t : St) : EqX x t t := (Restart.put_self t x).symm

theorem EqX.trans {x : Nat} {a b c : St} (h1 : EqX x a b) (h2 : EqX x b c) : EqX x a c := by
  unfold EqX at *
  rw [h1] at h2
  rw [put_put] at h2
  exact h2

theorem eqX_put {ad : Nat → Bool} {x : Nat} (h : ad x = true) (s : St) (jb : Job) :
    EqX x (abs ad s) (abs ad (s.put x jb)) := by
  unfold EqX
  rw [abs_put_ad h]
  simp only [List.filter_nil, put_jobs, SchedFinal.upd_same]

theorem eqX_check {ad : Nat → Bool} {x : Nat} (h : ad x = true) (fl : Flags) (s : St) (d : Nat)
    (hs : (s.jobs x).sleeping = false) : EqX x (abs ad s) (abs ad (s.check fl x d)) := by
  unfold St.check
  have hw := (depChanged_awake fl (s.jobs x) d (s.status ((s.jobs x).deps.getD d default).origin) hs).1
  simp only [hw]
  exact eqX_put h s _

theorem check_sleeping (fl : Flags) (s : St) (x d : Nat) (hs : (s.jobs x).sleeping = false) :
    ((s.check fl x d).jobs x).sleeping = false := by
  unfold St.check
  simp only [put_jobs, SchedFinal.upd_same]
  exact (depChanged_awake fl (s.jobs x) d _ hs).2

theorem eqX_registerDeps {ad : Nat → Bool} {x : Nat} (h : ad x = true) (fl : Flags) :
    ∀ (k d : Nat) (s : St), (s.jobs x).sleeping = false →
      EqX x (abs ad s) (abs ad (St.registerDeps fl s x k d)) ∧ ((St.registerDeps fl s x k d).jobs x).sleeping = false := by
  intro k
  induction k with
  | zero => intro d s hs; exact ⟨EqX.refl x _, hs⟩
  | succ k ih =>
    intro d s hs
    rw [registerDeps_succ]
    have hs1 : ((regOne s x d).jobs x).sleeping = false := by rw [regOne_jobs]; exact hs
    have h1 := eqX_check h fl (regOne s x d) d hs1
    rw [abs_regOne_ad h] at h1
    obtain ⟨h2, h3⟩ := ih (d + 1) _ (check_sleeping fl _ x d hs1)
    exact ⟨h1.trans h2, h3⟩

theorem eqX_startPrefix {ad : Nat → Bool} {x : Nat} (h : ad x = true) (fl : Flags) (s : St) :
    EqX x (abs ad s) (abs ad (startPrefix fl s x)) := by
  rw [startPrefix_eq]
  have hb : EqX x (abs ad s) (abs ad (prefBody fl s x)) := by
    unfold prefBody
    simp only []
    split
    · exact (eqX_put h s _).trans (eqX_put h _ _)
    · refine ((eqX_put h s _).trans (eqX_put h _ _)).trans (eqX_registerDeps h fl _ _ _ ?_).1
      simp
  refine hb.trans ?_
  unfold markStep
  split
  · exact eqX_put h _ _
  · exact EqX.refl x _

/-- entries and pending checks of job `x`: there are none. -/
structure NoRef (s : St) (x : Nat) : Prop where
  tok : ∀ t p, p ∈ s.tokDeps t → p.1 ≠ x
  job : ∀ o p, p ∈ s.jobDeps o → p.1 ≠ x
  chk : ∀ d, Cb.check x d ∉ s.ready ∧ Cb.notifyCheck x d ∉ s.ready

theorem filter_congr' {α : Type} (p q : α → Bool) (l : List α) (h : ∀ a ∈ l, p a = q a) : l.filter p = l.filter q := by
  induction l with
  | nil => rfl
  | cons a l ih =>
    simp only [List.filter_cons, h a (List.mem_cons_self ..)]
    rw [ih (fun b hb => h b (List.mem_cons_of_mem _ hb))]

/-- adopting a job to which nothing refers changes the abstract state in its record only. -/
theorem abs_upd_ad (ad : Nat → Bool) (s : St) (x : Nat) (hn : NoRef s x) :
    EqX x (abs ad s) (abs (upd ad x true) s) := by
  unfold EqX abs St.put
  simp only [List.append_nil]
  congr 1
  · funext i
    unfold upd absRec
    by_cases hi : i = x
    · subst hi; simp
    · simp [hi]
  · funext t
    apply filter_congr'
    intro p hp
    have := hn.tok t p hp
    simp [keepP, upd, this]
  · funext o
    apply filter_congr'
    intro p hp
    have := hn.job o p hp
    simp [keepP, upd, this]
  · apply filter_congr'
    intro cb hcb
    cases cb with
    | check j d =>
      have : j ≠ x := by intro e; subst e; exact (hn.chk d).1 hcb
      simp [keepCb, upd, this]
    | notifyCheck j d =>
      have : j ≠ x := by intro e; subst e; exact (hn.chk d).2 hcb
      simp [keepCb, upd, this]
    | _ => rfl

theorem startPrefix_const (fl : Flags) (s : St) (x : Nat) :
    ((startPrefix fl s x).jobs x).ident = (s.jobs x).ident ∧ ((startPrefix fl s x).jobs x).code = (s.jobs x).code := by
  have hF : Frame s (s.startJob fl x) x := startJob_frame fl s x
  rw [Restart.startJob_eq] at hF
  have hL := loopHead_frame (startPrefix fl s x) x
  have key : SameConst (s.jobs x) ((startPrefix fl s x).jobs x) := by
    rw [startPrefix_eq]
    have hb : SameConst (s.jobs x) ((prefBody fl s x).jobs x) := by
      unfold prefBody
      simp only []
      split
      · simp only [put_jobs, SchedFinal.upd_same]; exact ⟨rfl, rfl, rfl, rfl⟩
      · have := (registerDeps_frame fl ((s.put x { (s.jobs x) with state := JS.waiting, event := false, sleeping := false }).put x
            { (s.jobs x) with state := JS.waiting, event := false, sleeping := false, unsat := (s.jobs x).deps.length }) x
            (s.jobs x).deps.length 0).2.2.2.2.2
        simp only [put_jobs, SchedFinal.upd_same] at this
        exact SameConst.trans ⟨rfl, rfl, rfl, rfl⟩ this
    unfold markStep
    split
    · simp only [put_jobs, SchedFinal.upd_same]; exact hb.trans ⟨rfl, rfl, rfl, rfl⟩
    · exact hb
  exact ⟨key.1, key.2.1⟩

/-- the abstract record of a job that has just been adopted. -/
def adoptRec (jb : Job) : Job :=
  { ident := jb.ident, deps := [], code := jb.code, marker := false, state := .running, unsat := 0, event := false,
    sleeping := false, pc := .codeWait, held := [], launches := 1, failedDep := false }

/-- **the adoption step on the abstract state**: the job is at `codeWait`, launched, without dependencies. -/
theorem abs_adopt (ad : Nat → Bool) (fl : Flags) (s : St) (x : Nat) (lk : Look) (hl : lk.adopt = true) (hn : NoRef s x) :
    abs (upd ad x true) (startJobA fl s x lk) = (abs ad s).put x (adoptRec (s.jobs x)) [] [(.code, x)] := by
  have hx : upd ad x true x = true := by simp [upd]
  unfold startJobA
  simp only [hl, if_true]
  rw [abs_put_ad hx]
  have h1 := abs_upd_ad ad s x hn
  have h2 := eqX_put hx s { (s.jobs x) with marker := lk.marker }
  have h3 := eqX_startPrefix hx fl (s.put x { (s.jobs x) with marker := lk.marker })
  have h4 := (h1.trans h2).trans h3
  unfold EqX at h4
  rw [h4, put_put]
  obtain ⟨c1, c2⟩ := startPrefix_const fl (s.put x { (s.jobs x) with marker := lk.marker }) x
  simp only [put_jobs, SchedFinal.upd_same] at c1 c2
  simp only [List.filter_nil]
  congr 1
  unfold absJob adoptRec
  simp only [c1, c2]

/-! ### the dropped callbacks, and the last segments of an adopted job -/

theorem depChanged_inert (fl : Flags) (hg : fl.readyGuarded = true) (jb : Job) (d : Nat) (st : DS)
    (hw : jb.state ≠ .waiting) (hf : st = .fail → jb.state.finished = true) :
    (depChanged fl jb d st).2 = false ∧ (depChanged fl jb d st).1.state = jb.state ∧
    (depChanged fl jb d st).1.pc = jb.pc ∧ (depChanged fl jb d st).1.ident = jb.ident ∧
    (depChanged fl jb d st).1.code = jb.code ∧ (depChanged fl jb d st).1.held = jb.held ∧
    (depChanged fl jb d st).1.sleeping = jb.sleeping ∧ (depChanged fl jb d st).1.launches = jb.launches := by
  have h1 : ¬ (st = .fail ∧ (!jb.state.finished) = true) := by
    intro ⟨a, b⟩; have := hf a; simp [this] at b
  have h2 : ∀ u : Int, ¬ (u = 0 ∧ ((!fl.readyGuarded) = true ∨ jb.state = .waiting)) := by
    intro u ⟨_, b⟩; rcases b with b | b
    · simp [hg] at b
    · exact hw b
  unfold depChanged
  simp only []
  split
  · simp
  · simp only [h1, h2, if_false]
    simp

theorem absJob_congr {a b : Job} (h1 : b.ident = a.ident) (h2 : b.code = a.code) (h3 : b.state = a.state) (h4 : b.pc = a.pc) :
    absJob b = absJob a := by
  unfold absJob; rw [h1, h2, h3, h4]

/-- a `check` of a dependency of an adopted job that is RUNNING or final is invisible. -/
theorem abs_check_ad {ad : Nat → Bool} {x : Nat} (h : ad x = true) (fl : Flags) (hg : fl.readyGuarded = true) (s : St) (d : Nat)
    (hw : (s.jobs x).state ≠ .waiting)
    (hf : s.status ((s.jobs x).deps.getD d default).origin = .fail → (s.jobs x).state.finished = true) :
    abs ad (s.check fl x d) = abs ad s := by
  unfold St.check
  obtain ⟨e1, e2, e3, e4, e5, -⟩ := depChanged_inert fl hg (s.jobs x) d _ hw hf
  simp only [e1]
  rw [abs_put_ad h, absJob_congr e4 e5 e2 e3]
  exact put_self' _ _ _ (abs_jobs_ad h s)

theorem abs_notifyCheck_ad {ad : Nat → Bool} {x : Nat} (h : ad x = true) (fl : Flags) (hg : fl.readyGuarded = true) (s : St) (d : Nat)
    (hw : (s.jobs x).state ≠ .waiting)
    (hf : s.status ((s.jobs x).deps.getD d default).origin = .fail → (s.jobs x).state.finished = true) :
    abs ad (s.runCb fl (.notifyCheck x d)) = abs ad s := by
  simp only [St.runCb]
  split
  · split
    · exact abs_check_ad h fl hg s d hw hf
    · rfl
  · exact abs_check_ad h fl hg s d hw hf

theorem absRec_with_pc (ad : Nat → Bool) (x : Nat) (jb : Job) (p : PC) :
    absRec ad x { jb with pc := p } = { (absRec ad x jb) with pc := p } := by
  unfold absRec; split <;> rfl
theorem absRec_with_state (ad : Nat → Bool) (x : Nat) (jb : Job) (p : JS) :
    absRec ad x { jb with state := p } = { (absRec ad x jb) with state := p } := by
  unfold absRec; split <;> rfl

theorem abs_finish' (ad : Nat → Bool) (x : Nat) (s : St) : abs ad (s.finish x) = (abs ad s).finish x := by
  unfold St.finish
  simp only []
  have hc : (((abs ad s).jobs x).state ≠ .done ∧ (!(abs ad s).failed.contains ((abs ad s).jobs x).ident) = true) ↔
      ((s.jobs x).state ≠ .done ∧ (!s.failed.contains (s.jobs x).ident) = true) := by
    rw [abs_jobs, absRec_state, absRec_ident, abs_failed]
  by_cases h : (s.jobs x).state ≠ .done ∧ (!s.failed.contains (s.jobs x).ident) = true
  · rw [if_pos h, if_pos (hc.mpr h), abs_put, absRec_with_pc]
    congr 1
    unfold abs; simp only [absRec_ident]
  · rw [if_neg h, if_neg (fun h' => h (hc.mp h')), abs_put, absRec_with_pc]
    rfl

theorem abs_codeTail' (ad : Nat → Bool) (x : Nat) (s : St) : abs ad (codeTail s x) = codeTail (abs ad s) x := by
  unfold codeTail
  rw [abs_finish', abs_put, absRec_with_state]
  simp only [abs_jobs, absRec_code, List.filter_nil]

theorem abs_releaseNil (ad : Nat → Bool) (x : Nat) (s : St) :
    abs ad (St.releaseAll s x []) = St.releaseAll (abs ad s) x [] := by
  simp only [St.releaseAll]
  rw [abs_put]
  congr 1
  rw [abs_jobs]
  unfold absRec; split <;> rfl

/-- the segments of an adopted job after `codeWait` are those of the abstract job. -/
theorem abs_resume_ad {ad : Nat → Bool} {x : Nat} (h : ad x = true) (fl : Flags) (s : St) (hh : (s.jobs x).held = [])
    (hp : (s.jobs x).pc = .codeWait ∨ (s.jobs x).pc = .doneHandler) :
    abs ad (s.resume fl x) = (abs ad s).resume fl x := by
  have hj : ((abs ad s).jobs x).pc = (s.jobs x).pc := by rw [abs_jobs, absRec_pc]
  rcases hp with hp | hp
  · rw [resume_codeWait fl s x hp, resume_codeWait fl (abs ad s) x (by rw [hj]; exact hp), abs_codeTail', hh]
    have : ((abs ad s).jobs x).held = [] := by rw [abs_jobs_ad h]; rfl
    rw [this, abs_releaseNil]
  · rw [resume_doneHandler fl s x hp, resume_doneHandler fl (abs ad s) x (by rw [hj]; exact hp), abs_doneStep]

end XpmVerif.RestartAbs
