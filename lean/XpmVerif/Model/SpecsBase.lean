/-! M8 (base): records of `launcherfinder/specs.py`.  Import-free, executable.
    The decision functions over these records are *generated* from the Python
    source (`Generated/Specs.lean`); the hand-written rest is in `Model/Specs.lean`. -/
namespace XpmVerif.Specs

/-- `CudaSpecification` (the `model` string takes no part in any decision). -/
structure Cuda where
  memory : Nat
  minMemory : Nat := 0
  deriving Repr, DecidableEq, Inhabited

/-- `CPUSpecification` (only `memory` and `cores` are read by `match`). -/
structure Cpu where
  memory : Nat := 0
  cores : Nat := 0
  deriving Repr, DecidableEq, Inhabited

/-- `HostSpecification`. -/
structure Host where
  cuda : List Cuda := []
  cpu : Cpu := {}
  priority : Int := 0
  maxDuration : Nat := 0
  minGpu : Nat := 0
  deriving Repr, DecidableEq, Inhabited

/-- value of a `HostSimpleRequirement`. -/
structure Req where
  gpus : List Cuda := []
  cpu : Cpu := {}
  duration : Nat := 0
  deriving Repr, DecidableEq, Inhabited

/-- which function `__and__` / `__mul__` use to duplicate `self` before mutating the duplicate. -/
inductive CopyKind where
  | shallow | deep
  deriving Repr, DecidableEq

end XpmVerif.Specs
