import XpmVerif.Model.Sched
namespace XpmVerif.Sched

def tokCount (o : Origin) (t : Nat) : Nat :=
  match o with
  | .tok t' c => if t' = t then c else 0
  | .job _ => 0

def sumTok (deps : List Dep) (ds : List Nat) (t : Nat) : Nat :=
  (ds.map (fun d => tokCount (deps.getD d default).origin t)).sum

def heldTok (jb : Job) (t : Nat) : Nat := sumTok jb.deps jb.held t

def request (jb : Job) (t : Nat) : Nat := (jb.deps.map (fun d => tokCount d.origin t)).sum

def sumTo : Nat → (Nat → Nat) → Nat
  | 0, _ => 0
  | n + 1, f => sumTo n f + f n

theorem sumTo_congr {n : Nat} {f g : Nat → Nat} (h : ∀ i, i < n → f i = g i) : sumTo n f = sumTo n g := by
  induction n with
  | zero => rfl
  | succ n ih =>
    simp only [sumTo]
    rw [ih (fun i hi => h i (by omega)), h n (by omega)]

theorem sumTo_upd {n : Nat} {f : Nat → Nat} {j : Nat} {v : Nat} (hj : j < n) :
    sumTo n (upd f j v) + f j = sumTo n f + v := by
  induction n with
  | zero => omega
  | succ n ih =>
    simp only [sumTo]
    by_cases h : j = n
    · subst h
      have : sumTo j (upd f j v) = sumTo j f := sumTo_congr (fun i hi => by simp [upd]; omega)
      simp [this, upd]; omega
    · have := ih (by omega)
      have h2 : upd f j v n = f n := by simp [upd]; omega
      omega

theorem sumTo_le {n : Nat} {f g : Nat → Nat} (h : ∀ i, i < n → f i ≤ g i) : sumTo n f ≤ sumTo n g := by
  induction n with
  | zero => simp [sumTo]
  | succ n ih =>
    simp only [sumTo]
    have := ih (fun i hi => h i (by omega))
    have := h n (by omega)
    omega

theorem sumTok_range (deps : List Dep) (t : Nat) :
    sumTok deps (List.range deps.length) t = (deps.map (fun d => tokCount d.origin t)).sum := by
  unfold sumTok
  congr 1
  apply List.ext_getElem
  · simp
  · intro i h1 h2
    simp at h1
    simp [List.getD, h1]

theorem sumTok_append (deps : List Dep) (a b : List Nat) (t : Nat) :
    sumTok deps (a ++ b) t = sumTok deps a t + sumTok deps b t := by
  simp [sumTok]

theorem sumTok_congr {deps deps' : List Dep} (h : deps'.map (·.origin) = deps.map (·.origin)) (ds : List Nat) (t : Nat) :
    sumTok deps' ds t = sumTok deps ds t := by
  unfold sumTok
  congr 1
  apply List.map_congr_left
  intro d _
  have : (deps'.getD d default).origin = (deps.getD d default).origin := by
    have h1 : (deps'.map (·.origin)).getD d default = (deps.map (·.origin)).getD d default := by rw [h]
    simp only [List.getD, List.getElem?_map] at h1 ⊢
    have hd : (default : Dep).origin = (default : Origin) := rfl
    cases h2 : deps'[d]? <;> cases h3 : deps[d]? <;> simp_all
  rw [this]

/-! ### counting pending continuations -/
def nS (l : List Cb) (j : Nat) : Nat := l.countP (fun cb => decide (cb = .start j))
def nW (l : List Cb) (j : Nat) : Nat := l.countP (fun cb => decide (cb = .wake j))
def nR (l : List Cb) (j : Nat) : Nat := l.countP (fun cb => decide (cb = .resume j))
def nT (l : List (TK × Nat)) (j : Nat) : Nat := l.countP (fun p => decide (p.2 = j))

@[simp] theorem nS_nil (j) : nS [] j = 0 := rfl
@[simp] theorem nW_nil (j) : nW [] j = 0 := rfl
@[simp] theorem nR_nil (j) : nR [] j = 0 := rfl
@[simp] theorem nT_nil (j) : nT [] j = 0 := rfl
@[simp] theorem nS_cons (c l j) : nS (c :: l) j = nS l j + if c = .start j then 1 else 0 := by
  simp [nS, List.countP_cons]
@[simp] theorem nW_cons (c l j) : nW (c :: l) j = nW l j + if c = .wake j then 1 else 0 := by
  simp [nW, List.countP_cons]
@[simp] theorem nR_cons (c l j) : nR (c :: l) j = nR l j + if c = .resume j then 1 else 0 := by
  simp [nR, List.countP_cons]
@[simp] theorem nT_cons (c l j) : nT (c :: l) j = nT l j + if c.2 = j then 1 else 0 := by
  simp [nT, List.countP_cons]
@[simp] theorem nS_append (a b j) : nS (a ++ b) j = nS a j + nS b j := by simp [nS]
@[simp] theorem nW_append (a b j) : nW (a ++ b) j = nW a j + nW b j := by simp [nW]
@[simp] theorem nR_append (a b j) : nR (a ++ b) j = nR a j + nR b j := by simp [nR]
@[simp] theorem nT_append (a b j) : nT (a ++ b) j = nT a j + nT b j := by simp [nT]

/-- callbacks that are not a continuation of a job coroutine. -/
def Cb.inert : Cb → Bool
  | .start _ | .wake _ | .resume _ => false
  | _ => true

theorem nS_inert {l : List Cb} (h : ∀ cb ∈ l, cb.inert = true) (j : Nat) : nS l j = 0 := by
  induction l with
  | nil => rfl
  | cons c l ih =>
    have := h c (by simp)
    simp [ih (fun cb hcb => h cb (by simp [hcb]))]
    intro hc; subst hc; simp [Cb.inert] at this
theorem nW_inert {l : List Cb} (h : ∀ cb ∈ l, cb.inert = true) (j : Nat) : nW l j = 0 := by
  induction l with
  | nil => rfl
  | cons c l ih =>
    have := h c (by simp)
    simp [ih (fun cb hcb => h cb (by simp [hcb]))]
    intro hc; subst hc; simp [Cb.inert] at this
theorem nR_inert {l : List Cb} (h : ∀ cb ∈ l, cb.inert = true) (j : Nat) : nR l j = 0 := by
  induction l with
  | nil => rfl
  | cons c l ih =>
    have := h c (by simp)
    simp [ih (fun cb hcb => h cb (by simp [hcb]))]
    intro hc; subst hc; simp [Cb.inert] at this

theorem nT_eraseIdx (l : List (TK × Nat)) (k : Nat) (a : TK) (i j : Nat) (h : l[k]? = some (a, i)) :
    nT (l.eraseIdx k) j + (if i = j then 1 else 0) = nT l j := by
  induction l generalizing k with
  | nil => simp at h
  | cons c l ih =>
    cases k with
    | zero => simp at h; subst h; simp
    | succ k =>
      simp at h
      have := ih k h
      simp [List.eraseIdx]; omega

/-! ### per-job control-flow facts -/
def PC.res : PC → Bool
  | .lockEnter | .lockExitAbort | .lockExitRun | .codeWait | .doneHandler => true
  | _ => false
def PC.holds : PC → Bool
  | .lockExitAbort | .lockExitRun | .codeWait => true
  | _ => false
def PC.run : PC → Bool
  | .lockExitRun | .codeWait => true
  | _ => false

/-- job record `jb` is consistent with `cs`/`cw`/`cr` pending start/wake/resume continuations. -/
def KJ (jb : Job) (cs cw cr : Nat) : Prop :=
  cs = (if jb.pc = .created then 1 else 0) ∧
  cw = (if jb.pc = .evtWait ∧ jb.sleeping = false then 1 else 0) ∧
  cr = (if jb.pc.res then 1 else 0) ∧
  (jb.sleeping = true → jb.pc = .evtWait) ∧
  (jb.held ≠ [] → jb.pc.holds = true) ∧
  (jb.pc.run = true → jb.held = List.range jb.deps.length) ∧
  (jb.state = .running → jb.pc.run = true)

/-- job whose continuation is being executed (its `pc` is stale). -/
def KF (e1 e2 : Bool) (jb : Job) (cs cw cr : Nat) : Prop :=
  cs = 0 ∧ cw = 0 ∧ cr = 0 ∧ jb.sleeping = false ∧ jb.pc ≠ .none ∧
  (e1 = true → jb.state ≠ .running) ∧ (e2 = true → jb.held = [])

theorem depChanged_held (fl jb d st) : (depChanged fl jb d st).1.held = jb.held := by
  unfold depChanged eventSet; simp only []; repeat' split
  all_goals rfl
theorem depChanged_pc (fl jb d st) : (depChanged fl jb d st).1.pc = jb.pc := by
  unfold depChanged eventSet; simp only []; repeat' split
  all_goals rfl

theorem set_cur_origins (l : List Dep) (d : Nat) (st : DS) :
    (l.set d { (l.getD d default) with cur := st }).map (·.origin) = l.map (·.origin) := by
  apply List.ext_getElem
  · simp
  · intro i h1 h2
    simp at h1
    simp [List.getElem_set]
    intro h; subst h; simp [h1]

theorem depChanged_origins (fl jb d st) :
    (depChanged fl jb d st).1.deps.map (·.origin) = jb.deps.map (·.origin) := by
  unfold depChanged eventSet; simp only []; repeat' split
  all_goals first | rfl | exact set_cur_origins _ _ _

theorem depChanged_len (fl jb d st) : (depChanged fl jb d st).1.deps.length = jb.deps.length := by
  have := congrArg List.length (depChanged_origins fl jb d st)
  simpa using this

theorem depChanged_state (fl jb d st) :
    (depChanged fl jb d st).1.state = jb.state ∨ (depChanged fl jb d st).1.state ≠ .running := by
  unfold depChanged eventSet; simp only []; repeat' split
  all_goals simp_all

theorem depChanged_sl (fl jb d st) :
    ((depChanged fl jb d st).2 = true → jb.sleeping = true ∧ (depChanged fl jb d st).1.sleeping = false) ∧
    ((depChanged fl jb d st).2 = false → (depChanged fl jb d st).1.sleeping = jb.sleeping) := by
  unfold depChanged eventSet; simp only []; repeat' split
  all_goals simp_all

theorem depChanged_KJ (fl jb d st cs cw cr) (h : KJ jb cs cw cr) :
    KJ (depChanged fl jb d st).1 cs (cw + if (depChanged fl jb d st).2 = true then 1 else 0) cr := by
  have hl := depChanged_len fl jb d st
  have hh := depChanged_held fl jb d st
  have hp := depChanged_pc fl jb d st
  have hs := depChanged_state fl jb d st
  have hz := depChanged_sl fl jb d st
  unfold KJ at *
  rw [hl, hh, hp]
  generalize (depChanged fl jb d st) = r at *
  obtain ⟨h1, h2, h3, h4, h5, h6, h7⟩ := h
  refine ⟨h1, ?_, h3, ?_, h5, h6, ?_⟩
  · cases hw : r.2 <;> simp_all
  · cases hw : r.2 <;> simp_all
  · rcases hs with hs | hs
    · rw [hs]; exact h7
    · intro h; exact absurd h hs

theorem depChanged_KF (fl jb d st e2 cs cw cr) (h : KF true e2 jb cs cw cr) :
    KF true e2 (depChanged fl jb d st).1 cs cw cr ∧ (depChanged fl jb d st).2 = false := by
  have hh := depChanged_held fl jb d st
  have hp := depChanged_pc fl jb d st
  have hs := depChanged_state fl jb d st
  have hz := depChanged_sl fl jb d st
  unfold KF at *
  rw [hh, hp]
  generalize (depChanged fl jb d st) = r at *
  obtain ⟨h1, h2, h3, h4, h5, h6, h7⟩ := h
  have hw : r.2 = false := by
    cases hw : r.2
    · rfl
    · simp_all
  refine ⟨⟨h1, h2, h3, ?_, h5, ?_, h7⟩, hw⟩
  · simp_all
  · intro _
    rcases hs with hs | hs
    · rw [hs]; exact h6 rfl
    · exact hs

/-! ### the recursive lock helpers in closed form -/
@[simp] theorem upd_same {α} (f : Nat → α) (j : Nat) (v : α) : upd f j v j = v := by simp [upd]
theorem upd_other {α} (f : Nat → α) (j : Nat) (v : α) (i : Nat) (h : i ≠ j) : upd f j v i = f i := by simp [upd, h]
@[simp] theorem upd_upd {α} (f : Nat → α) (j : Nat) (v w : α) : upd (upd f j v) j w = upd f j w := by
  funext i; by_cases h : i = j <;> simp [upd, h]
@[simp] theorem upd_self {α} (f : Nat → α) (j : Nat) : upd f j (f j) = f := by
  funext i; by_cases h : i = j <;> simp [upd, h]

theorem sumTok_cons (deps : List Dep) (d : Nat) (ds : List Nat) (t : Nat) :
    sumTok deps (d :: ds) t = tokCount (deps.getD d default).origin t + sumTok deps ds t := by
  simp [sumTok]
@[simp] theorem sumTok_nil (deps : List Dep) (t : Nat) : sumTok deps [] t = 0 := rfl
@[simp] theorem tokCount_job (o t : Nat) : tokCount (.job o) t = 0 := rfl

theorem releaseAll_eq (s : St) (j : Nat) (ds : List Nat) :
    ∃ notes : List Cb, (∀ cb ∈ notes, cb.inert = true) ∧
      s.releaseAll j ds =
        ({ s with avail := fun t => s.avail t + (sumTok (s.jobs j).deps ds t : Nat),
                  ready := s.ready ++ notes }).put j { (s.jobs j) with held := [] } := by
  induction ds generalizing s with
  | nil => exact ⟨[], by simp, by simp [St.releaseAll, St.put]⟩
  | cons d ds ih =>
    unfold St.releaseAll
    split
    · next o ho =>
      obtain ⟨notes, hn, he⟩ := ih s
      refine ⟨notes, hn, ?_⟩
      rw [he]
      have : (fun t => s.avail t + (sumTok (s.jobs j).deps (d :: ds) t : Nat)) =
             (fun t => s.avail t + (sumTok (s.jobs j).deps ds t : Nat)) := by
        funext t; rw [sumTok_cons, ho]; simp
      rw [this]
    · next t c ho =>
      let nt : List Cb := (s.tokDeps t).map (fun (p : Nat × Nat) => Cb.notifyCheck p.1 p.2)
      let s1 : St := { s with avail := upd s.avail t (s.avail t + c), ready := s.ready ++ nt }
      obtain ⟨notes, hn, he⟩ := ih s1
      refine ⟨nt ++ notes, ?_, ?_⟩
      · intro cb hcb
        simp [nt] at hcb
        rcases hcb with ⟨a, b, _, rfl⟩ | hcb
        · rfl
        · exact hn cb hcb
      · show s1.releaseAll j ds = _
        rw [he]
        have : (fun t' => s1.avail t' + (sumTok (s1.jobs j).deps ds t' : Nat)) =
             (fun t' => s.avail t' + (sumTok (s.jobs j).deps (d :: ds) t' : Nat)) := by
          funext t'
          show upd s.avail t (s.avail t + c) t' + (sumTok (s.jobs j).deps ds t' : Nat) = _
          rw [sumTok_cons, ho]
          simp only [tokCount, upd]
          by_cases h : t' = t
          · subst h; simp; omega
          · have h' : ¬ t = t' := fun e => h e.symm
            simp [h, h']
        rw [this]
        simp [s1, St.put]

theorem acquireAll_eq (s : St) (j k d : Nat) :
    ∃ (acq : List Nat) (av' : Nat → Int),
      (s.acquireAll j k d).1 =
        ({ s with avail := av' }).put j { (s.jobs j) with held := (s.jobs j).held ++ acq } ∧
      (∀ t, av' t + (sumTok (s.jobs j).deps acq t : Nat) = s.avail t) ∧
      ((∀ t, 0 ≤ s.avail t) → ∀ t, 0 ≤ av' t) ∧
      ((s.acquireAll j k d).2 = none → acq = List.range' d k) := by
  induction k generalizing s d with
  | zero => exact ⟨[], s.avail, by simp [St.acquireAll, St.put], by simp, fun h => h, by simp⟩
  | succ k ih =>
    unfold St.acquireAll
    simp only []
    split
    · next o ho =>
      let s1 : St := s.put j { (s.jobs j) with held := (s.jobs j).held ++ [d] }
      obtain ⟨acq, av', he, h1, h2, h3⟩ := ih s1 (d + 1)
      refine ⟨d :: acq, av', ?_, ?_, h2, ?_⟩
      · show (s1.acquireAll j k (d + 1)).1 = _
        rw [he]; simp [s1, St.put]
      · intro t
        have := h1 t
        simp only [s1, St.put, upd_same] at this
        rw [sumTok_cons, ho]; simp; exact this
      · intro hn
        show d :: acq = List.range' d (k + 1)
        rw [h3 hn]; rfl
    · next t c ho =>
      split
      · exact ⟨[], s.avail, by simp [St.put], by simp, fun h => h, by simp⟩
      · next hlt =>
        let s1 : St := ({ s with avail := upd s.avail t (s.avail t - c) }).put j { (s.jobs j) with held := (s.jobs j).held ++ [d] }
        obtain ⟨acq, av', he, h1, h2, h3⟩ := ih s1 (d + 1)
        refine ⟨d :: acq, av', ?_, ?_, ?_, ?_⟩
        · show (s1.acquireAll j k (d + 1)).1 = _
          rw [he]; simp [s1, St.put]
        · intro t'
          have := h1 t'
          simp only [s1, St.put, upd_same] at this
          rw [sumTok_cons, ho]
          simp only [tokCount, upd] at this ⊢
          by_cases h : t' = t
          · subst h; simp at this ⊢; omega
          · have h' : ¬ t = t' := fun e => h e.symm
            simp [h, h'] at this ⊢; exact this
        · intro hp
          apply h2
          intro t'
          simp only [s1, St.put, upd]
          split
          · omega
          · exact hp t'
        · intro hn
          show d :: acq = List.range' d (k + 1)
          rw [h3 hn]; rfl
end XpmVerif.Sched
