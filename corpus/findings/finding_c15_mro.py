"""C15-N5 — the argument table of a configuration class with several bases is searched depth-first, not along the MRO.

`ObjectType.__initialize__` builds `ChainMap({}, *(tp.arguments for tp in self.parents()))`; `tp.arguments` of a parent is
itself such a ChainMap, so the declarations of the first base *and of everything it inherits* come before those of the second
base.  Python (attribute lookup, `typing.get_type_hints`) follows the MRO.

    class Base(Config):    count: Param[float]; seed: Param[Optional[int]]
    class Fixed(Base):     pass                                   # inherits
    class Logged(Base):    count: Param[str];   seed: Param[int]  # re-declares
    class C(Fixed, Logged): pass                                  # MRO: C, Fixed, Logged, Base

The declared type of `C.count` is `str` and `C.seed` is a required `int` (get_type_hints agrees); the code uses Base's
declarations.  Stand-alone, public API only.  Exit 1 = the defect shows, exit 0 = it does not."""
import logging
import sys
from typing import Optional, get_type_hints

from experimaestro import Config, Param

logging.disable(logging.CRITICAL)


class Base(Config):
    count: Param[float]
    seed: Param[Optional[int]]


class Fixed(Base):
    pass


class Logged(Base):
    count: Param[str]
    seed: Param[int]


class C(Fixed, Logged):
    pass


hints = get_type_hints(C)
assert hints["count"] is str and hints["seed"] is int, hints
bad = []
try:
    c = C(count=1.5)
    if not isinstance(c.count, str):
        bad.append(f"C(count=1.5) stored {c.count!r} in a parameter declared str")
except (TypeError, ValueError):
    pass
try:
    c = C(count="x")
    if c.count != "x":
        bad.append(f"C(count='x') stored {c.count!r}")
except (TypeError, ValueError) as e:
    bad.append(f"C(count='x') (a conforming value) raised {type(e).__name__}: {e}")
try:
    c = C()
    c.seed = None
    bad.append("C().seed = None accepted although seed: Param[int] is required")
except AttributeError:
    pass
for b in bad:
    print("DEFECT:", b)
sys.exit(1 if bad else 0)
