import XpmVerif.Model.SchedReenter
import XpmVerif.Proofs.SchedFail
/-! What one callback does to `failed` (`failedJobs`), in ANY state (no invariant needed: a re-entered experiment object
    starts from the state the earlier use left): nothing, or it ends by `St.finish j` and appends the identifier of `j`,
    which is then in a state other than `done`, with `pc = doneHandler`.  Lifted to whole events and runs (`Micro`). -/
namespace XpmVerif.SchedReenter
open XpmVerif.Sched XpmVerif.SchedFail

/-- the piece of code leaves `failed` alone, or ends by `finish j` from a state with the same `failed`. -/
def FT (s s' : St) : Prop := s'.failed = s.failed ∨ ∃ (s0 : St) (j : Nat), s0.failed = s.failed ∧ s' = s0.finish j

theorem FT.of_eq {s s1 s' : St} (h : s1.failed = s.failed) (f : FT s1 s') : FT s s' := by
  rcases f with f | ⟨s0, j, h0, e⟩
  · exact Or.inl (f.trans h)
  · exact Or.inr ⟨s0, j, h0.trans h, e⟩

@[simp] theorem put_failed (s : St) (j : Nat) (jb : Job) (cbs ths) : (s.put j jb cbs ths).failed = s.failed := rfl

theorem check_failed (fl : Flags) (s : St) (j d : Nat) : (s.check fl j d).failed = s.failed := by
  simp only [St.check, put_failed]

theorem registerDeps_failed (fl : Flags) (j : Nat) : ∀ (k d : Nat) (s : St), (St.registerDeps fl s j k d).failed = s.failed := by
  intro k
  induction k with
  | zero => intro d s; rfl
  | succ k ih =>
    intro d s
    simp only [St.registerDeps]
    split <;> (rw [ih, check_failed])

theorem releaseAll_failed (j : Nat) : ∀ (ds : List Nat) (s : St), (s.releaseAll j ds).failed = s.failed := by
  intro ds
  induction ds with
  | nil => intro s; rfl
  | cons d ds ih =>
    intro s
    simp only [St.releaseAll]
    split <;> rw [ih]

theorem acquireAll_failed (j : Nat) : ∀ (k d : Nat) (s : St), (s.acquireAll j k d).1.failed = s.failed := by
  intro k
  induction k with
  | zero => intro d s; rfl
  | succ k ih =>
    intro d s
    simp only [St.acquireAll]
    split
    · rw [ih]; rfl
    · split
      · rfl
      · rw [ih]; rfl

theorem FT.loopHead (s : St) (j : Nat) : FT s (s.loopHead j) := by
  unfold St.loopHead; simp only
  split
  · exact Or.inr ⟨s, j, rfl, rfl⟩
  · split
    · split <;> exact Or.inl rfl
    · exact Or.inl rfl

theorem FT.startJob (fl : Flags) (s : St) (j : Nat) : FT s (s.startJob fl j) := by
  unfold St.startJob; simp only
  have tail : ∀ s1 : St, s1.failed = s.failed →
      FT s ((if (s1.jobs j).marker then s1.put j { (s1.jobs j) with state := .done } else s1).loopHead j) := by
    intro s1 h1
    split
    · exact FT.of_eq (s1 := s1.put j _) h1 (FT.loopHead _ j)
    · exact FT.of_eq h1 (FT.loopHead _ j)
  split
  · exact tail _ rfl
  · exact tail _ (by rw [registerDeps_failed]; rfl)

theorem FT.resume (fl : Flags) (s : St) (j : Nat) : FT s (s.resume fl j) := by
  simp only [St.resume]
  split
  · have h1 := acquireAll_failed j (s.jobs j).deps.length 0 s
    rcases hacq : s.acquireAll j (s.jobs j).deps.length 0 with ⟨s1, r⟩
    rw [hacq] at h1
    cases r with
    | some d =>
      simp only
      refine Or.inl ?_
      rw [put_failed, check_failed]
      split
      · rw [releaseAll_failed]; exact h1
      · exact h1
    | none => refine Or.inl ?_; simp only [put_failed]; exact h1
  · refine FT.of_eq ?_ (FT.loopHead _ j)
    rw [put_failed, releaseAll_failed]
  · exact Or.inl rfl
  · refine Or.inr ⟨_, j, ?_, rfl⟩
    rw [put_failed, releaseAll_failed]
  · refine Or.inl ?_
    split <;> rfl
  · exact Or.inl rfl

theorem FT.runCb (fl : Flags) (s : St) (cb : Cb) : FT s (s.runCb fl cb) := by
  cases cb with
  | register j => exact Or.inl (by simp only [St.runCb, register_failed])
  | start j => exact FT.startJob fl s j
  | wake j =>
    simp only [St.runCb]
    split
    · exact Or.inl rfl
    · exact FT.of_eq (s1 := s.put j _) rfl (FT.loopHead _ j)
  | resume j => exact FT.resume fl s j
  | check j d => exact Or.inl (check_failed fl s j d)
  | notifyCheck j d =>
    simp only [St.runCb]
    split
    · split
      · exact Or.inl (check_failed fl s j d)
      · exact Or.inl rfl
    · exact Or.inl (check_failed fl s j d)
  | waiterRun =>
    refine Or.inl ?_
    simp only [St.runCb, St.waiterRun]
    split <;> rfl

/-- `finish j` on the records: the identifier appended is the one of `j`, which is not `done` and now has `pc = doneHandler`. -/
theorem finish_char (s0 : St) (j : Nat) :
    ((s0.finish j).jobs j).pc = .doneHandler ∧ ((s0.finish j).jobs j).ident = (s0.jobs j).ident ∧
    ((s0.finish j).jobs j).state = (s0.jobs j).state ∧
    ((s0.finish j).failed = s0.failed ∨
      ((s0.jobs j).state ≠ .done ∧ (s0.finish j).failed = s0.failed ++ [(s0.jobs j).ident])) := by
  refine ⟨?_, ?_, ?_, ?_⟩
  · unfold St.finish; simp only; split <;> simp [St.put, upd]
  · unfold St.finish; simp only; split <;> simp [St.put, upd]
  · unfold St.finish; simp only; split <;> simp [St.put, upd]
  · rw [finish_failed]
    split
    · rename_i h; exact Or.inr ⟨h.1, rfl⟩
    · exact Or.inl rfl

/-- a callback in which a job goes through `finish` in a state other than `done` and is recorded in `failedJobs`. -/
def Finishes (fl : Flags) (t : St) (j : Nat) (x : Nat) : Prop :=
  ((t.step fl).jobs j).pc = .doneHandler ∧ ((t.step fl).jobs j).ident = x ∧ ((t.step fl).jobs j).state ≠ .done ∧
  (t.step fl).failed = t.failed ++ [x]

/-- one callback, any state: `failed` is unchanged or a job finishing in a state other than `done` is appended. -/
theorem step_failed_char (fl : Flags) (s : St) :
    (s.step fl).failed = s.failed ∨ ∃ j x, Finishes fl s j x := by
  have key : ∀ s1 : St, s1.failed = s.failed → ∀ s', FT s1 s' →
      s'.failed = s.failed ∨ ∃ j x, (s'.jobs j).pc = .doneHandler ∧ (s'.jobs j).ident = x ∧ (s'.jobs j).state ≠ .done ∧
        s'.failed = s.failed ++ [x] := by
    intro s1 h1 s' f
    rcases f with f | ⟨s0, j, h0, e⟩
    · exact Or.inl (f.trans h1)
    · obtain ⟨hp, hi, hs, hf⟩ := finish_char s0 j
      subst e
      rcases hf with hf | ⟨hnd, hf⟩
      · exact Or.inl (by rw [hf, h0, h1])
      · exact Or.inr ⟨j, (s0.jobs j).ident, hp, hi, by rw [hs]; exact hnd, by rw [hf, h0, h1]⟩
  unfold Finishes
  unfold St.step
  split
  · exact Or.inl rfl
  · rename_i cb rest hr
    exact key { s with ready := rest } rfl _ (FT.runCb fl _ cb)

theorem step_failed_mono (fl : Flags) (s : St) : ∀ x ∈ s.failed, x ∈ (s.step fl).failed := by
  intro x hx
  rcases step_failed_char fl s with h | ⟨j, y, _, _, _, h⟩
  · rw [h]; exact hx
  · rw [h]; exact List.mem_append_left _ hx

/-! ### runs -/

/-- the micro-steps of a use: a callback of the loop, or something that leaves `failed` alone (delivery of a helper thread,
    start of `wait`, the bookkeeping of a submission).  Every event, hence every run, is made of micro-steps. -/
inductive Micro (fl : Flags) : St → St → Prop where
  | refl (s : St) : Micro fl s s
  | cb {s t : St} : Micro fl s t → Micro fl s (t.step fl)
  | other {s t : St} (t' : St) : Micro fl s t → t'.failed = t.failed → Micro fl s t'

theorem Micro.trans {fl : Flags} {a b c : St} (h1 : Micro fl a b) (h2 : Micro fl b c) : Micro fl a c := by
  induction h2 with
  | refl => exact h1
  | cb _ ih => exact .cb ih
  | other t' _ e ih => exact .other t' ih e

theorem Micro.steps (fl : Flags) : ∀ (k : Nat) (s : St), Micro fl s (St.steps fl s k) := by
  intro k
  induction k with
  | zero => intro s; exact .refl s
  | succ k ih => intro s; exact Micro.trans (.cb (.refl s)) (ih _)

theorem Micro.submitShape (fl : Flags) (s s1 : St) (k : Nat) (h : s1.failed = s.failed) (post : St → St)
    (hp : ∀ u, (post u).failed = u.failed) : Micro fl s (post (St.steps fl s1 k)) :=
  .other _ (Micro.trans (.other s1 (.refl s) h) (Micro.steps fl k s1)) (hp _)

theorem Micro.apply (fl : Flags) (s : St) (ev : Ev) : Micro fl s (s.apply fl ev) := by
  cases ev with
  | submit ident deps code marker =>
    refine Micro.submitShape fl s _ _ ?h
      (fun u => match u.regResult with
        | some (some o) => { u with eff := upd u.eff s.n o }
        | _ => ({ u with eff := upd u.eff s.n s.n }).put s.n { (u.jobs s.n) with pc := .created } [.start s.n])
      (by intro u; split <;> rfl)
    rfl
  | step => exact .cb (.refl s)
  | deliver k =>
    simp only [St.apply]
    split
    · exact .other _ (.refl s) rfl
    · exact .refl s
  | wait => exact .other _ (.refl s) rfl

theorem Micro.run (fl : Flags) : ∀ (evs : List Ev) (s : St), Micro fl s (evs.foldl (St.apply fl) s) := by
  intro evs
  induction evs with
  | nil => intro s; exact .refl s
  | cons e r ih => intro s; exact Micro.trans (Micro.apply fl s e) (ih _)

theorem Micro.mono {fl : Flags} {s s' : St} (h : Micro fl s s') : ∀ x ∈ s.failed, x ∈ s'.failed := by
  induction h with
  | refl => exact fun _ h => h
  | cb _ ih => exact fun x hx => step_failed_mono fl _ x (ih x hx)
  | other t' _ e ih => exact fun x hx => by rw [e]; exact ih x hx

/-- everything in `failed` at the end was there at the start or was appended by a callback of the run in which a job
    finished in a state other than `done`. -/
theorem Micro.failed_char {fl : Flags} {s s' : St} (h : Micro fl s s') :
    ∀ x ∈ s'.failed, x ∈ s.failed ∨ ∃ t j, Micro fl s t ∧ Micro fl (t.step fl) s' ∧ Finishes fl t j x := by
  induction h with
  | refl => exact fun x hx => Or.inl hx
  | @cb t ht ih =>
    intro x hx
    rcases step_failed_char fl t with h | ⟨j, y, hf⟩
    · rw [h] at hx
      rcases ih x hx with h' | ⟨t0, j0, m1, m2, f⟩
      · exact Or.inl h'
      · exact Or.inr ⟨t0, j0, m1, .cb m2, f⟩
    · rw [hf.2.2.2] at hx
      rcases List.mem_append.mp hx with hx | hx
      · rcases ih x hx with h' | ⟨t0, j0, m1, m2, f⟩
        · exact Or.inl h'
        · exact Or.inr ⟨t0, j0, m1, .cb m2, f⟩
      · have : x = y := by simpa using hx
        subst this
        exact Or.inr ⟨t, j, ht, .refl _, hf⟩
  | @other t t' ht e ih =>
    intro x hx
    rw [e] at hx
    rcases ih x hx with h' | ⟨t0, j0, m1, m2, f⟩
    · exact Or.inl h'
    · exact Or.inr ⟨t0, j0, m1, .other t' m2 e, f⟩

end XpmVerif.SchedReenter
