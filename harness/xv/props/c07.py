"""C07 — failures are contained: dependents are cancelled, others still run."""
from .. import common
from . import _sched, c07x_phases

PROP = "C07"
MODULES = ["XpmVerif.Properties.C07", "XpmVerif.Properties.C07Reenter"]
GEN = dict(max_jobs=7, max_tokens=1, resubmit=True, markers=True, fail_p=0.4)
RULE = ('random DAG workloads with many failing jobs (p=0.4), failures delivered before / while / after dependents are submitted, x random schedules + exhaustive schedules of 5 small workloads; monitors: dependents of a failed job are never launched and end in error, jobs without failed ancestor are not cancelled, wait() raises iff some job failed; non-trivial = some dependency and >= 2 out-of-FIFO deliveries')


def prove(ctx):
    # which per-use fields `experiment.__enter__` sets anew (Generated/XpEnterResets.lean; source obligation
    # C07Reenter.enter_resets_source); a shape the AST reader does not find is probed on the real class entered twice
    from ..translate import xpenter
    cache = {}

    def probe(field):
        if "p" not in cache:
            cache["p"] = xpenter.behavioural_probe(common.REPO)
        return cache["p"](field)
    msg = xpenter.generate(common.REPO, common.LEAN, probe=probe)
    ctx.notes.append(f"translator(xpenter): {msg[1]}")
    _sched.prove(ctx, MODULES, extra_msgs=[msg])


def correspond(ctx):
    _sched.run(ctx, PROP, GEN, RULE, 1500, 25000)
    _sched.restart_part(ctx, PROP, ctx.scale(300, 3000))
    # containment needs the edge: a dependent whose upstream task was embedded anywhere in its parameters (direct, list, dict,
    # nested configuration, pre/init task, task output) must have registered the dependency at submission, or a failure of the
    # upstream job cannot cancel it (real dry-run submits, shared with C04's second sentence)
    from . import c04
    c04._deps_part(ctx, ctx.scale(60, 600))
    # the failure that cancels a job may have happened in an earlier experiment of the same program (task objects re-used from
    # one `with experiment(...)` block to the next): real experiments, every sentence of the property per experiment left
    c07x_phases.part(ctx, ctx.scale(240, 4000))


def search(ctx):
    _sched.search(ctx, PROP, GEN)


def run_witness(ctx, finding):
    _sched.run_witness(ctx, PROP, finding)


def replay(ctx, obj):
    rc = 0
    mx = [f for f in obj.get("failures", []) if f["case"].get("engine") == "phases"]
    for f in mx:
        fails = c07x_phases.replay(ctx, f["case"])
        print("replay:", fails[:3] if fails else "no failure on this tree")
        if fails:
            rc = 1
            print(f"VIOLATION property={PROP} replay=(replayed)")
    rest = dict(obj, failures=[f for f in obj.get("failures", []) if f not in mx])
    return max(rc, _sched.replay_events(ctx, PROP, rest))
