import XpmVerif.Proofs.SerialData
import XpmVerif.Generated.SerialFlags
import XpmVerif.Generated.SerialKeys
/-! C12 / C13 — source obligations of the serialiser: theorems about the definitions that
    `harness/xv/translate/serialflags.py` and `harness/xv/translate/serialkeys.py` regenerate from
    `core/objects.py` / `core/serialization.py` on every run (`Generated/SerialFlags.lean`, `Generated/SerialKeys.lean`).
    Each says that the source takes, at one decision point, the decision the model M5 (Model/Serial.lean,
    Model/SerialData.lean) takes — "every member written is read and vice versa", the conditions under which an
    optional member is written, which values of `"type"` exist, in which order `_outputjsonvalue` tests the kind of a
    value.  When the source changes at one of these points the generated definition changes and the theorem no longer
    checks; the check then looks for a failing input (DESIGN §8). -/
namespace XpmVerif.C12Source
open XpmVerif.Ident XpmVerif.Serial

/-- the source writes and restores every meta flag and restores init tasks: the case in which
    `C12.load_serialize_exact` says that nothing is lost (findings F8, F20). -/
theorem source_serial_flags :
    Gen.serialFlags = { metaWriteAll := true, metaReadAll := true, initRestored := true } := by
  decide

/-- **every member written is read and vice versa**: the members of a definition written by `__get_objects__` are
    exactly those read by `load_objects` / `fromParameters`, and exactly those the model's `Def` accounts for. -/
theorem source_def_keys :
    sameKeys Gen.writtenKeys Gen.readKeys = true ∧ sameKeys Gen.writtenKeys defKeysModel = true := by
  decide

/-- the model's writer `mkDef` emits the optional members `pre-tasks`, `init-tasks`, `meta`, `task` exactly under
    `modelGuard` — whatever the `loaded` flag of the configuration and the kind of its class. -/
theorem writer_guards_model (fl : Flags) (lib : List Cls) (sg : SGraph) (n : Nat) (loaded package : Bool) :
    let e := envOf (sg.g.node n) loaded package
    (mkDef fl lib sg n).pre.isSome = modelGuard fl e "pre-tasks" ∧
    (mkDef fl lib sg n).init.isSome = modelGuard fl e "init-tasks" ∧
    (mkDef fl lib sg n).mflag.isSome = modelGuard fl e "meta" ∧
    (mkDef fl lib sg n).task.isSome = modelGuard fl e "task" := by
  have h : ∀ l : List Nat, (optList l).isSome = !l.isEmpty := by
    intro l; cases l <;> rfl
  exact ⟨h _, h _, rfl, rfl⟩

/-- **… and so does the source**: the condition guarding each of these stores in `__get_objects__`, as a function of
    the configuration's task link, meta flag, pre-tasks, init tasks, `loaded` flag and class kind, is the model's
    (a member dropped for some configurations — e.g. the task link of a loaded configuration — makes this fail). -/
theorem source_writer_guards (e : WEnv) :
    Gen.writeGuard e "pre-tasks" = modelGuard Gen.serialFlags e "pre-tasks" ∧
    Gen.writeGuard e "init-tasks" = modelGuard Gen.serialFlags e "init-tasks" ∧
    Gen.writeGuard e "meta" = modelGuard Gen.serialFlags e "meta" ∧
    Gen.writeGuard e "task" = modelGuard Gen.serialFlags e "task" ∧
    Gen.writeGuard e "id" = true ∧ Gen.writeGuard e "module" = true ∧ Gen.writeGuard e "type" = true ∧
    Gen.writeGuard e "typename" = true ∧ Gen.writeGuard e "identifier" = true ∧ Gen.writeGuard e "fields" = true := by
  obtain ⟨loaded, task, mflag, pre, init, package⟩ := e
  cases loaded <;> cases task <;> rcases mflag with _ | _ | _ <;> cases pre <;> cases init <;>
    exact ⟨rfl, rfl, rfl, rfl, rfl, rfl, rfl, rfl, rfl, rfl⟩

/-- a field is written for every argument `xpmvalues()` yields, `None` values included (the model: every `present`
    argument). -/
theorem source_fields_all : Gen.fieldSkipsNone = false := by
  decide

/-- the values of `"type"` written by `_outputjsonvalue` are those `_objectFromParameters` recognises, and those of
    the model (`encJ` / `decJ`). -/
theorem source_type_tags :
    sameKeys Gen.writtenTags Gen.readTags = true ∧ sameKeys Gen.writtenTags typeTagsModel = true := by
  decide

/-- `_outputjsonvalue` distinguishes exactly the kinds of values of the model; the only order between two tests
    that matters — a value can be an `Enum` *and* an `int` / `str` — is the one the source has: plain values first. -/
theorem source_dispatch :
    sameKeys Gen.dispatch dispatchKinds = true ∧ Gen.dispatch.length = dispatchKinds.length ∧
    before Gen.dispatch "scalar" "enum" = true := by
  decide

example : modelGuard ⟨true, true, true⟩ { loaded := true, task := some 3, mflag := some false, pre := [], init := [4], package := true } "task" = true ∧
    modelGuard ⟨true, true, true⟩ { loaded := true, task := some 3, mflag := some false, pre := [], init := [4], package := true } "pre-tasks" = false := by
  decide

end XpmVerif.C12Source
