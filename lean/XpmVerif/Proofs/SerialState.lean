import XpmVerif.Proofs.SerialInst
import XpmVerif.Proofs.SerialValues
/-! Runtime objects made from a saved *value* with several roots
    (`from_state_dict(state, as_instance=True)` / `load(path, as_instance=True)`):
    `loadStateLog` / `fromStateDictInst` applied to what `stateDict` / `serialize` emit. -/
namespace XpmVerif.Serial
open XpmVerif.Ident

/-- `fromParameters(as_instance=True)` = the same `load_objects`, then the executions -/
theorem loadInstanceLog_eq (defs : List Def) (data : JVal) :
    loadInstanceLog defs = loadStateLog defs data ++ (preList defs).map Ev.exec ++ (initList defs).map Ev.exec := rfl

theorem loadStateLog_serialize (fl : Flags) (lib : List Cls) (sg : SGraph) (roots : List Nat) (data : JVal) :
    loadStateLog (serialize fl lib sg roots) data =
      (serialOrder sg.g roots).map Ev.new ++ (serialOrder sg.g roots).flatMap (fillN sg.g) := by
  simp only [loadStateLog, loadObjectsLog, serialize_new, serialize_fill]

theorem not_mem_fillEvents_exec (defs : List Def) (p : Nat) : Ev.exec p ∉ defs.flatMap fillEvents := by
  simp [List.mem_flatMap, fillEvents]

theorem not_mem_fillEvents_body (defs : List Def) (p : Nat) : Ev.body p ∉ defs.flatMap fillEvents := by
  simp [List.mem_flatMap, fillEvents]

/-- nothing is executed on this route, whatever the definitions say -/
theorem loadStateLog_no_exec (defs : List Def) (data : JVal) :
    (∀ p, Ev.exec p ∉ loadStateLog defs data) ∧ (∀ n, Ev.body n ∉ loadStateLog defs data) := by
  refine ⟨fun p => ?_, fun p => ?_⟩
  · simp only [loadStateLog, loadObjectsLog, List.mem_append]
    rintro (h | h)
    · simp at h
    · exact not_mem_fillEvents_exec _ _ h
  · simp only [loadStateLog, loadObjectsLog, List.mem_append]
    rintro (h | h)
    · simp at h
    · exact not_mem_fillEvents_body _ _ h

theorem reach_mono {s1 s2 : Nat → List Nat} (h : ∀ x, ∀ m ∈ s1 x, m ∈ s2 x) {a b : Nat}
    (hr : Reach s1 a b) : Reach s2 a b := by
  induction hr with
  | refl a => exact .refl a
  | step hab _ ih => exact .step (h _ _ hab) ih

theorem argRefs_sub_succAll (g : Graph) (n : Nat) : ∀ m ∈ argRefs (g.node n), m ∈ succAll g n := by
  intro m hm
  simp only [succAll, List.mem_append]
  exact Or.inl (Or.inl (Or.inl hm))

theorem succInst_sub_succAll (g : Graph) (n : Nat) : ∀ m ∈ succInst g n, m ∈ succAll g n := by
  intro m hm
  simp only [succInst, List.mem_append] at hm
  simp only [succAll, List.mem_append]
  rcases hm with (h | h) | h
  · exact Or.inl (Or.inl (Or.inl h))
  · exact Or.inl (Or.inr h)
  · exact Or.inr h

/-- a list without repetition splits around an element in one way only -/
theorem nodup_split_unique (n : Nat) : ∀ (o1 o2 p q : List Nat), (o1 ++ n :: o2).Nodup →
    o1 ++ n :: o2 = p ++ n :: q → o1 = p
  | [], o2, [], q, _, _ => rfl
  | [], o2, b :: p, q, hnd, e => by
    simp only [List.nil_append, List.cons_append, List.cons.injEq] at e
    obtain ⟨rfl, e2⟩ := e
    rw [List.nil_append, List.nodup_cons] at hnd
    exact absurd (by rw [e2]; simp) hnd.1
  | a :: o1, o2, [], q, hnd, e => by
    simp only [List.nil_append, List.cons_append, List.cons.injEq] at e
    obtain ⟨rfl, _⟩ := e
    rw [List.cons_append, List.nodup_cons] at hnd
    exact absurd (by simp) hnd.1
  | a :: o1, o2, b :: p, q, hnd, e => by
    simp only [List.cons_append, List.cons.injEq] at e
    obtain ⟨rfl, e2⟩ := e
    rw [List.cons_append, List.nodup_cons] at hnd
    rw [nodup_split_unique n o1 o2 p q hnd.2 e2]

/-- the serialisation order is a post-order: what a written configuration refers to (values, task link,
    pre-tasks, init tasks) is written before it, unless it leads back to the configuration (a cycle) -/
theorem serialOrder_post (g : Graph) (roots : List Nat) (hwf : WF g) (hr : ∀ r ∈ roots, r < g.size) :
    ∀ x ∈ serialOrder g roots, ∀ m ∈ succAll g x,
      Reach (succAll g) m x ∨ ∃ p q, serialOrder g roots = p ++ x :: q ∧ m ∈ p := by
  obtain ⟨new, seen', e, ok⟩ := serialOrder_dfsOk g roots hwf hr
  intro x hx m hm
  rw [e] at hx ⊢
  rcases ok.post x (ok.exits_perm.mem_iff.1 hx) m hm with h | h | h
  · cases h
  · exact Or.inl h
  · exact Or.inr h

/-- one object per written definition, post-initialised once, after its own fields and after every object of
    the file was created -/
theorem loadStateLog_objects (fl : Flags) (lib : List Cls) (sg : SGraph) (roots : List Nat) (data : JVal)
    (hwf : WF sg.g) (hr : ∀ r ∈ roots, r < sg.g.size) (n : Nat) :
    let order := serialOrder sg.g roots
    let log := loadStateLog (serialize fl lib sg roots) data
    log.count (Ev.new n) = (if n ∈ order then 1 else 0) ∧
    log.count (Ev.init n) = (if n ∈ order then 1 else 0) ∧
    log.count (Ev.postInit n) = (if n ∈ order then 1 else 0) ∧
    (n ∈ order → ∃ l1 l2, log = l1 ++ (Ev.init n :: ((presentNames (sg.g.node n)).map (Ev.set n) ++ [Ev.postInit n])) ++ l2 ∧
        (∀ a, Ev.set n a ∉ l1) ∧ (∀ a, Ev.set n a ∉ l2) ∧ Ev.postInit n ∉ l1 ∧ Ev.postInit n ∉ l2 ∧
        (∀ m ∈ order, Ev.new m ∈ l1) ∧
        (∀ m ∈ succAll sg.g n, Reach (succAll sg.g) m n ∨ Ev.postInit m ∈ l1)) := by
  intro order log
  obtain ⟨hnd, _, _, _⟩ := serialOrder_spec sg.g roots hwf hr
  have hlog : log = order.map Ev.new ++ order.flatMap (fillN sg.g) :=
    loadStateLog_serialize fl lib sg roots data
  have hc := count_of_nodup order n hnd
  refine ⟨?_, ?_, ?_, ?_⟩
  · rw [hlog]
    simp only [List.count_append, count_map_new,
      List.count_eq_zero.2 (not_mem_fill_new sg.g order n)]
    simp [hc]
  · rw [hlog]
    have : (order.map Ev.new).count (Ev.init n) = 0 := List.count_eq_zero.2 (by simp)
    simp only [List.count_append, count_fill_init, this]
    simp [hc]
  · rw [hlog]
    have : (order.map Ev.new).count (Ev.postInit n) = 0 := List.count_eq_zero.2 (by simp)
    simp only [List.count_append, count_fill_postInit, this]
    simp [hc]
  · intro hn
    obtain ⟨o1, o2, e⟩ := List.append_of_mem hn
    have hnd' : (o1 ++ n :: o2).Nodup := e ▸ hnd
    have hn1 : n ∉ o1 := fun h => (List.nodup_append.1 hnd').2.2 n h n List.mem_cons_self rfl
    have hn2 : n ∉ o2 := (List.nodup_cons.1 (List.nodup_append.1 hnd').2.1).1
    have hfl : order.flatMap (fillN sg.g) = o1.flatMap (fillN sg.g) ++ fillN sg.g n ++ o2.flatMap (fillN sg.g) := by
      rw [e]; simp
    have hp : ∀ l : List Nat, n ∉ l → Ev.postInit n ∉ l.flatMap (fillN sg.g) := by
      intro l hl h
      have : (l.flatMap (fillN sg.g)).count (Ev.postInit n) = 0 := by
        rw [count_fill_postInit]; exact List.count_eq_zero.2 hl
      exact List.count_eq_zero.1 this h
    refine ⟨order.map Ev.new ++ o1.flatMap (fillN sg.g), o2.flatMap (fillN sg.g), ?_, ?_, ?_, ?_, ?_, ?_, ?_⟩
    · rw [hlog, hfl]
      simp [fillN, List.append_assoc]
    · intro a
      rw [List.mem_append]
      rintro (h | h)
      · simp at h
      · exact hn1 (mem_fill_set _ _ _ _ h)
    · intro a h
      exact hn2 (mem_fill_set _ _ _ _ h)
    · rw [List.mem_append]
      rintro (h | h)
      · simp at h
      · exact hp o1 hn1 h
    · exact hp o2 hn2
    · intro m hm
      exact List.mem_append_left _ (List.mem_map.2 ⟨m, hm, rfl⟩)
    · intro m hm
      rcases serialOrder_post sg.g roots hwf hr n hn m hm with h | ⟨p, q, e', hp⟩
      · exact Or.inl h
      · have hpo : o1 = p := nodup_split_unique n o1 o2 p q hnd' (e.symm.trans e')
        subst hpo
        refine Or.inr (List.mem_append_right _ ?_)
        have : 0 < (o1.flatMap (fillN sg.g)).count (Ev.postInit m) := by
          rw [count_fill_postInit]; exact List.count_pos_iff.2 hp
        exact List.count_pos_iff.1 this

/-- `instanceValues_serialize` for any list of roots -/
theorem instanceValues_serialize_roots (fl : Flags) (lib : List Cls) (sg : SGraph) (roots : List Nat)
    (hwf : WF sg.g) (hr : ∀ r ∈ roots, r < sg.g.size) :
    instanceValues (serialize fl lib sg roots)
      = .ok ((serialOrder sg.g roots).map
          (fun n => (n, ((sg.g.node n).args.filter present).map (fun a => (a.name, a.value))))) := by
  obtain ⟨_, hiff, _, hcl⟩ := serialOrder_spec sg.g roots hwf hr
  unfold instanceValues
  rw [serialize_ids]
  exact instanceValuesAux_mkDef fl lib sg _ _ hcl

/-- the value returned by `from_state_dict(state_dict(v), as_instance=True)` and the attributes of the objects -/
theorem fromStateDictInst_stateDict (fl : Flags) (lib : List Cls) (sg : SGraph) (v : Val)
    (hwf : WF sg.g) (hr : ∀ r ∈ cfgRefs v, r < sg.g.size) :
    fromStateDictInst (stateDict fl lib sg v)
      = .ok ((serialOrder sg.g (cfgRefs v)).map
          (fun n => (n, ((sg.g.node n).args.filter present).map (fun a => (a.name, a.value)))), v) := by
  obtain ⟨hnd, hiff, _, _⟩ := serialOrder_spec sg.g (cfgRefs v) hwf hr
  have hdec := decJ_encJ (serialOrder sg.g (cfgRefs v)) v
    (fun m hm => (hiff m).2 ⟨m, hm, Reach.refl m⟩)
  simp only [fromStateDictInst, stateDict, serialize_ids, firstDup_none _ hnd,
    instanceValues_serialize_roots fl lib sg (cfgRefs v) hwf hr, hdec]
  rfl

end XpmVerif.Serial
