"""C19 — job filters mean what they say; cleaning commands delete only what is selected.

Tie to the source (all differential, the model is hand-written):
 * filter: generated expression ASTs are rendered to text (random white space / quote style) and given to
   the real `createFilter`; the result is evaluated on real `JobInformation` objects of materialised job
   directories and compared with `evalImpl` of the Lean model (`Drive/C19.lean`);
 * state: `JobInformation.state` of every materialised job vs `stateImpl`;
 * clean / orphans / histories: generated workspace layouts are materialised in temp dirs, the real
   `experimaestro jobs clean` / `experimaestro orphans` commands run through click's CliRunner and the
   surviving directory set (and whether the command raised) is compared with `cleanImpl` / `orphansImpl` /
   `runCmds`.
Monitors (implementation only) state the property in plain Python on the same data: documented meaning of
the filter, removed set = finished ∧ selected ∧ in the experiment ∧ --perform, never a running job,
orphans = stored minus (index ∪ backup), nothing else in the workspace changes.

The model has four switches (`Quirks`) for the defects F14/F17/F21 of the pinned source; which variant the
source shows is *observed* by replaying the findings' own witnesses (`probe_quirks`).  The property
theorems are about the repaired variant, the negative theorems about the pinned one."""
import json
import logging
import os
import random
import re
import shutil
import subprocess
import time
from pathlib import Path

from .. import common
from ..translate import filtersrc as tr_filtersrc

PROP = "C19"
MODULES = ["XpmVerif.Properties.C19", "XpmVerif.Properties.C19Src", "XpmVerif.Properties.C19Links", "XpmVerif.Properties.C19Partial"]
REQUIRED = ["XpmVerif.C19." + n for n in (
    "evalImpl_eq_spec", "clean_exact", "clean_never_running", "clean_noop_without_perform", "orphans_exact",
    "history_safe", "history_noop")] + ["XpmVerif.C19Src." + n for n in (
    "src_state", "src_varGet", "src_atom", "src_logic", "src_summary", "src_compile", "src_eval", "src_cleanFlag",
    "src_removeDecision", "src_xpKey", "src_clean", "src_orphSources", "src_orphDecision", "src_orphans", "src_runCmds",
    "evalSrc_eq_spec", "cleanSrc_exact", "cleanSrc_never_running", "cleanSrc_noop_without_perform", "orphansSrc_exact",
    "historySrc_safe")] + ["XpmVerif.C19Links." + n for n in (
    "clean_exact_links", "clean_never_running_links", "clean_noop_without_perform_links", "orphans_exact_links",
    "orphans_keeps_through_link", "history_safe_links")] + [
    "XpmVerif.C19Partial.clean_removes_only_selected", "XpmVerif.C19Partial.filter_true_is_selected", "XpmVerif.C19Partial.partial_conservative",
    "XpmVerif.C19Src.src_filterRaise", "XpmVerif.C19Src.cleanPSrc_removes_only_selected"]


def _own_findings():
    """local work-around: `common.load_findings` reads the assembled known_findings.json, which only the lead
    regenerates; this check always takes its own entries from the fragment known_findings.d/C19.json"""
    orig = common.load_findings

    def load(prop):
        fs = orig(prop)
        frag = common.VERIF / "known_findings.d" / f"{PROP}.json"
        if prop == PROP and frag.exists():
            own = json.loads(frag.read_text())
            fs = [f for f in fs if f["id"] not in {o["id"] for o in own}] + own
        return fs

    if getattr(orig, "__name__", "") != "load":
        common.load_findings = load


_own_findings()


def prove(ctx):
    """regenerate `Generated/FilterSrc.lean` from the tree under test (pieces outside the translated subset fall back on the
    reference definition chosen by the behavioural probe), then re-check the theorems and the `src_*` obligations"""
    ok, msg, unknown = tr_filtersrc.generate(common.REPO, common.LEAN, probe=lambda: _quirks(ctx))
    ctx.notes.append(f"translator filtersrc: {msg}")
    ctx.extra_cov["translator_pieces"] = {"translated": len(tr_filtersrc.PIECES) - len(unknown), "fallback_on_correspondence": sorted(unknown)}
    common.check_proofs(ctx, MODULES, required=REQUIRED, translate_msgs=[(ok, msg)])


def _quirks(ctx):
    if getattr(ctx, "_q", None) is None:
        ctx._q = probe_quirks(ctx)
    return ctx._q


# ---------------------------------------------------------------- generators

TAGS = ["model", "mode", "lr", "x", "y", "dataset", "orange", "android", "notes"]
VALUES = ["bm25", "tfidf", "a", "b", "", "a b", "0.1", "it's", 'say "hi"', "é", "DONE", "RUNNING", "bm25 ", "BM25", "pkg.mod.task"]
TYPES = ["a.t", "c.t", "c.u", "pkg.mod.task", "other.task", "solo", "deep.er.mod.t"]
IDS = ["0a1", "0b2", "1c3", "2d4", "3e5", "ffff"]
XPS = ["e1", "e2", "exp", "z", "e", "exp-large", "e10", "xp"]   # names that are substrings / prefixes of one another included
PATTERNS = ["bm.*", "^tf", "a|b", ".*", "[0-9.]+$", "DONE|ERROR", r"pkg\..*", "x", "(a|b)$", "bm25", r"\w+ \w+", "[A-Z]+", ".", "RUN", "(?i)bm"]
STATES = ["DONE", "ERROR", "RUNNING"]


def script_of(ty):
    return ty.rsplit(".", 1)[-1]


def gen_var(rng):
    r = rng.random()
    if r < 0.2:
        return "@state"
    if r < 0.3:
        return "@name"
    return rng.choice(TAGS[:6] if rng.random() < 0.85 else TAGS)


def gen_const(rng, var):
    if var == "@state" and rng.random() < 0.85:
        return rng.choice(STATES)
    if var == "@name" and rng.random() < 0.8:
        return rng.choice(TYPES)
    return rng.choice(VALUES[:4] if rng.random() < 0.6 else VALUES)


def gen_atom(rng):
    v = gen_var(rng)
    r = rng.random()
    if r < 0.3:
        return {"k": "eqc", "v": v, "c": gen_const(rng, v)}
    if r < 0.38:
        return {"k": "eqv", "v": v, "w": gen_var(rng)}
    if r < 0.63:
        return {"k": "in", "v": v, "cs": [gen_const(rng, v) for _ in range(rng.choice([1, 1, 2, 3]))]}
    if r < 0.88:
        return {"k": "notin", "v": v, "cs": [gen_const(rng, v) for _ in range(rng.choice([1, 1, 2, 3]))]}
    return {"k": "re", "v": v, "p": rng.choice(PATTERNS)}


def gen_expr(rng, maxlen=4):
    n = rng.choice([1, 1, 2, 2, 3, maxlen])
    return {"first": gen_atom(rng), "rest": [[rng.choice(["and", "or"]), gen_atom(rng)] for _ in range(n - 1)]}


def atoms_of(expr):
    return [expr["first"]] + [a for _, a in expr["rest"]]


def _quote(s, rng):
    if '"' in s:
        return "'" + s + "'"
    if "'" in s:
        return '"' + s + '"'
    return rng.choice(['"', '"', "'"]).join(["", s, ""])


def render_atom(a, rng):
    def ws(min1=False):
        return rng.choice([" ", " ", "  ", "\t", " \n "] if min1 else ["", " ", " ", "  "])

    k = a["k"]
    if k == "eqc":
        return f"{a['v']}{ws()}={ws()}{_quote(a['c'], rng)}"
    if k == "eqv":
        return f"{a['v']}{ws()}={ws()}{a['w']}"
    if k in ("in", "notin"):
        kw = "in" if k == "in" else "not in"
        inner = f"{ws()},{ws()}".join(_quote(c, rng) for c in a["cs"])
        return f"{a['v']}{ws(True)}{kw}{ws()}[{ws()}{inner}{ws()}]"
    return f"{a['v']}{ws()}~{ws()}{_quote(a['p'], rng)}"


def render(expr, rng):
    s = render_atom(expr["first"], rng)
    for op, a in expr["rest"]:
        s += rng.choice([" ", "  ", "\n"]) + op + rng.choice([" ", "  ", "\t"]) + render_atom(a, rng)
    return rng.choice(["", "", " "]) + s + rng.choice(["", "", " "])


def gen_tags(rng):
    tags = {}
    for t in TAGS[:6]:
        if rng.random() < 0.45:
            tags[t] = rng.choice(VALUES[:4] if rng.random() < 0.7 else VALUES)
    if rng.random() < 0.1:
        tags[rng.choice(TAGS[6:])] = rng.choice(VALUES)
    return tags


def gen_job(rng, used):
    for _ in range(50):
        ty, i = rng.choice(TYPES[:4] if rng.random() < 0.7 else TYPES), rng.choice(IDS)
        if (ty, i) not in used:
            break
    else:
        return None
    used.add((ty, i))
    done = rng.random() < 0.4
    failed = rng.random() < 0.35
    pid = rng.random() < 0.4
    alive = pid and rng.random() < 0.55
    return {"ty": ty, "id": i, "done": done, "failed": failed, "pid": pid, "alive": alive, "tags": gen_tags(rng)}


def gen_layout(rng, maxjobs=7):
    used = set()
    jobs = [j for j in (gen_job(rng, used) for _ in range(rng.randint(1, maxjobs))) if j]
    keys = [[j["ty"], j["id"]] for j in jobs]
    xps = []
    for name in rng.sample(XPS, rng.choice([0, 1, 2, 2, 3])):
        def subset(p):
            s = [k for k in keys if rng.random() < p]
            if rng.random() < 0.2:  # a link whose target is gone / not yet created
                s.append([rng.choice(TYPES[:4]), "gone"])
            return s
        xps.append({"name": name, "index": subset(rng.choice([0.2, 0.5, 0.8])),
                    "backup": subset(0.4) if rng.random() < 0.4 else None})
    return {"jobs": jobs, "xps": xps}


def gen_clean_opts(rng, layout):
    names = [x["name"] for x in layout["xps"]]
    experiment = None
    if rng.random() < 0.6:
        experiment = rng.choice(names) if names and rng.random() < 0.9 else "nosuch"
    flt = gen_expr(rng, 3) if rng.random() < 0.65 else None
    return {"experiment": experiment, "filter": flt, "text": render(flt, rng) if flt else None,
            "perform": rng.random() < 0.75, "flags": [f for f in ("--tags", "--fullpath", "--ready") if rng.random() < 0.15]}


def gen_orph_opts(rng):
    return {"clean": rng.random() < 0.8, "ignore_old": rng.random() < 0.3, "flags": ["--show-all"] if rng.random() < 0.2 else []}


# ---------------------------------------------------------------- plain-Python specification (monitors)


def var_get(var, info):
    if var == "@state":
        return info["state"]
    if var == "@name":
        return info["name"]
    return info["tags"].get(var)


def atom_spec(a, info):
    v = var_get(a["v"], info)
    k = a["k"]
    if k == "eqc":
        return v == a["c"]
    if k == "eqv":
        return v == var_get(a["w"], info)
    if k == "in":
        return v is not None and v in a["cs"]
    if k == "notin":
        return not (v is not None and v in a["cs"])
    return bool(v) and re.compile(a["p"]).match(v) is not None


def spec_eval(expr, info):
    acc = atom_spec(expr["first"], info)
    for op, a in expr["rest"]:
        b = atom_spec(a, info)
        acc = (acc and b) if op == "and" else (acc or b)
    return acc


def rx_table(expr, infos):
    """matches computed by `re` for every (pattern, candidate value) of the case"""
    tbl = {}
    for a in atoms_of(expr) if expr else []:
        if a["k"] == "re":
            for info in infos:
                cands = set(STATES) | {info["name"]} | set(info["tags"].values())
                for v in cands:
                    if isinstance(v, str):
                        tbl[(a["p"], v)] = re.compile(a["p"]).match(v) is not None
    return [[p, v, b] for (p, v), b in sorted(tbl.items())]


# ---------------------------------------------------------------- real code adapters

_PIDS = {}


def pids():
    """a pid of a live process (ourselves: the commands under test never signal it) and of a dead one"""
    if not _PIDS:
        p = subprocess.Popen(["true"])
        p.wait()
        _PIDS["dead"] = p.pid
        _PIDS["alive"] = os.getpid()
    return _PIDS


def materialise(ws, layout, links=(), strays=()):
    ws.mkdir(parents=True)
    (ws / ".__experimaestro__").touch()
    (ws / "jobs").mkdir()
    (ws / "xp").mkdir()
    for j in layout["jobs"]:
        write_job(ws, j)
    for ty, name, tty, target in norm_links(links):  # what `deprecated list --fix` leaves: jobs/<ty>/<name> -> jobs/<ty>/<target>
        (ws / "jobs" / ty).mkdir(exist_ok=True)
        (ws / "jobs" / ty / name).symlink_to(ws / "jobs" / tty / target)  # the target may be missing (dangling) or a link (chain)
    for ty, name in strays:  # a plain file where a job directory is expected
        (ws / "jobs" / ty).mkdir(exist_ok=True)
        (ws / "jobs" / ty / name).write_text("not a job directory\n")
    for x in layout["xps"]:
        (ws / "xp" / x["name"]).mkdir()
        for k, entries in (("jobs", x["index"]), ("jobs.bak", x["backup"])):
            if entries is None:
                continue
            (ws / "xp" / x["name"] / k).mkdir()
            for ty, i in entries:
                p = ws / "xp" / x["name"] / k / ty / i
                p.parent.mkdir(parents=True, exist_ok=True)
                if not p.is_symlink():
                    p.symlink_to(ws / "jobs" / ty / i)  # absolute target, as Scheduler.aio_registerJob does


def norm_links(links):
    """[ty, name, target] (same type directory) or [ty, name, target type, target id] -> 4-tuples"""
    return [(l[0], l[1], l[0], l[2]) if len(l) == 3 else tuple(l) for l in links]


def py_resolve(layout, links, key):
    """plain-Python `Path.resolve()` + `is_dir()` on the store entry `key`: the (ty, id) of the directory, or None"""
    store = {(j["ty"], j["id"]) for j in layout["jobs"]}
    lk = {(ty, name): (tty, tid) for ty, name, tty, tid in norm_links(links)}
    key = tuple(key)
    for _ in range(len(lk) + 1):
        if key in store:
            return key
        if key not in lk:
            return None
        key = lk[key]
    return None


def link_keys(ws):
    return sorted(f"{p.parent.name}/{p.name}" for p in (ws / "jobs").glob("*/*") if p.is_symlink())


def gen_links(rng, layout, index_too=True):
    """symbolic links in the job store: fix-style link to a job, chain of links, dangling link, link named by an index"""
    links = []
    if not layout["jobs"]:
        return links
    t = rng.choice(layout["jobs"])
    r = rng.random()
    if r < 0.5:
        links.append([t["ty"], "newid", t["id"]])
    elif r < 0.75:
        links += [[t["ty"], "newid", t["id"]], [t["ty"], "newid2", "newid"]]
    elif r < 0.9:
        links.append([t["ty"], "dangling", "nothing"])
    else:
        t2 = rng.choice(layout["jobs"])
        links += [[t["ty"], "newid", t2["ty"], t2["id"]], [t["ty"], "dangling", "nothing"]]
    if index_too and layout["xps"] and rng.random() < 0.5:
        l = rng.choice(links)
        x = rng.choice(layout["xps"])
        which = "index" if x["backup"] is None or rng.random() < 0.7 else "backup"
        if [l[0], l[1]] not in x[which]:
            x[which].append([l[0], l[1]])
    return links


def write_job(ws, j):
    d = ws / "jobs" / j["ty"] / j["id"]
    d.mkdir(parents=True)
    s = script_of(j["ty"])
    text = json.dumps({"workspace": str(ws), "tags": j["tags"], "objects": []})
    kind = j.get("params", "ok")  # "missing" / "truncated" / "notags": what an interrupted (re-)submission leaves
    if kind == "truncated":
        (d / "params.json").write_text(text[:max(1, len(text) // 2)])
    elif kind == "notags":
        (d / "params.json").write_text(json.dumps({"workspace": str(ws), "objects": []}))
    elif kind != "missing":
        (d / "params.json").write_text(text)
    (d / f"{s}.py").write_text("# script\n")
    if j["done"]:
        (d / f"{s}.done").touch()
    if j["failed"]:
        (d / f"{s}.failed").write_text("1")
    if j["pid"]:
        (d / f"{s}.pid").write_text(json.dumps({"type": "local", "pid": pids()["alive" if j["alive"] else "dead"]}))


def snapshot(ws):
    """every path of the workspace, relative (symlinks not followed)"""
    out = set()
    for root, dirs, files in os.walk(ws, followlinks=False):
        for n in dirs + files:
            out.add(os.path.relpath(os.path.join(root, n), ws))
    return out


def job_keys(ws):
    return sorted(f"{p.parent.name}/{p.name}" for p in (ws / "jobs").glob("*/*") if p.is_dir() and not p.is_symlink())


def exc_name(e):
    return None if e is None else type(e).__name__


def invoke(args):
    from click.testing import CliRunner
    from experimaestro.cli import cli
    import experimaestro.cli.jobs  # noqa: F401  (registers the `jobs` group)

    logging.disable(logging.CRITICAL)
    try:
        res = CliRunner().invoke(cli, args)
    finally:
        logging.disable(logging.NOTSET)
    exc = res.exception
    if isinstance(exc, SystemExit):
        exc = None if res.exit_code == 0 else exc
    return exc


def real_info(ws, j):
    from experimaestro.cli.filter import JobInformation
    return JobInformation((ws / "jobs" / j["ty"] / j["id"]).resolve(), script_of(j["ty"]))


def real_state(ws, j, obj=None):
    try:
        st = (obj or real_info(ws, j)).state
        return None if st is None else st.name
    except Exception as e:  # an outcome for the monitors, not a harness error
        return "raised:" + type(e).__name__


def real_filter(text):
    """-> (function or None, exception name or None)"""
    from experimaestro.cli.filter import createFilter
    try:
        return createFilter(text), None
    except Exception as e:
        return None, type(e).__name__


def real_eval(f, info_obj):
    try:
        return bool(f(info_obj))
    except Exception as e:
        return "raised:" + type(e).__name__


# ---------------------------------------------------------------- monitors (implementation only)


def monitor_state(ctx, j, st, where):
    d, f, p, a = j["done"], j["failed"], j["pid"], j["alive"]
    markers = "+".join(n for n, b in (("done", d), ("failed", f), ("pid", p)) if b) or "none"
    expect = None
    if d:
        expect = "DONE"
    elif f and not p:
        expect = "ERROR"
    elif p and not f:
        expect = "RUNNING"
    elif not f and not p:
        expect = None
    else:  # failed + pid without done: the property only demands that such a job is not removed while its
        return  # process is alive (monitor_clean); which state name is reported is left open
    if st != expect:
        ctx.monitor_fail(f"state:{markers}:{st}", f"job with markers {markers} is reported {st}, expected {expect}",
                         {"kind": "state", "job": j, "where": where})


def is_running(j):
    return j["pid"] and j["alive"] and not j["done"]


def n5_signature(case, opts, raised):
    """the run shows finding C19-N5 and nothing else: `--ready`, an entry of the store that is (or becomes) a non-directory,
    and one of the two exceptions of the READY branch"""
    return raised in ("UnboundLocalError", "AttributeError") and "--ready" in opts.get("flags", []) and bool(case.get("links") or case.get("strays"))


def monitor_clean(ctx, case, ws, layout, opts, before, after, exc, states, fobj, ferr):
    """states: key -> implementation-derived state name before the command"""
    jobs = layout["jobs"]
    remaining = set(job_keys(ws))
    flt = opts["filter"]
    links = case.get("links", [])
    index = {x["name"]: {tuple(k) for k in x["index"]} | ({py_resolve(layout, links, k) for k in x["index"]} - {None}) for x in layout["xps"]}
    store = {(j["ty"], j["id"]) for j in jobs}
    removed_any = False
    expected_gone = set()
    for j in jobs:
        key = f"{j['ty']}/{j['id']}"
        removed = key not in remaining
        removed_any |= removed
        st = states[key]
        info = {"state": st, "name": j["ty"], "tags": j["tags"]}
        fin = j["done"] or j["failed"]
        ambiguous = j["failed"] and j["pid"] and not j["done"]
        inxp = opts["experiment"] is None or (j["ty"], j["id"]) in index.get(opts["experiment"], set())
        sel = True if flt is None else spec_eval(flt, info)
        jcase = dict(case, job=key)
        if removed:
            expected_gone.add(key)
            if not opts["perform"]:
                ctx.monitor_fail("clean:removed-without-perform", f"jobs clean without --perform removed {key}", jcase)
            if is_running(j):
                markers = "+".join(n for n in ("failed", "pid") if j[n])
                ctx.monitor_fail(f"clean:removed-running:{markers}", f"jobs clean removed {key} whose process is alive (markers {markers})", jcase)
            if not fin:
                ctx.monitor_fail("clean:removed-unfinished", f"jobs clean removed {key} which has neither a .done nor a .failed marker", jcase)
            if not inxp:
                same = any(script_of(t) == script_of(j["ty"]) for (t, i) in index.get(opts["experiment"], set()) if (t, i) in store)
                ctx.monitor_fail("clean:removed-outside-experiment:" + ("same-script-name" if same else "other"),
                                 f"jobs clean --experiment {opts['experiment']} removed {key} which is not in that experiment's index", jcase)
            if not sel:
                impl = real_eval(fobj, real_info_cached(case, ws, j)) if fobj else f"parse:{ferr}"
                if impl is True:  # the real filter selected it: the filter is at fault
                    _filter_blame(ctx, flt, opts["text"], info, real_info_cached(case, ws, j), impl, jcase)
                else:
                    ctx.monitor_fail("clean:removed-unselected", f"jobs clean removed {key} which the filter {opts['text']!r} does not select", jcase)
        elif exc is None and opts["perform"] and fin and inxp and sel and not is_running(j) and not ambiguous:
            impl = True
            if flt is not None:
                impl = real_eval(fobj, real_info_cached(case, ws, j)) if fobj else f"parse:{ferr}"
            if impl is not True:
                _filter_blame(ctx, flt, opts["text"], info, real_info_cached(case, ws, j), impl, jcase)
            else:
                ctx.monitor_fail("clean:kept-selected-finished", f"jobs clean --perform kept {key} although it is finished, selected and in scope", jcase)
    if exc is not None and n5_signature(case, opts, exc_name(exc)):
        # C19-N5: the `--ready` branch of process() on a store entry that is not a directory (at that moment)
        should = [f"{j['ty']}/{j['id']}" for j in jobs if f"{j['ty']}/{j['id']}" in remaining and opts["perform"] and (j["done"] or j["failed"]) and not j["pid"]
                  and (flt is None or spec_eval(flt, {"state": states[f"{j['ty']}/{j['id']}"], "name": j["ty"], "tags": j["tags"]}))
                  and (opts["experiment"] is None or (j["ty"], j["id"]) in index.get(opts["experiment"], set()))]
        ctx.monitor_fail("clean:ready-on-non-directory:raised",
                         f"jobs clean --ready raised {exc!r} on a store entry that is not a directory (dangling link / plain file / link whose target "
                         f"was just cleaned) and stopped mid-way; finished selected jobs left uncleaned: {should[:4]}", case)
    elif exc is not None:
        if flt is not None and fobj is None:  # createFilter itself raises: blame the atom
            info = {"state": None, "name": "a.t", "tags": {}}
            if jobs:
                info = {"state": states[f"{jobs[0]['ty']}/{jobs[0]['id']}"], "name": jobs[0]["ty"], "tags": jobs[0]["tags"]}
            _filter_blame(ctx, flt, opts["text"], info, None, f"parse:{ferr}", case, force=True)
        else:
            ctx.monitor_fail(f"clean:raised:{exc_name(exc)}", f"jobs clean raised {exc!r}", case)
        if removed_any:
            ctx.monitor_fail("clean:partial-after-exception", f"jobs clean raised {exc!r} after removing directories", case)
    # nothing else may change
    gone = before - after
    extra = {p for p in gone if not any(p == f"jobs/{k}" or p.startswith(f"jobs/{k}/") for k in expected_gone)}
    new = after - before
    if extra or new:
        ctx.monitor_fail("clean:collateral", f"jobs clean changed paths outside removed job directories: gone {sorted(extra)[:5]} new {sorted(new)[:5]}", case)


_INFO_CACHE = {}


def real_info_cached(case, ws, j):
    return _INFO_CACHE.get((str(ws), j["ty"], j["id"]))


def _filter_blame(ctx, flt, text, info, obj, impl, case, force=False):
    """attribute a wrong selection to the comparison(s) of the filter that deviate on this job
    (`obj`: the real JobInformation, whose tags/state were read while the directory existed)"""
    spec = spec_eval(flt, info)
    keys = set()
    rng = random.Random(0)
    for a in atoms_of(flt):
        f, err = real_filter(render_atom(a, rng))
        if f is None:
            keys.add(f"filter:{a['k']}:raises-{err}")
            continue
        r = real_eval(f, obj if obj is not None else _BLAME_INFO(info))
        s = atom_spec(a, info)
        if isinstance(r, str):
            keys.add(f"filter:{a['k']}:{r}")
        elif r != s:
            keys.add(f"filter:{a['k']}:{str(r).lower()}-where-{str(s).lower()}-expected")
    if not keys:
        keys.add(f"filter:whole:{impl}" if isinstance(impl, str) else "filter:chain:" + "-".join(op for op, _ in flt["rest"]))
    for k in sorted(keys):
        ctx.monitor_fail(k, f"filter {text!r} on tags={info['tags']} state={info['state']} name={info['name']}: implementation gives {impl}, documented meaning gives {spec}", case)


class _BLAME_INFO:
    """a JobInformation stand-in carrying exactly the observed tags/state/name (used only to attribute an
    already detected deviation to one comparison of the expression when no real object is at hand)"""

    def __init__(self, info):
        from experimaestro.scheduler import JobState
        self.tags = info["tags"]
        self.state = None if info["state"] is None else JobState[info["state"]]
        self.path = Path("/ws/jobs") / info["name"] / "id"
        self.scriptname = script_of(info["name"])


def monitor_orphans(ctx, case, ws, layout, opts, before, after, exc, links=()):
    remaining = set(job_keys(ws))
    refs = set()
    for x in layout["xps"]:
        refs |= {tuple(k) for k in x["index"]}
        if not opts["ignore_old"] and x["backup"] is not None:
            refs |= {tuple(k) for k in x["backup"]}
    via_link = {py_resolve(layout, links, (ty, name)) for ty, name, _, _ in norm_links(links) if (ty, name) in refs} - {None}
    expected_gone = set()
    removed_any = False
    for j in layout["jobs"]:
        key = f"{j['ty']}/{j['id']}"
        removed = key not in remaining
        removed_any |= removed
        k = (j["ty"], j["id"])
        jcase = dict(case, job=key)
        if removed:
            expected_gone.add(key)
            if not opts["clean"]:
                ctx.monitor_fail("orphans:removed-without-clean", f"orphans without --clean removed {key}", jcase)
            if k in refs:
                ctx.monitor_fail("orphans:removed-referenced", f"orphans --clean removed {key} which an experiment index references", jcase)
            elif k in via_link:
                name = next(n for ty, n, _, _ in norm_links(links) if py_resolve(layout, links, (ty, n)) == k and (ty, n) in refs)
                ctx.monitor_fail("orphans:removed-referenced-through-link",
                                 f"orphans --clean removed the directory {key}; an experiment index references it through the link jobs/{k[0]}/{name}", jcase)
        elif exc is None and opts["clean"] and k not in refs and k not in via_link:
            ctx.monitor_fail("orphans:kept-orphan", f"orphans --clean kept {key} which no index references", jcase)
    if exc is not None:
        if links and isinstance(exc, OSError) and "symbolic link" in str(exc):
            ctx.monitor_fail("orphans:symlinked-job-dir:raised-OSError", f"orphans --clean raised {exc!r} on a symbolic link in the job store (left by `deprecated list --fix`) and stopped", case)
        else:
            ctx.monitor_fail(f"orphans:raised:{exc_name(exc)}", f"orphans raised {exc!r}", case)
    gone = before - after
    link_paths = {f"jobs/{ty}/{name}" for ty, name, _, _ in norm_links(links)}
    extra = {p for p in gone if p not in link_paths and not any(p == f"jobs/{k}" or p.startswith(f"jobs/{k}/") for k in expected_gone)}
    new = after - before
    if extra or new:
        ctx.monitor_fail("orphans:collateral", f"orphans changed paths outside removed job directories: gone {sorted(extra)[:5]} new {sorted(new)[:5]}", case)


# ---------------------------------------------------------------- quirk probes (witnesses of F14 / F17 / F21)


def _tmp(ctx):
    """scratch root of this run, on tmpfs when there is one (thousands of small workspaces are created and
    removed); `ctx.cleanup()` removes it"""
    if ctx._tmp is None and os.access("/dev/shm", os.W_OK):
        import tempfile
        ctx._tmp = Path(tempfile.mkdtemp(prefix=f"xv-{PROP}-", dir="/dev/shm"))
    return ctx.tmpdir()


def probe_quirks(ctx):
    """which variant of the four known defects does the source show?  Observed with each finding's own
    witness; anything else than the pinned behaviour counts as repaired (and is then held to the theorems)."""
    q = {}
    root = _tmp(ctx) / f"probe-{time.time_ns()}"
    lay = {"jobs": [{"ty": "a.t", "id": "m", "done": True, "failed": False, "pid": False, "alive": False, "tags": {"model": "bm25"}},
                    {"ty": "c.t", "id": "o", "done": True, "failed": False, "pid": False, "alive": False, "tags": {}},
                    {"ty": "a.t", "id": "r", "done": False, "failed": True, "pid": True, "alive": True, "tags": {}}],
           "xps": [{"name": "e1", "index": [["a.t", "m"]], "backup": None}]}
    materialise(root, lay)
    info = real_info(root, lay["jobs"][0])
    f, err = real_filter('model in ["bm25"]')
    g, _ = real_filter('model not in ["bm25"]')
    q["memberObj"] = bool(f and g and real_eval(f, info) is False and real_eval(g, info) is True)
    f, err = real_filter('model ~ "bm.*"')
    q["regexRaises"] = f is None and err == "TypeError"
    q["failedFirst"] = real_state(root, lay["jobs"][2]) == "ERROR"
    invoke(["jobs", "--workdir", str(root), "clean", "--experiment", "e1", "--perform"])
    q["xpByScript"] = "c.t/o" not in job_keys(root)
    shutil.rmtree(root)
    # what process() does with a job on which the filter raises (fallback of the translator piece `filterRaise`)
    lay2 = {"jobs": [{"ty": "a.t", "id": "bad", "done": False, "failed": True, "pid": False, "alive": False, "tags": {}, "params": "missing"}], "xps": []}
    materialise(root, lay2)
    exc = invoke(["jobs", "--workdir", str(root), "clean", "--filter", 'model = "bm25"', "--perform"])
    q["filterRaise"] = "abort" if exc is not None else ("selects" if "a.t/bad" not in job_keys(root) else "skips")
    shutil.rmtree(root)
    return q


# ---------------------------------------------------------------- cases


def run_filter_case(ctx, c, q, lines, impls, root):
    expr, text, jobs = c["expr"], c["text"], c["jobs"]
    ws = root / f"f{ctx.evaluations}"
    materialise(ws, {"jobs": jobs, "xps": []})
    f, err = real_filter(text)
    infos, outs = [], []
    for j in jobs:
        obj = real_info(ws, j)
        st = real_state(ws, j, obj)
        monitor_state(ctx, j, st, "filter-case")
        info = {"state": st, "name": j["ty"], "tags": j["tags"]}
        infos.append(info)
        impl = real_eval(f, obj) if f else f"parse:{err}"
        outs.append(None if (f is None) else impl)
        if f is None:
            _filter_blame(ctx, expr, text, info, obj, impl, dict(c))
            ctx.count("filter_outcome", "createFilter-raised")
        else:
            if impl is not spec_eval(expr, info):
                _filter_blame(ctx, expr, text, info, obj, impl, dict(c, job=f"{j['ty']}/{j['id']}"))
            ctx.count("filter_outcome", str(impl))
    shutil.rmtree(ws)
    for a in atoms_of(expr):
        ctx.count("atom_kind", a["k"])
    ctx.count("chain_length", 1 + len(expr["rest"]))
    lines.append({"op": "filter", "q": q, "expr": expr, "rx": rx_table(expr, infos),
                  "infos": [{"state": i["state"], "name": i["name"], "tags": sorted(i["tags"].items())} for i in infos]})
    impls.append({"impl": outs, "spec": [spec_eval(expr, i) for i in infos]})
    vals = {str(o) for o in outs}
    ctx.case({"kind": "filter", "text": text, "jobs": [[j["ty"], j["tags"], j["done"], j["failed"], j["pid"]] for j in jobs]},
             len(expr["rest"]) >= 1 and len(vals) > 1)


def layout_line(layout):
    return {"jobs": [dict(j, tags=sorted(j["tags"].items())) for j in layout["jobs"]], "xps": layout["xps"]}


def clean_args(ws, opts):
    args = ["jobs", "--workdir", str(ws), "clean"]
    if opts["experiment"] is not None:
        args += ["--experiment", opts["experiment"]]
    if opts["filter"] is not None:
        args += ["--filter", opts["text"]]
    if opts["perform"]:
        args.append("--perform")
    return args + list(opts.get("flags", []))


def do_clean(ctx, case, ws, layout, opts):
    """runs the real command on the materialised workspace with all monitors; returns (raised, remaining)"""
    states = {}
    _INFO_CACHE.clear()
    for j in layout["jobs"]:
        key = f"{j['ty']}/{j['id']}"
        obj = real_info(ws, j)
        states[key] = real_state(ws, j, obj)
        _INFO_CACHE[(str(ws), j["ty"], j["id"])] = obj
        try:
            obj.tags  # read now (cached by the object): the directory may be gone afterwards
        except Exception:
            pass
        monitor_state(ctx, j, states[key], "clean-case")
    fobj, ferr = (real_filter(opts["text"]) if opts["filter"] is not None else (None, None))
    before = snapshot(ws)
    exc = invoke(clean_args(ws, opts))
    after = snapshot(ws)
    monitor_clean(ctx, case, ws, layout, opts, before, after, exc, states, fobj, ferr)
    return exc_name(exc), job_keys(ws), states


def do_orphans(ctx, case, ws, layout, opts, links=()):
    args = ["orphans"] + (["--clean"] if opts["clean"] else []) + (["--ignore-old"] if opts["ignore_old"] else []) + list(opts.get("flags", [])) + [str(ws)]
    before = snapshot(ws)
    exc = invoke(args)
    after = snapshot(ws)
    monitor_orphans(ctx, case, ws, layout, opts, before, after, exc, links)
    return exc_name(exc), job_keys(ws)


def opts_line(opts):
    return {"experiment": opts["experiment"], "filter": opts["filter"], "perform": opts["perform"]}


def infos_of(layout):
    return [{"state": None, "name": j["ty"], "tags": j["tags"]} for j in layout["jobs"]]


def run_clean_case(ctx, c, q, lines, impls, root):
    layout, opts, links, strays = c["layout"], c["opts"], c.get("links", []), c.get("strays", [])
    ws = root / f"c{ctx.evaluations}"
    materialise(ws, layout, links, strays)
    raised, remaining, states = do_clean(ctx, c, ws, layout, opts)
    left_links = link_keys(ws)
    shutil.rmtree(ws)
    if links:  # symbolic links in the job store: `Model/CleanLinks.lean`
        lines.append({"op": "cleanL", "q": q, "layout": dict(layout_line(layout), links=[list(l) for l in norm_links(links)]), "opts": opts_line(opts),
                      "rx": rx_table(opts["filter"], infos_of(layout))})
        impls.append({"raised": raised is not None, "remaining": remaining, "links": left_links})
        if n5_signature(c, opts, raised):  # outside the model (`--ready`): the monitor reports it, no comparison
            lines[-1]["skip"] = "C19-N5"
            ctx.count("store_links", "clean:ready-raised")
        ctx.count("store_links", "clean:" + ("dangling" if any(py_resolve(layout, links, (l[0], l[1])) is None for l in links) else "live"))
    else:  # a plain file in the store is no entry of the model (neither command looks at it)
        lines.append({"op": "clean", "q": q, "layout": layout_line(layout), "opts": opts_line(opts), "rx": rx_table(opts["filter"], infos_of(layout))})
        impls.append({"raised": raised is not None, "remaining": remaining})
        if n5_signature(c, opts, raised):
            lines[-1]["skip"] = "C19-N5"
            ctx.count("store_links", "clean:ready-raised")
    if strays:
        ctx.count("store_links", "clean:stray-file")
    lines.append({"op": "state", "q": q, "jobs": layout_line(layout)["jobs"]})
    impls.append({"impl": [states[f"{j['ty']}/{j['id']}"] for j in layout["jobs"]]})
    n_removed = len(layout["jobs"]) - len(remaining)
    ctx.count("clean_outcome", "raised" if raised else ("removed-some" if 0 < n_removed < len(layout["jobs"]) else "removed-all" if n_removed else "removed-none"))
    ctx.count("clean_opts", ("xp" if opts["experiment"] else "-") + ("+filter" if opts["filter"] else "") + ("+perform" if opts["perform"] else ""))
    ctx.case({"kind": "clean", "jobs": [[j["ty"], j["id"], j["done"], j["failed"], j["pid"], j["alive"], j["tags"]] for j in layout["jobs"]], "xps": layout["xps"],
              "links": [list(l) for l in links], "strays": strays, "flags": opts.get("flags", []), "experiment": opts["experiment"], "filter": opts["text"], "perform": opts["perform"]},
             0 < n_removed < len(layout["jobs"]))


def run_orphans_case(ctx, c, q, lines, impls, root):
    layout, opts, links = c["layout"], c["opts"], [tuple(l) for l in c.get("links", [])]
    ws = root / f"o{ctx.evaluations}"
    materialise(ws, layout, links, c.get("strays", []))
    raised, remaining = do_orphans(ctx, c, ws, layout, opts, links)
    left_links = link_keys(ws)
    shutil.rmtree(ws)
    n_removed = len(layout["jobs"]) - len(remaining)
    if not links:
        lines.append({"op": "orphans", "layout": layout_line(layout), "opts": {"clean": opts["clean"], "ignore_old": opts["ignore_old"]}})
        impls.append({"remaining": remaining, "raised": raised})
    else:  # symbolic links in the job store: `Model/CleanLinks.lean`.  A link whose target directory was itself removed is
        # unlinked or left dangling depending on the enumeration order of the directory: left out of the comparison.
        gone = {tuple(k.split("/")) for k in (f"{j['ty']}/{j['id']}" for j in layout["jobs"]) if k not in remaining}
        ambiguous = sorted(f"{ty}/{name}" for ty, name, _, _ in norm_links(links) if py_resolve(layout, links, (ty, name)) in gone)
        lines.append({"op": "orphansL", "layout": dict(layout_line(layout), links=[list(l) for l in norm_links(links)]),
                      "opts": {"clean": opts["clean"], "ignore_old": opts["ignore_old"]}, "ambiguous": ambiguous})
        impls.append({"remaining": remaining, "raised": raised, "links": [l for l in left_links if l not in ambiguous]})
        ctx.count("store_links", "orphans:" + ("dangling" if any(py_resolve(layout, links, (l[0], l[1])) is None for l in links) else "live"))
    ctx.count("orphans_outcome", ("link:" if links else "") + ("raised" if raised else "removed-some" if 0 < n_removed < len(layout["jobs"]) else "removed-all" if n_removed else "removed-none"))
    ctx.case({"kind": "orphans", "jobs": [[j["ty"], j["id"]] for j in layout["jobs"]], "xps": layout["xps"], "links": [list(l) for l in links],
              "clean": opts["clean"], "ignore_old": opts["ignore_old"]}, 0 < n_removed < len(layout["jobs"]))


def run_history_case(ctx, c, q, lines, impls, root):
    layout, cmds = c["layout"], c["cmds"]
    ws = root / f"h{ctx.evaluations}"
    materialise(ws, layout)
    cur = layout
    first_len = len(layout["jobs"])
    for cmd in cmds:
        if cmd["cmd"] == "clean":
            _, remaining, _ = do_clean(ctx, dict(c, step=cmd), ws, cur, cmd)
        else:
            _, remaining = do_orphans(ctx, dict(c, step=cmd), ws, cur, cmd)
        cur = {"jobs": [j for j in cur["jobs"] if f"{j['ty']}/{j['id']}" in remaining], "xps": cur["xps"]}
    remaining = job_keys(ws)
    shutil.rmtree(ws)
    rx = []
    for cmd in cmds:
        if cmd["cmd"] == "clean":
            rx += rx_table(cmd["filter"], infos_of(layout))
    lines.append({"op": "history", "q": q, "layout": layout_line(layout), "rx": rx,
                  "cmds": [dict(opts_line(m), cmd="clean") if m["cmd"] == "clean" else {"cmd": "orphans", "clean": m["clean"], "ignore_old": m["ignore_old"]} for m in cmds]})
    impls.append({"remaining": remaining})
    ctx.count("history_length", len(cmds))
    ctx.case({"kind": "history", "jobs": [[j["ty"], j["id"], j["done"], j["failed"], j["pid"], j["alive"]] for j in layout["jobs"]], "xps": layout["xps"],
              "cmds": [{k: v for k, v in m.items() if k not in ("filter", "flags")} for m in cmds]}, 0 < len(remaining) < first_len)


def run_state_case(ctx, c, q, lines, impls, root):
    ws = root / f"s{ctx.evaluations}"
    j = c["job"]
    materialise(ws, {"jobs": [j], "xps": []})
    st = real_state(ws, j)
    shutil.rmtree(ws)
    monitor_state(ctx, j, st, "state-case")
    lines.append({"op": "state", "q": q, "jobs": [dict(j, tags=sorted(j["tags"].items()))]})
    impls.append({"impl": [st]})
    ctx.case(c, False)


# ---------------------------------------------------------------- filters that cannot be evaluated on a job

NUMBERS = [12, 3, 0.5, 2.5, -1]  # non-zero, pairwise different texts: `==` on them is equality of the texts


def hz_of(j):
    return {"noTags": j.get("params", "ok") != "ok", "nonStr": sorted(k for k, v in j["tags"].items() if not isinstance(v, str))}


def kleene_atom(a, info, hz):
    """'T' / 'F' / 'E' (evaluating the comparison raises): plain-Python meaning of one comparison on a job whose tag table may be
    unreadable and whose tag values may be numbers"""
    def get(var):
        if var == "@state":
            return info["state"]
        if var == "@name":
            return info["name"]
        if hz["noTags"]:
            raise LookupError(var)
        return info["tags"].get(var)
    try:
        v = get(a["v"])
        k = a["k"]
        if k == "eqc":
            r = v == a["c"]
        elif k == "eqv":
            r = v == get(a["w"])
        elif k == "in":
            r = v is not None and v in a["cs"]
        elif k == "notin":
            r = not (v is not None and v in a["cs"])
        else:
            if v is None or v == "":
                r = False
            elif not isinstance(v, str):
                return "E"
            else:
                r = re.compile(a["p"]).match(v) is not None
        return "T" if r else "F"
    except LookupError:
        return "E"


def kleene_eval(expr, info, hz):
    """three-valued documented meaning (Kleene): the verdict every evaluation order agrees on"""
    def k_and(x, y):
        return "F" if "F" in (x, y) else ("T" if (x, y) == ("T", "T") else "E")

    def k_or(x, y):
        return "T" if "T" in (x, y) else ("F" if (x, y) == ("F", "F") else "E")

    acc = kleene_atom(expr["first"], info, hz)
    for op, a in expr["rest"]:
        b = kleene_atom(a, info, hz)
        acc = k_and(acc, b) if op == "and" else k_or(acc, b)
    return acc


def gen_hazard_case(rng):
    layout = gen_layout(rng, 6)
    for j in layout["jobs"]:
        if rng.random() < 0.3:
            j["params"] = rng.choice(["missing", "truncated", "notags"])
            if rng.random() < 0.7:  # a failed job whose re-submission was interrupted
                j["failed"], j["done"] = True, False
        elif rng.random() < 0.4:
            j["tags"][rng.choice(TAGS[:4])] = rng.choice(NUMBERS)
    opts = gen_clean_opts(rng, layout)
    if opts["filter"] is None or rng.random() < 0.5:
        r = rng.random()
        if r < 0.5:
            flt = {"first": {"k": "re", "v": rng.choice(TAGS[:4]), "p": rng.choice(PATTERNS)}, "rest": []}
            if rng.random() < 0.4:
                flt["rest"].append([rng.choice(["and", "or"]), gen_atom(rng)])
        else:
            flt = gen_expr(rng, 3)
        opts["filter"], opts["text"] = flt, render(flt, rng)
    opts["perform"] = rng.random() < 0.9
    opts["flags"] = []
    return {"kind": "hazard", "layout": layout, "opts": opts}


def run_hazard_case(ctx, c, q, lines, impls, root):
    """`jobs clean` on a workspace where the filter cannot be evaluated on some job.  Oracle (monitor): whatever the command does
    (abort included) a removed job was finished, in scope, `--perform` was given and the filter's three-valued meaning on it is true."""
    layout, opts = c["layout"], c["opts"]
    ws = root / f"z{ctx.evaluations}"
    materialise(ws, layout)
    byk = {f"{j['ty']}/{j['id']}": j for j in layout["jobs"]}
    states = {k: real_state(ws, j) for k, j in byk.items()}
    for k, j in byk.items():
        monitor_state(ctx, j, states[k], "hazard-case")
    order = [f"{p.parent.name}/{p.name}" for p in (ws / "jobs").glob("*/*")]  # the order `process()` will see (unchanged directory)
    before = snapshot(ws)
    exc = invoke(clean_args(ws, opts))
    after = snapshot(ws)
    remaining = set(job_keys(ws))
    shutil.rmtree(ws)
    flt = opts["filter"]
    index = {x["name"]: {tuple(k) for k in x["index"]} for x in layout["xps"]}
    kl, hazardous = {}, False
    for k, j in byk.items():
        info = {"state": states[k], "name": j["ty"], "tags": j["tags"]}
        kl[k] = "T" if flt is None else kleene_eval(flt, info, hz_of(j))
        hazardous |= flt is not None and any(kleene_atom(a, info, hz_of(j)) == "E" for a in atoms_of(flt))
    gone = set()
    for k, j in byk.items():
        if k in remaining:
            continue
        gone.add(k)
        jcase = dict(c, job=k)
        if not opts["perform"]:
            ctx.monitor_fail("clean:removed-without-perform", f"jobs clean without --perform removed {k}", jcase)
        if is_running(j):
            ctx.monitor_fail("clean:removed-running:" + "+".join(n for n in ("failed", "pid") if j[n]), f"jobs clean removed {k} whose process is alive", jcase)
        if not (j["done"] or j["failed"]):
            ctx.monitor_fail("clean:removed-unfinished", f"jobs clean removed {k} which has neither a .done nor a .failed marker", jcase)
        if opts["experiment"] is not None and (j["ty"], j["id"]) not in index.get(opts["experiment"], set()):
            ctx.monitor_fail("clean:removed-outside-experiment:other", f"jobs clean --experiment {opts['experiment']} removed {k} which is not in that experiment's index", jcase)
        if kl[k] != "T":
            why = {"E": f"the filter cannot be evaluated on it (params.json {j.get('params', 'ok')}, non-string tags {hz_of(j)['nonStr']})", "F": "the filter does not select it"}[kl[k]]
            ctx.monitor_fail("clean:removed-filter-not-true:" + ("unevaluable" if kl[k] == "E" else "false"),
                             f"jobs clean --filter {opts['text']!r} --perform removed {k} although {why}: a job on which the filter cannot be evaluated is not selected", jcase)
    if exc is not None and not hazardous:
        ctx.monitor_fail(f"clean:raised:{exc_name(exc)}", f"jobs clean raised {exc!r} although the filter can be evaluated on every job", c)
    extra = {p for p in before - after if not any(p == f"jobs/{k}" or p.startswith(f"jobs/{k}/") for k in gone)}
    if extra or (after - before):
        ctx.monitor_fail("clean:collateral", f"jobs clean changed paths outside removed job directories: gone {sorted(extra)[:5]} new {sorted(after - before)[:5]}", c)
    jobs_line = []
    for k in order:
        j = byk[k]
        h = hz_of(j)
        jobs_line.append({"ty": j["ty"], "id": j["id"], "done": j["done"], "failed": j["failed"], "pid": j["pid"], "alive": j["alive"],
                          "tags": sorted((t, v if isinstance(v, str) else str(v)) for t, v in j["tags"].items()), "noTags": h["noTags"], "nonStr": h["nonStr"]})
    infos = [{"state": states[k], "name": byk[k]["ty"], "tags": {t: v for t, v in byk[k]["tags"].items() if isinstance(v, str)}} for k in order]
    lines.append({"op": "cleanP", "q": q, "layout": {"jobs": jobs_line, "xps": layout["xps"]}, "opts": opts_line(opts), "rx": rx_table(flt, infos)})
    impls.append({"raised": exc is not None, "remaining": sorted(remaining), "kleene": [kl[k] for k in order]})
    ctx.count("hazard_outcome", ("raised" if exc is not None else "completed") + (":removed-some" if gone else ":removed-none"))
    ctx.count("hazard_kleene", "".join(sorted(set(kl.values()))))
    ctx.case({"kind": "hazard", "jobs": [[j["ty"], j["id"], j["done"], j["failed"], j["pid"], j["alive"], j["tags"], j.get("params", "ok")] for j in layout["jobs"]],
              "xps": layout["xps"], "experiment": opts["experiment"], "filter": opts["text"], "perform": opts["perform"]}, hazardous and bool(gone))


RUNNERS = {"hazard": run_hazard_case, "state": run_state_case, "filter": run_filter_case, "clean": run_clean_case, "orphans": run_orphans_case, "history": run_history_case}


def gen_case(rng, kind):
    if kind == "filter":
        expr = gen_expr(rng)
        used = set()
        jobs = [j for j in (gen_job(rng, used) for _ in range(rng.choice([2, 3, 4]))) if j]
        return {"kind": "filter", "expr": expr, "text": render(expr, rng), "jobs": jobs}
    if kind == "hazard":
        return gen_hazard_case(rng)
    layout = gen_layout(rng)
    if kind == "clean":
        c = {"kind": "clean", "layout": layout, "opts": gen_clean_opts(rng, layout)}
        if rng.random() < 0.12 and layout["jobs"]:
            c["links"] = gen_links(rng, layout)
        if rng.random() < 0.05 and layout["jobs"]:  # a plain file where a job directory is expected
            c["strays"] = [[rng.choice(layout["jobs"])["ty"], "stray"]]
        if c.get("links") or c.get("strays"):  # the listing flags matter on entries that are not directories
            c["opts"]["flags"] = [f for f in ("--tags", "--fullpath", "--ready") if rng.random() < 0.4]
        return c
    if kind == "orphans":
        c = {"kind": "orphans", "layout": layout, "opts": gen_orph_opts(rng)}
        if rng.random() < 0.15 and layout["jobs"]:  # what `deprecated list --fix` leaves behind, chains, dangling links
            c["links"] = gen_links(rng, layout)
        if rng.random() < 0.04 and layout["jobs"]:
            c["strays"] = [[rng.choice(layout["jobs"])["ty"], "stray"]]
        return c
    cmds = []
    for _ in range(rng.choice([2, 2, 3])):
        if rng.random() < 0.65:
            cmds.append(dict(gen_clean_opts(rng, layout), cmd="clean"))
        else:
            cmds.append(dict(gen_orph_opts(rng), cmd="orphans"))
    return {"kind": "history", "layout": layout, "cmds": cmds}


CORPUS = [
    # a pattern with backslash escapes on a value only the escaped form matches (constants reach `re.compile` verbatim)
    {"kind": "filter", "expr": {"first": {"k": "re", "v": "model", "p": "\\w+ \\w+"}, "rest": []}, "text": 'model ~ "\\w+ \\w+"',
     "jobs": [{"ty": "a.t", "id": "0a1", "done": True, "failed": False, "pid": False, "alive": False, "tags": {"model": "a b"}},
              {"ty": "a.t", "id": "0b2", "done": True, "failed": False, "pid": False, "alive": False, "tags": {"model": "w w"}}]},
    # F14 (in / not in / ~), F21, F17 witnesses and the documented example of `jobs --help`
    {"kind": "filter", "expr": {"first": {"k": "in", "v": "model", "cs": ["bm25"]}, "rest": []}, "text": 'model in ["bm25"]',
     "jobs": [{"ty": "a.t", "id": "0a1", "done": True, "failed": False, "pid": False, "alive": False, "tags": {"model": "bm25"}}]},
    {"kind": "filter", "expr": {"first": {"k": "eqc", "v": "model", "c": "bm25"}, "rest": [["and", {"k": "in", "v": "mode", "cs": ["a", "b"]}], ["and", {"k": "eqc", "v": "@state", "c": "RUNNING"}]]},
     "text": 'model = "bm25" and mode in ["a", "b"] and @state = "RUNNING"',
     "jobs": [{"ty": "a.t", "id": "0a1", "done": False, "failed": False, "pid": True, "alive": True, "tags": {"model": "bm25", "mode": "b"}},
              {"ty": "a.t", "id": "0b2", "done": True, "failed": False, "pid": False, "alive": False, "tags": {"model": "bm25", "mode": "a"}}]},
]


def gen_cases(ctx, n, rng, corpus=True):
    cases = list(CORPUS) if corpus else []
    for _ in range(n):
        r = rng.random()
        kind = "filter" if r < 0.45 else "clean" if r < 0.74 else "hazard" if r < 0.80 else "orphans" if r < 0.92 else "history"
        cases.append(gen_case(rng, kind))
    return cases


def _canon(o):
    o = dict(o)
    for k in ("remaining", "spec_remaining", "referenced"):
        if isinstance(o.get(k), list):
            o[k] = sorted(o[k])
    return o


def run_cases(ctx, cases, q, with_model=True):
    root = _tmp(ctx) / f"run-{time.time_ns()}"
    root.mkdir(parents=True)
    lines, impls = [], []
    for c in cases:
        ctx.count("kind", c["kind"])
        RUNNERS[c["kind"]](ctx, c, q, lines, impls, root)
    shutil.rmtree(root, ignore_errors=True)
    if not with_model or not lines:
        return
    try:
        outs = common.run_driver("C19", [dict(l, src=True) for l in lines])
    except Exception as e:
        ctx.disagree({"driver": "C19"}, None, None, f"model driver failed: {e}")
        return
    for line, m, i in zip(lines, outs, impls):
        op = line["op"]
        m = _canon(m)
        if op == "filter":
            mi = {"impl": m.get("impl")}
            ii = {"impl": [None if isinstance(x, str) and x.startswith("parse:") else x for x in i["impl"]]}
            if m.get("spec") != i["spec"]:
                ctx.disagree(line, m.get("spec"), i["spec"], "the Lean specification `evalSpec` and the monitor's plain-Python specification differ")
        elif op == "state":
            mi, ii = {"impl": m.get("impl")}, i
        elif op == "clean":
            mi, ii = {"raised": m.get("raised"), "remaining": m.get("remaining")}, _canon(i)
        elif op == "orphans":
            mi, ii = {"remaining": m.get("remaining"), "raised": None}, _canon(i)
        elif op == "cleanP":
            mi, ii = {"raised": m.get("raised"), "remaining": m.get("remaining"), "kleene": m.get("kleene")}, _canon(i)
        elif op == "cleanL":
            mi, ii = {"raised": m.get("raised"), "remaining": m.get("remaining"), "links": sorted(m.get("links", []))}, _canon(i)
        elif op == "orphansL":
            mi = {"remaining": m.get("remaining"), "raised": None, "links": sorted(l for l in m.get("links", []) if l not in line["ambiguous"])}
            ii = _canon(i)
        else:
            mi, ii = {"remaining": m.get("remaining")}, _canon(i)
        if line.get("skip"):
            continue
        ctx.traces_validated += 1
        if mi != ii:
            ctx.disagree(line, mi, ii, f"model and implementation differ ({op})")


def correspond(ctx):
    ctx.rule = ("cases: filter = (expression AST rendered to text with random white space and quotes, 2-4 materialised job directories); "
                "clean / orphans = (workspace layout of 1-7 jobs with marker files, tags and 0-3 experiments with index / backup index incl. dangling links, options); "
                "history = 2-3 commands on one workspace. Non-trivial: filter with >= 2 comparisons whose value differs between the jobs; "
                "clean / orphans / history that removes some but not all job directories. distinct = distinct case hash")
    ctx.assumptions += [
        "tag names are alphabetic words other than in/not/and/or (the grammar's `Word(alphas)`), tag values are strings, constants contain at most one kind of quote",
        "regular expressions are valid; `re.match` (anchored at the start) is the matching relation, passed to the model as a table",
        "every job directory of the store is a real directory holding params.json with a `tags` object; index links are named after their target",
        "a job is 'running' when its pid file names a live process and no .done marker exists; 'finished' = .done or .failed marker; for .failed+.pid without .done only the safety side (not removed while the process is alive) is demanded",
        "pyparsing tokenisation, click option parsing, pathlib/glob/rmtree semantics (exercised, not proved)",
    ]
    q = _quirks(ctx)
    ctx.extra_cov["source_variant_observed"] = {k: (v if isinstance(v, str) else "pinned-defect" if v else "repaired") for k, v in q.items()}
    ctx.notes.append(f"model switches observed on the source: {q}")
    ctx._q = q
    n = ctx.scale(3000, 36000)
    rng = ctx.rng
    cases = gen_cases(ctx, n, rng)
    for k in range(0, len(cases), 4000):
        run_cases(ctx, cases[k:k + 4000], q)


def search(ctx):
    """implementation-only monitors over a larger stream (run when a proof or the correspondence broke)"""
    t0 = time.time()
    budget = ctx.scale(30, 240)
    rng = random.Random(f"search-{ctx.seed}")
    q = getattr(ctx, "_q", None) or probe_quirks(ctx)
    known = {f["key"] for f in common.load_findings(PROP) if f.get("status") == "known"}
    while time.time() - t0 < budget and not [m for m in ctx.monitor_failures if m["key"] not in known]:
        run_cases(ctx, gen_cases(ctx, 600, rng, corpus=False), q, with_model=False)


def run_witness(ctx, finding):
    w = finding.get("witness")
    if w:
        q = getattr(ctx, "_q", None) or probe_quirks(ctx)
        run_cases(ctx, [w], q, with_model=False)


def replay(ctx, obj):
    q = probe_quirks(ctx)
    ctx._q = q
    n0 = len(ctx.monitor_failures)
    seen = set()
    for f in obj.get("failures", []):
        c = f["case"]
        base = {k: v for k, v in c.items() if k not in ("job", "step", "where")}
        sig = json.dumps(base, sort_keys=True)
        if base.get("kind") in RUNNERS and sig not in seen:
            seen.add(sig)
            print("replaying", json.dumps(base)[:400])
            run_cases(ctx, [base], q, with_model=False)
    for m in ctx.monitor_failures[n0:]:
        print("  ->", m["key"], "|", m["what"])
    for d in obj.get("disagreements", []):
        print("disagreement:", json.dumps(d)[:600])
    prove(ctx)
    correspond(ctx)
    return common.verdict(ctx, search)
