import XpmVerif.Proofs.InjectDeep
/-! C03, part 5: the ideal-hash hypotheses are satisfiable — an injective `H : List Nat → Nat` exists, so the
    theorems with hypotheses `hinj`/`hemb` are not vacuous. -/
namespace XpmVerif.Ident
open List

/-- an injective numbering of token lists: `[] ↦ 0`, `a :: l ↦ 2^a (2 ⌜l⌝ + 1)`. -/
def godel : List Nat → Nat
  | [] => 0
  | a :: l => 2^a * (2 * godel l + 1)

theorem pow2_odd_inj : ∀ (a b x y : Nat), 2^a * (2 * x + 1) = 2^b * (2 * y + 1) → a = b ∧ x = y
  | 0, 0, x, y, h => by simp only [Nat.pow_zero, Nat.one_mul] at h; omega
  | 0, b + 1, x, y, h => by
    have e : 2^(b+1) * (2 * y + 1) = 2 * (2^b * (2 * y + 1)) := by rw [Nat.pow_succ]; ac_rfl
    rw [e] at h; simp only [Nat.pow_zero, Nat.one_mul] at h; omega
  | a + 1, 0, x, y, h => by
    have e : 2^(a+1) * (2 * x + 1) = 2 * (2^a * (2 * x + 1)) := by rw [Nat.pow_succ]; ac_rfl
    rw [e] at h; simp only [Nat.pow_zero, Nat.one_mul] at h; omega
  | a + 1, b + 1, x, y, h => by
    have e1 : 2^(a+1) * (2 * x + 1) = 2 * (2^a * (2 * x + 1)) := by rw [Nat.pow_succ]; ac_rfl
    have e2 : 2^(b+1) * (2 * y + 1) = 2 * (2^b * (2 * y + 1)) := by rw [Nat.pow_succ]; ac_rfl
    rw [e1, e2] at h
    have := pow2_odd_inj a b x y (by omega)
    omega

theorem godel_inj : ∀ l1 l2 : List Nat, godel l1 = godel l2 → l1 = l2
  | [], [], _ => rfl
  | [], b :: l2, h => by
    have : 0 < 2^b * (2 * godel l2 + 1) := Nat.mul_pos (Nat.pow_pos (by decide)) (by omega)
    simp only [godel] at h; omega
  | a :: l1, [], h => by
    have : 0 < 2^a * (2 * godel l1 + 1) := Nat.mul_pos (Nat.pow_pos (by decide)) (by omega)
    simp only [godel] at h; omega
  | a :: l1, b :: l2, h => by
    simp only [godel] at h
    have := pow2_odd_inj a b _ _ h
    rw [this.1, godel_inj l1 l2 this.2]

/-- an ideal hash structure: injective `H`, a digest is the single token `256 + d`. -/
def idealHC : HC Nat := { H := godel, emb := fun d => [256 + d], le := fun a b => decide (a ≤ b) }

theorem idealHC_inj : ∀ a b, idealHC.H a = idealHC.H b → a = b := godel_inj
theorem idealHC_emb : ∀ d, idealHC.emb d = [256 + d] := fun _ => rfl

/-- the *expanding* hash structure: nothing is digested, a nested configuration is inlined between brackets. -/
def expandHC : HC (List Nat) := { H := id, emb := fun d => 254 :: d ++ [253], le := bytesLe }

/-! ### witness values used by Properties/C03.lean -/
namespace Wit

/-- `{"a":[{"k":[]}],"z":[]}` -/
def f2a : Val := .dict [[97], [122]] [.list [.dict [[107]] [.list []]], .list []]
/-- `{"a":[{"k":[],"z":[]}]}` -/
def f2b : Val := .dict [[97]] [.list [.dict [[107], [122]] [.list [], .list []]]]
def cfg0 : Nat → List Nat := fun _ => []
def mt0 : Nat → Option Bool := fun _ => none

/-- single-node graphs holding the F2 values (class `w` with one parameter `d`). -/
def gF2a : Graph := { nodes := [ { typeId := [119], args := [ { name := [100], value := f2a } ] } ] }
def gF2b : Graph := { nodes := [ { typeId := [119], args := [ { name := [100], value := f2b } ] } ] }

/-- a two-node graph (a configuration with an int, a list of optional strings and a nested configuration)
    that is well-typed for a class library; the graph size bound holds. -/
def gEx : Graph := { nodes := [
  { typeId := [109, 46, 65], args := [
      { name := [120], value := .int 5 },
      { name := [108], value := .list [.str [104, 105], .none] },
      { name := [115], value := .ref 1 } ] },
  { typeId := [109, 46, 66], args := [ { name := [121], value := .float 4607182418800017408 } ] } ] }

def libEx : List Nat → List Nat → STy := fun _ name =>
  if name = [120] then .int else if name = [108] then .list (.opt .str) else if name = [115] then .obj else .float

end Wit

end XpmVerif.Ident
