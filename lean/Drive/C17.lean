import XpmVerif.Basic.JsonUtil
import XpmVerif.Model.GenPathHist
/-! Line-protocol driver for the generated-path model (C17), histories included.
    in : {"enc":"raw"|"esc","nodes":[{"args":[[name,val]…],"gens":[[arg,file]…],"pre":[ids]}…],
          "ops":[{"op":"submit","root":i,"init":[ids],"outs":[ids]} | {"op":"copydeps","c":i,"o":j}
                 | {"op":"construct","node":{…as in "nodes"…}} | {"op":"set","n":i,"k":name,"v":val,"pos":p}
                 | {"op":"addpre","n":i,"t":j} | {"op":"mark","root":i,"o":j} …]}
         val = null | {"s":1} | {"l":[val…]} | {"d":[[key,val]…]} | {"r":id}
    out: {"submits":[{"ok":bool,"okany":bool,"accepted":bool,"entries":[{"node","arg","abs","comps"}…]}…] (one per submit op;
          entries = the walk of the task, then of its init tasks under __init_tasks__/i; a task submitted before is rejected),
          "wf":bool (Hist.WF of the ops), "init":bool (Graph.Init of "nodes"),
          "final":{"ok":bool,"sealed":[bool…],"task":[id|null…],"jobs":[ids]},
          "log":[{"job":root,"node","arg","abs","comps"}…] (HState.paths at the end)}
    Every op goes through `HState.step` (the model the history theorems are about). -/
open Lean XpmVerif XpmVerif.J XpmVerif.GenPath

instance : Inhabited Val := ⟨.none⟩

partial def valOf (j : Json) : Val :=
  if isNull j then .none
  else if !(isNull (fld j "r")) then .ref (natF j "r")
  else if !(isNull (fld j "l")) then .list ((arrF j "l").map valOf)
  else if !(isNull (fld j "d")) then
    let kvs := arrF j "d"
    .dict (kvs.map (fun kv => (str ((arr kv)[0]!)).toList)) (kvs.map (fun kv => valOf ((arr kv)[1]!)))
  else .scalar

def nodeOf (j : Json) : Node :=
  { args := (arrF j "args").map (fun a => ((str ((arr a)[0]!)).toList, valOf ((arr a)[1]!)))
    gens := (arrF j "gens").map (fun a => ((str ((arr a)[0]!)).toList, (str ((arr a)[1]!)).toList))
    preTasks := (arrF j "pre").map nat }

def entryJ (e : Entry) : Json :=
  Json.mkObj [("node", e.node), ("arg", String.ofList e.arg), ("abs", e.path.abs),
    ("comps", Json.arr (e.path.comps.map (fun c => Json.str (String.ofList c))).toArray)]

def opOf (op : Json) : Op :=
  let k := strF op "op"
  if k == "submit" then .submit (natF op "root") ((arrF op "init").map nat) ((arrF op "outs").map nat)
  else if k == "construct" then .construct (nodeOf (fld op "node"))
  else if k == "set" then .set (natF op "n") (strF op "k").toList (valOf (fld op "v")) (natF op "pos")
  else if k == "addpre" then .addPre (natF op "n") (natF op "t")
  else if k == "mark" then .mark (natF op "root") (natF op "o")
  else .copyDeps (natF op "c") (natF op "o")

def step (_ : Unit) (j : Json) : Unit × Json :=
  let enc : Str → Str := if strF j "enc" == "esc" then escapeKey else id
  let g0 : Graph := ⟨(arrF j "nodes").map nodeOf⟩
  let ops := (arrF j "ops").map opOf
  let (sf, outs) := ops.foldl (fun (acc : HState × List Json) op =>
    let (s, outs) := acc
    let s' := s.step enc op
    match op with
    | .submit root inits _ =>
      -- the hypotheses of the theorems, evaluated on the graph this submission walks
      let g1 : Graph := ⟨setAt s.g.nodes root (fun nd => { nd with initTasks := inits })⟩
      -- what this step added to the log (nothing when the submission is rejected: already submitted / unknown object)
      let es := (s'.paths.drop s.paths.length).map Prod.snd
      (s', outs ++ [Json.mkObj [("ok", g1.okB enc), ("okany", g1.okAnyB), ("accepted", decide (s'.jobs.length > s.jobs.length)),
        ("entries", Json.arr (es.map entryJ).toArray)]])
    | _ => (s', outs)) (({ g := g0 } : HState), [])
  let logJ := sf.paths.map (fun x => Json.mkObj [("job", x.1), ("node", x.2.node), ("arg", String.ofList x.2.arg),
    ("abs", x.2.path.abs), ("comps", Json.arr (x.2.path.comps.map (fun c => Json.str (String.ofList c))).toArray)])
  let finalJ := Json.mkObj [("ok", sf.g.okB enc),
    ("sealed", Json.arr (sf.g.nodes.map (fun nd => Json.bool nd.isSealed)).toArray),
    ("task", Json.arr (sf.g.nodes.map (fun nd => match nd.task with | some t => (t : Json) | none => Json.null)).toArray),
    ("jobs", Json.arr (sf.jobs.map (fun (n : Nat) => (n : Json))).toArray)]
  ((), Json.mkObj [("submits", Json.arr outs.toArray), ("wf", Hist.wfB enc ops), ("init", g0.initB enc),
    ("final", finalJ), ("log", Json.arr logJ.toArray)])

def main : IO Unit := J.loop step ()
