import XpmVerif.Basic.JsonUtil
import XpmVerif.Basic.Sha256
import XpmVerif.Model.Deprecated
/-! Line-protocol driver for C20.  `lake env lean --run Drive/C20.lean < ops.jsonl`

    {"op":"ids","classes":[{"id":hex,"dep":null|index}],"nodes":[{"cls":index,"args":[…],"task","meta","pre","init"}],
     "sel":[node indices re-classed (one step) before computing] }
       -> {"eff":[hex per class],"raw":[hex per node],"full":[hex per node]}
    {"op":"fix","fix":bool,"cleanup":bool,"tree":[[t,i,{"d":data,"p":null|"broken"|[t,i]}|{"l":[t,i]}]],"ks1":[[t,i]],"ks2":[[t,i]]}
       -> {"tree":[…same shape, in the order of the key universe…]} -/
open Lean XpmVerif XpmVerif.J XpmVerif.Ident XpmVerif.Deprecated

def hexVal (c : Char) : Nat :=
  if c.isDigit then c.toNat - '0'.toNat else if 'a' ≤ c ∧ c ≤ 'f' then c.toNat - 'a'.toNat + 10 else c.toNat - 'A'.toNat + 10
def unhex (s : String) : List Nat :=
  let rec go : List Char → List Nat
    | a :: b :: r => (hexVal a * 16 + hexVal b) :: go r
    | _ => []
  go s.toList
def hexOf (l : List Nat) : String :=
  let d := "0123456789abcdef".toList.toArray
  l.foldl (fun s x => (s.push d[x / 16]!).push d[x % 16]!) ""

partial def valOf (j : Json) : Val :=
  if isNull j then .none else
  match j.getObjVal? "b" with
  | .ok b => .bool (J.bool b)
  | _ =>
  match j.getObjVal? "i" with
  | .ok i => .int ((J.str i).toInt?.getD 0)
  | _ =>
  match j.getObjVal? "f" with
  | .ok f => .float ((unhex (J.str f)).foldl (fun a b => a * 256 + b) 0)
  | _ =>
  match j.getObjVal? "s" with
  | .ok s => .str (unhex (J.str s))
  | _ =>
  match j.getObjVal? "e" with
  | .ok s => .enum (unhex (J.str s))
  | _ =>
  match j.getObjVal? "p" with
  | .ok s => .path (unhex (J.str s))
  | _ =>
  match j.getObjVal? "l" with
  | .ok l => .list ((arr l).map valOf)
  | _ =>
  match j.getObjVal? "d" with
  | .ok d => .dict ((arr d).map (fun kv => unhex (J.str ((arr kv).getD 0 Json.null)))) ((arr d).map (fun kv => valOf ((arr kv).getD 1 Json.null)))
  | _ =>
  match j.getObjVal? "r" with
  | .ok r => .ref (nat r)
  | _ => .none

def argOf (j : Json) : Arg :=
  { name := unhex (strF j "name"), ignored := boolF j "ignored", generator := boolF j "generator",
    constant := boolF j "constant", required := boolF j "required",
    default := (if isNull (fld j "default") then none else some (valOf (fld j "default"))),
    value := valOf (fld j "value") }

def optBool (j : Json) : Option Bool := if isNull j then none else some (J.bool j)

def cnodeOf (j : Json) : CNode :=
  { cls := natF j "cls", args := (arrF j "args").map argOf, task := optNat (fld j "task"),
    mflag := optBool (fld j "meta"), preTasks := (arrF j "pre").map nat, initTasks := (arrF j "init").map nat }

def classOf (j : Json) : ClassDecl := { ownId := unhex (strF j "id"), deprecatedOf := optNat (fld j "dep") }

abbrev D := List Nat
def hc : HC D := { H := Sha256.hashBytes, emb := id, le := bytesLe }

def keyOf (j : Json) : Key := (nat ((arr j).getD 0 Json.null), nat ((arr j).getD 1 Json.null))
def keyJ (k : Key) : Json := Json.arr #[(k.1 : Json), (k.2 : Json)]

def entryOf (j : Json) : Entry :=
  match j.getObjVal? "l" with
  | .ok l => .link (keyOf l)
  | _ =>
    let p := fld j "p"
    .dir (natF j "d") (if isNull p then .absent else match p with
      | .str _ => .broken
      | _ => .ok (keyOf p))

def entryJ : Entry → Json
  | .link g => Json.mkObj [("l", keyJ g)]
  | .dir d p => Json.mkObj [("d", (d : Json)), ("p", match p with
      | .absent => Json.null
      | .broken => Json.str "broken"
      | .ok nk => keyJ nk)]

def dedupKeys (l : List Key) : List Key := l.foldl (fun acc k => if acc.contains k then acc else acc ++ [k]) []

def step (_ : Unit) (j : Json) : Unit × Json :=
  let out :=
    match strF j "op" with
    | "ids" =>
      let g0 : CGraph := { classes := (arrF j "classes").map classOf, nodes := (arrF j "nodes").map cnodeOf }
      let sel := (arrF j "sel").map nat
      let g := if sel.isEmpty then g0 else reclass (fun i => sel.contains i) g0
      let ns := List.range g.nodes.length
      Json.mkObj [("eff", Json.arr ((List.range g.classes.length).map (fun c => Json.str (hexOf (eff g.classes c)))).toArray),
        ("raw", Json.arr (ns.map (fun n => Json.str (hexOf (cRawId hc g n)))).toArray),
        ("full", Json.arr (ns.map (fun n => Json.str (hexOf (cFullId hc g n)))).toArray)]
    | "fix" =>
      let entries := (arrF j "tree").map (fun e =>
        let a := arr e
        ((nat (a.getD 0 Json.null), nat (a.getD 1 Json.null)), entryOf (a.getD 2 Json.null)))
      let ks1 := (arrF j "ks1").map keyOf
      let ks2 := (arrF j "ks2").map keyOf
      let univ := dedupKeys (entries.map (·.1) ++ entries.filterMap (fun e => match e.2 with
        | .dir _ (.ok nk) => some nk
        | .link g => some g
        | _ => none) ++ ks1 ++ ks2)
      -- `fixTree` is the fold of `step1` / `step2`; a `Tree` is a function, so the driver tabulates the tree on the
      -- key universe after every step (all keys a step can touch are in it) instead of nesting closures
      let tab (t : Tree) : List (Key × Entry) := univ.filterMap (fun k => (t k).map (fun e => (k, e)))
      let fx := boolF j "fix"
      let cl := boolF j "cleanup"
      let l1 := if cl then ks1.foldl (fun l k => tab (step1 (ofList l) k)) entries else entries
      let l2 := ks2.foldl (fun l k => tab (step2 fx cl (ofList l) k)) l1
      Json.mkObj [("tree", Json.arr (l2.map (fun (k, e) =>
        Json.arr #[(k.1 : Json), (k.2 : Json), entryJ e])).toArray)]
    | op => Json.mkObj [("error", Json.str s!"bad-op {op}")]
  ((), out)

def main : IO Unit := J.loop step ()
