/-! M (restart, process status): what `psutil` reports for a process that is not our child (an adopted job, the holder of a
    token file) and how `PsutilProcess` (connectors/local.py) turns it into "still running".  Import-free. -/
namespace XpmVerif.Restart

/-- `psutil.STATUS_*` (Linux), plus `gone` = no process with that pid. -/
inductive PStat where
  | running | sleeping | diskSleep | stopped | tracingStop | idle | waking | parked | zombie | dead | gone
  deriving DecidableEq, Repr, Inhabited

/-- states of a process that exists and will go on executing: in particular `stopped` (SIGSTOP / SIGTSTP, a cluster
    suspend) and `tracingStop` (a debugger, `strace -p`, `py-spy` attached) — a suspended job is a running job.
    `zombie` / `dead` (ended, not yet collected by its parent) are left to the code: the property says nothing there. -/
def PStat.goesOn : PStat → Bool
  | .running | .sleeping | .diskSleep | .stopped | .tracingStop | .idle | .waking | .parked => true
  | .zombie | .dead | .gone => false

/-- the decision of `PsutilProcess` (`aio_state`, `wait`): `none` = the code has no list of statuses (the pid exists:
    `is_running()` / `psutil.Process.wait()`); `some l` = the pid exists and `status() in l`. -/
def treatedAlive (l : Option (List PStat)) (s : PStat) : Bool :=
  s != .gone && (match l with | none => true | some l => l.contains s)

end XpmVerif.Restart
