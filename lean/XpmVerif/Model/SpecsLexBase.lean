import XpmVerif.Model.SpecsParse
/-! M8 (characters, base): what the generated file `Generated/SpecsLex.lean` needs — the regular-expression
    fragment used by `launcherfinder/parser.py` with Python's matching discipline (`re.match`: leftmost
    alternative first, greedy repetition, backtracking), prefix matching of literals (`StrMatch`, no keyword
    boundary: arpeggio's `autokwd` is off), and arpeggio's whitespace set.  Characters are `Char`; the
    digit class `\d` is ASCII `0-9` (the domain of the model: ASCII text). -/
namespace XpmVerif.Specs

/-- regular expressions of the supported subset: literal characters, `\d`, concatenation, `|`, `?`, `\d+`. -/
inductive Re where
  | eps
  | chr (c : Char)
  | digit
  | seq (a b : Re)
  | alt (a b : Re)
  | opt (a : Re)
  | plusDigit
  deriving Repr, DecidableEq, Inhabited

/-- `\d*` followed by the continuation `k`: greedy, gives characters back one by one when `k` fails. -/
def starDigit {α : Type} (k : List Char → Option α) : List Char → Option α
  | [] => k []
  | c :: cs =>
    if c.isDigit then
      (match starDigit k cs with
       | some r => some r
       | none => k (c :: cs))
    else k (c :: cs)

/-- backtracking matcher in continuation style: `re.m k cs` = the first way (in Python's search order) of
    matching a prefix of `cs` with `re` such that `k` accepts the rest. -/
def Re.m {α : Type} : Re → (List Char → Option α) → List Char → Option α
  | .eps, k, cs => k cs
  | .chr c, k, cs => (match cs with | d :: r => if d = c then k r else none | [] => none)
  | .digit, k, cs => (match cs with | d :: r => if d.isDigit then k r else none | [] => none)
  | .seq a b, k, cs => a.m (b.m k) cs
  | .alt a b, k, cs => (match a.m k cs with | some r => some r | none => b.m k cs)
  | .opt a, k, cs => (match a.m k cs with | some r => some r | none => k cs)
  | .plusDigit, k, cs => (match cs with | d :: r => if d.isDigit then starDigit k r else none | [] => none)

/-- `regex.match(input, pos)`: what is left after the match, `none` when there is no match. -/
def Re.run (re : Re) (cs : List Char) : Option (List Char) := re.m some cs

/-- `StrMatch`: the literal is a prefix of the input (no word boundary). -/
def stripPrefix : List Char → List Char → Option (List Char)
  | [], cs => some cs
  | _ :: _, [] => none
  | p :: ps, c :: cs => if p = c then stripPrefix ps cs else none

/-- first entry of a table of literals that is a prefix of the input. -/
def lexLit : List (List Char × Tok) → List Char → Option (Tok × List Char)
  | [], _ => none
  | (p, t) :: rest, cs =>
    match stripPrefix p cs with
    | some r => some (t, r)
    | none => lexLit rest cs

/-- arpeggio's `DEFAULT_WS = '\t\n\r '`. -/
def isWs (c : Char) : Bool := c == '\t' || c == '\n' || c == '\r' || c == ' '

def skipWs : List Char → List Char
  | [] => []
  | c :: cs => if isWs c then skipWs cs else c :: cs

end XpmVerif.Specs
