import XpmVerif.Model.ValidateMro
import XpmVerif.Properties.C15
/-! C15 — which declaration is "the declared type" of a parameter of a class with several bases.

Model: `Model/ValidateMro.lean` (`argLookup`, `argTable`, parameterised by the linearisation `Lin.dfs` = the
nested `ChainMap`s of the source as found, `Lin.mro` = Python's MRO).  The theorems of `Properties/C15.lean`
speak about one `ArgDecl` per argument; the theorems below say which one that is. -/
namespace XpmVerif.C15
open XpmVerif.Validate

/-- **The resolution rule**: a lookup along a linearisation `L` returns the declaration of the *first* class
    of `L` that declares the name — and nothing else: `lookupIn … = some (c, a)` iff `L = pre ++ c :: post`,
    `c` declares `x` as `a` and no class of `pre` declares `x`. -/
theorem lookup_first_declaration (lib : Lib) (x : String) (c : Nat) (a : ArgDecl) :
    ∀ (L : List Nat), lookupIn lib x L = some (c, a) ↔
      ∃ pre post, L = pre ++ c :: post ∧ ownLookup x (lib.own c) = some a ∧ ∀ c' ∈ pre, ownLookup x (lib.own c') = none
  | [] => by simp [lookupIn]
  | c0 :: L => by
    have ih := lookup_first_declaration lib x c a L
    cases h0 : ownLookup x (lib.own c0) with
    | some a0 =>
      simp only [lookupIn, h0, Option.some.injEq, Prod.mk.injEq]
      constructor
      · rintro ⟨rfl, rfl⟩
        exact ⟨[], L, rfl, h0, by simp⟩
      · rintro ⟨pre, post, hL, ha, hpre⟩
        cases pre with
        | nil =>
          simp only [List.nil_append, List.cons.injEq] at hL
          obtain ⟨rfl, _⟩ := hL
          rw [h0] at ha
          exact ⟨rfl, by simpa using ha⟩
        | cons p pre =>
          simp only [List.cons_append, List.cons.injEq] at hL
          obtain ⟨rfl, _⟩ := hL
          have := hpre c0 (by simp)
          rw [h0] at this
          cases this
    | none =>
      simp only [lookupIn, h0]
      rw [ih]
      constructor
      · rintro ⟨pre, post, rfl, ha, hpre⟩
        refine ⟨c0 :: pre, post, rfl, ha, ?_⟩
        intro c' hc'
        rcases List.mem_cons.mp hc' with rfl | hc'
        · exact h0
        · exact hpre c' hc'
      · rintro ⟨pre, post, hL, ha, hpre⟩
        cases pre with
        | nil =>
          simp only [List.nil_append, List.cons.injEq] at hL
          obtain ⟨rfl, _⟩ := hL
          rw [h0] at ha
          cases ha
        | cons p pre =>
          simp only [List.cons_append, List.cons.injEq] at hL
          obtain ⟨rfl, rfl⟩ := hL
          exact ⟨pre, post, rfl, ha, fun c' hc' => hpre c' (List.mem_cons_of_mem _ hc')⟩

/-- **Own declarations override every inherited one**, for both linearisations (the class itself comes
    first in its MRO; the nested `ChainMap` starts with the class's own map). -/
theorem own_declaration_wins (lib : Lib) (l : Lin) (c : Nat) (d : ClassDecl) (hc : lib[c]? = some d)
    (hmro : ∃ r, d.mro = c :: r) (x : String) (a : ArgDecl) (h : ownLookup x (lib.own c) = some a) :
    argLookup lib l c x = some (c, a) := by
  cases l with
  | dfs => simp [argLookup, linOf, dfsLin, hc, lookupIn, h]
  | mro =>
    obtain ⟨r, hr⟩ := hmro
    simp [argLookup, linOf, hc, hr, lookupIn, h]

/-- every entry of the argument table is the first declaration along the linearisation -/
theorem table_entry_is_first_declaration (lib : Lib) (l : Lin) (c : Nat) :
    ∀ e ∈ argTable lib l c, argLookup lib l c e.1 = some (e.2.1, e.2.2) := by
  intro e he
  simp only [argTable, List.mem_filterMap] at he
  obtain ⟨x, _, hx⟩ := he
  cases hl : argLookup lib l c x with
  | none => simp [hl] at hx
  | some p =>
    simp only [hl, Option.map_some, Option.some.injEq] at hx
    subst hx
    simp [hl]

/-- **First sentence, with inheritance**: when the argument table follows Python's MRO, what an assignment to
    parameter `x` of an object of class `c` stores is a member of the type declared by the *first class of
    the MRO of `c` that declares `x`* (or `None` when that declaration is not required) — never of the type
    of a declaration that this one overrides. -/
theorem set_sound_mro (I : Impl) (lib : Lib) (c : Nat) (d : ClassDecl) (hc : lib[c]? = some d) (x : String)
    (o : Nat) (a : ArgDecl) (v w : PyVal)
    (hU : I.unionDictNone = false ∨ a.ty.unionFree = true) (hC : I.cfgNoneOk = false ∨ a.ty.cfgFree = true)
    (hl : argLookup lib .mro c x = some (o, a)) (h : setArg I a v = .ok w) :
    (∃ pre post, d.mro = pre ++ o :: post ∧ ownLookup x (lib.own o) = some a ∧ ∀ c' ∈ pre, ownLookup x (lib.own c') = none) ∧
    (conforms a.ty w = true ∨ (w = .none ∧ a.required = false)) := by
  refine ⟨?_, set_sound I a v w hU hC h⟩
  have := (lookup_first_declaration lib x o a (linOf lib .mro c)).mp hl
  simpa [linOf, hc] using this

/-- the value of the `k`-th argument is absent or `None` -/
def valMissing (vs : List (Option PyVal)) (k : Nat) : Bool :=
  match vs[k]? with
  | some (some .none) => true
  | some (some _) => false
  | _ => true

/-- (lemma for the second sentence) the loop of `_validate` fails as soon as the `k`-th argument of the table is required,
    has no generator and no value -/
theorem hasFail_argsItems_at (dp : Bool) : ∀ (as : List ArgDecl) (vs : List (Option PyVal)) (k : Nat) (a : ArgDecl),
    as[k]? = some a → a.required = true → a.generator = false → valMissing vs k = true →
    hasFail (argsItems dp as vs) = true
  | [], _, k, a, h, _, _, _ => by simp at h
  | a0 :: as, [], 0, a, h, hr, hg, _ => by
    simp only [List.getElem?_cons_zero, Option.some.injEq] at h
    subst h
    simp [argsItems, argItems, hr, hg]
  | a0 :: as, [], k + 1, a, h, hr, hg, _ => by
    simp only [List.getElem?_cons_succ] at h
    have := hasFail_argsItems_at dp as [] k a h hr hg (by simp [valMissing])
    simp [argsItems, hasFail_append, this]
  | a0 :: as, v :: vs, 0, a, h, hr, hg, hm => by
    simp only [List.getElem?_cons_zero, Option.some.injEq] at h
    subst h
    simp only [valMissing, List.getElem?_cons_zero] at hm
    cases v with
    | none => simp [argsItems, argItems, hr, hg]
    | some pv => cases pv <;> simp_all [argsItems, argItems]
  | a0 :: as, v :: vs, k + 1, a, h, hr, hg, hm => by
    simp only [List.getElem?_cons_succ] at h
    have := hasFail_argsItems_at dp as vs k a h hr hg (by simpa [valMissing] using hm)
    simp [argsItems, hasFail_append, this]

/-- **Second sentence, with inheritance**: in a graph over the class library `lib` whose argument tables
    follow the MRO, a node of class `c` reachable from the submitted task is *missing a required value* as
    soon as the `k`-th entry of the table of `c` — parameter `x`, whose MRO-first declaration `a` is required
    and has no generator — has no value; `submit` is then rejected and registers nothing.  In particular a
    parameter that the MRO-first declaration makes required stays required, whatever an overridden
    declaration (`Optional[…]`, a default) says. -/
theorem submit_rejects_missing_mro (I : Impl) (hI : I.deepValidate = true) (lib : Lib) (nodes : List Node)
    (tasks : List Nat) (s : Sched) (root n : Nat) (nd : Node) (k : Nat) (x : String) (o : Nat) (a : ArgDecl)
    (hr : Reach (allSuccs { classes := lib.classes .mro, nodes := nodes, tasks := tasks }) root n)
    (hn : nodes[n]? = some nd) (hc : nd.cls < lib.length)
    (hk : (argTable lib .mro nd.cls)[k]? = some (x, o, a)) (hreq : a.required = true) (hgen : a.generator = false)
    (hv : valMissing nd.vals k = true) :
    argLookup lib .mro nd.cls x = some (o, a) ∧
    (submit I { classes := lib.classes .mro, nodes := nodes, tasks := tasks } s root).1 ≠ .ok ∧
    (submit I { classes := lib.classes .mro, nodes := nodes, tasks := tasks } s root).2 = s := by
  refine ⟨table_entry_is_first_declaration lib .mro nd.cls (x, o, a) (List.mem_of_getElem? hk), ?_⟩
  apply submit_rejects_missing I hI _ s root n hr
  have hargs : (Graph.args { classes := lib.classes .mro, nodes := nodes, tasks := tasks } nd.cls)[k]? = some a := by
    simp [Graph.args, Lib.classes, hc, hk]
  simp only [nodeMissing, nodeItems, hn, hasFail_append, Bool.or_eq_true]
  exact Or.inl (Or.inl (hasFail_argsItems_at false _ nd.vals k a hargs hreq hgen hv))

/-! ### witnesses -/

/-- the diamond of the seeded change: `Base(count: float, seed: Optional[int])`, `Fixed(Base)` re-declares
    `count: int`, `seed: int`, `Logged(Base)` adds `verbose`, `C(Fixed, Logged)` -/
def diamond : Lib :=
  [ { bases := [], mro := [0], own := [("count", { ty := .float }), ("seed", { ty := .opt .int })] },
    { bases := [0], mro := [1, 0], own := [("count", { ty := .int }), ("seed", { ty := .int })] },
    { bases := [0], mro := [2, 0], own := [("verbose", { ty := .bool, hasDefault := true })] },
    { bases := [1, 2], mro := [3, 1, 2, 0], own := [] } ]

/-- on this diamond both linearisations give `C.count : int` (declared by `Fixed`) and a required `seed`;
    1.5 is refused, and a graph whose `C` node has no `seed` is rejected -/
theorem diamond_resolution :
    (argLookup diamond .dfs 3 "count").map (·.1) = some 1 ∧ (argLookup diamond .mro 3 "count").map (·.1) = some 1 ∧
    (argTable diamond .mro 3).map (fun e => (e.1, e.2.1)) = [("count", 1), ("seed", 1), ("verbose", 2)] ∧
    argTable diamond .dfs 3 = argTable diamond .mro 3 ∧
    ((argLookup diamond .mro 3 "count").map (fun p => setArg Impl.repaired p.2 (.float (.fin false 3 (-1))))) = some (.error .invalid) ∧
    ((argLookup diamond .mro 3 "seed").map (fun p => setArg Impl.repaired p.2 .none)) = some (.error .attribute) := by
  refine ⟨?_, ?_, ?_, ?_, ?_, ?_⟩ <;>
    simp [argLookup, argTable, tableNames, dedup, linOf, dfsLin, dfsLinL, diamond, lookupIn, Lib.own, ownLookup, setArg,
      ArgDecl.required, Ty.isOpt, Ty.stripOpt, validate, vInt, Fl.toInt?]

/-- the same diamond with the re-declaration on the *second* branch: `Fixed(Base)` inherits, `Logged(Base)`
    re-declares `count: str`, `seed: int`; `C(Fixed, Logged)` has the MRO `C, Fixed, Logged, Base` -/
def diamond2 : Lib :=
  [ { bases := [], mro := [0], own := [("count", { ty := .float }), ("seed", { ty := .opt .int })] },
    { bases := [0], mro := [1, 0], own := [] },
    { bases := [0], mro := [2, 0], own := [("count", { ty := .str }), ("seed", { ty := .int })] },
    { bases := [1, 2], mro := [3, 1, 2, 0], own := [] } ]

/-- C15-N5 (negation witness, source as found): the nested `ChainMap`s reach `Base` through `Fixed` before
    `Logged`, Python's MRO says `Logged` first.  With the depth-first table `C(count=1.5)` is stored in a
    parameter whose declared type is `str` and `seed = None` is accepted although `seed: int` is required;
    with the MRO table both are refused. -/
theorem depth_first_witness :
    (argLookup diamond2 .dfs 3 "count").map (·.1) = some 0 ∧ (argLookup diamond2 .mro 3 "count").map (·.1) = some 2 ∧
    ((argLookup diamond2 .dfs 3 "count").map (fun p => setArg Impl.repaired p.2 (.float (.fin false 3 (-1))))) = some (.ok (.float (.fin false 3 (-1)))) ∧
    conforms .str (.float (.fin false 3 (-1))) = false ∧
    ((argLookup diamond2 .mro 3 "count").map (fun p => setArg Impl.repaired p.2 (.float (.fin false 3 (-1))))) = some (.error .invalid) ∧
    ((argLookup diamond2 .dfs 3 "seed").map (fun p => setArg Impl.repaired p.2 .none)) = some (.ok .none) ∧
    ((argLookup diamond2 .mro 3 "seed").map (fun p => setArg Impl.repaired p.2 .none)) = some (.error .attribute) := by
  refine ⟨?_, ?_, ?_, ?_, ?_, ?_, ?_⟩ <;>
    simp [argLookup, linOf, dfsLin, dfsLinL, diamond2, lookupIn, Lib.own, ownLookup, setArg,
      ArgDecl.required, Ty.isOpt, Ty.stripOpt, validate, vFloat, vStr, conforms]

example : ∃ (nodes : List Node), nodes[0]? = some { cls := 3, vals := [some (.int 3), none, none] } ∧
    (argTable diamond .mro 3)[1]? = some ("seed", 1, { ty := .int }) ∧ valMissing [some (.int 3), none, none] 1 = true :=
  ⟨[{ cls := 3, vals := [some (.int 3), none, none] }], rfl,
   by simp [argLookup, argTable, tableNames, dedup, linOf, diamond, lookupIn, Lib.own, ownLookup], rfl⟩

end XpmVerif.C15
