"""C18 — a launcher request only matches hosts that satisfy it.

Tie to the source: (1) translator: `Generated/Specs.lean` is regenerated from
launcherfinder/specs.py and the C18 theorems are re-checked against it;
(2) differential: generated request ASTs x host specifications go to the real
`HostSimpleRequirement.match`, `RequirementUnion.match`, `LauncherRegistry.find`,
`parser.parse`, `&`, `*` and to the Lean model (`Drive/C18.lean`).
Monitors (implementation only) state the property directly on real objects."""
import copy
import json
import time

from .. import common
from ..translate import specs as tr_specs
from ..translate import specslex as tr_specslex
from ..translate import specsfind as tr_specsfind

PROP = "C18"
MODULES = ["XpmVerif.Properties.C18", "XpmVerif.Properties.C18Parse", "XpmVerif.Properties.C18Lex", "XpmVerif.Properties.C18Find", "XpmVerif.Properties.C18Sort"]
GB = 10**9


def prove(ctx):
    msgs = [tr_specs.generate(common.REPO, common.LEAN), tr_specslex.generate(common.REPO, common.LEAN), tr_specsfind.generate(common.REPO, common.LEAN)]
    ctx.notes.append(f"translator: {msgs[0][1]}")
    ctx.notes.append(f"translator (terminals of parser.py): {msgs[1][1]}")
    ctx.notes.append(f"translator (loops of LauncherRegistry.find / RequirementUnion.match): {msgs[2][1]}")
    ctx.extra_cov["translator_fallbacks"] = sum(1 for _, m in msgs if m.startswith("untranslated") or "reference model used" in m)
    common.check_proofs(ctx, MODULES, translate_msgs=msgs)


# ---------------------------------------------------------------- generators


def gen_host(rng):
    mems = [0, 1, 2, 4, 8, 11, 12, 16, 24, 32, 40, 80]
    ngpu = rng.choice([0, 0, 1, 2, 2, 3, 4])
    cuda = []
    for _ in range(ngpu):
        m = rng.choice(mems) * GB
        mm = rng.choice([0, 0, 0, 1, 4, 12]) * GB if rng.random() < 0.3 else 0
        cuda.append({"memory": m, "min_memory": mm})
    if rng.random() < 0.5:
        cuda.sort(key=lambda c: c["memory"])
    return {
        "cuda": cuda,
        "cpu": {"memory": rng.choice([0, 4, 12, 16, 64, 70, 128]) * GB, "cores": rng.choice([0, 1, 2, 4, 8, 16, 64])},
        "priority": rng.choice([-2, 0, 0, 1, 3, 5]),
        "max_duration": rng.choice([0, 0, 3600, 7200, 86400, 172800]),
        "min_gpu": rng.choice([0, 0, 0, 1, 2]),
    }


def gen_mem(rng, small=False):
    if small and rng.random() < 0.2:
        return {"k": "mem", "n": rng.choice([0, 1, 512, 4096]), "sfx": ""}
    sfx = rng.choice(["G", "G", "G", "M"])
    n = rng.choice([1, 2, 4, 8, 12, 16, 24, 40, 70, 80]) if sfx == "G" else rng.choice([500, 1024, 4000, 16000])
    return {"k": "mem", "n": n, "sfx": sfx}


def gen_term(rng, malformed=False):
    r = rng.random()
    if r < 0.2:
        u = rng.choice(["h", "hours", "d", "days"])
        return {"t": "duration", "n": rng.choice([0, 1, 2, 12, 24, 48]), "u": u}
    if r < 0.6:
        items = [gen_mem(rng, True) for _ in range(rng.choice([1, 1, 1, 2]))]
        if malformed and rng.random() < 0.5:
            items = []
        mult = rng.choice([None, None, 0, 1, 2, 3, 4])
        return {"t": "cuda", "items": items, "mult": mult}
    items = []
    for _ in range(rng.choice([1, 2, 2, 3])):
        items.append(gen_mem(rng, True) if rng.random() < 0.5 else {"k": "cores", "n": rng.choice([0, 1, 2, 4, 8, 32])})
    if malformed and rng.random() < 0.5:
        items = []
    return {"t": "cpu", "items": items}


def gen_alts(rng, malformed=False):
    return [[gen_term(rng, malformed) for _ in range(rng.choice([1, 1, 2, 2, 3]))] for _ in range(rng.choice([1, 1, 2, 3]))]


def render(alts, rng):
    def ws():
        return rng.choice(["", "", " ", " ", "  ", "\t", " \n "])

    def item(i):
        if i["k"] == "mem":
            return f"mem{ws()}={ws()}{i['n']}{i['sfx']}"
        return f"cores{ws()}={ws()}{i['n']}"

    def term(t):
        if t["t"] == "duration":
            return f"duration{ws()}={ws()}{t['n']}{ws()}{t['u']}"
        inner = f"{ws()},{ws()}".join(item(i) for i in t["items"])
        s = f"{t['t']}{ws()}({ws()}{inner}{ws()})"
        if t["t"] == "cuda" and t.get("mult") is not None:
            s += f"{ws()}*{ws()}{t['mult']}"
        return s

    return ws() + f"{ws()}|{ws()}".join(f"{ws()}&{ws()}".join(term(t) for t in conj) for conj in alts) + ws()


def tokens_of(alts):
    toks = []
    for ai, conj in enumerate(alts):
        if ai:
            toks.append({"k": "|"})
        for ti, t in enumerate(conj):
            if ti:
                toks.append({"k": "&"})
            if t["t"] == "duration":
                toks += [{"k": "duration"}, {"k": "="}, {"k": "num", "n": t["n"]}, {"k": "unit", "u": t["u"]}]
                continue
            toks += [{"k": t["t"]}, {"k": "("}]
            for ii, i in enumerate(t["items"]):
                if ii:
                    toks.append({"k": ","})
                if i["k"] == "mem":
                    toks += [{"k": "mem"}, {"k": "="}, {"k": "memlit", "n": i["n"], "sfx": i["sfx"]}]
                else:
                    toks += [{"k": "cores"}, {"k": "="}, {"k": "num", "n": i["n"]}]
            toks.append({"k": ")"})
            if t["t"] == "cuda" and t.get("mult") is not None:
                toks += [{"k": "*"}, {"k": "num", "n": t["mult"]}]
    return toks


def mutate_tokens(toks, rng):
    """one random token-level edit (mostly producing malformed text)"""
    toks = [dict(t) for t in toks]
    r = rng.random()
    i = rng.randrange(len(toks))
    if r < 0.35:
        del toks[i]
    elif r < 0.6:
        toks.insert(i, rng.choice([{"k": ","}, {"k": ")"}, {"k": "("}, {"k": "*"}, {"k": "&"}, {"k": "|"}, {"k": "="}, {"k": "cores"}, {"k": "mem"},
                                   {"k": "num", "n": 3}, {"k": "memlit", "n": 2, "sfx": "G"}, {"k": "unit", "u": "h"}]))
    elif r < 0.85:
        j = rng.randrange(len(toks))
        toks[i], toks[j] = toks[j], toks[i]
    else:
        toks[i] = rng.choice([{"k": "cuda"}, {"k": "cpu"}, {"k": "duration"}])
    return toks


def text_of_tokens(toks, rng):
    def ws():
        return rng.choice(["", "", " ", " ", "  ", "\t", " \n "])
    out = ws()
    prev = None
    for t in toks:
        k = t["k"]
        w = {"num": str(t.get("n")), "memlit": f"{t.get('n')}{t.get('sfx', '')}", "unit": t.get("u")}.get(k, k)
        # two adjacent word-like tokens need a separator to stay two tokens
        sep = ws()
        if prev is not None and (prev[-1].isalnum() and w[0].isalnum()) and sep == "":
            sep = " "
        out += sep + w
        prev = w
    return out + ws()


WS_CHARS = [" ", "\t", "\n", "\r"]
SIZE_UNITS = ["", "G", "M", "K", "T", "P", "GB", "MB", "KB", "GiB", "MiB", "KiB", "TiB", "Gi", "Ki", "gib", "GIB", "gb", "g", "m", "k", "b", "B", "bytes", "byte",
              "gibibyte", "gibibytes", "Gibibytes", "mebibytes", "kibibyte", "gigabytes", "giga", "megabyte", "Gs", "GiBs", "s", "X", "iB", "o", "Go", "E", "ZiB", "y", "yobibyte"]
TIME_UNITS = ["", "s", "sec", "secs", "second", "seconds", "m", "min", "mins", "minute", "minutes", "h", "hour", "hours", "H", "Hours", "d", "day", "days", "D",
              "w", "week", "weeks", "y", "year", "years", "mi", "ho", "da", "hr", "hrs", "x", "mo", "month"]


def gen_quantity(rng, units):
    """integer literal + unit spelling with padding (ASCII; no fractional numbers, no sub-second units)"""
    def ws():
        return "".join(rng.choice(WS_CHARS) for _ in range(rng.choice([0, 0, 0, 1, 1, 2])))
    n = rng.choice([0, 1, 2, 3, 4, 7, 12, 16, 64, 100, 512, 1024, 4096, 65536, 123456789])
    digits = str(n) if rng.random() < 0.9 else "0" * rng.choice([1, 2]) + str(n)
    r = rng.random()
    unit = rng.choice(units)
    if r < 0.06:
        return ws() + unit + ws()                      # no number
    if r < 0.10:
        return ws() + digits + ws() + unit + ws() + str(rng.choice([1, 22]))   # a second number
    if r < 0.14:
        return rng.choice(["x", "-", "+", "G"]) + digits + unit
    return ws() + digits + ws() + unit + ws()


def mutate_text(text, rng):
    """character-level edits of a request text: unknown units, missing parentheses, trailing garbage, case, stray characters"""
    r = rng.random()
    if not text:
        return text
    i = rng.randrange(len(text))
    if r < 0.18:
        return text[:i] + text[i + 1:]                                     # drop a character (often a parenthesis / a letter of a keyword)
    if r < 0.30:
        return text + rng.choice([" x", ")", "&", "|", " 3", "G", ",", " cpu", "\t", " \n", "*2", "*"])   # trailing garbage / padding
    if r < 0.42:
        for a, b in rng.sample([("G", "GiB"), ("G", "GB"), ("G", "g"), ("G", "K"), ("G", " G"), ("M", "MiB"), ("M", "m"), ("hours", "hour"), ("hours", "hrs"), ("days", "day"),
                                ("h", "H"), ("days", "d ays"), ("d", "m"), ("h", "min"), ("=", " = "), ("=", "=="), ("=", ":"), ("mem", "memory"), ("mem", "me m"), ("cores", "core"),
                                ("cuda", "gpu"), ("cpu", "CPU"), ("cuda", "Cuda"), ("duration", "time"), ("&", "&&"), ("|", "||"), (",", ";"), (",", ",,"), ("(", "(("), (")", "))"),
                                ("(", "["), ("*", "x"), ("*", "**")], 6):
            if a in text:
                j = rng.choice([k for k in range(len(text)) if text.startswith(a, k)])
                return text[:j] + b + text[j + len(a):]
        return text.upper()
    if r < 0.52:
        return text[:i] + text[i].swapcase() + text[i + 1:]
    if r < 0.70:
        return text[:i] + rng.choice(list("()=,&|*GMhd0123456789. \t\n\rxo-_")) + text[i:]    # insert a character
    if r < 0.80:
        return text[:i] + rng.choice(list("()=,&|*GMhd09 x")) + text[i + 1:]                 # replace a character
    if r < 0.88 and len(text) > 1:
        j = rng.randrange(len(text))
        i, j = min(i, j), max(i, j)
        return text[:i] + text[j:]                                                            # cut a span
    return text[:i] + rng.choice(WS_CHARS) + text[i:]                                         # whitespace inside a token or between tokens


# ---------------------------------------------------------------- real code adapters


def _S():
    from experimaestro.launcherfinder import specs
    return specs


def real_host(h):
    S = _S()
    return S.HostSpecification(
        cuda=[S.CudaSpecification(c["memory"], "", c["min_memory"]) for c in h["cuda"]],
        cpu=S.CPUSpecification(h["cpu"]["memory"], h["cpu"]["cores"]),
        priority=h["priority"], max_duration=h["max_duration"], min_gpu=h["min_gpu"])


def memstr(i):
    return f"{i['n']}{i['sfx']}"


def real_term(t):
    """the programmatic equivalent of a textual term"""
    S = _S()
    if t["t"] == "duration":
        return S.duration(f"{t['n']} {t['u']}")
    kw = {}
    for i in t["items"]:
        if i["k"] == "mem":
            kw["mem"] = memstr(i)
        else:
            kw["cores"] = i["n"]
    if not t["items"]:
        raise ValueError("no programmatic equivalent")
    if t["t"] == "cuda":
        r = S.cuda_gpu(**kw)
        return r * t["mult"] if t.get("mult") is not None else r
    return S.cpu(**kw)


def real_conj(conj):
    terms = [real_term(t) for t in conj]
    r = terms[0]
    for t in terms[1:]:
        r = r & t
    return r


def val(r):
    return {
        "gpus": [{"memory": g.memory, "min_memory": g.min_memory} for g in r.cuda_gpus],
        "cpu": {"memory": r.cpu.memory, "cores": r.cpu.cores},
        "duration": r.duration,
    }


def canon(v):
    """model and implementation values in one shape"""
    return {
        "gpus": [{"memory": g["memory"], "min_memory": g.get("min_memory", 0)} for g in v["gpus"]],
        "cpu": {"memory": v["cpu"]["memory"], "cores": v["cpu"]["cores"]},
        "duration": v["duration"],
    }


# ---------------------------------------------------------------- monitors (implementation only)


def satisfies(host, req):
    """the property's first sentence, stated on plain data"""
    hg = sorted((c["memory"] for c in host["cuda"]), reverse=True)
    rg = sorted((g["memory"] for g in req["gpus"]), reverse=True)
    if len(hg) < len(rg) or any(h < r for h, r in zip(hg, rg)):
        return "GPUs"
    if host["cpu"]["memory"] < req["cpu"]["memory"]:
        return "CPU memory"
    if host["cpu"]["cores"] < req["cpu"]["cores"]:
        return "CPU cores"
    if host["max_duration"] > 0 and req["duration"] > host["max_duration"]:
        return "duration"
    return None


_REG = {}
_REG_DIR = []


class FoundLauncher:
    """what the find_launcher function of the generated launchers.py returns: remembers the requirement that matched"""
    _cls = None

    @classmethod
    def make(cls, spec):
        if cls._cls is None:
            from experimaestro.launchers import Launcher

            class L(Launcher):
                def __init__(self, spec):
                    self.spec = spec

                def scriptbuilder(self):
                    raise NotImplementedError()
            cls._cls = L
        return cls._cls(spec)


def _find_on(hostjson, spec, tags):
    H = real_host(json.loads(hostjson))
    return FoundLauncher.make(spec) if spec.match(H) else None


def registry_for(host):
    """LauncherRegistry(config dir) — the public constructor — for a configuration directory whose launchers.py describes `host`"""
    import atexit
    import shutil
    import tempfile
    from pathlib import Path
    from experimaestro.launcherfinder.registry import LauncherRegistry
    key = json.dumps(host, sort_keys=True)
    if key not in _REG:
        if not _REG_DIR:
            _REG_DIR.append(Path(tempfile.mkdtemp(prefix="xv-c18-cfg-")))
            atexit.register(shutil.rmtree, str(_REG_DIR[0]), True)
        d = _REG_DIR[0] / f"h{len(_REG)}"
        d.mkdir()
        (d / "launchers.py").write_text("from xv.props import c18 as _H\nHOST = " + repr(key) + "\n\n\ndef find_launcher(requirements, tags=set()):\n"
                                        "    return _H._find_on(HOST, requirements, tags)\n")
        _REG[key] = LauncherRegistry(d)
    return _REG[key]


def near_capacity_requests(host):
    """(value, object) requests around what the host offers: the largest GPU memory exactly, and a few MB more (differences
    far below what a human-readable rendering of the sizes shows)"""
    S = _S()
    out = []
    if host["cuda"]:
        m = max(c["memory"] for c in host["cuda"])
        for mem in (m, m + 4_000_000):
            if mem > 0:
                ro = S.cuda_gpu(mem=str(mem))
                out.append((val(ro), ro))
    cm = host["cpu"]["memory"]
    if cm > 0:
        for mem in (cm, cm + 3_000_000):
            ro = S.cpu(mem=str(mem))
            out.append((val(ro), ro))
    return out


def impl_match_case(ctx, host, reqvals, reqobjs, alts=None):
    """runs match / union / registry.find on the real code; applies the monitors; returns canonical output"""
    S = _S()
    H = real_host(host)
    each = []
    for ai, (rv, ro) in enumerate(zip(reqvals, reqobjs)):
        m = ro.match(H)
        each.append(None if m is None else m.score)
        if m is not None:
            why = satisfies(host, rv)
            if why:
                ctx.monitor_fail(f"match-unsound:{why}", f"request {rv} matches host {host} although the host lacks {why}",
                                 {"op": "match", "host": host, "req": rv})
            elif alts is not None:
                # a conjunction requests what each of its terms requests (GPU terms add up, the rest is the maximum)
                terms = [val(real_term(t)) for t in alts[ai]]
                gpus = sorted([g for tv in terms for g in tv["gpus"]], key=lambda g: g["memory"])
                whole = {"gpus": gpus, "cpu": {"memory": max(tv["cpu"]["memory"] for tv in terms), "cores": max(tv["cpu"]["cores"] for tv in terms)},
                         "duration": max(tv["duration"] for tv in terms)}
                why = satisfies(host, whole)
                if why:
                    ctx.monitor_fail(f"conjunction-drops-requirement:{why}",
                                     f"request {alts[ai]} matches host {host} although the host lacks the {why} requested by one of its terms",
                                     {"kind": "match", "host": host, "alts": [alts[ai]]})
    u = S.RequirementUnion(*reqobjs).match(H)
    union = None
    if u is not None:
        idx = next(i for i, ro in enumerate(reqobjs) if ro is u.requirement)
        union = [u.score, idx]
    first = next((i for i, e in enumerate(each) if e is not None), None)
    if (union is None) != (first is None) or (union is not None and union[1] != first):
        ctx.monitor_fail("union-order", f"alternatives {reqvals} on host {host}: union picked {union}, first matching alternative is {first}",
                         {"op": "union", "host": host, "reqs": reqvals})
    # LauncherRegistry.find tries the alternatives in the order given (a registry built by its public constructor over a
    # configuration directory whose launchers.py describes this host; one registry per host, asked again and again)
    reg = registry_for(host)
    found = reg.find(*reqobjs)
    fidx = None if found is None else next((i for i, ro in enumerate(reqobjs) if ro is found.spec), "other")
    if fidx != first:
        ctx.monitor_fail("find-order", f"LauncherRegistry.find picked alternative {fidx}, first matching is {first}",
                         {"op": "find", "host": host, "reqs": reqvals})
    # … then two more lookups on the same registry, just below and just above what the host offers
    for rv2, ro2 in near_capacity_requests(host):
        f2 = reg.find(ro2)
        why = satisfies(host, rv2)
        ctx.count("find_near_capacity", "found" if f2 is not None else "none")
        if f2 is not None and why:
            ctx.monitor_fail(f"find-unsound:{why}", f"LauncherRegistry.find returned a launcher for request {rv2} on host {host} although the host lacks {why} "
                                                    f"(the registry had answered other requests before)", {"op": "find-near", "host": host, "req": rv2})
        # (the property is one-directional: a launcher is returned ONLY IF the host satisfies the request; the converse is not claimed —
        # GPUs are paired by rank and a host GPU may refuse small requests)
    return {"each": each, "union": union}


def impl_and_case(ctx, a, b, same):
    A = real_conj(a)
    B = A if same else real_conj(b)
    va, vb = val(A), val(B)
    C = A & B
    out = {"result": val(C), "a_after": val(A), "b_after": val(B)}
    if val(A) != va or val(B) != vb or C is A or C is B:
        ctx.monitor_fail("and-alters-operand", f"`a & b` altered an operand: a {va} -> {val(A)}, b {vb} -> {val(B)}",
                         {"op": "and", "a": a, "b": b, "same": same})
    return out, va, vb


def impl_mul_case(ctx, a, c):
    A = real_conj(a)
    va = val(A)
    C = A * c
    out = {"result": val(C), "a_after": val(A), "same_object": C is A}
    if val(A) != va:
        ctx.monitor_fail("mul-alters-operand", f"`a * {c}` altered its operand: {va} -> {val(A)}", {"op": "mul", "a": a, "c": c})
    if c >= 1:
        # what `a * c` asks for, stated on the operand: c times its GPUs, its CPU and its duration
        vc = val(C)
        key = lambda g: (g["memory"], g["min_memory"])
        want_gpus = sorted(va["gpus"] * c, key=key)
        if vc["cpu"] != va["cpu"] or vc["duration"] != va["duration"] or sorted(vc["gpus"], key=key) != want_gpus:
            lost = [k for k in ("cpu", "duration") if vc[k] != va[k]] + (["gpus"] if sorted(vc["gpus"], key=key) != want_gpus else [])
            ctx.monitor_fail(f"mul-drops-requirement:{'+'.join(lost)}",
                             f"`a * {c}` does not request {c} times what `a` requests: a = {va}, a * {c} = {vc}", {"op": "mul", "a": a, "c": c})
    return out, va


def impl_text_case(ctx, alts, text):
    from experimaestro.launcherfinder.parser import parse
    try:
        parsed = [val(r) for r in parse(text)]
    except Exception as e:
        parsed = "error"
    try:
        prog = [val(real_conj(c)) for c in alts]
    except Exception:
        prog = "error"
    if parsed != prog and prog != "error":
        ctx.monitor_fail("text-vs-programmatic", f"text {text!r} parses to {parsed}, the programmatic equivalent is {prog}",
                         {"op": "text", "alts": alts, "text": text})
    return {"reqs": parsed}, prog


# ---------------------------------------------------------------- correspondence


CORPUS = [
    # F12: 12 GB host, cpu(mem=70G) request; F13: a & b aliasing
    {"kind": "match", "host": {"cuda": [], "cpu": {"memory": 12 * GB, "cores": 4}, "priority": 0, "max_duration": 0, "min_gpu": 0},
     "alts": [[{"t": "cpu", "items": [{"k": "mem", "n": 70, "sfx": "G"}]}]]},
    {"kind": "and", "a": [{"t": "cpu", "items": [{"k": "mem", "n": 2, "sfx": "G"}]}], "b": [{"t": "cuda", "items": [{"k": "mem", "n": 4, "sfx": "G"}], "mult": 2}, {"t": "cpu", "items": [{"k": "cores", "n": 8}]}], "same": False},
]


def gen_cases(ctx, n, rng):
    cases = list(CORPUS)
    for i in range(n):
        r = rng.random()
        if r < 0.5:
            cases.append({"kind": "match", "host": gen_host(rng), "alts": gen_alts(rng)})
        elif r < 0.65:
            cases.append({"kind": "and", "a": gen_alts(rng)[0], "b": gen_alts(rng)[0], "same": rng.random() < 0.15})
        elif r < 0.75:
            cases.append({"kind": "mul", "a": gen_alts(rng)[0], "c": rng.choice([0, 1, 1, 2, 3, 5])})
        elif r < 0.84:
            alts = gen_alts(rng, malformed=rng.random() < 0.15)
            cases.append({"kind": "text", "alts": alts, "text": render(alts, rng)})
        elif r < 0.93:
            alts = gen_alts(rng, malformed=rng.random() < 0.1)
            text = render(alts, rng)
            for _ in range(rng.choice([0, 1, 1, 1, 2, 3])):
                text = mutate_text(text, rng)
            cases.append({"kind": "chars", "text": text})
        elif r < 0.95:
            if rng.random() < 0.5:
                cases.append({"kind": "size", "text": gen_quantity(rng, SIZE_UNITS)})
            else:
                cases.append({"kind": "timespan", "text": gen_quantity(rng, TIME_UNITS)})
        else:
            toks = tokens_of(gen_alts(rng, malformed=rng.random() < 0.1))
            for _ in range(rng.choice([0, 1, 1, 2])):
                if toks:
                    toks = mutate_tokens(toks, rng)
            if toks:
                cases.append({"kind": "tokens", "toks": toks, "text": text_of_tokens(toks, rng)})
    return cases


def run_cases(ctx, cases, with_model=True):
    lines, impl = [], []
    for c in cases:
        k = c["kind"]
        try:  # build the operands with the real constructors
            if k == "match":
                objs = [real_conj(conj) for conj in c["alts"]]
                vals = [val(o) for o in objs]
                line = {"op": "match", "host": c["host"], "reqs": vals}
            elif k == "and":
                line = {"op": "and", "a": val(real_conj(c["a"])), "b": val(real_conj(c["b"])), "same": c["same"]}
            elif k == "mul":
                line = {"op": "mul", "a": val(real_conj(c["a"])), "c": c["c"]}
            elif k == "tokens":
                # `\d+` and `\d+(G|M)?` overlap lexically: the class of a bare number is decided by its position
                toks = [dict(t) for t in c["toks"]]
                for i, t in enumerate(toks):
                    after_mem = i >= 2 and toks[i - 1]["k"] == "=" and toks[i - 2]["k"] == "mem"
                    if t["k"] == "num" and after_mem:
                        toks[i] = {"k": "memlit", "n": t["n"], "sfx": ""}
                    elif t["k"] == "memlit" and t.get("sfx", "") == "" and not after_mem:
                        toks[i] = {"k": "num", "n": t["n"]}
                line = {"op": "parse", "toks": toks}
            elif k == "chars":
                line = {"op": "lextext", "text": c["text"]}
            elif k in ("size", "timespan"):
                line = {"op": k, "text": c["text"]}
            else:
                line = {"op": "text", "alts": c["alts"]}
        except (ValueError, IndexError) as e:  # a generated request with no programmatic form (empty cuda()/cpu())
            ctx.count("unbuildable", type(e).__name__)
            continue
        try:
            if k == "match":
                out = impl_match_case(ctx, c["host"], vals, objs, c["alts"])
                nt = len(vals) >= 2 and any(v["gpus"] for v in vals) and len(set(map(str, out["each"]))) > 1
                ctx.count("match_outcome", "some" if out["union"] else "none")
            elif k == "and":
                out, va, vb = impl_and_case(ctx, c["a"], c["b"], c["same"])
                if c["same"]:
                    out["b_after"] = None
                nt = bool(va["gpus"] or vb["gpus"])
            elif k == "mul":
                out, va = impl_mul_case(ctx, c["a"], c["c"])
                nt = bool(va["gpus"]) and c["c"] != 1
            elif k == "tokens":
                from experimaestro.launcherfinder.parser import parse
                try:
                    out = {"reqs": [val(r) for r in parse(c["text"])]}
                except Exception:
                    out = {"reqs": "error"}
                nt = len(c["toks"]) > 6
                ctx.count("token_stream_outcome", "error" if out["reqs"] == "error" else "ok")
            elif k == "chars":
                from experimaestro.launcherfinder.parser import parse
                try:
                    out = {"reqs": [val(r) for r in parse(c["text"])]}
                except Exception:
                    out = {"reqs": "error"}
                nt = len(c["text"]) > 12
                ctx.count("chars_outcome", "error" if out["reqs"] == "error" else "ok")
            elif k in ("size", "timespan"):
                import humanfriendly
                try:
                    out = {"v": int(humanfriendly.parse_size(c["text"])) if k == "size" else int(humanfriendly.parse_timespan(c["text"]))}
                except (humanfriendly.InvalidSize, humanfriendly.InvalidTimespan):
                    out = {"v": None}
                nt = out["v"] is not None and out["v"] > 999
                ctx.count(f"{k}_outcome", "error" if out["v"] is None else "ok")
            else:
                out, prog = impl_text_case(ctx, c["alts"], c["text"])
                nt = len(c["text"]) > 20
                ctx.count("text_outcome", "error" if out["reqs"] == "error" else "ok")
        except Exception as e:  # the real operation raised: an outcome, compared with the model
            out = {"raised": type(e).__name__}
            nt = False
            ctx.count("impl_raised", type(e).__name__)
        lines.append(line)
        impl.append(out)
        if k in ("text", "tokens"):   # the same text through the character-level model (lexer + token grammar)
            lines.append({"op": "lextext", "text": c["text"]})
            impl.append({"reqs": out["reqs"]} if "reqs" in out else out)
        ctx.count("kind", k)
        ctx.case(c, nt)
    if not with_model or not lines:
        return
    try:
        outs = common.run_driver("C18", lines)
    except Exception as e:
        ctx.disagree({"driver": "C18"}, None, None, f"model driver failed: {e}")
        return
    for line, m, i in zip(lines, outs, impl):
        if line["op"] == "and" and line["same"]:
            m["b_after"] = None
        cm = _canon_out(m)
        ci = _canon_out(i)
        if cm != ci:
            ctx.disagree(line, cm, ci, "model and implementation differ")


def _canon_out(o):
    o = dict(o)
    for k in ("result", "a_after", "b_after"):
        if o.get(k) is not None:
            o[k] = canon(o[k])
    if isinstance(o.get("reqs"), list):
        o["reqs"] = [canon(r) for r in o["reqs"]]
    return o


def correspond(ctx):
    ctx.rule = ("cases: (host, alternatives) for match/union/registry.find, (a,b) for &, (a,count) for *, (AST, rendered text with random "
                "whitespace) for parse, character-level edits of such texts (unknown units, missing parentheses, trailing garbage, case, stray characters) "
                "through the real parse and the Lean lexer+grammar, size/timespan literals (integer, unit spellings incl. G/GB/GiB/Gi, padding) through humanfriendly "
                "and the Lean parseSize/parseTimespan; non-trivial = match case with >=2 alternatives, a GPU request and mixed outcomes / & or * with GPU lists "
                "/ text longer than 20 chars; distinct = distinct case hash")
    ctx.assumptions += ["humanfriendly.parse_size / parse_timespan and arpeggio's scannerless matching are libraries: modelled (Model/SpecsLex.lean) and compared on generated "
                        "ASCII texts, not proved; `\\d` is ASCII 0-9 in the model (Python's also matches other Unicode digits); integer literals, no sub-second time units",
                        "host and request quantities are non-negative integers"]
    n = ctx.scale(1500, 40000)
    cases = gen_cases(ctx, n, ctx.rng)
    # character level: more mutated texts and quantity literals (cheap: no host, no registry)
    rng = ctx.rng
    for _ in range(ctx.scale(700, 12000)):
        alts = gen_alts(rng, malformed=rng.random() < 0.1)
        text = render(alts, rng)
        for _ in range(rng.choice([0, 1, 1, 1, 2, 3])):
            text = mutate_text(text, rng)
        cases.append({"kind": "chars", "text": text})
    for _ in range(ctx.scale(400, 6000)):
        cases.append({"kind": "size", "text": gen_quantity(rng, SIZE_UNITS)} if rng.random() < 0.55 else {"kind": "timespan", "text": gen_quantity(rng, TIME_UNITS)})
    run_cases(ctx, cases)


def search(ctx):
    """implementation-only monitors over a larger stream (run when a proof or the correspondence broke)"""
    t0 = time.time()
    budget = ctx.scale(40, 300)
    import random
    rng = random.Random(f"search-{ctx.seed}")
    while time.time() - t0 < budget and not [m for m in ctx.monitor_failures]:
        run_cases(ctx, gen_cases(ctx, 2000, rng)[len(CORPUS):], with_model=False)


def run_witness(ctx, finding):
    w = finding.get("witness")
    if w:
        run_cases(ctx, [w], with_model=False)


def replay(ctx, obj):
    cases = []
    for f in obj.get("failures", []):
        c = f["case"]
        print("replaying", c)
        # cases stored by monitors are op-level; rerun the closest generator case
    for d in obj.get("disagreements", []):
        print("disagreement:", d)
    # re-run the quick correspondence with the same seed: deterministic
    prove(ctx)
    correspond(ctx)
    return common.verdict(ctx, search)
