"""Worker process for C12: *submission histories on one workspace*.

A case is a task-rooted configuration graph followed by variants of it that differ only in what the
identifier ignores (values of Meta/Option parameters, paths, the content of sub-configurations flagged
as meta, meta members of lists/dicts, tags — `xv.gen.edits.neutral_edit`), so that every step normally
lands in the *same job folder*.  Each step submits its variant through a real `experiment` on the same
workspace directory:

  mode "generate"  GENERATE_ONLY: the job folder is prepared (script + params.json), nothing runs
  mode "run"       normal mode: the real scheduler starts a real job process; with `fail` the task body
                   raises *after* having echoed what it observes (a machine without enough resources:
                   decided by a marker file outside the configuration), so the job ends in ERROR and a
                   later step starts it again

Public observables only: the echo written by the task code in the job process (parameter values of the
runtime objects, `__tags__`), the final `job.state`, and `from_task_dir(job.path)`.

Monitors (sentences of the property):
  hist:values     "the task code observes exactly the parameter values ... that were configured"
  hist:tags       "... and tags that were configured"
  hist:param-file "writing any configuration graph as a task parameter file and loading it back yields an
                  isomorphic graph (same classes, same values for every parameter including ignored ones,
                  same sharing)"; stated on the parameter file of the job folder right after a step that
                  prepared the folder for *this* submission (a job process was started for it, or it was
                  generated and the folder does not hold a finished job)
  hist:identifier "identifiers equal to the originals when recomputed" (on that reloaded graph)
A job that does not reach DONE although nothing asked it to fail, or whose body never ran, is reported as
`hist:job-failed` / `hist:body-not-run` (the sentence cannot be observed: the case is kept as replay).

usage: python -m xv.impl.c12x_hist_worker <in.json> <out.json>     (same protocol as xv.impl.serial_worker)
"""
import json
import os
import shutil
import signal
import sys
import tempfile
import traceback
from pathlib import Path

from . import serial_worker as S

XVLOG_EXTRA = '''

def maybe_fail():
    """the machine the job runs on lacks a resource: nothing to do with the configuration"""
    import os
    mark = os.environ.get("XV_FAIL_MARK")
    if mark and os.path.exists(mark):
        raise RuntimeError("xv: not enough resources on this machine")
'''


def load_lib(lib, root):
    from . import cfgbuild
    (root / "xvlog.py").write_text(S.XVLOG_SRC + XVLOG_EXTRA)
    base = S.make_extra_body(lib)

    def extra(c):
        out = []
        for line in base(c):
            out.append(line)
            if c["kind"] == "task" and 'log("exec", self)' in line:      # only the task body fails, after its pre/init tasks ran
                out.append('        __import__("xvlog").maybe_fail()')
        return out

    return cfgbuild.load_library(S.strip_lib(lib), root, extra)


def read_events(echo: Path):
    if not echo.exists():
        return []
    out = []
    for l in echo.read_text().splitlines():
        try:
            out.append(json.loads(l))
        except ValueError:     # a line being written by a process that was interrupted: not an observation
            pass
    return out


def short(x, n=260):
    s = json.dumps(x, ensure_ascii=False, default=str)
    return s if len(s) <= n else s[:n] + "…"


def pretty(v):
    """a value of a description (see xvlog.plain) in readable form"""
    import struct
    dec = lambda h: bytes.fromhex(h).decode("utf-8", "replace")
    if isinstance(v, dict):
        if "b" in v:
            return v["b"]
        if "i" in v:
            return int(v["i"])
        if "f" in v:
            return struct.unpack("!d", bytes.fromhex(v["f"]))[0]
        if "s" in v:
            return dec(v["s"])
        if "e" in v:
            return "enum " + dec(v["e"])
        if "p" in v:
            return "Path(%r)" % dec(v["p"])
        if "l" in v:
            return [pretty(x) for x in v["l"]]
        if "d" in v:
            return {dec(k): pretty(x) for k, x in v["d"]}
        if "r" in v:
            return f"<object #{v['r']}>"
    return v


def first_diff(obs, conf):
    """where two descriptions (objects numbered by first visit, each {"cls", "values": [[hex name, value]]}) differ"""
    dec = lambda h: bytes.fromhex(h).decode("utf-8", "replace")
    for i, (x, y) in enumerate(zip(obs, conf)):
        if x == y:
            continue
        where = f"object #{i} ({y['cls'].split(':')[-1]})"
        if x["cls"] != y["cls"]:
            return f"{where}: class observed {x['cls']} / configured {y['cls']}"
        vx, vy = dict(x["values"]), dict(y["values"])
        for k in sorted(set(vx) | set(vy)):
            if vx.get(k, "<absent>") != vy.get(k, "<absent>"):
                return (f"{where}, parameter `{dec(k)}`: observed {short(pretty(vx[k]) if k in vx else '<absent>', 140)} / "
                        f"configured {short(pretty(vy[k]) if k in vy else '<absent>', 140)}")
    return f"{len(obs)} objects observed / {len(conf)} configured"


COUNTER = [0]
ENVIRONMENTAL = ("hist:body-not-run", "hist:job-failed")


def run_hist(mod, lib, case, root, canon, datadir):
    import xvlog
    from experimaestro import experiment, RunMode, from_task_dir
    from experimaestro.core.serialization import from_state_dict
    from experimaestro.scheduler import JobState
    from . import cfgbuild
    rec = {"lines": [], "impl": [], "monitors": [], "stats": {}, "steps": []}

    def mon(key, what, detail=None):
        rec["monitors"].append({"key": key, "what": what, "detail": detail})

    COUNTER[0] += 1
    ws = root / f"hist{COUNTER[0]}"
    ws.mkdir()
    echo = ws / "xv-echo.jsonl"
    failmark = ws / "xv-no-resources"
    src = os.environ.get("XPM_REPO", "/repo") + "/src"
    pythonpath = ":".join([src, str(root)])     # written in this order by sys.path.insert(0, …): root first
    paths = []
    finished = set()      # job folders in which a job of this history reached DONE (the workspace starts empty)
    for si, step in enumerate(case["steps"]):
        srec = {"mode": step["mode"], "fail": bool(step.get("fail")), "ran": False, "same_dir": None, "state": None}
        rec["steps"].append(srec)
        label = f"step {si + 1}/{len(case['steps'])} ({step['mode']}{', the machine lacks resources' if step.get('fail') else ''}" \
                f"{', after ' + step['edit']['how'] if step.get('edit') else ''})"
        g = S.localise(step["graph"], datadir)
        inits = list(g["nodes"][0]["init"])
        g["nodes"][0]["init"] = []
        objs = cfgbuild.build_graph(mod, g)
        rootobj = objs[0]
        if step.get("fail"):
            failmark.touch()
        elif failmark.exists():
            failmark.unlink()
        n0 = len(read_events(echo))
        mode = RunMode.GENERATE_ONLY if step["mode"] == "generate" else RunMode.NORMAL
        raised = None
        try:
            with experiment(ws / "workspace", f"xp{step.get('xp', 0)}", port=-1, run_mode=mode) as xp:
                xp.setenv("PYTHONPATH", pythonpath)
                xp.setenv("XV_ECHO", str(echo))
                xp.setenv("XV_FAIL_MARK", str(failmark))
                rootobj.submit(init_tasks=[objs[i] for i in inits])
        except Exception as e:
            if type(e).__name__ != "FailedExperiment":
                raise
            raised = e
        job = rootobj.__xpm__.job
        jp = Path(job.path)
        srec["same_dir"] = (not paths) or jp == paths[-1]
        paths.append(jp)
        done_before = str(jp) in finished
        events = read_events(echo)[n0:]
        execs = [e for e in events if e["kind"] == "exec"]
        want = xvlog.describe(rootobj, lambda o: dict(o.__xpm__.values))
        want_tags = json.loads(json.dumps(rootobj.tags()))
        check_file = False
        if step["mode"] == "run":
            srec["state"] = job.state.name
            if done_before:
                # a finished job is not run again: nothing to observe (and nothing demanded of its folder)
                srec["ran"] = bool(execs)
                continue
            if not execs:
                mon("hist:body-not-run", f"{label}: no task body was observed in a job process (job state {job.state.name})", {"step": si})
                break
            srec["ran"] = True
            body = execs[-1]
            if body["desc"] != want:
                mon("hist:values", f"{label}: the task code in the job process observed parameter values that are not the configured ones — "
                    f"{first_diff(body['desc'], want)}; history: {history_line(case)}", {"step": si, "observed": body["desc"], "configured": want})
            if body.get("tags") != want_tags:
                mon("hist:tags", f"{label}: the task code in the job process observed tags {body.get('tags')} instead of the configured {want_tags}; "
                    f"history: {history_line(case)}", {"step": si})
            if step.get("fail"):
                if job.state == JobState.DONE:
                    rec["stats"]["fail_ignored"] = True
            elif job.state != JobState.DONE:
                mon("hist:job-failed", f"{label}: the job ended in state {job.state.name} although its body was not asked to fail", {"step": si})
                break
            else:
                finished.add(str(jp))
            check_file = True
        else:
            check_file = not done_before
        if check_file:
            try:
                loaded = from_task_dir(jp)
            except Exception as e:
                has_data = '"path.serialized"' in (jp / "params.json").read_text() if (jp / "params.json").is_file() else False
                mon("from-task-dir-raises:" + S.err_kind(e) + (":data" if has_data else ""),
                    f"{label}: from_task_dir(job folder) raised {type(e).__name__}: {str(e)[:200]}"
                    + (" (the task holds DataPath values)" if has_data else "") + f"; history: {history_line(case)}", {"step": si})
                if not has_data:
                    continue
                try:   # what from_task_dir is documented to do: resolve data paths against the directory
                    content = json.loads((jp / "params.json").read_text())
                    content["data"] = {"type": "python", "value": content["objects"][-1]["id"]}
                    loaded = from_state_dict(content, jp)
                    rec["stats"]["param_file_via"] = "from_state_dict"
                except Exception as e2:
                    mon("hist:param-file", f"{label}: the task parameter file could not be loaded back: {type(e2).__name__}: {str(e2)[:200]}", {"step": si})
                    continue
            # a data path of the parameter file is resolved against the job folder: compared as the file it denotes
            def values_fn(o):
                args = o.__xpmtype__.arguments
                return {n: ((jp / v) if args[n].is_data and isinstance(v, Path) else v) for n, v in o.__xpm__.values.items()}
            got = xvlog.describe(loaded, values_fn)
            want = xvlog.describe(rootobj, values_fn)
            diffs = []
            if got == want:
                # meta flags, pre-tasks, init tasks and sharing; not the `task` link (submit() makes a submitted task its own producer)
                try:
                    def data_eq(x, y, at):
                        if jp / Path(x) != jp / Path(y):
                            raise S.Differ("value", f"{at}: data path {x} vs {y}")
                    S.pair_walk(rootobj, loaded, S.cfg_view, S.cfg_view, S.is_cfg, links=("meta", "pre", "init"), data_eq=data_eq)
                except S.Differ as d:
                    diffs.append((d.kind, d.what))
            if got != want:
                mon("hist:param-file", f"{label}: the task parameter file of the job folder, loaded back with from_task_dir, is not the graph that was "
                    f"submitted — {first_diff(got, want)}; history: {history_line(case)}", {"step": si})
            elif diffs:
                mon("hist:param-file", f"{label}: the task parameter file loaded back with from_task_dir differs from the submitted graph: {diffs[0][1]}; "
                    f"history: {history_line(case)}", {"step": si})
            elif loaded.__xpm__.identifier.all != rootobj.__xpm__.identifier.all:
                mon("hist:identifier", f"{label}: the graph loaded from the task parameter file is isomorphic to the submitted one but its recomputed "
                    f"identifier differs; history: {history_line(case)}", {"step": si})
    rec["stats"]["hist_steps"] = str(len(rec["steps"]))
    return rec


def history_line(case):
    out = []
    for s in case["steps"]:
        t = s["mode"] + ("+fail" if s.get("fail") else "")
        if s.get("edit"):
            e = s["edit"]
            t = f"[{e.get('kind')}@node{e.get('node')}{'.' + e['arg'] if e.get('arg') else ''}] " + t
        out.append(t)
    return " -> ".join(out)


CASE_TIMEOUT = 600      # seconds for one history (normally 1-4 s): a case that takes longer is dropped, never reported


class CaseTimeout(BaseException):
    pass


def _on_alarm(signum, frame):
    raise CaseTimeout("the history did not finish within %d s" % CASE_TIMEOUT)


def main():
    signal.signal(signal.SIGALRM, _on_alarm)
    data = json.loads(Path(sys.argv[1]).read_text())
    root = Path(tempfile.mkdtemp(prefix="xvhist-"))
    datadir = root / "data"
    datadir.mkdir()
    S.make_data_files(datadir)
    out = []
    try:
        mods = [load_lib(lib, root) for lib in data["libs"]]
        for case in data["cases"]:
            mod, lib = mods[case["lib"]], data["libs"][case["lib"]]
            canon = S.Canon(datadir)
            try:
                signal.alarm(CASE_TIMEOUT)
                rec = run_hist(mod, lib, case, root, canon, datadir)
                if any(m["key"] in ENVIRONMENTAL for m in rec["monitors"]):
                    # a job that did not run / did not finish may be the machine's doing: the history is played once more on a
                    # fresh workspace and only a second failure is reported (a retry can only withdraw a report)
                    again = run_hist(mod, lib, case, root, canon, datadir)
                    again["stats"]["retried"] = True
                    rec = again
                rec["error"] = None
                signal.alarm(0)
            except BaseException as e:
                signal.alarm(0)
                if not isinstance(e, (Exception, CaseTimeout)):
                    raise
                rec = {"lines": [], "impl": [], "monitors": [], "stats": {}, "steps": [], "error": f"{type(e).__name__}: {e}",
                       "trace": traceback.format_exc()[-2500:]}
            out.append(rec)
    finally:
        shutil.rmtree(root, ignore_errors=True)
    Path(sys.argv[2]).write_text(json.dumps(out, default=str))


if __name__ == "__main__":
    main()
