"""C05 — a task configuration is executed at most once per successful result.

(a) scheduler side: random workloads with many duplicate submissions / re-submissions after failure / success
    markers x random schedules on the real Scheduler (deterministic engine), event-by-event correspondence with the
    Lean model M2, monitors `launched-despite-success-marker`, `duplicate-launched`, `launched-twice`, `submission-lost`;
(a') real API: submission histories with duplicates on a real `experiment` (InstantLauncher): identical
    configuration => the very same output object, no second job, one launch;
(b) several launchers start the same real job script concurrently (lock protocol of `aio_start`/`aio_run`
    reproduced): task-side log => bodies never overlap, none after success; the observed order is replayed on the
    Lean process model (Drive/C11.lean), which must predict who ran the body;
(c) two or three real schedulers (experiment processes) submit the same job on one workspace; the identity (inode) of
    the job's run lock file is watched: the model's "one lock = one file";
(d) a job that WAITS in one scheduler (token held by a blocker task) while another scheduler (another experiment process on the
    same workspace) runs the same configuration to completion; the waiting jobs are then released (impl/c05_waitdone_worker.py,
    sequenced through files): the success marker appeared *after* submission, the waiting scheduler does start the job (the
    code tests the marker at submission only) but the body must not run again — Lean: `C05.done_while_waiting_no_body`.
"""
import json
import os
import subprocess
import sys

from .. import common, identlib
from . import _sched

PROP = "C05"
MODULES = ["XpmVerif.Properties.C05", "XpmVerif.Properties.C05Wait"]
GEN = dict(max_jobs=7, max_tokens=2, resubmit=True, markers=True, fail_p=0.2, marker_p=0.25, resubmit_p=0.4)
RULE = ("(a) random workloads (<= 7 jobs, <= 2 tokens; 40 % of the jobs re-submit an earlier configuration, 25 % find a success marker, 20 % fail) x "
        "random schedules on the real Scheduler + all schedules of 5 small workloads, compared event by event with the Lean model; "
        "non-trivial = the workload contains a duplicate identifier or a marker and the schedule has >= 2 out-of-FIFO deliveries; "
        "(a') submission histories (<= 9 submissions of <= 4 task graphs, permuted rebuilds, failing-first jobs, waits) on a real experiment with an "
        "instant launcher; non-trivial = some configuration submitted again; (b) 2-3 launchers racing for one real job script "
        "(seeded start offsets, optional first failure); (c) 2-3 real experiment processes (different experiment names, one workspace) submit the same task "
        "configuration within 0-0.3 s, scheduler-side start slowed through a public Listener or not, or forced (the later ones queue on the job lock while the first "
        "starts the job); monitors: bodies never overlap, none after success, every experiment ends DONE, the lock file stays one inode; "
        "(d) 1-3 jobs waiting for a token in scheduler B while scheduler A (other process, same workspace) completes all / some of them (or fails them the first "
        "time), then released; non-trivial = a success marker appeared while the job waited; distinct = hash of the case")


def _nontrivial(spec, ev):
    ids = [j["ident"] for j in spec["jobs"]]
    reordered = sum(1 for e in ev if e[0] == "deliver" and e[1] > 0)
    return (len(set(ids)) < len(ids) or any(j["marker"] for j in spec["jobs"])) and reordered >= 2


def prove(ctx):
    # the job-side protocol read from the source (Generated/RunnerSrc.lean, obligations Properties/C10Src.lean) belongs to this property too
    from ..translate import runsrc
    _ok, msg, _info = runsrc.generate(common.REPO, common.LEAN)
    ctx.notes.append(f"translator(runsrc): {msg}")
    _sched.prove(ctx, MODULES + ["XpmVerif.Properties.C10Src"])


# ------------------------------------------------------------------------------------ (a') real API


def api_cases(ctx, rng):
    nlibs, per = ctx.scale(2, 6), ctx.scale(4, 5)
    libs, gcases = identlib.submit_cases(ctx, rng, "c05api", nlibs, per * 4)
    cases = []
    for li in range(len(libs)):
        gs = [c["graph"] for c in gcases if c["lib"] == li]
        if not gs:
            continue
        for _ in range(per):
            k = min(len(gs), rng.choice([1, 2, 3, 4]))
            graphs = rng.sample(gs, k)
            hist = []
            for _ in range(rng.choice([3, 5, 7, 9])):
                if hist and rng.random() < 0.2:
                    hist.append({"wait": True})
                else:
                    hist.append({"g": rng.randrange(k), "perm": rng.randrange(10**6) if rng.random() < 0.5 else None})
            fail = [i for i in range(k) if rng.random() < 0.2]
            cases.append({"lib": li, "graphs": graphs, "history": hist, "fail": fail})
    return libs, cases


def api_monitor(case, rec):
    """(key, what) list: the first sentence of the property on the real submit().  "Identical configuration" = same
    identifier as the real code reports it (two different generated graphs may be the same configuration, e.g. when
    they differ in ignored values only)."""
    fails = []
    first_of = {}  # identifier -> number (among submissions) of its first submission
    subs_of = {}   # identifier -> all its submissions so far
    failing = set(rec.get("failing", []))  # these fail the first time they run: a later submission may or may not be a re-submission
    sub = -1
    njobs_prev = 0
    for st, r in zip(case["history"], rec["steps"]):
        if st.get("wait"):
            continue
        sub += 1
        ident = r["identifier"]
        if ident in failing:
            # timing decides whether the first job has failed already: the returned output is that of some submission of
            # this very configuration
            if r["ret"] != sub and r["ret"] not in subs_of.get(ident, []):
                fails.append(("submit-returned-other-object", f"submission {sub} returned the output of submission {r['ret']}, which is a different configuration"))
        elif ident in first_of:
            if r["ret"] != first_of[ident]:
                fails.append(("submit-returned-other-object", f"submission {sub} of a configuration identical to submission {first_of[ident]} returned the output of submission {r['ret']}"))
            if r["njobs"] != njobs_prev:
                fails.append(("duplicate-created-second-job", f"submission {sub} (identical to {first_of[ident]}) changed the number of registered jobs {njobs_prev} -> {r['njobs']}"))
        else:
            first_of[ident] = sub
            if r["ret"] != sub:
                fails.append(("submit-returned-other-object", f"submission {sub} of a new configuration returned the output of submission {r['ret']}"))
        subs_of.setdefault(ident, []).append(sub)
        njobs_prev = r["njobs"]
    if rec.get("hang"):
        fails.append(("experiment-does-not-finish", "the experiment did not finish within the time limit (submission history with duplicates, instant launcher)"))
    for ident, n in rec.get("launched", {}).items():
        limit = 2 if ident in rec.get("failing", []) else 1
        if n > limit:
            fails.append(("configuration-launched-again", f"job {ident[:12]}… was launched {n} times"))
    return fails


def api_part(ctx):
    rng = ctx.rng
    libs, cases = api_cases(ctx, rng)
    if not cases:
        return
    tmp = ctx.tmpdir()
    parts, k = identlib.split(list(enumerate(cases)), ctx.scale(4, 8))
    from concurrent.futures import ThreadPoolExecutor
    recs = [None] * len(cases)
    with ThreadPoolExecutor(max_workers=8) as ex:
        futs = [(part, ex.submit(identlib.run_worker, {"libs": libs, "cases": [c for _, c in part]}, tmp, f"c05api-{pi}", None, "xv.impl.c05_worker"))
                for pi, part in enumerate(parts)]
        for part, f in futs:
            for (ci, _), r in zip(part, f.result()):
                recs[ci] = r
    errs = 0
    for case, rec in zip(cases, recs):
        if rec["error"]:
            errs += 1
            ctx.count("api_case_errors", rec["error"][:60])
            continue
        subs = [r["identifier"] for r in rec["steps"] if "identifier" in r]
        dup = len(set(subs)) < len(subs)
        ctx.case({"api": {"history": case["history"], "fail": case["fail"], "n_graphs": len(case["graphs"])}}, dup)
        ctx.count("api_history_len", len(subs))
        ctx.count("api_duplicates", len(subs) - len(set(subs)))
        ctx.count("api_with_failure", bool(case["fail"]))
        for key, what in api_monitor(case, rec):
            ctx.monitor_fail(key, f"{what} [real experiment, history {json.dumps(case['history'])}]",
                             {"api": True, "lib": libs[case["lib"]], "graphs": case["graphs"], "history": case["history"], "fail": case["fail"]})
        ctx.traces_validated += 1
    if errs > len(cases) // 3:
        raise RuntimeError(f"{errs}/{len(cases)} real-API cases could not be run: {next(r['error'] for r in recs if r['error'])}")


# ------------------------------------------------------------------------------------ (b) racing launches


def run_worker_cases(ctx, kind, cases, parallel=8, module="xv.impl.restart_worker", timeout=1500):
    tmp = ctx.tmpdir()
    fin, fout = tmp / f"{kind}-in.json", tmp / f"{kind}-out.json"
    fin.write_text(json.dumps({"kind": kind, "cases": cases, "parallel": parallel}))
    env = dict(os.environ)
    env["PYTHONPATH"] = str(common.VERIF / "harness") + (":" + env["PYTHONPATH"] if env.get("PYTHONPATH") else "")
    env["PYTHONWARNINGS"] = "ignore"
    p = subprocess.run([sys.executable, "-m", module, str(fin), str(fout)], env=env, capture_output=True, text=True, timeout=timeout)
    if p.returncode != 0 or not fout.exists():
        raise RuntimeError(f"worker {kind} failed rc={p.returncode}: {p.stderr[-1200:]}")
    return json.loads(fout.read_text())


def race_cases(ctx, rng):
    n = ctx.scale(12, 60)
    cases = []
    for i in range(n):
        k = rng.choice([2, 3, 3])
        cases.append({"id": f"race{i}", "n": k, "x": i + 1, "hold": rng.choice([0.15, 0.3, 0.5]), "fail_first": rng.random() < 0.3,
                      "offsets": [round(rng.choice([0.0, 0.0, 0.02, 0.05, 0.1, 0.2]), 3) for _ in range(k)]})
    return cases


def race_monitor(case, o):
    fails = []
    ivs = [iv for ivs in o["intervals"].values() for iv in ivs]
    ivs.sort(key=lambda iv: iv[1])
    for a in range(len(ivs)):
        for b in range(a + 1, len(ivs)):
            ea = ivs[a][2] if ivs[a][2] is not None else float("inf")
            if ivs[b][1] < ea:
                fails.append(("bodies-overlap", f"{case['n']} concurrent launches of one job script: the bodies of processes {ivs[a][0]} and {ivs[b][0]} overlap"))
    succ = [iv for iv in ivs if iv[3] == "end"]
    if len(succ) > 1:
        fails.append(("body-run-again-after-success", f"{case['n']} concurrent launches: {len(succ)} successful executions of the body"))
    if succ:
        t_ok = min(iv[2] for iv in succ)
        later = [iv for iv in ivs if iv[1] > t_ok]
        if later and len(succ) == 1:
            fails.append(("body-run-again-after-success", f"a body started after the job had succeeded ({len(later)} later start(s))"))
    if not succ and not o.get("error"):
        fails.append(("race-no-success", f"no execution succeeded; launches {o.get('launches')}; stderr {o.get('err', '')[-200:]}"))
    if succ and not o.get("done"):
        fails.append(("success-without-marker", "a body completed but the success marker does not exist"))
    return fails


def race_model_lines(case, o):
    """replay of the observed race on the Lean process model: who took the lock in which order"""
    pids = [l.get("pid") for l in o["launches"]] + [o["late"].get("pid")]
    ivs = sorted((iv for ivs in o["intervals"].values() for iv in ivs), key=lambda iv: iv[1])
    runners = [iv[0] for iv in ivs]
    if any(p is None for p in pids) or any(r not in pids for r in runners):
        return None
    idx = {p: i for i, p in enumerate(pids)}
    codes = [0] * len(pids)
    for iv in ivs:
        if iv[3] == "fail":
            codes[idx[iv[0]]] = 1
    lines = [{"op": "init", "tokens": [], "jobs": [{"ident": 1, "deps": [], "code": 0, "marker": False}], "done": []}]
    for i in range(len(pids)):
        lines.append({"op": "ev", "e": ["spawn", 1, codes[i]]})
    order = [idx[r] for r in runners] + [i for i in range(len(pids)) if pids[i] not in runners]
    for p in order:
        for _ in range(3):
            lines.append({"op": "ev", "e": ["proc", p, True]})
    expect = {"ran": [pids[i] in runners for i in range(len(pids))], "bodies": len(ivs), "succ": sum(1 for iv in ivs if iv[3] == "end"),
              "fails": sum(1 for iv in ivs if iv[3] == "fail"), "done": bool(o.get("done"))}
    return lines, expect


def race_part(ctx):
    cases = race_cases(ctx, ctx.rng)
    outs = run_worker_cases(ctx, "race", cases, parallel=ctx.scale(8, 12))
    lines, owners = [], []
    for case, o in zip(cases, outs):
        if o.get("error"):
            ctx.count("race_errors", o["error"][:60])
            continue
        nb = sum(len(v) for v in o["intervals"].values())
        ctx.case({"race": case, "log": [l[:3] for l in o["log"]]}, True)
        ctx.count("race_launchers", case["n"])
        ctx.count("race_bodies_run", nb)
        ctx.count("race_fail_first", case["fail_first"])
        for key, what in race_monitor(case, o):
            ctx.monitor_fail(key, f"{what} [race {json.dumps(case)}]", {"race": case})
        ml = race_model_lines(case, o)
        if ml is None:
            ctx.count("race_model", "not-mappable")
            continue
        ls, expect = ml
        lines += ls
        owners.append((case, o, len(ls), expect))
    if not lines:
        return
    try:
        mouts = common.run_driver("C11", lines)
    except Exception as e:
        ctx.disagree({"driver": "C11"}, None, None, f"model driver failed: {e}")
        return
    i = 0
    for case, o, n, expect in owners:
        last = mouts[i + n - 1]
        i += n
        d = last["dirs"][0]
        got = {"ran": [p["ran"] for p in last["procs"]], "bodies": d["bodies"], "succ": d["succ"], "fails": d["fails"], "done": d["done"]}
        if got != expect:
            ctx.disagree({"race": case, "log": o["log"]}, got, expect, "process model and real job processes differ on who ran the body")
        else:
            ctx.traces_validated += 1
            ctx.count("race_model", "accepted")
    errs = sum(1 for o in outs if o.get("error"))
    if errs > len(outs) // 3:
        raise RuntimeError(f"{errs}/{len(outs)} race cases could not be run: {next(o['error'] for o in outs if o.get('error'))}")


# ------------------------------------------------------------------------------------ (c) two real schedulers, one job


def twosched_cases(ctx, rng):
    cases = []
    if ctx.quick():
        specs = [("forced", 2, None), ("free", 2, 1), ("free", 3, None)]
    else:
        specs = [("forced", 2, None), ("forced", 3, None), ("forced", 2, None)]
        for n in (2, 3):
            for slow in (None, 0, 1):
                for _ in range(3):
                    specs.append(("free", n, slow))
    for i, (mode, n, slow) in enumerate(specs):
        offs = [0.0] + [round(rng.choice([0.0, 0.05, 0.1, 0.2, 0.3]), 2) for _ in range(n - 1)]
        cases.append({"id": f"twosched{i}", "n": n, "mode": mode, "x": 100 + i,
                      "offsets": [0.0] * n if mode == "forced" else offs,
                      "slow": [rng.choice([0.4, 0.7, 1.0]) if slow == k else 0.0 for k in range(n)],
                      "hold": 3.0 if mode == "forced" else 1.0, "max_slow": 6.0})
    return cases


def twosched_monitor(case, o):
    """(key, what): third sentence of the property on n real schedulers that submit one job on one workspace"""
    fails = []
    if o.get("error"):
        return fails
    tag = f"{case['n']} experiment processes submit one job on one workspace ({case['mode']}, offsets {case['offsets']}, slow start {case['slow']})"
    ivs = sorted((iv for ivs in o["intervals"].values() for iv in ivs), key=lambda iv: iv[1])
    for a in range(len(ivs)):
        for b in range(a + 1, len(ivs)):
            ea = ivs[a][2] if ivs[a][2] is not None else float("inf")
            if ivs[b][1] < ea:
                fails.append(("bodies-overlap:two-schedulers", f"{tag}: the bodies of processes {ivs[a][0]} and {ivs[b][0]} overlap ({len(ivs)} executions)"))
    succ = [iv for iv in ivs if iv[3] == "end"]
    if len(succ) > 1 or (succ and any(iv[1] > min(x[2] for x in succ) for iv in ivs)):
        fails.append(("body-run-again-after-success:two-schedulers", f"{tag}: {len(ivs)} executions of the body, {len(succ)} successful"))
    for k, f in enumerate(o.get("finals") or []):
        if f is None or f.get("error") or f.get("state") != "DONE":
            fails.append(("scheduler-did-not-end-done:two-schedulers", f"{tag}: experiment {k} ended with {f} (rc {o.get('rcs')}; {o.get('err', '')[-200:]})"))
            break
    ino = o.get("lock_inodes") or []
    if len(ino) > 1 or (ino and ino[0] is None):
        fails.append(("lock-file-replaced", f"{tag}: the run lock file of the job did not stay one file: identities seen {ino[:6]} (None = absent)"))
    return fails


def twosched_part(ctx):
    cases = twosched_cases(ctx, ctx.rng)
    outs = run_worker_cases(ctx, "twosched", cases, parallel=ctx.scale(6, 8))
    errs = 0
    for case, o in zip(cases, outs):
        if o.get("error"):
            errs += 1
            ctx.count("twosched_errors", o["error"][:60])
            continue
        ctx.case({"twosched": case, "log": [l[:3] for l in o["log"]], "lock_inodes": len(o.get("lock_inodes") or [])}, True)
        ctx.count("twosched_mode", case["mode"])
        ctx.count("twosched_schedulers", case["n"])
        ctx.count("twosched_bodies_run", sum(len(v) for v in o["intervals"].values()))
        for key, what in twosched_monitor(case, o):
            ctx.monitor_fail(key, what, {"twosched": case})
        ctx.traces_validated += 1
    if errs > len(cases) // 3:
        raise RuntimeError(f"{errs}/{len(cases)} two-scheduler cases could not be run: {next(o['error'] for o in outs if o.get('error'))}")


# ------------------------------------------------------------------------------------ (d) completed by another scheduler while waiting


def waitdone_cases(ctx, rng):
    specs = [([1], [1], False), ([1, 2], [2], False), ([1, 2], [1, 2], True)] if ctx.quick() else \
        [([1], [1], False), ([1, 2], [2], False), ([1, 2], [1, 2], True), ([1, 2, 3], [1, 3], False), ([1], [], False), ([1, 2], [1, 2], False),
         ([1, 2, 3], [2], True), ([1], [1], True)]
    cases = []
    for i, (xs, axs, ff) in enumerate(specs):
        base = 700 + 10 * i
        cases.append({"id": f"waitdone{i}", "xs": [base + x for x in xs], "a_xs": [base + x for x in axs], "fail_first": ff,
                      "hold": rng.choice([0.1, 0.2, 0.4]), "settle": rng.choice([0.2, 0.4, 0.8])})
    return cases


def waitdone_monitor(case, o):
    """(key, what): second and third sentence on a job that another scheduler completes while it waits in this one"""
    fails = []
    if o.get("error"):
        return fails
    tag = (f"scheduler B submits jobs {case['xs']} which wait for a token; scheduler A (another experiment process on the workspace) meanwhile runs {case['a_xs']}"
           f"{' (first execution fails)' if case['fail_first'] else ''} and exits; B's jobs are then released")
    for x in case["xs"]:
        ivs = sorted(o["intervals"].get(str(x), []), key=lambda iv: iv[1])
        for a in range(len(ivs)):
            for b in range(a + 1, len(ivs)):
                ea = ivs[a][2] if ivs[a][2] is not None else float("inf")
                if ivs[b][1] < ea:
                    fails.append(("bodies-overlap:waiting-scheduler", f"{tag}: the bodies of processes {ivs[a][0]} and {ivs[b][0]} of job {x} overlap"))
        succ = [iv for iv in ivs if iv[3] == "end"]
        after = [iv for iv in ivs if succ and iv[1] > min(s[2] for s in succ)]
        if len(succ) > 1 or after:
            marker = "its success marker existed when B released it" if x in (o.get("done_before_release") or []) else "no marker at release"
            fails.append(("body-run-again-after-success:waiting-scheduler",
                          f"{tag}: the body of job {x} was executed {len(ivs)} times, {len(succ)} successfully, {len(after)} start(s) after the first success ({marker})"))
        if not succ:
            fails.append(("waiting-job-never-succeeded", f"{tag}: job {x} never completed (executions {[[iv[0], iv[3]] for iv in ivs]}; finals {o.get('finals')}; {o.get('err', '')[-200:]})"))
    fb = (o.get("finals") or {}).get("b")
    if fb is None or fb.get("error") or any(st != "DONE" for st in fb.get("states", {}).values()) or len(fb.get("states", {})) != len(case["xs"]):
        fails.append(("scheduler-did-not-end-done:waiting-scheduler", f"{tag}: the waiting scheduler ended with {fb} (rc {o.get('rcs')}; {o.get('err', '')[-200:]})"))
    return fails


def waitdone_start(ctx):
    """the waiting-scheduler cases mostly sleep (experiments starting and stopping): their worker runs beside parts (a')-(c)"""
    cases = waitdone_cases(ctx, ctx.rng)
    tmp = ctx.tmpdir()
    fin, fout = tmp / "waitdone-in.json", tmp / "waitdone-out.json"
    fin.write_text(json.dumps({"kind": "waitdone", "cases": cases, "parallel": ctx.scale(3, 4)}))
    env = dict(os.environ)
    env["PYTHONPATH"] = str(common.VERIF / "harness") + (":" + env["PYTHONPATH"] if env.get("PYTHONPATH") else "")
    env["PYTHONWARNINGS"] = "ignore"
    p = subprocess.Popen([sys.executable, "-m", "xv.impl.c05_waitdone_worker", str(fin), str(fout)], env=env, stdout=subprocess.DEVNULL, stderr=subprocess.PIPE, text=True)
    return cases, p, fout


def waitdone_part(ctx, started):
    cases, p, fout = started
    try:
        _, err = p.communicate(timeout=1500)
    except subprocess.TimeoutExpired:
        p.kill()
        raise RuntimeError("worker waitdone timed out")
    if p.returncode != 0 or not fout.exists():
        raise RuntimeError(f"worker waitdone failed rc={p.returncode}: {err[-1200:]}")
    outs = json.loads(fout.read_text())
    errs = 0
    for case, o in zip(cases, outs):
        if o.get("error"):
            errs += 1
            ctx.count("waitdone_errors", o["error"][:60])
            continue
        appeared = [x for x in case["xs"] if x in (o.get("done_before_release") or [])]
        ctx.case({"waitdone": case, "log": [l[:3] for l in o["log"]]}, bool(appeared))
        ctx.count("waitdone_markers_appeared_while_waiting", len(appeared))
        ctx.count("waitdone_bodies_run", sum(len(v) for v in o["intervals"].values()))
        ctx.count("waitdone_fail_first", case["fail_first"])
        for key, what in waitdone_monitor(case, o):
            ctx.monitor_fail(key, what, {"waitdone": case})
        ctx.traces_validated += 1
    if errs > len(cases) // 3:
        raise RuntimeError(f"{errs}/{len(cases)} waiting-scheduler cases could not be run: {next(o['error'] for o in outs if o.get('error'))}")


def correspond(ctx):
    ctx.assumptions += ["mutual exclusion of the run lock and its release on process death are properties of flock (trusted; sampled by the races)",
                        "the real-API histories use an instant launcher (no job process): they exercise submit(), the registry and aio_submit, not run.py"]
    _sched.run(ctx, PROP, GEN, RULE, 1500, 25000, focus={"C05"}, nontrivial_fn=_nontrivial)
    wd = waitdone_start(ctx)
    api_part(ctx)
    race_part(ctx)
    twosched_part(ctx)
    waitdone_part(ctx, wd)
    ctx.rule = RULE


def search(ctx):
    _sched.search(ctx, PROP, GEN, focus={"C05"})


def run_witness(ctx, finding):
    _sched.run_witness(ctx, PROP, finding, focus={"C05"})


def replay(ctx, obj):
    rc = 0
    sched = {"failures": [f for f in obj.get("failures", []) if "workload" in f.get("case", {})]}
    if sched["failures"]:
        rc = _sched.replay_events(ctx, PROP, sched, focus={"C05"})
    for f in obj.get("failures", []):
        c = f.get("case", {})
        if "race" in c:
            o = run_worker_cases(ctx, "race", [c["race"]], parallel=1)[0]
            fails = race_monitor(c["race"], o)
            print("replay race:", fails[:2] if fails else "no failure on this tree")
            if fails:
                rc = 1
                print(f"VIOLATION property={PROP} replay=(replayed)")
        elif "twosched" in c:
            o = run_worker_cases(ctx, "twosched", [c["twosched"]], parallel=1)[0]
            fails = twosched_monitor(c["twosched"], o)
            print("replay two schedulers:", fails[:2] if fails else "no failure on this tree")
            if fails:
                rc = 1
                print(f"VIOLATION property={PROP} replay=(replayed)")
        elif "waitdone" in c:
            o = run_worker_cases(ctx, "waitdone", [c["waitdone"]], parallel=1, module="xv.impl.c05_waitdone_worker")[0]
            fails = waitdone_monitor(c["waitdone"], o)
            print("replay waiting scheduler:", fails[:2] if fails else "no failure on this tree", "| steps:", o.get("steps"), "| executions:", [l[:3] for l in o.get("log", [])])
            if fails:
                rc = 1
                print(f"VIOLATION property={PROP} replay=(replayed)")
        elif c.get("api"):
            recs = identlib.run_worker({"libs": [c["lib"]], "cases": [{"lib": 0, "graphs": c["graphs"], "history": c["history"], "fail": c["fail"]}]},
                                       ctx.tmpdir(), "c05replay", None, "xv.impl.c05_worker")
            fails = api_monitor({"history": c["history"], "fail": c["fail"]}, recs[0]) if not recs[0]["error"] else []
            print("replay api:", fails[:2] if fails else "no failure on this tree")
            if fails:
                rc = 1
                print(f"VIOLATION property={PROP} replay=(replayed)")
    return rc
