import XpmVerif.Proofs.InjectNode
import XpmVerif.Proofs.IsDefault
/-! C03, part 4: the signature at every depth.  A collision of raw identifiers under the ideal hash is a
    collision under *every* hash structure (`rawAt_hash_independent`): the two configurations cannot be told
    apart by any function computed from the hashed content, e.g. by the fully expanded stream. -/
namespace XpmVerif.Ident
open List

/-! ### `canon` without the mutual recursion -/

theorem canonItems_eq_map (cfg mt) : ∀ l : List Val,
    canonItems cfg mt l = (l.filter (fun x => !dropped mt x)).map (canon cfg mt)
  | [] => by simp [canonItems]
  | v :: vs => by
    simp only [canonItems, filter_cons]
    split <;> simp_all [canonItems_eq_map cfg mt vs]

theorem canonPairs_eq_map (cfg mt) : ∀ (ks : List (List Nat)) (vs : List Val),
    canonPairs cfg mt ks vs
      = ((ks.zip vs).filter (fun kv => !dropped mt kv.2)).map (fun kv => (kv.1, canon cfg mt kv.2))
  | [], _ => by simp [canonPairs]
  | _ :: _, [] => by simp [canonPairs]
  | k :: ks, v :: vs => by
    simp only [canonPairs, zip_cons_cons, filter_cons]
    split <;> simp_all [canonPairs_eq_map cfg mt ks vs]

/-- the kept items of a dict, sorted by key: independent of how references are encoded. -/
def keptSorted (mt : Nat → Option Bool) (ks : List (List Nat)) (vs : List Val) : List (List Nat × Val) :=
  sortBy (fun a b => bytesLe a.1 b.1) ((ks.zip vs).filter (fun kv => !dropped mt kv.2))

theorem canon_dict_eq (cfg mt) (ks : List (List Nat)) (vs : List Val) :
    canon cfg mt (.dict ks vs)
      = .dict ((keptSorted mt ks vs).map (·.1)) ((keptSorted mt ks vs).map (fun kv => canon cfg mt kv.2)) := by
  simp only [canon, canonPairs_eq_map, keptSorted]
  rw [sortBy_map (fun kv : List Nat × Val => (kv.1, canon cfg mt kv.2)) (fun a b => bytesLe a.1 b.1)
    (fun a b => bytesLe a.1 b.1) (fun _ _ => rfl)]
  simp [Function.comp_def]

theorem mem_keptSorted {mt ks vs} {kv : List Nat × Val} (h : kv ∈ keptSorted mt ks vs) : kv.2 ∈ vs := by
  have := (sortBy_perm _ _).subset h
  simp only [mem_filter] at this
  exact (of_mem_zip this.1).2

theorem map_transport {α β γ δ : Type} (f : α → γ) (g : β → γ) (f' : α → δ) (g' : β → δ) :
    ∀ (L1 : List α) (L2 : List β), (∀ x ∈ L1, ∀ y, f x = g y → f' x = g' y) →
      L1.map f = L2.map g → L1.map f' = L2.map g'
  | [], [], _, _ => rfl
  | [], _ :: _, _, h => by simp at h
  | _ :: _, [], _, h => by simp at h
  | a :: L1, b :: L2, hx, h => by
    simp only [map_cons, cons.injEq] at h ⊢
    exact ⟨hx a (by simp) b h.1, map_transport f g f' g' L1 L2 (fun x hx' => hx x (by simp [hx'])) h.2⟩

mutual
theorem Val.ind_val {P : Val → Prop}
    (hatom : ∀ v, (∀ l, v ≠ .list l) → (∀ ks vs, v ≠ .dict ks vs) → P v)
    (hlist : ∀ l, (∀ x ∈ l, P x) → P (.list l))
    (hdict : ∀ ks vs, (∀ x ∈ vs, P x) → P (.dict ks vs)) : ∀ v, P v
  | .list l => hlist l (Val.ind_list hatom hlist hdict l)
  | .dict ks vs => hdict ks vs (Val.ind_list hatom hlist hdict vs)
  | .none => hatom _ (by simp) (by simp)
  | .bool _ => hatom _ (by simp) (by simp)
  | .int _ => hatom _ (by simp) (by simp)
  | .float _ => hatom _ (by simp) (by simp)
  | .str _ => hatom _ (by simp) (by simp)
  | .enum _ => hatom _ (by simp) (by simp)
  | .path _ => hatom _ (by simp) (by simp)
  | .ref _ => hatom _ (by simp) (by simp)
theorem Val.ind_list {P : Val → Prop}
    (hatom : ∀ v, (∀ l, v ≠ .list l) → (∀ ks vs, v ≠ .dict ks vs) → P v)
    (hlist : ∀ l, (∀ x ∈ l, P x) → P (.list l))
    (hdict : ∀ ks vs, (∀ x ∈ vs, P x) → P (.dict ks vs)) : ∀ (l : List Val), ∀ x ∈ l, P x
  | [], x, h => by simp at h
  | v :: vs, x, h =>
    (mem_cons.1 h).elim (fun e => e ▸ Val.ind_val hatom hlist hdict v)
      (fun h' => Val.ind_list hatom hlist hdict vs x h')
end

/-- **transport**: if equal reference encodings under `(cfg1, cfg2)` are equal under `(cfg1', cfg2')`, then
    equal canonical forms under the former are equal under the latter. -/
theorem canon_transport (cfg1 cfg2 cfg1' cfg2' : Nat → List Nat) (mt1 mt2 : Nat → Option Bool)
    (hcfg : ∀ m m', cfg1 m = cfg2 m' → cfg1' m = cfg2' m') :
    ∀ v1 v2 : Val, canon cfg1 mt1 v1 = canon cfg2 mt2 v2 → canon cfg1' mt1 v1 = canon cfg2' mt2 v2 := by
  intro v1
  induction v1 using Val.ind_val with
  | hatom v hl hd =>
    intro v2 h
    cases v
    case list l => exact absurd rfl (hl l)
    case dict ks vs => exact absurd rfl (hd ks vs)
    case ref n =>
      cases v2 with
      | ref m =>
        simp only [canon, SVal.obj.injEq] at h ⊢
        exact hcfg n m h
      | _ => simp [canon] at h
    all_goals (cases v2 <;> simp [canon] at h ⊢ <;> exact h)
  | hlist l ih =>
    intro v2 h
    cases v2 with
    | list l2 =>
      simp only [canon, SVal.list.injEq, canonItems_eq_map] at h ⊢
      exact map_transport _ _ _ _ _ _ (fun x hx y hxy => ih x (mem_filter.1 hx).1 y hxy) h
    | _ => simp [canon] at h
  | hdict ks vs ih =>
    intro v2 h
    cases v2 with
    | dict ks2 vs2 =>
      rw [canon_dict_eq, canon_dict_eq] at h ⊢
      simp only [SVal.dict.injEq] at h ⊢
      exact ⟨h.1, map_transport _ _ _ _ _ _ (fun x hx y hxy => ih x.2 (mem_keptSorted hx) y.2 hxy) h.2⟩
    | _ => simp [canon] at h

theorem sigArgs_eq_map (cfg ceq mt) (nd : Node) :
    sigArgs cfg ceq mt nd = ((sortBy (fun a b => bytesLe a.name b.name) nd.args).filter (included ceq mt)).map
      (fun a => (a.name, canon cfg mt a.value)) := by
  unfold sigArgs
  induction sortBy (fun a b => bytesLe a.name b.name) nd.args with
  | nil => rfl
  | cons a l ih =>
    simp only [filterMap_cons, filter_cons, argSig]
    split <;> simp_all

/-- the arguments kept by the skip rules do not depend on the comparison callback, if the two callbacks take
    the same decisions on the arguments of the node. -/
theorem sigArgs_congr_ceq (cfg : Nat → List Nat) (ceq ceq' : Nat → Nat → Bool) (mt : Nat → Option Bool) (nd : Node)
    (h : ∀ a ∈ nd.args, included ceq mt a = included ceq' mt a) : sigArgs cfg ceq mt nd = sigArgs cfg ceq' mt nd := by
  rw [sigArgs_eq_map, sigArgs_eq_map]
  congr 1
  apply filter_congr
  intro a ha
  exact h a ((sortBy_perm _ _).subset ha)

theorem sigArgs_transport (cfg1 cfg2 cfg1' cfg2' : Nat → List Nat) (ceq1 ceq2 : Nat → Nat → Bool)
    (mt1 mt2 : Nat → Option Bool)
    (hcfg : ∀ m m', cfg1 m = cfg2 m' → cfg1' m = cfg2' m') (nd1 nd2 : Node)
    (h : sigArgs cfg1 ceq1 mt1 nd1 = sigArgs cfg2 ceq2 mt2 nd2) :
    sigArgs cfg1' ceq1 mt1 nd1 = sigArgs cfg2' ceq2 mt2 nd2 := by
  rw [sigArgs_eq_map, sigArgs_eq_map] at h ⊢
  refine map_transport _ _ _ _ _ _ ?_ h
  intro a _ b hab
  simp only [Prod.mk.injEq] at hab ⊢
  exact ⟨hab.1, canon_transport cfg1 cfg2 cfg1' cfg2' mt1 mt2 hcfg _ _ hab.2⟩

theorem taskPart_transport (cfg1 cfg2 cfg1' cfg2' : Nat → List Nat)
    (hcfg : ∀ m m', cfg1 m = cfg2 m' → cfg1' m = cfg2' m') (s1 s2 : Nat) (nd1 nd2 : Node)
    (h : taskPart cfg1 s1 nd1 = taskPart cfg2 s2 nd2) : taskPart cfg1' s1 nd1 = taskPart cfg2' s2 nd2 := by
  unfold taskPart at h ⊢
  generalize nd1.task = o1 at h ⊢
  generalize nd2.task = o2 at h ⊢
  cases o1 <;> cases o2 <;> simp only at h ⊢
  · rename_i t2
    by_cases e2 : t2 = s2 <;> simp [e2] at h ⊢
  · rename_i t1
    by_cases e1 : t1 = s1 <;> simp [e1] at h ⊢
  · rename_i t1 t2
    by_cases e1 : t1 = s1 <;> by_cases e2 : t2 = s2 <;> simp [e1, e2] at h ⊢
    exact hcfg _ _ h

/-- the configurations of the declared default of an argument. -/
def dfltAll (a : Arg) : List Nat := match a.default with | some d => refsAll d | none => []

/-- **`hc'` separates the defaults that `hc` separates**: whenever `_is_default`, run with the hash structure
    `hc'`, finds that a value `v` has the identifier of a configuration `d` of a declared default, so does it
    when run with `hc`.  (The converse holds for every `hc'` when `hc` is ideal: `rawAt_hash_independent`.)
    Vacuous when no declared default contains a configuration object (`DefaultsSeparated.of_noCfgDefaults`).
    Without it the set of included arguments — hence the identifier — computed with a colliding `hc'` can differ
    between two configurations that the ideal hash identifies. -/
def DefaultsSeparated {D D' : Type} (hc : HC D) (hc' : HC D') (g : Graph) : Prop :=
  ∀ (f : Nat) (s : List Nat) (n : Nat), ∀ a ∈ (g.node n).args, ∀ d ∈ dfltAll a, ∀ v,
    ceqAt hc' g f (n :: s) d v = true → ceqAt hc g f (n :: s) d v = true

/-- no declared default of the graph contains a configuration object. -/
def NoCfgDefault (g : Graph) : Prop := ∀ n, ∀ a ∈ (g.node n).args, dfltAll a = []

theorem DefaultsSeparated.of_noCfgDefaults {D D' : Type} (hc : HC D) (hc' : HC D') {g : Graph} (h : NoCfgDefault g) :
    DefaultsSeparated hc hc' g := by
  intro f s n a ha d hd; rw [h n a ha] at hd; cases hd

theorem DefaultsSeparated.refl {D : Type} (hc : HC D) (g : Graph) : DefaultsSeparated hc hc g :=
  fun _ _ _ _ _ _ _ _ h => h

/-- the skip rules take the same decision with two callbacks that agree on (configuration of the default,
    kept configuration of the value). -/
theorem included_congr_dflt (ceq ceq' : Nat → Nat → Bool) (mt : Nat → Option Bool) (a : Arg)
    (h : ∀ x ∈ dfltAll a, ∀ y ∈ refsVal mt a.value, ceq x y = ceq' x y) : included ceq mt a = included ceq' mt a := by
  have hd : defaultOut ceq mt a = defaultOut ceq' mt a := by
    unfold defaultOut
    cases hdf : a.default with
    | none => rfl
    | some d =>
      simp only
      rw [isDefault_congr_ceq ceq ceq' mt d _ (fun x hx y hy =>
        h x (by simp only [dfltAll, hdf]; exact hx) y (by rwa [refsVal_removeMeta] at hy))]
  simp only [included, hd]

/-- every node of the graph is well-typed for the class library `lib` (type identifier ↦ argument name ↦ type). -/
def LibTyped (lib : List Nat → List Nat → STy) (g : Graph) : Prop :=
  ∀ n, noTag (g.node n).typeId ∧ ArgsTyped (lib (g.node n).typeId) g.mt (g.node n)

theorem cfgAt_transport {D' : Type} (hc : HC Nat) (hemb : ∀ d, hc.emb d = [256 + d]) (hc' : HC D')
    (g g' : Graph) (f f' : Nat) (S S' : List Nat) (hS : S.length < 2^64) (hS' : S'.length < 2^64)
    (ih : ∀ m m', rawAt hc g f S m = rawAt hc g' f' S' m' → rawAt hc' g f S m = rawAt hc' g' f' S' m') :
    ∀ m m', cfgAt hc g f S m = cfgAt hc g' f' S' m' → cfgAt hc' g f S m = cfgAt hc' g' f' S' m' := by
  intro m m' hm
  unfold cfgAt at hm ⊢
  cases h1 : relIndex S m <;> cases h2 : relIndex S' m' <;> simp only [h1, h2] at hm ⊢
  · rw [hemb, hemb] at hm
    simp only [cons.injEq, and_true] at hm
    have e : rawAt hc g f S m = rawAt hc g' f' S' m' := by omega
    rw [ih m m' e]
  · rw [hemb] at hm; simp only [cons.injEq] at hm; omega
  · rw [hemb] at hm; simp only [cons.injEq] at hm; omega
  · rename_i k k'
    simp only [cons.injEq, true_and] at hm
    have b1 := relIndex_le _ _ _ h1
    have b2 := relIndex_le _ _ _ h2
    rw [pack8_inj (by omega) (by omega) hm]

/-- with the ideal hash, a digest token is never a cycle reference: `ceqAt` is equality of `cfgAt` for values
    that are not on the stack. -/
theorem included_transport {D' : Type} (hc : HC Nat) (hc' : HC D') (g : Graph) (f : Nat) (S : List Nat)
    (hsep : ∀ a ∈ (g.node (S.headD 0)).args, ∀ d ∈ dfltAll a, ∀ v, ceqAt hc' g f S d v = true → ceqAt hc g f S d v = true)
    (htr : ∀ m m', cfgAt hc g f S m = cfgAt hc g f S m' → cfgAt hc' g f S m = cfgAt hc' g f S m') :
    ∀ a ∈ (g.node (S.headD 0)).args, included (ceqAt hc g f S) g.mt a = included (ceqAt hc' g f S) g.mt a := by
  intro a ha
  apply included_congr_dflt
  intro x hx y _
  rw [Bool.eq_iff_iff]
  constructor
  · intro h
    simp only [ceqAt, ctxEq, Bool.and_eq_true, beq_iff_eq] at h ⊢
    exact ⟨h.1, htr x y h.2⟩
  · exact hsep a ha x hx y

theorem rawAt_hash_independent_aux {D' : Type} (hc : HC Nat) (hinj : ∀ a b, hc.H a = hc.H b → a = b)
    (hemb : ∀ d, hc.emb d = [256 + d]) (hc' : HC D') (lib : List Nat → List Nat → STy) :
    ∀ (N f f' : Nat), f ≤ N → f' ≤ N → ∀ (g g' : Graph) (s s' : List Nat) (n n' : Nat),
      LibTyped lib g → LibTyped lib g' → DefaultsSeparated hc hc' g → DefaultsSeparated hc hc' g' →
      f + s.length < 2^64 → f' + s'.length < 2^64 →
      rawAt hc g f s n = rawAt hc g' f' s' n' → rawAt hc' g f s n = rawAt hc' g' f' s' n' := by
  intro N
  induction N with
  | zero =>
    intro f f' hf hf' g g' s s' n n' _ _ _ _ _ _ _
    have : f = 0 := by omega
    have : f' = 0 := by omega
    subst_vars
    simp [rawAt]
  | succ N ih =>
    intro f f' hf hf' g g' s s' n n' hg hg' hd hd' hs hs' h
    cases f with
    | zero =>
      cases f' with
      | zero => simp [rawAt]
      | succ f' =>
        rw [rawAt_succ] at h
        have := hinj _ _ h
        simp [nodeStream] at this
    | succ f =>
      cases f' with
      | zero =>
        rw [rawAt_succ] at h
        have := hinj _ _ h
        simp [nodeStream] at this
      | succ f' =>
        have step := rawAt_inj_step hc hinj hemb (lib (g.node n).typeId) (lib (g'.node n').typeId) g g' f f' s s' n n'
          (by omega) (by omega) (hg n).1 (hg' n').1 (fun e => by rw [e]) (hg n).2 (hg' n').2 h
        have hl : (n :: s).length < 2^64 := by simp; omega
        have hl' : (n' :: s').length < 2^64 := by simp; omega
        have hcfg := cfgAt_transport hc hemb hc' g g' f f' (n :: s) (n' :: s') hl hl'
          (fun m m' e => ih f f' (by omega) (by omega) g g' _ _ m m' hg hg' hd hd' (by simp; omega) (by simp; omega) e)
        have hcfg1 := cfgAt_transport hc hemb hc' g g f f (n :: s) (n :: s) hl hl
          (fun m m' e => ih f f (by omega) (by omega) g g _ _ m m' hg hg hd hd (by simp; omega) (by simp; omega) e)
        have hcfg2 := cfgAt_transport hc hemb hc' g' g' f' f' (n' :: s') (n' :: s') hl' hl'
          (fun m m' e => ih f' f' (by omega) (by omega) g' g' _ _ m m' hg' hg' hd' hd' (by simp; omega) (by simp; omega) e)
        have hi1 := included_transport hc hc' g f (n :: s) (fun a ha d hdd v => hd f s n a ha d hdd v) hcfg1
        have hi2 := included_transport hc hc' g' f' (n' :: s') (fun a ha d hdd v => hd' f' s' n' a ha d hdd v) hcfg2
        simp only [headD_cons] at hi1 hi2
        rw [rawAt_succ, rawAt_succ, nodeStream_eq, nodeStream_eq, step.2.1,
          taskPart_transport _ _ _ _ hcfg _ _ _ _ step.1,
          ← sigArgs_congr_ceq _ _ _ _ _ hi1, ← sigArgs_congr_ceq _ _ _ _ _ hi2,
          sigArgs_transport _ _ _ _ _ _ _ _ hcfg _ _ step.2.2]

/-- **signature at every depth**: equal raw identifiers under the ideal hash ⇒ equal raw identifiers under
    every hash structure `hc'` that separates the defaults the ideal hash separates (`DefaultsSeparated`; no
    other assumption on `hc'`, and none at all when no declared default contains a configuration object). -/
theorem rawAt_hash_independent {D' : Type} (hc : HC Nat) (hinj : ∀ a b, hc.H a = hc.H b → a = b)
    (hemb : ∀ d, hc.emb d = [256 + d]) (hc' : HC D') (lib : List Nat → List Nat → STy) :
    ∀ (f f' : Nat) (g g' : Graph) (s s' : List Nat) (n n' : Nat), LibTyped lib g → LibTyped lib g' →
      DefaultsSeparated hc hc' g → DefaultsSeparated hc hc' g' →
      f + s.length < 2^64 → f' + s'.length < 2^64 →
      rawAt hc g f s n = rawAt hc g' f' s' n' → rawAt hc' g f s n = rawAt hc' g' f' s' n' :=
  fun f f' => rawAt_hash_independent_aux hc hinj hemb hc' lib (max f f') f f' (Nat.le_max_left _ _) (Nat.le_max_right _ _)

/-- permutations of images transport along a pointwise implication. -/
theorem perm_map_transport {γ δ : Type} (f g : Nat → γ) (f' g' : Nat → δ)
    (hx : ∀ a b, f a = g b → f' a = g' b) :
    ∀ (l1 l2 : List Nat), l1.map f ~ l2.map g → l1.map f' ~ l2.map g'
  | [], l2, h => by
    have : l2.map g = [] := by simpa using h.symm.eq_nil
    have : l2 = [] := by simpa using this
    subst this; exact Perm.refl _
  | a :: l1, l2, h => by
    have hm : f a ∈ l2.map g := h.subset (by simp)
    obtain ⟨b, hb, hgb⟩ := mem_map.1 hm
    have p : l2 ~ b :: l2.erase b := perm_cons_erase hb
    have h2 : f a :: l1.map f ~ g b :: (l2.erase b).map g := by simpa using h.trans (p.map g)
    rw [hgb] at h2
    have ih := perm_map_transport f g f' g' hx l1 (l2.erase b) h2.cons_inv
    have e : f' a = g' b := hx a b hgb.symm
    have : (a :: l1).map f' ~ (b :: l2.erase b).map g' := by
      simp only [map_cons, e]; exact ih.cons _
    exact this.trans (p.map g').symm

/-- **full identifier, every depth**: equal full identifiers under the ideal hash ⇒ equal full identifiers
    under every hash structure whose order on digests is total, transitive and antisymmetric. -/
theorem fullId_hash_independent {D' : Type} (hc : HC Nat) (hinj : ∀ a b, hc.H a = hc.H b → a = b)
    (hemb : ∀ d, hc.emb d = [256 + d]) (hc' : HC D')
    (total : ∀ a b, hc'.le a b = true ∨ hc'.le b a = true)
    (trans : ∀ a b c, hc'.le a b = true → hc'.le b c = true → hc'.le a c = true)
    (antisymm : ∀ a b, hc'.le a b = true → hc'.le b a = true → a = b)
    (lib : List Nat → List Nat → STy) (g1 g2 : Graph)
    (hg1 : LibTyped lib g1) (hg2 : LibTyped lib g2)
    (hd1 : DefaultsSeparated hc hc' g1) (hd2 : DefaultsSeparated hc hc' g2)
    (hz1 : g1.size + 1 < 2^64) (hz2 : g2.size + 1 < 2^64)
    (n1 n2 : Nat) (h : fullId hc g1 n1 = fullId hc g2 n2) : fullId hc' g1 n1 = fullId hc' g2 n2 := by
  obtain ⟨hraw, hpre, hinit⟩ := fullId_inj hc hinj hemb g1 g2 n1 n2 h
  have tr : ∀ a b, rawId hc g1 a = rawId hc g2 b → rawId hc' g1 a = rawId hc' g2 b := fun a b hab =>
    rawAt_hash_independent hc hinj hemb hc' lib (g1.size + 1) (g2.size + 1) g1 g2 [] [] a b hg1 hg2 hd1 hd2
      (by simpa using hz1) (by simpa using hz2) hab
  have e1 := tr n1 n2 hraw
  have hp : (collectPreTasks g1 n1).map (rawId hc g1) ~ (collectPreTasks g2 n2).map (rawId hc g2) :=
    (sortBy_perm hc.le _).symm.trans (by rw [hpre]; exact sortBy_perm hc.le _)
  have e2 : sortBy hc'.le ((collectPreTasks g1 n1).map (rawId hc' g1))
      = sortBy hc'.le ((collectPreTasks g2 n2).map (rawId hc' g2)) :=
    sortBy_eq_of_perm hc'.le total trans (perm_map_transport _ _ _ _ tr _ _ hp)
      (fun a b _ _ => antisymm a b)
  have e3 : (g1.node n1).initTasks.map (rawId hc' g1) = (g2.node n2).initTasks.map (rawId hc' g2) :=
    map_transport _ _ _ _ _ _ (fun a _ b hab => tr a b hab) hinit
  have hF : ∀ (g : Graph) (n : Nat),
      (if (g.node n).initTasks.isEmpty then [] else
        12 :: ((g.node n).initTasks.map (fun i => hc'.emb (rawId hc' g i))).flatten)
      = (if ((g.node n).initTasks.map (rawId hc' g)).isEmpty then [] else
        12 :: (((g.node n).initTasks.map (rawId hc' g)).map hc'.emb).flatten) := by
    intro g n
    cases (g.node n).initTasks <;> simp [Function.comp_def]
  simp only [fullId]
  rw [hF, hF, e1, e2, e3]

end XpmVerif.Ident
