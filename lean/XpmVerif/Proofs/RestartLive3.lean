import XpmVerif.Proofs.RestartLive2
/-! C11, liveness with adoption: every enabled event of the second run keeps `SoundA` and decreases `wmuA`
    (`soundA_step`); a world without enabled event has a scheduler with nothing pending (`stuck_quiescentA`), hence every
    job final (`maximal_final`). -/
set_option linter.unusedSimpArgs false
set_option linter.unusedVariables false
namespace XpmVerif.RestartLive
open XpmVerif.Sched hiding Reachable flOK submitPre submitPost sumTo
open XpmVerif.SchedFinal XpmVerif.Restart XpmVerif.RestartTerm XpmVerif.RestartAbs

section step
variable {fl : Flags} {totals : List Nat} {done0 : Nat → Bool} {d0 : Disk} {w : W}

theorem uniq_trans {s s' : St} (hn : s'.n = s.n) (hi : ∀ i, (s'.jobs i).ident = (s.jobs i).ident) (hu : UniqId s) :
    UniqId s' := by
  intro j j' hj hj' he
  rw [hn] at hj hj'
  rw [hi, hi] at he
  exact hu j j' hj hj' he

theorem cK_trans {s s' : St} (hn : s'.n = s.n) (hl : ∀ i, (s'.jobs i).deps.length = (s.jobs i).deps.length) :
    cK s' = cK s := by
  unfold cK; rw [dTot_congr hn hl]

/-- the lock of a directory through a callback of the scheduler. -/
theorem stepA_lock (fl : Flags) (a : StA Disk) (i : Nat) : ((stepA fl world a).d.dir i).lock = (a.d.dir i).lock := by
  unfold stepA
  split
  · rfl
  · rename_i cb rest _
    cases cb with
    | start j => simp only [runCbA]; split <;> rfl
    | resume j =>
      simp only [runCbA]; split
      · exact onLaunch_lock _ _ _ _
      · rfl
    | _ => rfl

theorem stepA_procs (fl : Flags) (a : StA Disk) :
    procRank (stepA fl world a).d ≤ procRank a.d + 3 := by
  unfold stepA
  split
  · omega
  · rename_i cb rest _
    cases cb with
    | start j =>
      simp only [runCbA]; split
      · have : procRank (world.onAdopt a.d j (a.s.jobs j)) = procRank a.d := procRank_congr rfl rfl
        show procRank (world.onAdopt a.d j _) ≤ _
        rw [procRank_congr (d := a.d) rfl rfl]; omega
      · show procRank a.d ≤ _; omega
    | resume j =>
      simp only [runCbA]; split
      · show procRank (world.onLaunch a.d j _) ≤ _
        rw [procRank_onLaunch]; omega
      · show procRank a.d ≤ _; omega
    | _ => show procRank a.d ≤ _; omega

/-- the link between the run locks held by the scheduler and its jobs, through a callback. -/
theorem lock_stepA (h : SoundA fl totals done0 d0 w) (cb : Cb) (rest : List Cb) (hr : w.a.s.ready = cb :: rest)
    (hn : (stepA fl world w.a).s.n = w.a.s.n)
    (hid : ∀ i, ((stepA fl world w.a).s.jobs i).ident = (w.a.s.jobs i).ident) :
    LockLink (stepA fl world w.a).s (stepA fl world w.a).d := by
  have hP := h.invP
  have hp := pop_inv hP hr
  have e1 : stepA fl world w.a = runCbA fl world { w.a with s := { w.a.s with ready := rest } } cb :=
    stepA_cons fl world w.a cb rest hr
  intro i hi
  rw [stepA_lock] at hi
  obtain ⟨j0, h1, h2, h3⟩ := h.lock i hi
  refine ⟨j0, by rw [hn]; exact h1, by rw [hid]; exact h2, ?_⟩
  rw [e1]
  have h3' : Holds ({ w.a.s with ready := rest } : St) j0 := h3
  by_cases hact : cb ≠ .start j0 ∧ cb ≠ .wake j0 ∧ cb ≠ .resume j0
  · exact holds_of_view (runCbA_frame fl world { w.a with s := { w.a.s with ready := rest } } cb hp j0 hact).1 h3'
  · have hc : cb = .start j0 ∨ cb = .wake j0 ∨ cb = .resume j0 := by
      by_cases c1 : cb = .start j0
      · exact Or.inl c1
      · by_cases c2 : cb = .wake j0
        · exact Or.inr (Or.inl c2)
        · by_cases c3 : cb = .resume j0
          · exact Or.inr (Or.inr c3)
          · exact absurd ⟨c1, c2, c3⟩ hact
    rcases hc with rfl | rfl | rfl
    · obtain ⟨hpc, -⟩ := pre_start _ _ j0 (hp.loc j0)
      rcases h3' with ⟨q, _⟩ | ⟨q | q, _⟩ <;> rw [hpc] at q <;> cases q
    · obtain ⟨hpc, -⟩ := pre_wake _ _ j0 (hp.loc j0)
      rcases h3' with ⟨q, _⟩ | ⟨q | q, _⟩ <;> rw [hpc] at q <;> cases q
    · obtain ⟨-, hth, -⟩ := pre_resume _ _ j0 (hp.loc j0)
      have hpc : (({ w.a.s with ready := rest } : St).jobs j0).pc = .lockEnter := by
        rcases h3' with ⟨q, _⟩ | ⟨_, q⟩
        · exact q
        · exact absurd (hth.symm.trans q) (by decide)
      have := resume_lockEnter_holds fl ({ w.a.s with ready := rest } : St) j0 hpc hth
      simp only [runCbA]
      split <;> exact this

theorem lock_deliverA (h : SoundA fl totals done0 d0 w) (k j : Nat) (kind : TK) (c : Option Nat) (d' : Disk)
    (hk : w.a.s.threads[k]? = some (kind, j))
    (hgate : world.gate w.a.d kind j (w.a.s.jobs j) (w.a.adopted j) = some (c, d')) :
    LockLink (deliverA w.a k j c d').s (deliverA w.a k j c d').d := by
  have hP := h.invP
  have hsame := sameIds_deliverA w.a k j c d'
  have hkm : (kind, j) ∈ w.a.s.threads := List.mem_of_getElem? hk
  have hkind : kindOk kind (w.a.s.jobs j).pc = true := hP.kind _ hkm
  have hct := deliverA_cThr w.a k j c d' kind hk
  intro i hi
  have e2 : (deliverA w.a k j c d').d = d' := rfl
  rw [e2] at hi
  rcases gate_lock _ _ _ _ _ _ _ hgate i hi with ⟨rfl, rfl⟩ | ⟨hold, hne⟩
  · have hpc : (w.a.s.jobs j).pc = .lockEnter := by
      revert hkind; cases (w.a.s.jobs j).pc <;> simp [kindOk]
    have hjn : j < w.a.s.n := by
      apply Classical.byContradiction; intro hn
      have := (hP.fresh j (by omega)).1
      rw [hpc] at this; cases this
    have hc := (hP.loc j).1
    simp only [CtlV, view, hpc, pk] at hc
    have h1 := hct j
    simp only [if_true] at h1
    refine ⟨j, by rw [hsame.n]; exact hjn, by rw [hsame.ident], Or.inl ⟨by rw [deliverA_pc]; exact hpc, by omega⟩⟩
  · obtain ⟨j0, h1, h2, h3⟩ := h.lock i hold
    have hj0 : j ≠ j0 := by
      intro e; subst e
      have := holds_thread_kind hkm hkind h3
      exact hne ⟨this, h2.symm⟩
    refine ⟨j0, by rw [hsame.n]; exact h1, by rw [hsame.ident]; exact h2, ?_⟩
    have h4 := hct j0
    simp only [hj0, if_false, Nat.add_zero] at h4
    unfold Holds at h3 ⊢
    rw [deliverA_pc, h4]; exact h3

/-- the job whose continuation runs holds at most as many locks as it has dependencies. -/
theorem SoundA.held_le (hrel : fl.abortReleases = true) (h : SoundA fl totals done0 d0 w) (x : Nat) :
    (w.a.s.jobs x).held.length ≤ (w.a.s.jobs x).deps.length := by
  cases hx : w.a.adopted x with
  | true => rw [h.ai.held x hx]; exact Nat.zero_le _
  | false =>
    have hj := abs_jobs_na hx w.a.s
    have hq := (h.good.g.e.q x).2
    obtain ⟨N, c1, -⟩ := h.good.g.cap
    have hk := c1 x
    simp only [PJ, KJ] at hk
    rw [hj] at hq hk
    by_cases hne : (w.a.s.jobs x).held = []
    · rw [hne]; exact Nat.zero_le _
    · have hrun : (w.a.s.jobs x).pc.run = true := by
        rcases hq hne with ⟨q, _⟩ | q | q
        · rw [hrel] at q; cases q
        · rw [q]; rfl
        · rw [q]; rfl
      rw [hk.2.2.2.2.2.1 hrun]; simp

theorem gCount_cons_le (cb : Cb) (rest : List Cb) : gCount rest ≤ gCount (cb :: rest) := by
  rw [gCount_cons]; omega

/-- **one enabled event of the second run**: the invariant is kept and the measure decreases. -/
theorem soundA_step (hg : fl.readyGuarded = true) (hf : fl.resubmitRegisters = true) (ha : fl.abortRechecks = true)
    (hrel : fl.abortReleases = true) (h : SoundA fl totals done0 d0 w) (e : WEv) (hen : WEnabled w e) :
    SoundA fl totals done0 d0 (w.apply fl e) ∧ wmuA (w.apply fl e) < wmuA w ∧
    (TokFit (abs w.a.adopted w.a.s) → TokFit (abs (w.apply fl e).a.adopted (w.apply fl e).a.s)) := by
  cases e with
  | crash => exact absurd hen id
  | crashAfterSpawn j => exact absurd hen id
  | crashInPrepare j st => exact absurd hen id
  | proc p rm =>
    have hlt := procRank_step w.a.d p rm hen
    have hai := h.ai
    refine ⟨⟨h.reach.apply _, h.good, h.uniq, ?_, ?_⟩, ?_, fun hT => hT⟩
    · intro i hi
      obtain ⟨j0, h1, h2, h3⟩ := h.lock i (procStep_lock _ _ _ _ hi)
      exact ⟨j0, h1, h2, h3⟩
    · refine ⟨hai.held, hai.rng, ?_, hai.post, hai.mkd, ?_, hai.lists, ?_⟩
      · intro j hpc hlv
        refine hai.pre j hpc ?_
        obtain ⟨q, hq1, hq2⟩ := hlv
        exact ⟨q, procStep_pid _ _ _ _ _ hq1, procStep_alive _ _ _ _ hq2⟩
      · intro i hi
        exact (procStep_le w.a.d p rm).done i (hai.dle i hi)
      · intro j hj
        obtain ⟨p1, p2⟩ := hai.proc j hj
        have hle := procStep_le w.a.d p rm
        show (w.a.d.procStep p rm).procOf j < (w.a.d.procStep p rm).np ∧
          ((w.a.d.procStep p rm).procs ((w.a.d.procStep p rm).procOf j)).ident = (w.a.s.jobs j).ident
        rw [procStep_procOf]
        exact ⟨Nat.lt_of_lt_of_le p1 hle.np, by rw [hle.ident _ p1]; exact p2⟩
    · show (cK w.a.s + 1) * (4 * mu (abs w.a.adopted w.a.s) + procRank (w.a.d.procStep p rm)) + gCount w.a.s.ready <
        (cK w.a.s + 1) * (4 * mu (abs w.a.adopted w.a.s) + procRank w.a.d) + gCount w.a.s.ready
      have h1 : 4 * mu (abs w.a.adopted w.a.s) + procRank (w.a.d.procStep p rm) + 1 ≤
          4 * mu (abs w.a.adopted w.a.s) + procRank w.a.d := by omega
      have h2 := Nat.mul_le_mul_left (cK w.a.s + 1) h1
      rw [Nat.mul_add, Nat.mul_one] at h2
      omega
  | sched ev =>
    cases ev with
    | submit _ _ _ _ => exact absurd hen id
    | wait => exact absurd hen id
    | step =>
      have hne : w.a.s.ready ≠ [] := hen
      cases hr : w.a.s.ready with
      | nil => exact absurd hr hne
      | cons cb rest =>
        obtain ⟨g1, g2, g3, g4⟩ := step_abs hg hf ha hrel h cb rest hr
        have eA : (w.apply fl (.sched .step)).a = stepA fl world w.a := rfl
        -- the concrete facts
        have tr : TransF w.a (stepA fl world w.a) := by
          by_cases hadopt : ∃ x, cb = .start x ∧ (world.look w.a.d x (w.a.s.jobs x)).adopt = true
          · obtain ⟨x, rfl, had⟩ := hadopt
            exact transF_step_adopt h x rest hr had g4
          · have hna : ∀ x, cb = .start x → (world.look w.a.d x (w.a.s.jobs x)).adopt = false := by
              intro x e
              cases hl : (world.look w.a.d x (w.a.s.jobs x)).adopt with
              | false => rfl
              | true => exact absurd ⟨x, e, hl⟩ hadopt
            exact transF_step_na hg h cb rest hr hna g1 g4
        have hS : SoundA fl totals done0 d0 (w.apply fl (.sched .step)) :=
          ⟨h.reach.apply _, g1, uniq_trans tr.n tr.ident h.uniq, lock_stepA h cb rest hr tr.n tr.ident, adInv_trans h tr⟩
        refine ⟨hS, ?_, g2⟩
        -- the measure
        have hck : cK (stepA fl world w.a).s = cK w.a.s := cK_trans tr.n tr.lens
        show (cK (stepA fl world w.a).s + 1) * (4 * mu (abs (stepA fl world w.a).adopted (stepA fl world w.a).s) +
            procRank (stepA fl world w.a).d) + gCount (stepA fl world w.a).s.ready <
          (cK w.a.s + 1) * (4 * mu (abs w.a.adopted w.a.s) + procRank w.a.d) + gCount w.a.s.ready
        rw [hck, hr]
        rcases g3 with ⟨hk, e1, e2, e3⟩ | ⟨hk, hmu⟩
        · -- a dropped callback: the queue of plain callbacks shrinks
          rw [e3, e2]
          have hplain : isPlainB cb = true := by
            cases cb <;> simp [keepCb] at hk <;> rfl
          have hgrow : gCount (stepA fl world w.a).s.ready ≤ gCount rest := by
            have hna : ∀ x, cb = .start x → (world.look w.a.d x (w.a.s.jobs x)).adopt = false := by
              intro x e; subst e; simp [keepCb] at hk
            obtain ⟨es, -⟩ := stepA_na fl w.a cb rest hr hna
            rw [es]
            obtain ⟨pr1, -⟩ := preSt_lists w.a cb rest
            cases cb with
            | check x d => have := (check_grow fl (preSt w.a (.check x d) rest) x d).1; rw [pr1] at this; simpa [St.runCb] using this
            | notifyCheck x d =>
              rcases notifyCheck_cases fl (preSt w.a (.notifyCheck x d) rest) x d with e | e <;> rw [e]
              · have := (check_grow fl (preSt w.a (.notifyCheck x d) rest) x d).1; rw [pr1] at this; simpa using this
              · rw [pr1]; exact Nat.le_refl _
            | start x => simp [keepCb] at hk
            | wake x => simp [keepCb] at hk
            | resume x => simp [keepCb] at hk
            | register x => simp [keepCb] at hk
            | waiterRun => simp [keepCb] at hk
          rw [gCount_cons, if_pos hplain]
          omega
        · -- progress of the abstract state
          have hpr := stepA_procs fl w.a
          have hgrow : gCount (stepA fl world w.a).s.ready ≤ gCount rest + cK w.a.s := by
            by_cases hadopt : ∃ x, cb = .start x ∧ (world.look w.a.d x (w.a.s.jobs x)).adopt = true
            · obtain ⟨x, rfl, had⟩ := hadopt
              have h0 : (world.look w.a.d x (({ w.a.s with ready := rest } : St).jobs x)).adopt = true := had
              have es : (stepA fl world w.a).s = startJobA fl ({ w.a.s with ready := rest } : St) x (world.look w.a.d x (w.a.s.jobs x)) := by
                rw [stepA_cons fl world w.a (.start x) rest hr]; simp only [runCbA, h0, if_true]
              rw [es, (startJobA_adopt_rec fl _ x _ had).2.2.2.2.2.1]
              show gCount rest ≤ _; omega
            · have hna : ∀ x, cb = .start x → (world.look w.a.d x (w.a.s.jobs x)).adopt = false := by
                intro x e
                cases hl : (world.look w.a.d x (w.a.s.jobs x)).adopt with
                | false => rfl
                | true => exact absurd ⟨x, e, hl⟩ hadopt
              obtain ⟨es, -⟩ := stepA_na fl w.a cb rest hr hna
              obtain ⟨pr1, pr2, pr3, pr4⟩ := preSt_lists w.a cb rest
              have hpre := preSt_jobs w.a cb rest
              have hD : ∀ t, ((preSt w.a cb rest).tokDeps t).length ≤ dTot w.a.s := by
                intro t; rw [pr2]; exact Nat.le_trans (h.ai.lists.1 t) (regP_le_dTot _)
              have hJ : ∀ o, ((preSt w.a cb rest).jobDeps o).length ≤ dTot w.a.s := by
                intro o; rw [pr3]; exact Nat.le_trans (h.ai.lists.2 o) (regP_le_dTot _)
              have hH : ∀ x, cb = .resume x →
                  ((preSt w.a cb rest).jobs x).held.length + ((preSt w.a cb rest).jobs x).deps.length ≤ 2 * dTot w.a.s := by
                intro x e
                rw [(hpre x).2.2.2.1, (hpre x).2.1]
                have h1 := h.held_le hrel x
                have hx : x < w.a.s.n := by
                  subst e
                  exact h.lt_of_pc x (stepA_chg_pc (fl := fl) h.invP hr x (Or.inr (Or.inr rfl))).1
                have := len_le_dTot w.a.s x hx
                omega
              have := runCb_gGrow fl (preSt w.a cb rest) cb (dTot w.a.s) (2 * dTot w.a.s) hD hJ hH
              rw [← es, pr1] at this
              unfold cK
              have e3 : 2 * dTot w.a.s * dTot w.a.s = 2 * (dTot w.a.s * dTot w.a.s) := Nat.mul_assoc _ _ _
              omega
          have hge := gCount_cons_le cb rest
          -- (K+1)(4μ' + r') + g' < (K+1)(4μ + r) + g
          have h1 : 4 * mu (abs (stepA fl world w.a).adopted (stepA fl world w.a).s) + procRank (stepA fl world w.a).d + 1 ≤
              4 * mu (abs w.a.adopted w.a.s) + procRank w.a.d := by omega
          have h2 := Nat.mul_le_mul_left (cK w.a.s + 1) h1
          rw [Nat.mul_add, Nat.mul_one] at h2
          omega
    | deliver k =>
      obtain ⟨kind, j, c, d', hk, hgate⟩ := hen
      have e0 : (w.apply fl (.sched (.deliver k))).a = deliverA w.a k j c d' := by
        show applyA fl world w.a (.deliver k) = _
        simp only [applyA, hk, hgate]
      obtain ⟨g1, g2, g3⟩ := deliver_abs hg hf ha hrel h k j kind c d' hk hgate
      have tr := transF_deliver h k j kind c d' hk hgate
      obtain ⟨l1, l2, l3, l4, l5, l6⟩ := deliverA_lists w.a k j c d'
      have hS : SoundA fl totals done0 d0 (w.apply fl (.sched (.deliver k))) := by
        refine ⟨h.reach.apply _, ?_, ?_, ?_, ?_⟩
        · rw [e0, l5]; exact g1
        · rw [e0]; exact uniq_trans tr.n tr.ident h.uniq
        · rw [e0]; exact lock_deliverA h k j kind c d' hk hgate
        · rw [e0]; exact adInv_trans h tr
      refine ⟨hS, ?_, by rw [e0, l5]; exact g2⟩
      have hck : cK (deliverA w.a k j c d').s = cK w.a.s := cK_trans tr.n tr.lens
      have hgp := gate_procs _ _ _ _ _ _ _ hgate
      unfold wmuA
      rw [e0, hck, l5, l6, procRank_congr hgp.2 hgp.1, l1]
      simp only [gCount_append, gCount_cons, gCount_nil, isPlainB, Bool.false_eq_true, if_false]
      have h1 : 4 * mu (abs w.a.adopted (deliverA w.a k j c d').s) + procRank w.a.d + 1 ≤
          4 * mu (abs w.a.adopted w.a.s) + procRank w.a.d := by omega
      have h2 := Nat.mul_le_mul_left (cK w.a.s + 1) h1
      rw [Nat.mul_add, Nat.mul_one] at h2
      omega

end step

end XpmVerif.RestartLive
