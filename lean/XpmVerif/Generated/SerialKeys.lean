/- GENERATED placeholder; rewritten on every run by harness/xv/translate/serialkeys.py -/
import XpmVerif.Model.SerialData
namespace XpmVerif.Gen
def dataFlags : XpmVerif.Serial.DFlags :=
  { perObject := true, loadForwards := true, pathWrapped := true, taskDirForwards := true }
end XpmVerif.Gen
