"""Restart engine (C11, C05): the deterministic scheduler engine of xv.impl.schedeng on a *persistent*
workspace directory with simulated job processes, plus the events `crash` / `crashAfterSpawn`
(the scheduler, its loop and its in-memory tokens are discarded at any step; files and job processes
survive; a fresh scheduler is started on the same directory).

What is real: `Scheduler.aio_registerJob`, `aio_submit` (marker test, adoption path), `aio_start`,
`CommandLineJob.aio_process` (the real function: reads `<job>.pid`, `Process.fromDefinition`,
`aio_isrunning`), `Process.aio_code`, dependencies, tokens, `Locks`.  What is simulated (M3 level, the same
rules as `Disk` in lean/XpmVerif/Model/Restart.lean): job processes (wait for the run lock, test the marker,
body, marker, exit), the run lock, `aio_run` (spawn + pid file as `commandline.py` l.300-303 writes it).

Events:  ["sched", ev] (ev of schedeng) | ["proc", p, rmPid] | ["crash"] | ["crashAfterSpawn", j]
         | ["crashInPrepare", j, "absent"|"broken"|"ready"] | ["spawn", ident, code]
"""
import json
import shutil
import tempfile
from pathlib import Path

from . import schedeng
from .schedeng import World

from experimaestro.commandline import CommandLineJob  # noqa: E402
from experimaestro.connectors import Process, ProcessState  # noqa: E402
from experimaestro.locking import Lock  # noqa: E402
from experimaestro.scheduler.base import JobState  # noqa: E402


class SimDisk:
    """job directories (real files `done`, `pid`) + simulated processes and run locks"""

    def __init__(self, ws: Path, idents, done0=()):
        self.ws = ws
        self.idents = list(idents)
        self.dirs = {i: {"lock": "free", "script": "absent", "bodies": 0, "succ": 0, "fails": 0, "spawns": 0} for i in self.idents}
        self.procs = []
        for i in done0:
            self.jobdir(i).mkdir(parents=True, exist_ok=True)
            (self.jobdir(i) / "done").touch()

    def jobdir(self, ident):
        return self.ws / "jobs" / "xv.fake" / f"id{ident}"

    def done(self, ident):
        return (self.jobdir(ident) / "done").exists()

    def pid(self, ident):
        p = self.jobdir(ident) / "pid"
        if not p.is_file():
            return None
        return json.loads(p.read_text())["pid"]

    def alive(self, p):
        return 0 <= p < len(self.procs) and self.procs[p]["ph"] != "gone"

    def spawn(self, ident, code):
        self.procs.append({"ident": ident, "ph": "waitLock", "code": code, "ok": False, "ran": False})
        self.dirs[ident]["spawns"] += 1
        return len(self.procs) - 1

    def proc_step(self, p, rm):
        if not (0 <= p < len(self.procs)):
            return
        pr = self.procs[p]
        d = self.dirs[pr["ident"]]
        jd = self.jobdir(pr["ident"])
        if pr["ph"] == "waitLock":
            if d["lock"] == "free":
                d["lock"] = p
                if self.done(pr["ident"]):
                    pr["ph"], pr["ok"] = "exiting", True
                else:
                    d["bodies"] += 1
                    pr["ph"], pr["ran"] = "body", True
        elif pr["ph"] == "body":
            if pr["code"] == 0:
                jd.mkdir(parents=True, exist_ok=True)
                (jd / "done").touch()
                d["succ"] += 1
                pr["ph"], pr["ok"] = "exiting", True
            else:
                d["fails"] += 1
                pr["ph"], pr["ok"] = "exiting", False
        elif pr["ph"] == "exiting":
            if d["lock"] == p:
                d["lock"] = "free"
            if rm and (jd / "pid").is_file():
                (jd / "pid").unlink()
            pr["ph"] = "gone"

    def crash(self):
        for d in self.dirs.values():
            if d["lock"] == "sched":
                d["lock"] = "free"

    def observe(self):
        return {
            "procs": [{"ident": p["ident"], "ph": p["ph"], "ok": p["ok"], "ran": p["ran"]} for p in self.procs],
            "dirs": [{"ident": i, "done": self.done(i), "pid": self.pid(i), "lock": self.dirs[i]["lock"], "script": self.dirs[i]["script"],
                      "bodies": self.dirs[i]["bodies"], "succ": self.dirs[i]["succ"], "fails": self.dirs[i]["fails"],
                      "spawns": self.dirs[i]["spawns"]} for i in self.idents],
        }


class Shared:
    """what survives a crash"""

    def __init__(self, spec):
        self.ws = Path(tempfile.mkdtemp(prefix="xv-restart-"))
        idents = []
        for js in spec["jobs"]:
            if js["ident"] not in idents:
                idents.append(js["ident"])
        self.disk = SimDisk(self.ws, idents, spec.get("done", ()))

    def close(self):
        shutil.rmtree(self.ws, ignore_errors=True)


class RProcess(Process):
    """handle on a simulated process.  `launched`: created by `aio_run` of this scheduler (exit status known);
    otherwise re-attached through the pid file (like psutil for a non-child: no exit status)"""

    def __init__(self, disk, p, launched):
        self.disk, self.p, self.launched = disk, p, launched
        self.job = None
        self.code = None

    def wait(self):
        if not self.launched:
            return None
        return 0 if self.disk.procs[self.p]["ok"] else 1

    async def aio_state(self):
        return ProcessState.RUNNING if self.disk.alive(self.p) else ProcessState.FINISHED

    def tospec(self):
        return {"type": "xvfake", "pid": self.p}


class RWorld(World):
    CURRENT = None

    def __init__(self, spec, shared: Shared):
        super().__init__(spec)
        shutil.rmtree(self.ws, ignore_errors=True)
        self.ws = shared.ws
        self.xp.jobspath = self.ws / "xp" / "jobs"  # was bound to the temporary directory of the base class
        self.shared = shared
        self.disk = shared.disk
        self.locks = []
        world = self
        RWorld.CURRENT = self
        Process.handler("local")  # make sure the handler table exists
        disk = self.disk

        class Handler:
            @staticmethod
            def fromspec(connector, spec):
                return RProcess(disk, spec["pid"], False) if disk.alive(spec["pid"]) else None

        Process.HANDLERS["xvfake"] = Handler

        class RLock(Lock):
            def __init__(self, job):
                super().__init__()
                self.job = job
                self.entered = False
                self.exited = False
                world.locks.append(self)

            def _acquire(self):
                d = disk.dirs[self.job.js["ident"]]
                assert d["lock"] == "free", "engine delivered a lock thread that cannot complete"
                d["lock"] = "sched"
                self.entered = True

            def _release(self):
                d = disk.dirs[self.job.js["ident"]]
                if d["lock"] == "sched":
                    d["lock"] = "free"
                self.exited = True

        class RConnector:
            def __init__(self, job):
                self.job = job

            def lock(self, path, max_delay=-1):
                return RLock(self.job)

        class RLauncher:
            def __init__(self, job):
                self.connector = RConnector(job)

        Base = self.FakeJob

        class RJob(Base):
            def __init__(self, idx, js):
                Base.__init__(self, idx, js)
                self.launcher = RLauncher(self)
                self.adopted = False

            pidpath = property(lambda self: self.path / "pid")

            def __setattr__(self, k, v):
                Base.__setattr__(self, k, v)
                if k == "state" and v == JobState.WAITING and "s0" not in self.__dict__:
                    # what the job directory shows when the first segment of aio_submit runs
                    ident = self.js["ident"]
                    pid = disk.pid(ident)
                    object.__setattr__(self, "s0", {"done": disk.done(ident), "alive": pid is not None and disk.alive(pid)})

            async def aio_process(self):
                had = self._process
                p = await CommandLineJob.aio_process(self)  # the real function
                if p is not None and had is None:
                    p.job = self
                    self.adopted = True
                return p

            async def aio_run(self):
                if self._process:
                    return self._process
                world.trace.append(("launch", self.idx))
                self.launches += 1
                disk.dirs[self.js["ident"]]["script"] = "ready"  # prepare(): script and params.json written from scratch
                p = disk.spawn(self.js["ident"], self.js["code"])
                self._process = RProcess(disk, p, True)
                self._process.job = self
                self.path.mkdir(parents=True, exist_ok=True)
                with self.pidpath.open("w") as fp:
                    json.dump(self._process.tospec(), fp)
                self.state = JobState.RUNNING
                return self._process

        self.FakeJob = RJob

    # -- gating of helper threads ---------------------------------------------------------------
    def enabled(self, k):
        name, f = self.threads[k][0], self.threads[k][1]
        if name == "lock (aenter)":
            lock = f.__self__
            return self.disk.dirs[lock.job.js["ident"]]["lock"] == "free"
        if name == "aio_code":
            return not self.disk.alive(f.__self__.p)
        return True

    def deliver(self, k):
        if not (0 <= k < len(self.threads)) or not self.enabled(k):
            return
        name, f, a, kw, fut = self.threads.pop(k)
        r = f(*a, **kw)
        fut.set_result(r)
        self._after()

    def pc_lock_enter(self, j):
        """job j is between the request of its job lock and the release request (model pc = lockEnter)"""
        job = self.jobs.get(j)
        if job is None:
            return False
        exiting = {t[1].__self__ for t in self.threads if t[0] == "lock (aexit)"}
        return any(l.job is job and not l.exited and l not in exiting for l in self.locks)

    def observe(self):
        o = super().observe()
        n = len(self.spec["jobs"])
        o["adopted"] = [bool(self.jobs[i].adopted) if i in self.jobs else False for i in range(n)]
        o.update(self.disk.observe())
        return o

    def close(self):
        # let the cancellations unwind while the loop is still open (the coroutines release their
        # in-memory locks on the way out), then close; keep the shared directory
        self.loop.set_exception_handler(lambda loop, ctx: None)
        for t in list(self.tasks.values()) + ([self.waiter] if self.waiter else []):
            if not t.done():
                t.cancel()
        for _ in range(10000):
            if not len(self.loop._ready):
                break
            try:
                self._run_handle()
            except BaseException:
                break
        ws = self.ws
        self.ws = Path(tempfile.mkdtemp(prefix="xv-sched-"))
        try:
            super().close()
        finally:
            self.ws = ws


class Run:
    """a sequence of scheduler incarnations over one workspace"""

    def __init__(self, spec):
        self.spec = spec
        self.shared = Shared(spec)
        self.w = RWorld(spec, self.shared)
        self.pending = list(range(len(spec["jobs"])))
        self.waited = False
        self.crashes = 0
        self.fails = []  # implementation-only monitor failures: (key, what)

    def monitor_incarnation(self, final):
        """the property on what this scheduler incarnation did (called when it dies and at the end)"""
        w, disk = self.w, self.shared.disk
        for j, job in w.jobs.items():
            s0 = job.__dict__.get("s0")
            if job.launches > 1:
                self.fails.append(("launched-twice", f"job {j} was launched {job.launches} times by one scheduler"))
            if s0 is None:
                continue
            if s0["done"] and job.launches > 0:
                self.fails.append(("restart-relaunched-finished-job",
                                   f"run {self.crashes + 1}: job {j} (identifier {job.js['ident']}) was launched although its success marker existed when it was submitted"))
            if s0["alive"] and not s0["done"] and job.launches > 0:
                self.fails.append(("restart-relaunched-running-job",
                                   f"run {self.crashes + 1}: job {j} (identifier {job.js['ident']}) was launched although its process was running (pid file) when it was submitted"))
            if s0["alive"] and not job.adopted:
                self.fails.append(("running-job-not-adopted", f"run {self.crashes + 1}: job {j}: live process in the pid file but no adoption"))
        if final:
            for j, job in w.jobs.items():
                t = w.tasks.get(j)
                if t is None:
                    continue
                if not t.done():
                    self.fails.append(("restart-not-finishing", f"last run: nothing left to do but job {j} is {job.state.name}"))
                elif t.exception() is None:
                    r = t.result().name
                    if (r == "DONE") != disk.done(job.js["ident"]) and r in ("DONE",):
                        self.fails.append(("done-without-marker", f"last run: job {j} ended DONE but its success marker does not exist"))
            for i, d in disk.dirs.items():
                if d["succ"] > 1:
                    self.fails.append(("body-succeeded-twice", f"identifier {i}: {d['succ']} successful executions"))

    def restart(self):
        self.monitor_incarnation(False)
        self.w.close()
        self.shared.disk.crash()
        self.w = RWorld(self.spec, self.shared)
        self.pending = list(range(len(self.spec["jobs"])))
        self.waited = False
        self.crashes += 1

    def apply(self, ev):
        k = ev[0]
        if k == "sched":
            e = ev[1]
            if e[0] == "submit":
                if self.pending and self.pending[0] == e[1]:
                    self.pending.pop(0)
                    self.w.apply(e)
            elif e[0] == "wait":
                self.waited = True
                self.w.apply(e)
            elif e[0] == "step":
                if len(self.w.loop._ready):
                    self.w.apply(e)
            else:
                self.w.apply(e)
        elif k == "proc":
            self.shared.disk.proc_step(ev[1], ev[2])
        elif k == "spawn":
            self.shared.disk.spawn(ev[1], ev[2])
        elif k == "crash":
            self.restart()
        elif k == "crashAfterSpawn":
            j = ev[1]
            job = self.w.jobs.get(j)
            if job is not None and self.w.pc_lock_enter(j) and self.shared.disk.dirs[job.js["ident"]]["lock"] == "sched":
                self.shared.disk.spawn(job.js["ident"], job.js["code"])
                self.restart()
        elif k == "crashInPrepare":
            j = ev[1]
            job = self.w.jobs.get(j)
            if job is not None and self.w.pc_lock_enter(j) and self.shared.disk.dirs[job.js["ident"]]["lock"] == "sched":
                self.shared.disk.dirs[job.js["ident"]]["script"] = ev[2]
                self.restart()
        else:
            raise ValueError(ev)

    def choices(self, rng, allow_crash=True):
        ch = [["sched", c] for c in self.w.choices(self.pending, self.waited)]
        ch += [["proc", p, rng.random() < 0.5] for p in range(len(self.shared.disk.procs)) if self.shared.disk.alive(p)]
        return ch

    def observe(self):
        return self.w.observe()

    def close(self):
        try:
            self.w.close()
        finally:
            self.shared.close()


def productive(run, ev):
    """would this event change anything? (used to detect quiescence)"""
    if ev[0] == "sched":
        e = ev[1]
        if e[0] == "deliver":
            return run.w.enabled(e[1])
        return True
    if ev[0] == "proc":
        pr = run.shared.disk.procs[ev[1]]
        if pr["ph"] == "waitLock":
            return run.shared.disk.dirs[pr["ident"]]["lock"] == "free"
        return pr["ph"] != "gone"
    return True


def run_random(spec, rng, max_events=3000, max_crashes=2, crash_p=0.03):
    """random schedule with crashes; returns (events, observations, quiescent, trace of launches per run)"""
    run = Run(spec)
    try:
        events, obs = [], []
        quiescent = False
        for _ in range(max_events):
            ch = run.choices(rng)
            prod = [c for c in ch if productive(run, c) and c[1] != ["wait"]]
            if not prod and (run.waited or spec.get("no_wait")):
                quiescent = True
                break
            r = rng.random()
            ev = None
            if run.crashes < max_crashes and r < crash_p:
                # die inside aio_run if some job is there, else at this step
                mids = [j for j in run.w.jobs if run.w.pc_lock_enter(j)
                        and run.shared.disk.dirs[run.w.jobs[j].js["ident"]]["lock"] == "sched"]
                if mids and rng.random() < 0.7:
                    ev = ["crashAfterSpawn", rng.choice(mids)] if rng.random() < 0.5 else \
                        ["crashInPrepare", rng.choice(mids), rng.choice(["absent", "broken", "ready"])]
                else:
                    ev = ["crash"]
            elif r < crash_p + 0.02 and ch:
                ev = rng.choice(ch)  # possibly a helper thread that cannot complete yet: a no-op on both sides
            else:
                pool = prod or ch
                ev = rng.choice(pool)
                if ev[1] == ["wait"] and prod and rng.random() < 0.7:
                    ev = rng.choice(prod)
            run.apply(ev)
            events.append(ev)
            obs.append(run.observe())
        run.monitor_incarnation(quiescent)
        return events, obs, quiescent, list(run.fails)
    finally:
        run.close()


def run_replay(spec, events):
    run = Run(spec)
    try:
        obs = []
        for ev in events:
            run.apply(ev)
            obs.append(run.observe())
        run.monitor_incarnation(False)
        return obs, list(run.fails)
    finally:
        run.close()
