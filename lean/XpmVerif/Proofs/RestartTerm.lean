import XpmVerif.Proofs.SchedTerm
import XpmVerif.Proofs.RestartLink
/-! C11, termination of the restarted scheduler (partial): the scheduler of the restart world (`Model/Restart.lean`)
    differs from M2 (`St.apply`) in three ways — the first segment overwrites the marker with what the job directory
    shows, the completion of the `code` thread overwrites the exit code, and a live process found through the pid file
    is adopted.  The first two are *edits* of fields no invariant of `Proofs/SchedFinal.lean` / `SchedTerm.lean` looks
    at where they happen (`Good_edit`), so every invariant and the measure `mu` carry over to every run of the world
    scheduler **in which no job is adopted**; job processes add their own rank.  Adoption itself is outside the
    invariants of M2 (an adopted job is RUNNING without launch, locks or satisfied dependencies): see the comment at
    the end for the full statement and what is missing. -/
namespace XpmVerif.RestartTerm
open XpmVerif.Sched hiding Reachable flOK submitPre submitPost sumTo
open XpmVerif.SchedFinal

/-! ### edits of `marker` / `code` -/

/-- `jb'` is `jb` up to the fields `marker` and `code`. -/
structure SameBut (jb jb' : Job) : Prop where
  ident : jb'.ident = jb.ident
  deps : jb'.deps = jb.deps
  state : jb'.state = jb.state
  unsat : jb'.unsat = jb.unsat
  event : jb'.event = jb.event
  sleeping : jb'.sleeping = jb.sleeping
  pc : jb'.pc = jb.pc
  held : jb'.held = jb.held
  launches : jb'.launches = jb.launches
  failedDep : jb'.failedDep = jb.failedDep

/-- what the termination argument uses about a scheduler state (all preserved by `St.apply` and by edits). -/
structure Good (fl : Flags) (s : St) : Prop where
  e : InvE fl s
  r : InvR s
  nd : NoDoubleTok s
  b : InvB s
  cap : ∃ N, XpmVerif.Sched.Inv s N

theorem Good.invT {fl : Flags} {s : St} (h : Good fl s) : InvT fl s := by
  refine ⟨h.e, h.r, ?_, h.nd⟩
  obtain ⟨N, hi⟩ := h.cap
  intro j hp
  have := (hi.job j).2.1 (by revert hp; cases (s.jobs j).pc <;> simp [pcRun, PC.run])
  rw [this]; simp

theorem good_of_reachable {fl : Flags} (hg : fl.readyGuarded = true) (hf : fl.resubmitRegisters = true)
    (ha : fl.abortRechecks = true) {totals : List Nat} {s : St} (h : SchedFinal.Reachable fl totals s)
    (hnd : NoDoubleTok s) : Good fl s :=
  ⟨reachable_invE hg ha h, reachable_invR hg h, hnd, reachable_invB hg hf h, (reachable_cap h).inv⟩

theorem depAt_sameBut {jb jb' : Job} (h : SameBut jb jb') (i : Nat) : depAt jb' i = depAt jb i := by
  unfold depAt; rw [h.deps]

theorem jdeep_sameBut {jb jb' : Job} (h : SameBut jb jb') (hJ : JDeep jb) : JDeep jb' := by
  have hd := depAt_sameBut h
  refine ⟨by rw [h.state, h.pc]; exact hJ.doneEnd, by rw [h.state, h.pc]; exact hJ.lockReady,
    by rw [h.state, h.pc]; exact hJ.runRunning, by rw [h.state, h.pc]; exact hJ.fresh, ?_,
    by rw [h.state, h.unsat, h.deps]; exact hJ.counter, ?_, ?_, ?_, by rw [h.failedDep, h.launches]; exact hJ.failedNoLaunch⟩
  · rw [h.state, h.failedDep, h.unsat, h.deps]
    intro hu; obtain ⟨a, b, c⟩ := hJ.pristine hu
    exact ⟨a, b, fun i hi => by rw [hd]; exact c i hi⟩
  · rw [h.state, h.deps]; intro hr i hi hj; rw [hd] at hj ⊢; exact hJ.readyDeps hr i hi hj
  · rw [h.deps]; intro i hi hj; rw [hd] at hj ⊢; exact hJ.tokNoFail i hi hj
  · rw [h.failedDep, h.deps]; intro hf; obtain ⟨i, hi, hc⟩ := hJ.failedWit hf; exact ⟨i, hi, by rw [hd]; exact hc⟩

theorem jq_sameBut {fl : Flags} {jb jb' : Job} (h : SameBut jb jb') (hQ : JQ fl jb) : JQ fl jb' := by
  have hd := depAt_sameBut h
  refine ⟨⟨?_, by rw [h.pc, h.state]; exact hQ.1.waitState, by rw [h.pc, h.event, h.state]; exact hQ.1.evtClear,
    by rw [h.state, h.unsat]; exact hQ.1.waitUnsat, ?_⟩, ?_⟩
  · unfold SE; rw [h.sleeping, h.event]; exact hQ.1.se
  · rw [h.state, h.deps]; intro hw i hi; rw [hd]; exact hQ.1.waitNoFail hw i hi
  · unfold HeldPc; rw [h.held, h.pc]; exact hQ.2

/-- the state with the record of `j` replaced by an edited copy. -/
def edit (s : St) (j : Nat) (jb' : Job) : St := { s with jobs := upd s.jobs j jb' }

theorem put_nil_eq (s : St) (j : Nat) (jb' : Job) : s.put j jb' [] [] = edit s j jb' := by
  simp [St.put, edit]

theorem edit_jobs_ne (s : St) (j : Nat) (jb' : Job) (i : Nat) (hi : i ≠ j) : (edit s j jb').jobs i = s.jobs i := by
  simp [edit, upd_ne _ _ hi]
theorem edit_jobs_same (s : St) (j : Nat) (jb' : Job) : (edit s j jb').jobs j = jb' := by simp [edit]
theorem edit_ready (s : St) (j : Nat) (jb' : Job) : (edit s j jb').ready = s.ready := rfl
theorem edit_threads (s : St) (j : Nat) (jb' : Job) : (edit s j jb').threads = s.threads := rfl

theorem edit_sameBut_all {s : St} {j : Nat} {jb' : Job} (h : SameBut (s.jobs j) jb') (i : Nat) :
    SameBut (s.jobs i) ((edit s j jb').jobs i) := by
  by_cases hi : i = j
  · subst hi; rw [edit_jobs_same]; exact h
  · rw [edit_jobs_ne _ _ _ _ hi]; exact ⟨rfl, rfl, rfl, rfl, rfl, rfl, rfl, rfl, rfl, rfl⟩

theorem edit_status {s : St} {j : Nat} {jb' : Job} (h : SameBut (s.jobs j) jb') (o : Origin) :
    (edit s j jb').status o = s.status o :=
  status_congr (s := s) (s' := edit s j jb') rfl (fun k => by rw [(edit_sameBut_all h k).state])
    (fun k => by rw [(edit_sameBut_all h k).state]) o

/-- the measure does not look at `marker` / `code`. -/
theorem mu_edit {s : St} {j : Nat} {jb' : Job} (h : SameBut (s.jobs j) jb') : mu (edit s j jb') = mu s := by
  have hall := edit_sameBut_all h
  have hst := edit_status h
  have hn : (edit s j jb').n = s.n := rfl
  have hd : dTot (edit s j jb') = dTot s := dTot_congr hn (fun i => by rw [(hall i).deps])
  have hA : muA (edit s j jb') = muA s := by
    unfold muA; rw [hn]; exact sumTo_congr _ _ _ (fun i _ => by unfold aJ; rw [(hall i).pc, (hall i).state])
  have hQ : muQ (edit s j jb') = muQ s := by
    unfold muQ; rw [hn]; exact sumTo_congr _ _ _ (fun i _ => by unfold qJ; rw [(hall i).pc, (hall i).sleeping])
  have hS : ∀ i, sBlk (edit s j jb') i = sBlk s i := by
    intro i; unfold sBlk depAt; rw [(hall i).deps]; simp only [hst]
  have hB : muB (edit s j jb') = muB s := by
    unfold muB; rw [hn]; exact sumTo_congr _ _ _ (fun i _ => by unfold bJ; rw [(hall i).pc, (hall i).state, hS i])
  unfold mu pW cW eW
  rw [hA, hB, hQ, hd, hn, edit_ready, edit_threads]

theorem cap_edit {s : St} {j : Nat} {jb' : Job} (h : SameBut (s.jobs j) jb') {N : Nat}
    (hi : XpmVerif.Sched.Inv s N) : XpmVerif.Sched.Inv (edit s j jb') N := by
  have hall := edit_sameBut_all h
  obtain ⟨h1, h2, h3, h4⟩ := hi
  refine ⟨fun i => ?_, fun i hN => by rw [(hall i).pc]; exact h2 i hN, h3, fun t => ?_⟩
  · have := h1 i
    simp only [PJ, KJ, edit_ready, edit_threads] at this ⊢
    rw [(hall i).pc, (hall i).sleeping, (hall i).held, (hall i).deps, (hall i).state]
    exact this
  · have := h4 t
    have e : XpmVerif.Sched.sumTo s.n (fun i => heldTok ((edit s j jb').jobs i) t) = XpmVerif.Sched.sumTo s.n (fun i => heldTok (s.jobs i) t) :=
      XpmVerif.Sched.sumTo_congr (fun i _ => by unfold heldTok; rw [(hall i).deps, (hall i).held])
    show (edit s j jb').avail t + ((XpmVerif.Sched.sumTo s.n (fun i => heldTok ((edit s j jb').jobs i) t) : Nat) : Int) = _ ∧ _
    rw [e]; exact this

/-- every invariant survives an edit of `marker` / `code`, as long as the edited record is still truthful. -/
theorem good_edit {fl : Flags} {s : St} {j : Nat} {jb' : Job} (hG : Good fl s) (h : SameBut (s.jobs j) jb')
    (hL : JLocal jb') : Good fl (edit s j jb') := by
  have hall := edit_sameBut_all h
  have hd : ∀ i k, depAt ((edit s j jb').jobs i) k = depAt (s.jobs i) k := fun i k => depAt_sameBut (hall i) k
  have hC := hG.e.c
  refine ⟨⟨⟨⟨?_, ?_, ?_⟩, ?_, ?_, ?_⟩, ?_⟩, ?_, ?_, ⟨?_, ?_⟩, ?_⟩
  · intro i
    exact (ctlAt_congr i (hall i).pc (hall i).sleeping (by rw [edit_ready]) (by rw [edit_ready]) (by rw [edit_ready])
      (by rw [edit_threads]) rfl).2 (hC.a.ctl i)
  · intro i
    by_cases hi : i = j
    · subst hi; rw [edit_jobs_same]; exact hL
    · rw [edit_jobs_ne _ _ _ _ hi]; exact hC.a.loc i
  · intro i hi; rw [(hall i).pc]; exact hC.a.blank i hi
  · refine ⟨fun i hi => by rw [(hall i).deps]; exact hC.st.blankDeps i hi, ?_, ?_, hC.st.effLe, hC.st.regLt, hC.st.resLt, ?_⟩
    · intro i k o hk ho; rw [(hall i).deps] at hk; rw [hd] at ho; exact hC.st.acyclic i k o hk ho
    · intro i k t c hk ho; rw [(hall i).deps] at hk; rw [hd] at ho; exact hC.st.tokOK i k t c hk ho
    · intro i hi; rw [edit_ready] at hi; exact hC.st.regCb i hi
  · intro i hp; rw [(hall i).pc] at hp; rw [(hall i).state]; exact hC.f i hp
  · rw [← put_nil_eq]
    exact put_invD s j jb' [] [] hC.d (jdeep_sameBut h (hC.d.recs j)) h.deps (fun hs => by rw [h.state]; exact hs)
      (Or.inl ⟨fun e => by rw [h.state]; exact e, fun e => by rw [h.state]; exact e⟩) (by simp)
  · intro i; exact jq_sameBut (hall i) (hG.e.q i)
  · have hreg : regTot (edit s j jb') = regTot s := by
      unfold regTot
      exact SchedFinal.sumTo_congr _ _ _ (fun i _ => by unfold regC; rw [(hall i).state, (hall i).deps])
    exact ⟨fun t => by rw [hreg]; exact hG.r.tok t, fun o => by rw [hreg]; exact hG.r.job o⟩
  · intro i k k' t c c' h1 h2; rw [hd] at h1 h2; exact hG.nd i k k' t c c' h1 h2
  · rw [edit_ready]; exact hG.b.noreg
  · have hc := hG.b.count
    unfold CountC at hc ⊢
    have : actN (edit s j jb') = actN s := actN_congr rfl (fun i => by unfold act; rw [(hall i).pc])
    rw [this]; exact hc
  · obtain ⟨N, hi⟩ := hG.cap
    exact ⟨N, cap_edit h hi⟩

/-- every invariant survives an enabled `step` / `deliver` event of M2. -/
theorem good_apply {fl : Flags} (hg : fl.readyGuarded = true) (hf : fl.resubmitRegisters = true)
    (ha : fl.abortRechecks = true) {s : St} (ev : Ev) (hen : Enabled s ev) (h : Good fl s) : Good fl (s.apply fl ev) := by
  have hok := evOK_enabled s ev hen
  obtain ⟨N, hi⟩ := h.cap
  exact ⟨apply_invE fl hg ha s ev hok h.e, apply_invR fl hg s ev hok h.e.c h.r,
    noDoubleTok_enabled fl s h.e.c.a.ctl ev hen h.nd, apply_invB fl hg hf s ev h.e.c.a h.b,
    XpmVerif.Sched.apply_Inv (ar := false) (fun e => by cases e) ev hi⟩

/-! ### the scheduler of the restart world, one event at a time -/

open XpmVerif.Restart in
/-- the record the first segment works on: the marker is what the job directory shows. -/
def markerRec (a : StA Disk) (j : Nat) : Job :=
  { (a.s.jobs j) with marker := (world.look a.d j (a.s.jobs j)).marker }

open XpmVerif.Restart in
/-- a callback of the world scheduler that adopts nothing is the M2 callback on the state with the marker edited
    (for `start`), resp. on the state itself. -/
theorem stepA_noAdopt (fl : Flags) (a : StA Disk) (cb : Cb) (rest : List Cb) (hr : a.s.ready = cb :: rest)
    (hna : ∀ j, cb = .start j → (world.look a.d j (a.s.jobs j)).adopt = false) :
    (stepA fl world a).s =
      (match cb with
       | .start j => edit a.s j (markerRec a j)
       | _ => a.s).apply fl .step := by
  rw [stepA_cons fl world a cb rest hr]
  cases cb with
  | start j =>
    have h0 := hna j rfl
    have h0' : (world.look a.d j (({ a.s with ready := rest } : St).jobs j)).adopt = false := h0
    simp only [runCbA, h0', Bool.false_eq_true, if_false, startJobA, St.apply]
    unfold St.step
    simp only [edit, hr]
    simp only [St.runCb]
    congr 1
    simp [St.put, markerRec]
  | resume j =>
    simp only [runCbA, St.apply]
    unfold St.step
    simp only [hr]
    split <;> rfl
  | register j => simp only [runCbA, St.apply]; unfold St.step; simp only [hr]
  | wake j => simp only [runCbA, St.apply]; unfold St.step; simp only [hr]
  | check j d => simp only [runCbA, St.apply]; unfold St.step; simp only [hr]
  | notifyCheck j d => simp only [runCbA, St.apply]; unfold St.step; simp only [hr]
  | waiterRun => simp only [runCbA, St.apply]; unfold St.step; simp only [hr]

/-! ### job processes -/

open XpmVerif.Restart

/-- steps a job process still has to make. -/
def rk : Ph → Nat
  | .waitLock => 3 | .body => 2 | .exiting => 1 | .gone => 0

def procRank (d : Disk) : Nat := SchedFinal.sumTo (fun p => rk (d.procs p).ph) d.np

theorem procRank_congr {d d' : Disk} (hn : d'.np = d.np) (hp : d'.procs = d.procs) : procRank d' = procRank d := by
  unfold procRank; rw [hn, hp]

theorem procRank_onLaunch (d : Disk) (j : Nat) (jb : Job) : procRank (world.onLaunch d j jb) = procRank d + 3 := by
  have hn : (world.onLaunch d j jb).np = d.np + 1 := rfl
  have hp : (world.onLaunch d j jb).procs = upd d.procs d.np { ident := jb.ident, ph := .waitLock, code := jb.code } := rfl
  unfold procRank
  rw [hn, hp, SchedFinal.sumTo_succ]
  have : SchedFinal.sumTo (fun p => rk (upd d.procs d.np { ident := jb.ident, ph := Ph.waitLock, code := jb.code } p).ph) d.np
      = SchedFinal.sumTo (fun p => rk (d.procs p).ph) d.np :=
    SchedFinal.sumTo_congr _ _ _ (fun i hi => by simp [upd, Nat.ne_of_lt hi])
  rw [this]; simp [rk]

theorem gate_procs (d : Disk) (kind : TK) (j : Nat) (jb : Job) (ad : Bool) (c : Option Nat) (d' : Disk)
    (h : world.gate d kind j jb ad = some (c, d')) : d'.procs = d.procs ∧ d'.np = d.np := by
  cases kind <;> simp only [world] at h
  · split at h <;> simp at h
    obtain ⟨_, rfl⟩ := h; exact ⟨rfl, rfl⟩
  · simp at h; obtain ⟨_, rfl⟩ := h; exact ⟨rfl, rfl⟩
  · split at h
    · simp at h
    · split at h <;> simp at h <;> obtain ⟨_, rfl⟩ := h <;> exact ⟨rfl, rfl⟩
  · simp at h; obtain ⟨_, rfl⟩ := h; exact ⟨rfl, rfl⟩

/-- a job process that can move. -/
def ProcEnabled (d : Disk) (p : Nat) : Prop :=
  p < d.np ∧ ((d.procs p).ph = .body ∨ (d.procs p).ph = .exiting ∨
    ((d.procs p).ph = .waitLock ∧ (d.dir (d.procs p).ident).lock = .free))

theorem procRank_step (d : Disk) (p : Nat) (rm : Bool) (h : ProcEnabled d p) :
    procRank (d.procStep p rm) < procRank d := by
  obtain ⟨hp, hph⟩ := h
  have key : ∀ (d' : Disk) (x : Proc), d'.np = d.np → d'.procs = upd d.procs p x → rk x.ph < rk (d.procs p).ph →
      procRank d' < procRank d := by
    intro d' x hn hpr hlt
    unfold procRank
    rw [hn, hpr]
    have := SchedFinal.sumTo_upd (fun q => rk (upd d.procs p x q).ph) (fun q => rk (d.procs q).ph) d.np p hp
      (fun i hi => by simp [upd, hi])
    simp only [SchedFinal.upd_same] at this
    omega
  unfold Disk.procStep
  simp only [hp, if_true]
  rcases hph with e | e | ⟨e, hl⟩
  · simp only [e]
    split
    · exact key _ _ rfl rfl (by simp [e, rk])
    · exact key _ _ rfl rfl (by simp [e, rk])
  · simp only [e]
    exact key _ _ rfl rfl (by simp [e, rk])
  · simp only [e, hl, if_true]
    split
    · exact key _ _ rfl rfl (by simp [e, rk])
    · exact key _ _ rfl rfl (by simp [e, rk])

/-! ### one event of the restart world -/

/-- what a callback of the world scheduler does to the disk when nothing is adopted: nothing, or one launch. -/
theorem stepA_disk (fl : Flags) (a : StA Disk) (cb : Cb) (rest : List Cb) (hr : a.s.ready = cb :: rest)
    (hna : ∀ j, cb = .start j → (world.look a.d j (a.s.jobs j)).adopt = false) :
    (stepA fl world a).d = a.d ∨ ∃ j jb, (stepA fl world a).d = world.onLaunch a.d j jb := by
  rw [stepA_cons fl world a cb rest hr]
  cases cb with
  | start j =>
    have h0' : (world.look a.d j (({ a.s with ready := rest } : St).jobs j)).adopt = false := hna j rfl
    simp only [runCbA, h0', Bool.false_eq_true, if_false]; simp
  | resume j =>
    simp only [runCbA]
    split
    · exact Or.inr ⟨j, _, rfl⟩
    · exact Or.inl rfl
  | _ => exact Or.inl rfl

/-- the events of a run of the second scheduler: a callback, the completion of a helper thread the world lets
    complete, a move of a job process. -/
def WEnabled (w : W) : WEv → Prop
  | .sched .step => w.a.s.ready ≠ []
  | .sched (.deliver k) => ∃ kind j c d', w.a.s.threads[k]? = some (kind, j) ∧
      world.gate w.a.d kind j (w.a.s.jobs j) (w.a.adopted j) = some (c, d')
  | .proc p _ => ProcEnabled w.a.d p
  | _ => False

/-- the event adopts nothing: if it is the first segment of a job, the pid file names no live process. -/
def NoAdoptAt (w : W) : WEv → Prop
  | .sched .step => ∀ j rest, w.a.s.ready = .start j :: rest → (world.look w.a.d j (w.a.s.jobs j)).adopt = false
  | _ => True

/-- the variant of the restart world: the measure of the scheduler (weight 4: a launch creates a process of rank 3)
    plus the steps the job processes still have to make. -/
def wmu (w : W) : Nat := 4 * mu w.a.s + procRank w.a.d

theorem jlocal_marker_edit {jb : Job} (hL : JLocal jb) (hp : jb.pc = .created) (hs : jb.state = .unscheduled) (m : Bool) :
    JLocal { jb with marker := m } := by
  unfold JLocal at hL ⊢
  simp only [hp, hs, pcEnd, pcEarly, pcRun] at hL ⊢
  grind

theorem jlocal_code_edit {jb : Job} (hL : JLocal jb) (hp : jb.pc = .codeWait) (hs : jb.state = .running) (c : Nat) :
    JLocal { jb with code := c } := by
  unfold JLocal at hL ⊢
  simp only [hp, hs, pcEnd, pcEarly, pcRun] at hL ⊢
  grind

theorem wstep {fl : Flags} (hg : fl.readyGuarded = true) (hf : fl.resubmitRegisters = true)
    (ha : fl.abortRechecks = true) (hrel : fl.abortReleases = true) {totals : List Nat} {done0 : Nat → Bool} {w : W}
    (hW : WReach fl totals done0 w) (hG : Good fl w.a.s) (e : WEv) (hen : WEnabled w e) (hna : NoAdoptAt w e) :
    Good fl (w.apply fl e).a.s ∧ wmu (w.apply fl e) < wmu w := by
  cases e with
  | crash => exact absurd hen id
  | crashAfterSpawn j => exact absurd hen id
  | crashInPrepare j st => exact absurd hen id
  | proc p rm =>
    have := procRank_step w.a.d p rm hen
    refine ⟨hG, ?_⟩
    show 4 * mu w.a.s + procRank (w.a.d.procStep p rm) < 4 * mu w.a.s + procRank w.a.d
    omega
  | sched ev =>
    cases ev with
    | submit _ _ _ _ => exact absurd hen id
    | wait => exact absurd hen id
    | step =>
      have hne : w.a.s.ready ≠ [] := hen
      cases hr : w.a.s.ready with
      | nil => exact absurd hr hne
      | cons cb rest =>
        have hna' : ∀ j, cb = .start j → (world.look w.a.d j (w.a.s.jobs j)).adopt = false := by
          intro j hj; subst hj; exact hna j rest hr
        have hs := stepA_noAdopt fl w.a cb rest hr hna'
        have hd := stepA_disk fl w.a cb rest hr hna'
        -- the (possibly edited) state on which the M2 callback runs
        have key : ∀ se : St, Good fl se → mu se = mu w.a.s → se.ready = w.a.s.ready →
            (stepA fl world w.a).s = se.apply fl .step →
            Good fl (w.apply fl (.sched .step)).a.s ∧ wmu (w.apply fl (.sched .step)) < wmu w := by
          intro se hGe hmu hre hse
          have hen' : Enabled se .step := by show se.ready ≠ []; rw [hre]; exact hne
          have h1 := good_apply hg hf ha .step hen' hGe
          have h2 := mu_decreases fl hg ha hrel se hGe.invT hGe.b.noreg .step hen'
          have e1 : (w.apply fl (.sched .step)).a.s = se.apply fl .step := hse
          refine ⟨by rw [e1]; exact h1, ?_⟩
          unfold wmu
          rw [e1]
          have e2 : (w.apply fl (.sched .step)).a.d = (stepA fl world w.a).d := rfl
          rw [e2]
          rcases hd with e3 | ⟨j, jb, e3⟩
          · rw [e3]; omega
          · rw [e3, procRank_onLaunch]; omega
        cases cb with
        | start j =>
          have hpc := head_start_pc (s := w.a.s) hG.e.c.a.ctl hr
          have hun := hG.e.c.f j (Or.inr hpc)
          have hsb : SameBut (w.a.s.jobs j) (markerRec w.a j) := ⟨rfl, rfl, rfl, rfl, rfl, rfl, rfl, rfl, rfl, rfl⟩
          have hL := jlocal_marker_edit (hG.e.c.a.loc j) hpc hun (world.look w.a.d j (w.a.s.jobs j)).marker
          exact key _ (good_edit hG hsb hL) (mu_edit hsb) rfl hs
        | resume j => exact key _ hG rfl rfl hs
        | register j => exact key _ hG rfl rfl hs
        | wake j => exact key _ hG rfl rfl hs
        | check j d => exact key _ hG rfl rfl hs
        | notifyCheck j d => exact key _ hG rfl rfl hs
        | waiterRun => exact key _ hG rfl rfl hs
    | deliver k =>
      obtain ⟨kind, j, c, d', hk, hgate⟩ := hen
      have hgp := gate_procs _ _ _ _ _ _ _ hgate
      have hkl : k < w.a.s.threads.length := by
        apply Classical.byContradiction; intro hn
        rw [List.getElem?_eq_none (by omega)] at hk; cases hk
      have e0 : (w.apply fl (.sched (.deliver k))).a = deliverA w.a k j c d' := by
        show applyA fl world w.a (.deliver k) = _
        simp only [applyA, hk, hgate]
      -- the state on which the M2 delivery runs
      have key : ∀ se : St, Good fl se → mu se = mu w.a.s → se.threads = w.a.s.threads →
          (deliverA w.a k j c d').s = se.apply fl (.deliver k) →
          Good fl (w.apply fl (.sched (.deliver k))).a.s ∧ wmu (w.apply fl (.sched (.deliver k))) < wmu w := by
        intro se hGe hmu hth hse
        have hen' : Enabled se (.deliver k) := by show k < se.threads.length; rw [hth]; exact hkl
        have h1 := good_apply hg hf ha (.deliver k) hen' hGe
        have h2 := mu_decreases fl hg ha hrel se hGe.invT hGe.b.noreg (.deliver k) hen'
        rw [← hse] at h1 h2
        refine ⟨by rw [e0]; exact h1, ?_⟩
        unfold wmu
        rw [e0]
        have e2 : (deliverA w.a k j c d').d = d' := rfl
        rw [e2, procRank_congr hgp.2 hgp.1]
        omega
      cases c with
      | none =>
        refine key w.a.s hG rfl rfl ?_
        simp only [deliverA, setCode, St.apply, hk]
      | some cv =>
        have hkind := gate_code_kind _ _ _ _ _ _ _ hgate
        subst hkind
        have hkm : (TK.code, j) ∈ w.a.s.threads := List.mem_of_getElem? hk
        have hpc : (w.a.s.jobs j).pc = .codeWait := by
          have := (wreach_inv hW).sched.1.kind _ hkm
          simp only at this
          revert this
          cases (w.a.s.jobs j).pc <;> simp [kindOk]
        have hrun := (hG.e.c.d.recs j).runRunning (by rw [hpc]; rfl)
        have hsb : SameBut (w.a.s.jobs j) { (w.a.s.jobs j) with code := cv } := ⟨rfl, rfl, rfl, rfl, rfl, rfl, rfl, rfl, rfl, rfl⟩
        have hL := jlocal_code_edit (hG.e.c.a.loc j) hpc hrun cv
        refine key _ (good_edit hG hsb hL) (mu_edit hsb) rfl ?_
        simp only [deliverA, setCode, put_nil_eq, St.apply, edit_threads, hk]

/-! ### runs of the second scheduler -/

/-- a run of enabled world events (callbacks, helper-thread completions, process moves) that adopts nothing. -/
def RunW (fl : Flags) : W → List WEv → Prop
  | _, [] => True
  | w, e :: es => WEnabled w e ∧ NoAdoptAt w e ∧ RunW fl (w.apply fl e) es

theorem runW_bound {fl : Flags} (hg : fl.readyGuarded = true) (hf : fl.resubmitRegisters = true)
    (ha : fl.abortRechecks = true) (hrel : fl.abortReleases = true) {totals : List Nat} {done0 : Nat → Bool}
    (evs : List WEv) : ∀ w, WReach fl totals done0 w → Good fl w.a.s → RunW fl w evs →
      WReach fl totals done0 (W.run fl w evs) ∧ Good fl (W.run fl w evs).a.s ∧
      evs.length + wmu (W.run fl w evs) ≤ wmu w := by
  induction evs with
  | nil => intro w hW hG _; exact ⟨hW, hG, by simp [W.run]⟩
  | cons e es ih =>
    intro w hW hG hrun
    obtain ⟨hen, hna, hrest⟩ := hrun
    obtain ⟨hG', hlt⟩ := wstep hg hf ha hrel hW hG e hen hna
    obtain ⟨r1, r2, r3⟩ := ih (w.apply fl e) (hW.apply e) hG' hrest
    refine ⟨r1, r2, ?_⟩
    simp only [W.run, List.length_cons]
    omega

/-! ### the re-submission phase of a restarted scheduler that finds no live process is a run of M2 -/

/-- no pid file names a live process. -/
def NoLivePid (d : Disk) : Prop := ∀ i p, (d.dir i).pid = some p → d.alive p = false

/-- what holds while the restarted scheduler only takes submissions (no helper thread completes, no process moves):
    the disk is the one found at the restart, nothing has been adopted, no `resume` callback exists, and every
    submitted record carries the marker its directory shows. -/
structure Phase (d0 : Disk) (a : StA Disk) : Prop where
  disk : a.d = d0
  adopted : a.adopted = fun _ => false
  ctl : Restart.InvB a
  inv1 : Inv1 a.s
  nores : ∀ j, Restart.cRes a.s j = 0
  mark : ∀ j, j < a.s.n → (a.s.jobs j).marker = (d0.dir (a.s.jobs j).ident).done

theorem count_resume_append_zero {l app : List Cb} (j : Nat) (h1 : l.count (Cb.resume j) = 0)
    (h2 : app.count (Cb.resume j) = 0) : (l ++ app).count (Cb.resume j) = 0 := by
  simp [List.count_append, h1, h2]

theorem phase_stepA (fl : Flags) (d0 : Disk) (hnl : NoLivePid d0) (a : StA Disk) (h : Phase d0 a) :
    stepA fl world a = { a with s := a.s.step fl } ∧ Phase d0 (stepA fl world a) := by
  cases hr : a.s.ready with
  | nil =>
    have e : stepA fl world a = a := by unfold stepA; rw [hr]
    have e2 : a.s.step fl = a.s := by unfold St.step; rw [hr]
    rw [e, e2]; exact ⟨rfl, h⟩
  | cons cb rest =>
    have hpop := Restart.pop_inv h.ctl.1 hr
    have hstep : a.s.step fl = St.runCb fl ({ a.s with ready := rest } : St) cb := by unfold St.step; rw [hr]
    -- the callback run by the world scheduler is the M2 callback
    have heq : stepA fl world a = { a with s := a.s.step fl } := by
      rw [stepA_cons fl world a cb rest hr, hstep]
      cases cb with
      | start j =>
        have hpc := head_start_pc (s := a.s) h.inv1 hr
        have hjn : j < a.s.n := by
          apply Classical.byContradiction; intro hn
          have := (h.inv1 j).2.2.2 (by omega)
          rw [hpc] at this; simp [pcKind] at this
        have hna : (world.look a.d j (a.s.jobs j)).adopt = false := by
          simp only [world]
          rw [h.disk]
          cases hp : (d0.dir (a.s.jobs j).ident).pid with
          | none => rfl
          | some p => exact hnl _ p hp
        have hmk : (world.look a.d j (a.s.jobs j)).marker = (a.s.jobs j).marker := by
          show (a.d.dir (a.s.jobs j).ident).done = _
          rw [h.disk, h.mark j hjn]
        have hna' : (world.look a.d j (({ a.s with ready := rest } : St).jobs j)).adopt = false := hna
        simp only [runCbA, hna', Bool.false_eq_true, if_false, startJobA]
        have hmk' : (world.look a.d j (({ a.s with ready := rest } : St).jobs j)).marker =
            (({ a.s with ready := rest } : St).jobs j).marker := hmk
        rw [hmk']
        have : ({ a.s with ready := rest } : St).put j
            { (({ a.s with ready := rest } : St).jobs j) with marker := (({ a.s with ready := rest } : St).jobs j).marker }
            = ({ a.s with ready := rest } : St) := Restart.put_self _ j
        rw [this]; rfl
      | resume j =>
        exfalso
        have := h.nores j
        simp [Restart.cRes, hr] at this
      | register j => rfl
      | wake j => rfl
      | check j d => rfl
      | notifyCheck j d => rfl
      | waiterRun => rfl
    refine ⟨heq, ?_⟩
    rw [heq]
    have hctl := Restart.stepA_invB fl world a h.ctl
    rw [heq] at hctl
    refine ⟨h.disk, h.adopted, hctl, step_inv1 fl a.s h.inv1, ?_, ?_⟩
    · -- no `resume` callback is ever queued by a callback
      intro j
      have hrest : rest.count (Cb.resume j) = 0 := by
        have := h.nores j
        simp only [Restart.cRes, hr, List.count_cons] at this
        omega
      show (a.s.step fl).ready.count (Cb.resume j) = 0
      rw [hstep]
      by_cases hreg : ∃ i, cb = .register i
      · obtain ⟨i, rfl⟩ := hreg
        simp only [St.runCb]
        rw [(Restart.register_same fl _ i).2.1]; exact hrest
      · have hgl := Restart.runCbA_glob fl world ({ a with s := { a.s with ready := rest } }) cb hpop
          (fun i e => hreg ⟨i, e⟩)
        obtain ⟨app, happ, hc⟩ := hgl.ready
        have e1 : (runCbA fl world ({ a with s := { a.s with ready := rest } }) cb).s = St.runCb fl ({ a.s with ready := rest } : St) cb := by
          have := heq
          rw [stepA_cons fl world a cb rest hr, hstep] at this
          rw [this]
        rw [e1] at happ
        rw [happ]
        exact count_resume_append_zero j hrest (hc j).2
    · intro j hj
      have hM := runCb_mono fl a.s cb rest h.inv1 hr
      have hF := runCb_frame fl ({ a.s with ready := rest } : St) cb
      rw [hstep] at hj ⊢
      rw [hM.n] at hj
      by_cases hjt : j = target cb
      · subst hjt
        rw [hF.2.2.2.2.2.2.2.1, hF.2.2.2.2.2.1]
        exact h.mark _ hj
      · rw [hF.2.2.2.2.1 j hjt]; exact h.mark j hj

theorem phase_stepsA (fl : Flags) (d0 : Disk) (hnl : NoLivePid d0) (k : Nat) : ∀ (a : StA Disk), Phase d0 a →
    stepsA fl world a k = { a with s := St.steps fl a.s k } ∧ Phase d0 (stepsA fl world a k) := by
  induction k with
  | zero => intro a h; exact ⟨rfl, h⟩
  | succ k ih =>
    intro a h
    obtain ⟨e1, h1⟩ := phase_stepA fl d0 hnl a h
    obtain ⟨e2, h2⟩ := ih _ h1
    simp only [stepsA, St.steps]
    rw [e1] at e2 h2 ⊢
    exact ⟨e2, h2⟩

theorem submitPre_s (a : StA Disk) (ident : Nat) (deps : List Origin) (code : Nat) (marker : Bool) :
    (Restart.submitPre a (Restart.newJob a.s ident deps code marker)).s = SchedFinal.submitPre a.s ident deps code marker := rfl

theorem submitPost_s (a : StA Disk) (j : Nat) :
    Restart.submitPost a j = { a with s := SchedFinal.submitPost a.s j } := by
  obtain ⟨s, ad, d⟩ := a
  obtain ⟨n, jobs, eff, ntok, total, avail, tokDeps, jobDeps, registry, unfinished, failed, ready, threads, waiter, rr⟩ := s
  unfold Restart.submitPost SchedFinal.submitPost
  cases rr with
  | none => rfl
  | some o => cases o <;> rfl

/-- a submission taken by a restarted scheduler that finds no live process, with the marker its directory shows, is the
    submission of M2. -/
theorem phase_submit (fl : Flags) (d0 : Disk) (hnl : NoLivePid d0) (a : StA Disk) (h : Phase d0 a)
    (ident : Nat) (deps : List Origin) (code : Nat) (marker : Bool) (hm : marker = (d0.dir ident).done) :
    applyA fl world a (.submit ident deps code marker) = { a with s := a.s.apply fl (.submit ident deps code marker) } ∧
    Phase d0 (applyA fl world a (.submit ident deps code marker)) := by
  have hpre : Phase d0 (Restart.submitPre a (Restart.newJob a.s ident deps code marker)) := by
    refine ⟨h.disk, h.adopted, Restart.submitPre_invB a h.ctl _ ⟨rfl, rfl, rfl⟩, ?_, ?_, ?_⟩
    · rw [submitPre_s]; exact submitPre_inv1 a.s ident deps code marker h.inv1
    · intro j
      have := h.nores j
      simp only [Restart.cRes, Restart.submitPre, List.count_append] at this ⊢
      simp [this]
    · intro j hj
      have hj' : j < a.s.n + 1 := hj
      by_cases hjn : j = a.s.n
      · subst hjn
        simp only [Restart.submitPre, SchedFinal.upd_same]
        exact hm
      · simp only [Restart.submitPre, upd, hjn, if_false]
        exact h.mark j (by omega)
  obtain ⟨e2, h2⟩ := phase_stepsA fl d0 hnl (a.s.ready.length + 1) _ hpre
  have heq : applyA fl world a (.submit ident deps code marker) =
      { a with s := a.s.apply fl (.submit ident deps code marker) } := by
    simp only [applyA]
    rw [e2, submitPost_s, apply_submit]
    rfl
  refine ⟨heq, ?_⟩
  have hctl := Restart.applyA_invB fl world a (.submit ident deps code marker) h.ctl
  rw [heq] at hctl ⊢
  refine ⟨h.disk, h.adopted, hctl, apply_inv1 fl a.s _ h.inv1, ?_, ?_⟩
  · -- the queue after `submitPost`
    rw [e2] at h2
    have hn2 := h2.nores
    intro j
    show ((a.s.apply fl (.submit ident deps code marker)).ready).count (Cb.resume j) = 0
    rw [apply_submit]
    have := hn2 j
    simp only [Restart.cRes, submitPre_s] at this
    unfold SchedFinal.submitPost
    split
    · exact this
    · simp only [put_ready, List.count_append, this]; simp
  · rw [e2] at h2
    have hm2 := h2.mark
    simp only [submitPre_s] at hm2
    intro j hj
    rw [apply_submit] at hj ⊢
    rw [submitPost_n] at hj
    by_cases hjn : j = a.s.n
    · subst hjn
      have := hm2 _ hj
      unfold SchedFinal.submitPost
      split
      · exact this
      · simp only [put_jobs, SchedFinal.upd_same]; exact this
    · rw [submitPost_jobs_ne _ _ _ hjn]; exact hm2 j hj

/-! ### who owns the pid files: with distinct identifiers, a scheduler that found no live process adopts nothing -/

/-- the job set, the identifiers, and the launched jobs are kept. -/
structure SameIds (s s' : St) : Prop where
  n : s'.n = s.n
  ident : ∀ i, (s'.jobs i).ident = (s.jobs i).ident
  launched : ∀ i, (s.jobs i).launches = 1 → (s'.jobs i).launches = 1

theorem SameIds.trans {a b c : St} (h1 : SameIds a b) (h2 : SameIds b c) : SameIds a c :=
  ⟨h2.n.trans h1.n, fun i => (h2.ident i).trans (h1.ident i), fun i h => h2.launched i (h1.launched i h)⟩

theorem sameIds_edit {s : St} {j : Nat} {jb' : Job} (h : SameBut (s.jobs j) jb') : SameIds s (edit s j jb') := by
  have hall := edit_sameBut_all (s := s) (j := j) (jb' := jb') h
  exact ⟨rfl, fun i => (hall i).ident, fun i hl => by rw [(hall i).launches]; exact hl⟩

theorem resume_launches_late (fl : Flags) (s : St) (j : Nat)
    (h : (s.jobs j).pc = .lockExitRun ∨ (s.jobs j).pc = .codeWait ∨ (s.jobs j).pc = .doneHandler) :
    ((s.resume fl j).jobs j).launches = (s.jobs j).launches := by
  rcases h with hp | hp | hp
  · simp only [St.resume, hp]; simp [jobs_put]
  · have hb := releaseAll_bg j (s.jobs j).held s
    have e : s.resume fl j =
        (let s1 := s.releaseAll j (s.jobs j).held
         (s1.put j { (s1.jobs j) with state := if (s1.jobs j).code = 0 then .done else .error }).finish j) := by
      simp only [St.resume, hp]
    rw [e]
    simp only []
    have h1 := (view_fields (hb.view j)).2.1
    generalize s.releaseAll j (s.jobs j).held = s1 at *
    have hv := congrArg View.launches
      (view_finish (s1.put j { (s1.jobs j) with state := if (s1.jobs j).code = 0 then .done else .error }) j j)
    simp only [view, if_true, jobs_put] at hv
    rw [hv, h1]
  · simp only [St.resume, hp]
    split <;> simp [jobs_put]

/-- a callback of M2 keeps the job set, the identifiers and the launched jobs. -/
theorem sameIds_runCb (fl : Flags) (s : St) (cb : Cb) (rest : List Cb) (hI : Inv1 s) (hJ : JL s)
    (hr : s.ready = cb :: rest) : SameIds s (({ s with ready := rest } : St).runCb fl cb) := by
  have hF := runCb_frame fl ({ s with ready := rest } : St) cb
  obtain ⟨fn, _, _, _, fj, fc⟩ := hF
  refine ⟨fn, ?_, ?_⟩
  · intro i
    by_cases hi : i = target cb
    · subst hi; exact fc.1
    · rw [fj i hi]
  · intro i hl
    by_cases hi : i = target cb
    · subst hi
      have hearly : pcEarly (s.jobs (target cb)).pc = true → False := by
        intro he
        have := (hJ (target cb)).2.2.1 he
        omega
      by_cases hc : Restart.plainCb cb = true
      · have hv := (runCb_plain_frame fl cb hc ({ s with ready := rest } : St) (target cb)).1
        rw [(view_fields hv).2.1]; exact hl
      · cases cb with
        | start j => exact absurd (by rw [show target (Cb.start j) = j from rfl, head_start_pc hI hr]; rfl) hearly
        | wake j => exact absurd (by rw [show target (Cb.wake j) = j from rfl, head_wake_pc hI hr]; rfl) hearly
        | resume j =>
          have hk := head_resume_kind hI hr
          have hl' : (s.jobs j).launches = 1 := hl
          have hearly' : pcEarly (s.jobs j).pc = true → False := hearly
          show ((({ s with ready := rest } : St).resume fl j).jobs j).launches = 1
          rw [resume_launches_late fl _ j ?_]
          · exact hl'
          · show (s.jobs j).pc = .lockExitRun ∨ (s.jobs j).pc = .codeWait ∨ (s.jobs j).pc = .doneHandler
            revert hk hearly'
            cases (s.jobs j).pc <;> simp [pcKind, pcEarly]
        | register j => simp [Restart.plainCb] at hc
        | check j d => simp [Restart.plainCb] at hc
        | notifyCheck j d => simp [Restart.plainCb] at hc
        | waiterRun => simp [Restart.plainCb] at hc
    · rw [fj i hi]; exact hl

/-- every pid file that names a live process belongs to a job this scheduler has launched. -/
def PidOwn (s : St) (d : Disk) : Prop :=
  ∀ i p, (d.dir i).pid = some p → d.alive p = true →
    ∃ j, j < s.n ∧ (s.jobs j).ident = i ∧ (s.jobs j).launches = 1

/-- the submitted jobs have pairwise distinct identifiers. -/
def UniqId (s : St) : Prop := ∀ j j', j < s.n → j' < s.n → (s.jobs j).ident = (s.jobs j').ident → j = j'

theorem uniqId_same {s s' : St} (h : SameIds s s') (hu : UniqId s) : UniqId s' := by
  intro j j' hj hj' he
  rw [h.n] at hj hj'
  rw [h.ident, h.ident] at he
  exact hu j j' hj hj' he

theorem pidOwn_same {s s' : St} {d d' : Disk} (h : SameIds s s') (ho : PidOwn s d)
    (hd : ∀ i p, (d'.dir i).pid = some p → d'.alive p = true → (d.dir i).pid = some p ∧ d.alive p = true) :
    PidOwn s' d' := by
  intro i p hp ha
  obtain ⟨h1, h2⟩ := hd i p hp ha
  obtain ⟨j, hj, hi, hl⟩ := ho i p h1 h2
  exact ⟨j, by rw [h.n]; exact hj, by rw [h.ident]; exact hi, h.launched j hl⟩

/-- with distinct identifiers and owned pid files, the first segment of a job finds no live process. -/
theorem noAdopt_of_own {fl : Flags} {a : StA Disk} (hG : Good fl a.s) (ho : PidOwn a.s a.d) (hu : UniqId a.s)
    (j : Nat) (rest : List Cb) (hr : a.s.ready = .start j :: rest) :
    (world.look a.d j (a.s.jobs j)).adopt = false := by
  have hpc := head_start_pc (s := a.s) hG.e.c.a.ctl hr
  have hl0 : (a.s.jobs j).launches = 0 := (hG.e.c.a.loc j).2.2.1 (by rw [hpc]; rfl)
  have hjn : j < a.s.n := by
    apply Classical.byContradiction; intro hn
    have := hG.e.c.a.blank j (by omega)
    rw [hpc] at this; cases this
  show (match (a.d.dir (a.s.jobs j).ident).pid with | some p => a.d.alive p | none => false) = false
  cases hpid : (a.d.dir (a.s.jobs j).ident).pid with
  | none => rfl
  | some p =>
    show a.d.alive p = false
    cases hal : a.d.alive p with
    | false => rfl
    | true =>
      obtain ⟨j', hj', hi', hl'⟩ := ho _ p hpid hal
      have := hu j' j hj' hjn hi'
      subst this
      omega

end XpmVerif.RestartTerm
