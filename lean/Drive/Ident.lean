import XpmVerif.Basic.JsonUtil
import XpmVerif.Basic.Sha256
import XpmVerif.Model.IdentImpl
import XpmVerif.Model.Deps
import XpmVerif.Generated.HashFlags
/-! Line-protocol driver for M1 (identifiers, sealing): C01 C02 C03 C14 C20. -/
open Lean XpmVerif XpmVerif.J XpmVerif.Ident

def hexVal (c : Char) : Nat :=
  if c.isDigit then c.toNat - '0'.toNat else if 'a' ≤ c ∧ c ≤ 'f' then c.toNat - 'a'.toNat + 10 else c.toNat - 'A'.toNat + 10
def unhex (s : String) : List Nat :=
  let rec go : List Char → List Nat
    | a :: b :: r => (hexVal a * 16 + hexVal b) :: go r
    | _ => []
  go s.toList
def hexOf (l : List Nat) : String :=
  let d := "0123456789abcdef".toList.toArray
  l.foldl (fun s x => (s.push d[x / 16]!).push d[x % 16]!) ""

partial def valOf (j : Json) : Val :=
  if isNull j then .none else
  match j.getObjVal? "b" with
  | .ok b => .bool (J.bool b)
  | _ =>
  match j.getObjVal? "i" with
  | .ok i => .int ((J.str i).toInt?.getD 0)
  | _ =>
  match j.getObjVal? "f" with
  | .ok f => .float ((unhex (J.str f)).foldl (fun a b => a * 256 + b) 0)
  | _ =>
  match j.getObjVal? "s" with
  | .ok s => .str (unhex (J.str s))
  | _ =>
  match j.getObjVal? "e" with
  | .ok s => .enum (unhex (J.str s))
  | _ =>
  match j.getObjVal? "p" with
  | .ok s => .path (unhex (J.str s))
  | _ =>
  match j.getObjVal? "l" with
  | .ok l => .list ((arr l).map valOf)
  | _ =>
  match j.getObjVal? "d" with
  | .ok d => .dict ((arr d).map (fun kv => unhex (J.str ((arr kv).getD 0 Json.null)))) ((arr d).map (fun kv => valOf ((arr kv).getD 1 Json.null)))
  | _ =>
  match j.getObjVal? "r" with
  | .ok r => .ref (nat r)
  | _ => .none

def argOf (j : Json) : Arg :=
  { name := unhex (strF j "name"), ignored := boolF j "ignored", generator := boolF j "generator",
    constant := boolF j "constant", required := boolF j "required",
    default := (if isNull (fld j "default") then none else some (valOf (fld j "default"))),
    value := valOf (fld j "value") }

def optBool (j : Json) : Option Bool := if isNull j then none else some (J.bool j)

def nodeOf (j : Json) : Node :=
  { typeId := unhex (strF j "typeId"), args := (arrF j "args").map argOf, task := optNat (fld j "task"),
    mflag := optBool (fld j "meta"), sealed := boolF j "sealed",
    preTasks := (arrF j "pre").map nat, initTasks := (arrF j "init").map nat }

abbrev D := List Nat
def hc : HC D := { H := Sha256.hashBytes, emb := id, le := bytesLe }

def okJ : Json := Json.mkObj [("ok", true)]

def stepJ (s : St D) (j : Json) : St D × Json :=
  let run (op : Op) : St D × Json :=
    let (s', out) := step hc Gen.loopFlagStored s op
    (s', match out with
      | .ok => okJ
      | .id d => Json.mkObj [("id", hexOf d)]
      | .sealedError => Json.mkObj [("err", "sealed")])
  match strF j "op" with
  | "graph" => ({ g := { nodes := (arrF j "nodes").map nodeOf }, c := Caches.empty }, okJ)
  | "seal" => run (.sealOp (natF j "n"))
  | "raw" => run (.reqRaw (natF j "n"))
  | "full" => run (.reqFull (natF j "n"))
  | "set" => run (.set (natF j "n") (unhex (strF j "name")) (valOf (fld j "v")))
  | "setmeta" => run (.setMeta (natF j "n") (optBool (fld j "b")))
  | "addpre" => run (.addPretask (natF j "n") (natF j "p"))
  | "spec" =>   -- cache-free specification of the full identifier
    (s, Json.mkObj [("id", hexOf (fullId hc s.g (natF j "n")))])
  | "deps" =>   -- dependencies collected when node n is submitted (its own `task` field is still unset)
    let n := natF j "n"
    let g' := setNode s.g n (fun nd => { nd with task := none })
    let explicit := (arrF j "explicit").map nat
    let loaded := (arrF j "loaded").map nat      -- nodes obtained by deserialisation (`__xpm__.loaded`)
    let all := (collectDeps g' (fun k => loaded.contains k) n ++ explicit).eraseDups
    (s, Json.mkObj [("deps", Json.arr ((all.toArray.qsort (· < ·)).map (fun (k : Nat) => (k : Json))))])
  | "sealed" => (s, Json.mkObj [("sealed", Json.arr ((s.g.nodes.map (fun nd => (nd.sealed : Json))).toArray))])
  | op => (s, Json.mkObj [("error", Json.str s!"bad-op {op}")])

def main : IO Unit := J.loop stepJ { g := { nodes := [] }, c := Caches.empty }
