import XpmVerif.Model.Serial
/-! Correctness of the fuelled depth-first walk `dfs` / `dfsList` of `Model/Serial.lean` when the
    fuel is sufficient (`unseen size seen < fuel`, in particular `fuel = size + 1`). -/
namespace XpmVerif.Serial

/-- reflexive-transitive closure of "m ∈ succ n" -/
inductive Reach (succ : Nat → List Nat) : Nat → Nat → Prop
  | refl (n : Nat) : Reach succ n n
  | step {a b c : Nat} : b ∈ succ a → Reach succ b c → Reach succ a c

/-- number of nodes `< size` not yet in `seen` -/
def unseen (size : Nat) (seen : List Nat) : Nat :=
  ((List.range size).filter (fun x => !seen.contains x)).length

/-! ### the measure -/

theorem filter_length_mono (p q : Nat → Bool) (l : List Nat) (h : ∀ x, p x = true → q x = true) :
    (l.filter p).length ≤ (l.filter q).length := by
  induction l with
  | nil => simp
  | cons a l ih =>
    simp only [List.filter_cons]
    by_cases hp : p a = true
    · have hq := h a hp
      simp [hp, hq]; exact ih
    · by_cases hq : q a = true
      · simp [hp, hq]; omega
      · simp [hp, hq]; exact ih

theorem filter_length_lt (p q : Nat → Bool) (l : List Nat) (h : ∀ x, p x = true → q x = true)
    (n : Nat) (hn : n ∈ l) (hq : q n = true) (hp : ¬ p n = true) :
    (l.filter p).length < (l.filter q).length := by
  induction l with
  | nil => simp at hn
  | cons a l ih =>
    have hm := filter_length_mono p q l h
    simp only [List.filter_cons]
    rcases List.mem_cons.1 hn with rfl | hn'
    · simp [hp, hq]; omega
    · have := ih hn'
      by_cases hpa : p a = true
      · have hqa := h a hpa
        simp [hpa, hqa]; exact this
      · by_cases hqa : q a = true
        · simp [hpa, hqa]; omega
        · simp [hpa, hqa]; exact this

/-- `size + 1` is always enough fuel -/
theorem unseen_le (size : Nat) (seen : List Nat) : unseen size seen ≤ size := by
  unfold unseen
  have := List.length_filter_le (fun x => !seen.contains x) (List.range size)
  simpa using this

theorem unseen_mono (size : Nat) (seen seen' : List Nat) (h : ∀ x, x ∈ seen → x ∈ seen') :
    unseen size seen' ≤ unseen size seen := by
  unfold unseen
  apply filter_length_mono
  intro x hx
  simp only [Bool.not_eq_true', List.contains_eq_mem, decide_eq_false_iff_not] at hx ⊢
  exact fun hc => hx (h x hc)

theorem unseen_cons_lt (size : Nat) (seen : List Nat) (n : Nat) (hn : n < size) (hns : n ∉ seen) :
    unseen size (n :: seen) < unseen size seen := by
  unfold unseen
  apply filter_length_lt _ _ _ _ n
  · simpa using hn
  · simpa using hns
  · simp
  · intro x hx
    simp only [Bool.not_eq_true', List.contains_eq_mem, decide_eq_false_iff_not, List.mem_cons,
      not_or] at hx ⊢
    exact hx.2

/-! ### enters / exits of concatenations -/

theorem entersOf_append (a b : List TEv) : entersOf (a ++ b) = entersOf a ++ entersOf b := by
  induction a with
  | nil => rfl
  | cons e a ih => cases e <;> simp [entersOf, ih]

theorem exitsOf_append (a b : List TEv) : exitsOf (a ++ b) = exitsOf a ++ exitsOf b := by
  induction a with
  | nil => rfl
  | cons e a ih => cases e <;> simp [exitsOf, ih]

theorem entersOf_wrap (n : Nat) (mid : List TEv) :
    entersOf (TEv.enter n :: mid ++ [TEv.exit n]) = n :: entersOf mid := by
  simp [entersOf, entersOf_append]

theorem exitsOf_wrap (n : Nat) (mid : List TEv) :
    exitsOf (TEv.enter n :: mid ++ [TEv.exit n]) = exitsOf mid ++ [n] := by
  simp [exitsOf, exitsOf_append]

/-! ### the specification and its composition rules -/

/-- what a walk from `roots` that started with visited list `seen` and produced the events `new`
    and the visited list `seen'` guarantees -/
structure DfsOk (succ : Nat → List Nat) (roots : List Nat) (seen : List Nat) (new : List TEv)
    (seen' : List Nat) : Prop where
  seen_iff : ∀ x, x ∈ seen' ↔ x ∈ seen ∨ x ∈ entersOf new
  nodup : (entersOf new).Nodup
  fresh : ∀ x ∈ entersOf new, x ∉ seen
  exits_perm : (exitsOf new).Perm (entersOf new)
  roots_in : ∀ r ∈ roots, r ∈ seen'
  closed : ∀ x ∈ entersOf new, ∀ m ∈ succ x, m ∈ seen'
  reach : ∀ x ∈ entersOf new, ∃ r ∈ roots, Reach succ r x
  nested : ∀ x ∈ entersOf new, ∃ a b c, new = a ++ (TEv.enter x :: (b ++ (TEv.exit x :: c)))
  /-- post-order: a successor of a visited node was visited before the walk, or is left before the node is
      left, or is an ancestor of the node on the stack (then it reaches the node: a cycle) -/
  post : ∀ x ∈ entersOf new, ∀ m ∈ succ x,
    m ∈ seen ∨ Reach succ m x ∨ ∃ p q, exitsOf new = p ++ x :: q ∧ m ∈ p

/-- `nested` in the shape Lean gives to the unparenthesised `a ++ enter x :: b ++ exit x :: c`,
    i.e. `(a ++ enter x :: b) ++ exit x :: c` (the same list) -/
theorem DfsOk.nested_left {succ roots seen new seen'} (h : DfsOk succ roots seen new seen') :
    ∀ x ∈ entersOf new, ∃ a b c, new = a ++ TEv.enter x :: b ++ TEv.exit x :: c := by
  intro x hx
  obtain ⟨a, b, c, e⟩ := h.nested x hx
  exact ⟨a, b, c, by rw [e]; simp⟩

theorem DfsOk.seen_sub {succ roots seen new seen'} (h : DfsOk succ roots seen new seen') :
    ∀ x, x ∈ seen → x ∈ seen' := fun x hx => (h.seen_iff x).2 (Or.inl hx)

theorem DfsOk.nil (succ : Nat → List Nat) (seen : List Nat) : DfsOk succ [] seen [] seen where
  seen_iff := by simp [entersOf]
  nodup := by simp [entersOf]
  fresh := by simp [entersOf]
  exits_perm := by simp [entersOf, exitsOf]
  roots_in := by simp
  closed := by simp [entersOf]
  reach := by simp [entersOf]
  nested := by simp [entersOf]
  post := by simp [entersOf]

/-- a root that is already visited: nothing happens -/
theorem DfsOk.skip (succ : Nat → List Nat) (seen : List Nat) (n : Nat) (hn : n ∈ seen) :
    DfsOk succ [n] seen [] seen where
  seen_iff := by simp [entersOf]
  nodup := by simp [entersOf]
  fresh := by simp [entersOf]
  exits_perm := by simp [entersOf, exitsOf]
  roots_in := by simpa using hn
  closed := by simp [entersOf]
  reach := by simp [entersOf]
  nested := by simp [entersOf]
  post := by simp [entersOf]

/-- sequential composition of two walks -/
theorem DfsOk.append {succ : Nat → List Nat} {r1 r2 seen seen1 seen2 : List Nat} {new1 new2 : List TEv}
    (h1 : DfsOk succ r1 seen new1 seen1) (h2 : DfsOk succ r2 seen1 new2 seen2) :
    DfsOk succ (r1 ++ r2) seen (new1 ++ new2) seen2 where
  seen_iff := by
    intro x
    rw [h2.seen_iff, h1.seen_iff, entersOf_append, List.mem_append, or_assoc]
  nodup := by
    rw [entersOf_append, List.nodup_append]
    refine ⟨h1.nodup, h2.nodup, ?_⟩
    intro a ha b hb hab
    subst hab
    exact h2.fresh a hb ((h1.seen_iff a).2 (Or.inr ha))
  fresh := by
    intro x hx
    rw [entersOf_append, List.mem_append] at hx
    rcases hx with hx | hx
    · exact h1.fresh x hx
    · exact fun hc => h2.fresh x hx (h1.seen_sub x hc)
  exits_perm := by
    rw [entersOf_append, exitsOf_append]
    exact h1.exits_perm.append h2.exits_perm
  roots_in := by
    intro r hr
    rcases List.mem_append.1 hr with hr | hr
    · exact h2.seen_sub r (h1.roots_in r hr)
    · exact h2.roots_in r hr
  closed := by
    intro x hx m hm
    rw [entersOf_append, List.mem_append] at hx
    rcases hx with hx | hx
    · exact h2.seen_sub m (h1.closed x hx m hm)
    · exact h2.closed x hx m hm
  reach := by
    intro x hx
    rw [entersOf_append, List.mem_append] at hx
    rcases hx with hx | hx
    · obtain ⟨r, hr, hreach⟩ := h1.reach x hx
      exact ⟨r, List.mem_append.2 (Or.inl hr), hreach⟩
    · obtain ⟨r, hr, hreach⟩ := h2.reach x hx
      exact ⟨r, List.mem_append.2 (Or.inr hr), hreach⟩
  nested := by
    intro x hx
    rw [entersOf_append, List.mem_append] at hx
    rcases hx with hx | hx
    · obtain ⟨a, b, c, e⟩ := h1.nested x hx
      exact ⟨a, b, c ++ new2, by rw [e]; simp⟩
    · obtain ⟨a, b, c, e⟩ := h2.nested x hx
      exact ⟨new1 ++ a, b, c, by rw [e]; simp⟩
  post := by
    intro x hx m hm
    rw [entersOf_append, List.mem_append] at hx
    rw [exitsOf_append]
    rcases hx with hx | hx
    · rcases h1.post x hx m hm with h | h | ⟨p, q, e, hp⟩
      · exact Or.inl h
      · exact Or.inr (Or.inl h)
      · exact Or.inr (Or.inr ⟨p, q ++ exitsOf new2, by rw [e]; simp, hp⟩)
    · rcases h2.post x hx m hm with h | h | ⟨p, q, e, hp⟩
      · rcases (h1.seen_iff m).1 h with h | h
        · exact Or.inl h
        · have hx' : x ∈ exitsOf new2 := h2.exits_perm.mem_iff.2 hx
          obtain ⟨p, q, e⟩ := List.append_of_mem hx'
          exact Or.inr (Or.inr ⟨exitsOf new1 ++ p, q, by rw [e]; simp,
            List.mem_append_left _ (h1.exits_perm.mem_iff.2 h)⟩)
      · exact Or.inr (Or.inl h)
      · exact Or.inr (Or.inr ⟨exitsOf new1 ++ p, q, by rw [e]; simp, List.mem_append_right _ hp⟩)

/-- a fresh node around the walk of its successors -/
theorem DfsOk.wrap {succ : Nat → List Nat} {seen seen' : List Nat} {mid : List TEv} {n : Nat}
    (hns : n ∉ seen) (h : DfsOk succ (succ n) (n :: seen) mid seen') :
    DfsOk succ [n] seen (TEv.enter n :: mid ++ [TEv.exit n]) seen' where
  seen_iff := by
    intro x
    rw [h.seen_iff, entersOf_wrap]
    simp only [List.mem_cons]
    constructor
    · rintro ((h | h) | h)
      · exact Or.inr (Or.inl h)
      · exact Or.inl h
      · exact Or.inr (Or.inr h)
    · rintro (h | h | h)
      · exact Or.inl (Or.inr h)
      · exact Or.inl (Or.inl h)
      · exact Or.inr h
  nodup := by
    rw [entersOf_wrap, List.nodup_cons]
    exact ⟨fun hc => h.fresh n hc (List.mem_cons_self), h.nodup⟩
  fresh := by
    intro x hx
    rw [entersOf_wrap, List.mem_cons] at hx
    rcases hx with rfl | hx
    · exact hns
    · exact fun hc => h.fresh x hx (List.mem_cons_of_mem _ hc)
  exits_perm := by
    rw [entersOf_wrap, exitsOf_wrap]
    exact (List.perm_append_comm).trans (List.Perm.cons n h.exits_perm)
  roots_in := by
    intro r hr
    rw [List.mem_singleton] at hr
    subst hr
    exact h.seen_sub r List.mem_cons_self
  closed := by
    intro x hx m hm
    rw [entersOf_wrap, List.mem_cons] at hx
    rcases hx with rfl | hx
    · exact h.roots_in m hm
    · exact h.closed x hx m hm
  reach := by
    intro x hx
    rw [entersOf_wrap, List.mem_cons] at hx
    refine ⟨n, List.mem_singleton.2 rfl, ?_⟩
    rcases hx with rfl | hx
    · exact Reach.refl _
    · obtain ⟨r, hr, hreach⟩ := h.reach x hx
      exact Reach.step hr hreach
  nested := by
    intro x hx
    rw [entersOf_wrap, List.mem_cons] at hx
    rcases hx with rfl | hx
    · exact ⟨[], mid, [], by simp⟩
    · obtain ⟨a, b, c, e⟩ := h.nested x hx
      exact ⟨TEv.enter n :: a, b, c ++ [TEv.exit n], by rw [e]; simp⟩
  post := by
    intro x hx m hm
    rw [entersOf_wrap, List.mem_cons] at hx
    rw [exitsOf_wrap]
    rcases hx with rfl | hx
    · rcases (h.seen_iff m).1 (h.roots_in m hm) with h' | h'
      · rcases List.mem_cons.1 h' with rfl | h'
        · exact Or.inr (Or.inl (Reach.refl _))
        · exact Or.inl h'
      · exact Or.inr (Or.inr ⟨exitsOf mid, [], rfl, h.exits_perm.mem_iff.2 h'⟩)
    · rcases h.post x hx m hm with h' | h' | ⟨p, q, e, hp⟩
      · rcases List.mem_cons.1 h' with rfl | h'
        · obtain ⟨r, hr, hreach⟩ := h.reach x hx
          exact Or.inr (Or.inl (Reach.step hr hreach))
        · exact Or.inl h'
      · exact Or.inr (Or.inl h')
      · exact Or.inr (Or.inr ⟨p, q ++ [n], by rw [e]; simp, hp⟩)

/-! ### the walk -/

theorem dfs_succ_eq (succ : Nat → List Nat) (fuel n : Nat) (st : List TEv × List Nat) :
    dfs succ (fuel + 1) n st =
      if st.2.contains n then st else
        (((succ n).foldl (fun s m => dfs succ fuel m s) (st.1 ++ [.enter n], n :: st.2)).1 ++ [.exit n],
         ((succ n).foldl (fun s m => dfs succ fuel m s) (st.1 ++ [.enter n], n :: st.2)).2) := rfl

/-- statement proved by induction on the fuel -/
def StepOk (succ : Nat → List Nat) (size fuel : Nat) : Prop :=
  ∀ (n : Nat) (tr : List TEv) (seen : List Nat), n < size → unseen size seen < fuel →
    ∃ new seen', dfs succ fuel n (tr, seen) = (tr ++ new, seen') ∧ DfsOk succ [n] seen new seen' ∧
      (n ∉ seen → ∃ mid, new = TEv.enter n :: mid ++ [TEv.exit n])

/-- the fold over a list of roots, given the statement for single roots -/
theorem dfsList_of_step (succ : Nat → List Nat) (size fuel : Nat) (hstep : StepOk succ size fuel)
    (roots : List Nat) (tr : List TEv) (seen : List Nat) (hr : ∀ r ∈ roots, r < size)
    (hfuel : unseen size seen < fuel) :
    ∃ new seen', dfsList succ fuel roots (tr, seen) = (tr ++ new, seen') ∧
      DfsOk succ roots seen new seen' := by
  induction roots generalizing tr seen with
  | nil => exact ⟨[], seen, by simp [dfsList], DfsOk.nil succ seen⟩
  | cons m l ih =>
    obtain ⟨new1, seen1, e1, ok1, _⟩ := hstep m tr seen (hr m List.mem_cons_self) hfuel
    have hf1 : unseen size seen1 < fuel :=
      Nat.lt_of_le_of_lt (unseen_mono size seen seen1 ok1.seen_sub) hfuel
    obtain ⟨new2, seen2, e2, ok2⟩ :=
      ih (tr ++ new1) seen1 (fun r h => hr r (List.mem_cons_of_mem _ h)) hf1
    refine ⟨new1 ++ new2, seen2, ?_, ?_⟩
    · simp only [dfsList, List.foldl_cons] at e2 ⊢
      rw [e1, e2, List.append_assoc]
    · exact DfsOk.append (r1 := [m]) ok1 ok2

theorem stepOk (succ : Nat → List Nat) (size : Nat)
    (hwf : ∀ n, n < size → ∀ m ∈ succ n, m < size) (fuel : Nat) : StepOk succ size fuel := by
  induction fuel with
  | zero => intro n tr seen _ hf; omega
  | succ fuel ih =>
    intro n tr seen hn hf
    rw [dfs_succ_eq]
    by_cases hs : n ∈ seen
    · refine ⟨[], seen, ?_, DfsOk.skip succ seen n hs, fun h => absurd hs h⟩
      simp [hs]
    · have hf' : unseen size (n :: seen) < fuel := by
        have := unseen_cons_lt size seen n hn hs
        omega
      obtain ⟨mid, seen', e, ok⟩ :=
        dfsList_of_step succ size fuel ih (succ n) (tr ++ [TEv.enter n]) (n :: seen) (hwf n hn) hf'
      simp only [dfsList] at e
      refine ⟨TEv.enter n :: mid ++ [TEv.exit n], seen', ?_, DfsOk.wrap hs ok, fun _ => ⟨mid, rfl⟩⟩
      simp [hs, e]

theorem dfs_ok (succ : Nat → List Nat) (size : Nat)
    (hwf : ∀ n, n < size → ∀ m ∈ succ n, m < size)
    (fuel n : Nat) (tr : List TEv) (seen : List Nat) (hn : n < size) (hfuel : unseen size seen < fuel) :
    ∃ new seen', dfs succ fuel n (tr, seen) = (tr ++ new, seen') ∧ DfsOk succ [n] seen new seen' := by
  obtain ⟨new, seen', e, ok, _⟩ := stepOk succ size hwf fuel n tr seen hn hfuel
  exact ⟨new, seen', e, ok⟩

/-- a root that was not visited before is entered first and exited last -/
theorem dfs_root_last (succ : Nat → List Nat) (size : Nat)
    (hwf : ∀ n, n < size → ∀ m ∈ succ n, m < size)
    (fuel n : Nat) (tr : List TEv) (seen : List Nat) (hn : n < size) (hfuel : unseen size seen < fuel)
    (hns : n ∉ seen) :
    ∃ mid seen', dfs succ fuel n (tr, seen) = (tr ++ (TEv.enter n :: mid ++ [TEv.exit n]), seen') := by
  obtain ⟨new, seen', e, _, h⟩ := stepOk succ size hwf fuel n tr seen hn hfuel
  obtain ⟨mid, rfl⟩ := h hns
  exact ⟨mid, seen', e⟩

/-- both facts at once: the walk of a fresh root is `enter n :: mid ++ [exit n]` and satisfies `DfsOk` -/
theorem dfs_ok_root (succ : Nat → List Nat) (size : Nat)
    (hwf : ∀ n, n < size → ∀ m ∈ succ n, m < size)
    (fuel n : Nat) (tr : List TEv) (seen : List Nat) (hn : n < size) (hfuel : unseen size seen < fuel)
    (hns : n ∉ seen) :
    ∃ mid seen', dfs succ fuel n (tr, seen) = (tr ++ (TEv.enter n :: mid ++ [TEv.exit n]), seen') ∧
      DfsOk succ [n] seen (TEv.enter n :: mid ++ [TEv.exit n]) seen' := by
  obtain ⟨new, seen', e, ok, h⟩ := stepOk succ size hwf fuel n tr seen hn hfuel
  obtain ⟨mid, rfl⟩ := h hns
  exact ⟨mid, seen', e, ok⟩

theorem dfsList_ok (succ : Nat → List Nat) (size : Nat)
    (hwf : ∀ n, n < size → ∀ m ∈ succ n, m < size)
    (fuel : Nat) (roots : List Nat) (tr : List TEv) (seen : List Nat) (hr : ∀ r ∈ roots, r < size)
    (hfuel : unseen size seen < fuel) :
    ∃ new seen', dfsList succ fuel roots (tr, seen) = (tr ++ new, seen') ∧
      DfsOk succ roots seen new seen' :=
  dfsList_of_step succ size fuel (stepOk succ size hwf fuel) roots tr seen hr hfuel

end XpmVerif.Serial
