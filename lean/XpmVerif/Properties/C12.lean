import XpmVerif.Proofs.SerialValues
import XpmVerif.Proofs.SerialGen2
import XpmVerif.Proofs.SerialData
import XpmVerif.Generated.SerialFlags
import XpmVerif.Generated.SerialKeys
/-! C12 — saving and loading a configuration graph loses nothing.

    Model: Model/Serial.lean (M5) — `serialize` (`__get_objects__`: post-order walk with the
    `serialized` set, fields through `_outputjsonvalue`), `load` (`load_objects` in two passes with
    `_objectFromParameters`), `fromParameters`, `stateDict`/`fromStateDict`; identifiers: M1
    (`fullId`, Model/Ident.lean).  `Flags` says what the *current source* does with the meta flag and
    the init tasks; `Gen.serialFlags` is regenerated from `core/objects.py` on every run and is what
    the driver of the correspondence check uses, so every theorem below is stated for an arbitrary
    `fl` and applies to the source through `fl := Gen.serialFlags`.

    Object identity: a definition carries the `id` of its object and `load_objects` keeps a dictionary
    from these ids to the new objects; the model keeps the ids (node indices).  "Isomorphic" therefore
    reads: the loaded objects are keyed by exactly the ids of the needed configurations, without
    repetition (the correspondence old ↦ new is a bijection), and the object at id `n` has the class
    and the state of configuration `n`, every reference being the same id (same sharing, same cycles). -/
namespace XpmVerif.C12
open XpmVerif.Ident XpmVerif.Serial

/-- **Loading back what was written yields an isomorphic graph** (first sentence of C12) — for
    `__json__`/`fromParameters` (`roots = [root]`) as well as the `objects` of `state_dict`/`save`.
    For every well-formed graph and every set of roots, loading the definition list succeeds; the
    loaded objects are exactly the configurations reachable from the roots (values, task link,
    pre-tasks, init tasks), each once; the object of `n` has the class of `n`, the same type, the same
    value for *every* argument (ignored ones included; references are the same ids, so sharing and
    cycles are preserved), the same task link and pre-tasks; its meta flag and init tasks are what the
    source restores (`reloadNode`: see `load_serialize_exact` for when this is the identity).
    Hypotheses (`NodeOk`): the class of each needed node is in the library with the node's
    declarations, argument names are distinct, required arguments have no default (both enforced by
    `Argument.__init__`).  Dictionaries with a key `"type"` are included: they are written wrapped
    (`dict_type_key_round_trip`; finding F9, fixed by 738540e, see `dict_type_key_witness` for the behaviour before). -/
theorem load_serialize_iso (fl : Flags) (lib : List Cls) (sg : SGraph) (roots : List Nat)
    (hwf : WF sg.g) (hr : ∀ r ∈ roots, r < sg.g.size)
    (hok : ∀ n, Needed sg.g roots n → NodeOk lib sg n) :
    ∃ L, load fl lib (serialize fl lib sg roots) = .ok L ∧
      (L.map (·.1)).Nodup ∧
      (∀ n, n ∈ L.map (·.1) ↔ Needed sg.g roots n) ∧
      ∀ n, Needed sg.g roots n →
        lookupObj n L = some { cname := sg.cls n, node := reloadNode fl (sg.g.node n) } := by
  obtain ⟨L, hl, hm, hn⟩ := load_serialize fl lib sg roots hwf hr hok
  obtain ⟨hnd, hiff, _, _⟩ := serialOrder_spec sg.g roots hwf hr
  refine ⟨L, hl, hm ▸ hnd, fun n => by rw [hm]; exact hiff n, fun n h => hn n ((hiff n).2 h)⟩

/-- **… nothing is lost**: when the source writes and restores every meta flag (or no needed
    configuration is flagged `meta = False`: F8) and restores init tasks (or none is attached: F20),
    the loaded object differs from the original configuration by the `sealed` flag only. -/
theorem load_serialize_exact (fl : Flags) (lib : List Cls) (sg : SGraph) (roots : List Nat)
    (hwf : WF sg.g) (hr : ∀ r ∈ roots, r < sg.g.size)
    (hok : ∀ n, Needed sg.g roots n → NodeOk lib sg n)
    (hm : (fl.metaWriteAll = true ∧ fl.metaReadAll = true) ∨ ∀ n, Needed sg.g roots n → (sg.g.node n).mflag ≠ some false)
    (hi : fl.initRestored = true ∨ ∀ n, Needed sg.g roots n → (sg.g.node n).initTasks = []) :
    ∃ L, load fl lib (serialize fl lib sg roots) = .ok L ∧
      ∀ n, Needed sg.g roots n →
        ∃ o, lookupObj n L = some o ∧ o.cname = sg.cls n ∧ NodeSame (sg.g.node n) o.node ∧ o.node.sealed = true := by
  obtain ⟨L, hl, _, _, hn⟩ := load_serialize_iso fl lib sg roots hwf hr hok
  refine ⟨L, hl, fun n h => ⟨_, hn n h, rfl, ?_, rfl⟩⟩
  exact reloadNode_same fl _ (hm.imp id (fun f => f n h)) (hi.imp id (fun f => f n h))

/-- **Identifiers equal to the originals when recomputed** (with M1): `fromParameters` on the
    definition list of `root` returns the object of `root`, and the full identifier computed on the
    loaded graph is the original one — for every hash function.
    `DefaultsNeeded sg.g [root]` (Proofs/SerialLoad.lean): the configurations occurring in the declared defaults
    of the needed configurations are themselves written.  It is vacuous when no declared default contains a
    configuration object (`DefaultsNeeded.of_no_refs`).  It is a limitation of the *model of the reloaded graph*
    (`toGraph` puts an empty node at every id that was not loaded), not of the real code, where the default
    objects live in the class library and are the same before and after the reload: since identifiers now
    compare values with the default objects, the recomputed identifier depends on them. -/
theorem reload_identifier {D : Type} (hc : HC D) (fl : Flags) (lib : List Cls) (sg : SGraph) (root : Nat)
    (hwf : WF sg.g) (hr : root < sg.g.size)
    (hok : ∀ n, Needed sg.g [root] n → NodeOk lib sg n)
    (hm : (fl.metaWriteAll = true ∧ fl.metaReadAll = true) ∨ ∀ n, Needed sg.g [root] n → (sg.g.node n).mflag ≠ some false)
    (hi : fl.initRestored = true ∨ ∀ n, Needed sg.g [root] n → (sg.g.node n).initTasks = [])
    (hdn : DefaultsNeeded sg.g [root]) :
    ∃ L, fromParameters fl lib (serialize fl lib sg [root]) = .ok (L, root) ∧
      fullId hc (toGraph L sg.g.size) root = fullId hc sg.g root :=
  reload_fullId hc fl lib sg root hwf hr hok hm hi hdn

/-- **… also when the default objects are kept rather than written** (what the real code does: class-level
    default objects are not serialised, they live in the class library): for every graph `g'` that holds the loaded
    object at every needed id and — up to `sealed` — the original node on a set `S` containing the needed
    configurations and closed under references and declared defaults (e.g. the default objects and what they
    refer to), the full identifier recomputed on `g'` is the original one. -/
theorem reload_identifier_defaults_kept {D : Type} (hc : HC D) (fl : Flags) (lib : List Cls) (sg : SGraph) (root : Nat)
    (hwf : WF sg.g) (hr : root < sg.g.size)
    (hok : ∀ n, Needed sg.g [root] n → NodeOk lib sg n)
    (hm : (fl.metaWriteAll = true ∧ fl.metaReadAll = true) ∨ ∀ n, Needed sg.g [root] n → (sg.g.node n).mflag ≠ some false)
    (hi : fl.initRestored = true ∨ ∀ n, Needed sg.g [root] n → (sg.g.node n).initTasks = [])
    (S : Nat → Prop) (hS : ∀ n, Needed sg.g [root] n → S n)
    (hclosed : ∀ n, S n → ∀ m ∈ succAll sg.g n, S m)
    (hdflt : ∀ n, S n → ∀ m ∈ nodeDfltRefs (sg.g.node n), S m) :
    ∃ L, fromParameters fl lib (serialize fl lib sg [root]) = .ok (L, root) ∧
      ∀ g' : Graph, g'.size = sg.g.size →
        (∀ n, Needed sg.g [root] n → g'.node n = (toGraph L sg.g.size).node n) →
        (∀ n, S n → ¬ Needed sg.g [root] n → NodeSame (sg.g.node n) (g'.node n)) →
        fullId hc g' root = fullId hc sg.g root :=
  reload_fullId_defaults_kept hc fl lib sg root hwf hr hok hm hi S hS hclosed hdflt

/-- **State dictionaries**: `from_state_dict (state_dict v)` gives back the structure `v` (same
    references) together with the loaded objects of `load_serialize_iso`. -/
theorem state_dict_round_trip (fl : Flags) (lib : List Cls) (sg : SGraph) (v : Val)
    (hwf : WF sg.g) (hr : ∀ r ∈ cfgRefs v, r < sg.g.size)
    (hok : ∀ n, Needed sg.g (cfgRefs v) n → NodeOk lib sg n) :
    ∃ L, fromStateDict fl lib (stateDict fl lib sg v) = .ok (L, v) ∧
      ∀ n, Needed sg.g (cfgRefs v) n →
        lookupObj n L = some { cname := sg.cls n, node := reloadNode fl (sg.g.node n) } := by
  obtain ⟨L, hl, _, hn⟩ := fromStateDict_stateDict fl lib sg v hwf hr hok
  obtain ⟨_, hiff, _, _⟩ := serialOrder_spec sg.g (cfgRefs v) hwf hr
  exact ⟨L, hl, fun n h => hn n ((hiff n).2 h)⟩

/-- **Several generations**: writing a graph that was itself loaded (`regraph`: the loaded objects
    seen as a configuration graph — they are `sealed` and carry the `loaded` flag in the real code; the
    model's writer reads neither, i.e. *nothing of a loaded configuration may be left out*, in
    particular not its producing-task link) and loading it again succeeds and gives, at every id that
    is still needed, the same object as the first generation: a second generation loses nothing more. -/
theorem second_generation (fl : Flags) (lib : List Cls) (sg : SGraph) (roots : List Nat)
    (hwf : WF sg.g) (hr : ∀ r ∈ roots, r < sg.g.size)
    (hok : ∀ n, Needed sg.g roots n → NodeOk lib sg n) :
    ∃ L1 defs2 L2, reloadTwice fl lib sg roots = .ok (L1, defs2, L2) ∧
      (∀ n, Needed sg.g roots n →
        lookupObj n L1 = some { cname := sg.cls n, node := reloadNode fl (sg.g.node n) }) ∧
      (∀ n, n ∈ L2.map (·.1) → Needed sg.g roots n) ∧
      (∀ n, Needed (regraph L1 sg.g.size).g roots n →
        lookupObj n L2 = some { cname := sg.cls n, node := reloadNode fl (sg.g.node n) }) :=
  reloadTwice_spec fl lib sg roots hwf hr hok

/-- … and under the hypotheses of `load_serialize_exact` the second generation is exact as well:
    the objects loaded from the re-written file are exactly the needed configurations of the
    *original* graph, each equal to the original up to `sealed` (same task links, pre-tasks, init
    tasks, meta flags), and the identifier recomputed after two generations is the original one. -/
theorem second_generation_exact {D : Type} (hc : HC D) (fl : Flags) (lib : List Cls) (sg : SGraph) (root : Nat)
    (hwf : WF sg.g) (hr : root < sg.g.size)
    (hok : ∀ n, Needed sg.g [root] n → NodeOk lib sg n)
    (hm : (fl.metaWriteAll = true ∧ fl.metaReadAll = true) ∨ ∀ n, Needed sg.g [root] n → (sg.g.node n).mflag ≠ some false)
    (hi : fl.initRestored = true ∨ ∀ n, Needed sg.g [root] n → (sg.g.node n).initTasks = [])
    (hdn : DefaultsNeeded sg.g [root]) :
    (∃ L1 defs2 L2, reloadTwice fl lib sg [root] = .ok (L1, defs2, L2) ∧
      (∀ n, n ∈ L2.map (·.1) ↔ Needed sg.g [root] n) ∧
      ∀ n, Needed sg.g [root] n →
        ∃ o, lookupObj n L2 = some o ∧ o.cname = sg.cls n ∧ NodeSame (sg.g.node n) o.node ∧ o.node.sealed = true) ∧
    (∃ L1 defs2 L2, reloadTwice fl lib sg [root] = .ok (L1, defs2, L2) ∧
      fullId hc (toGraph L2 sg.g.size) root = fullId hc sg.g root) := by
  have hroots : ∀ r ∈ [root], r < sg.g.size := by intro r h; simp at h; subst h; exact hr
  exact ⟨reloadTwice_exact fl lib sg [root] hwf hroots hok hm hi, reloadTwice_fullId hc fl lib sg root hwf hr hok hm hi hdn⟩

/-- **Every value survives the JSON encoding** (all type constructors, any nesting, dictionaries with a key
    `"type"` at any depth included): decoding the encoding of a value gives the value back, data paths included
    (without a save directory; with one: `C12.datapath_round_trip`). -/
theorem value_round_trip (ids : List Nat) (isData : Bool) (v : Val)
    (hr : ∀ m ∈ cfgRefs v, m ∈ ids) : decJ ids (encField isData v) = .ok v :=
  decJ_encField ids isData v hr

/-- **Loaded as runtime objects in the job process, the task code observes exactly the configured
    parameter values**: the values assigned to the runtime objects built from the parameter file of
    `root` are, for every configuration written to the file and every parameter present on it, the
    configured value; a reference is the runtime object of the referenced configuration (C13:
    exactly one per configuration).  (Tags: `C12.tags_round_trip`.) -/
theorem instances_see_values (fl : Flags) (lib : List Cls) (sg : SGraph) (root : Nat)
    (hwf : WF sg.g) (hr : root < sg.g.size) :
    instanceValues (serialize fl lib sg [root])
      = .ok ((serialOrder sg.g [root]).map
          (fun n => (n, ((sg.g.node n).args.filter present).map (fun a => (a.name, a.value))))) :=
  instanceValues_serialize fl lib sg root hwf hr

/-- **Data files survive `save` / `load`** (the `DataPath` part of "loses nothing"; findings C12-N1, N2 — see
    `datapath_prefix_witness` for the behaviour before the fixes).  `serialization.save(v, dir)` into a directory `base`
    followed by `serialization.load(dir)` — for every well-formed graph, every value `v` (a configuration, or a
    list / dictionary structure of configurations) and every file system `fs`, when the source numbers the saved
    files by definition (`perObject`) and by parameter (`nameByParam`) and `load` forwards its data loader
    (`loadForwards`; all three are source obligations below: the name of a copy is then `paramName`, a function that
    is injective on (configuration, parameter) — `Proofs/SerialData.lean` `paramName_inj`, `saved_distinct`) — returns `v` itself and, at every needed configuration `n`, the original object (class, type,
    every argument, task link, pre-tasks; meta flag and init tasks as `load_serialize_iso`) in which every data
    argument `a` that held a path now holds `base/<position of n>/<a>` (`placedArg`); that path names a file of the
    save directory whose content is the content of the original file (both in the directory seen as a map of relative
    names and in the file system after the save); and two data values are stored in the same file only if they are
    the same argument of the same configuration (distinct originals ↦ distinct files). -/
theorem datapath_round_trip (fl : Flags) (dfl : DFlags) (lib : List Cls) (sg : SGraph) (fs : FS) (v : Val) (base : List Nat)
    (hN1 : dfl.perObject = true) (hN2 : dfl.loadForwards = true) (hN5 : dfl.nameByParam = true)
    (hwf : WF sg.g) (hr : ∀ r ∈ cfgRefs v, r < sg.g.size)
    (hok : ∀ n, Needed sg.g (cfgRefs v) n → NodeOk lib sg n) :
    let order := serialOrder sg.g (cfgRefs v)
    let place := fun (n : Nat) (a : List Nat) => inDir base (paramName dfl (posOf order n) a)
    ∃ L, loadSaved fl dfl lib base (save fl dfl lib sg fs v) = .ok (L, v) ∧
      (∀ n, Needed sg.g (cfgRefs v) n →
        lookupObj n L = some
          { cname := sg.cls n,
            node := { reloadNode fl (sg.g.node n) with
                      args := ((sg.g.node n).args.map (placedArg dfl base (dataNames lib sg n) (posOf order n))) } }) ∧
      (∀ n, Needed sg.g (cfgRefs v) n → ∀ a ∈ (sg.g.node n).args, (dataNames lib sg n).contains a.name = true →
        ∀ s c, a.value = .path s → fsGet fs s = some c →
          (placedArg dfl base (dataNames lib sg n) (posOf order n) a).value = .path (place n a.name) ∧
          fsGet (save fl dfl lib sg fs v).dir (paramName dfl (posOf order n) a.name) = some c ∧
          fsGet (fsAfter base fs (copies dfl lib sg fs order)) (place n a.name) = some c) ∧
      (∀ n n', Needed sg.g (cfgRefs v) n → Needed sg.g (cfgRefs v) n' → ∀ a a' : List Nat,
        place n a = place n' a' → n = n' ∧ a = a') := by
  intro order place
  obtain ⟨L, hl, hobj⟩ := loadSaved_save fl dfl lib sg fs v base hN2 hN5 hwf hr hok
  obtain ⟨_, hiff, _, _⟩ := serialOrder_spec sg.g (cfgRefs v) hwf hr
  refine ⟨L, hl, hobj, ?_, ?_⟩
  · intro n hn a ha hd s c hs hc
    have hcont := saved_content dfl lib sg fs order base hN1 hN5
      (fun m hm => (hok m ((hiff m).1 hm)).names) ((hiff n).2 hn) ha hd hs hc
    refine ⟨?_, hcont.1, hcont.2⟩
    simp only [placedArg, hd, hs]
    rfl
  · intro n n' hn hn' a a' h
    exact saved_distinct dfl hN1 order base ((hiff n).2 hn) ((hiff n').2 hn') h

/-- **The source is in the case of `datapath_round_trip`**, and wraps the recorded name of a data path in `Path(…)`
    (C12-N3), and names a copy after the parameter (seeded change C12g names it after the data file) — source
    obligations on `Gen.dataFlags`, which is regenerated from `core/objects.py`, `core/context.py` and
    `core/serialization.py` on every run. -/
theorem source_data_flags :
    Gen.dataFlags.perObject = true ∧ Gen.dataFlags.loadForwards = true ∧ Gen.dataFlags.pathWrapped = true ∧
    Gen.dataFlags.taskDirForwards = true ∧ Gen.dataFlags.nameByParam = true := by
  decide

/-- **… in the job process** (no data loader, absolute names): a data argument is given a `Path` holding the recorded
    path — the configured value (`instances_see_values` states it for every argument of every definition). -/
theorem datapath_job_side (s : List Nat) : jobDataValue Gen.dataFlags s = .path s := by
  simp [jobDataValue, source_data_flags.2.2.1]

/-- **Tags**: the task code of `root` observes (`task.__tags__`, read from the `"tags"` member of `params.json`)
    exactly the tags `root.tags()` gave when the file was written — same keys in the same order, same values —
    for every graph and every assignment of tags (`str`, `int`, `float`, `bool` values) to its configurations. -/
theorem tags_round_trip (g : Graph) (tg : Nat → Tags) (root : Nat)
    (h : ∀ n, ∀ x ∈ tg n, isScalar x.2 = true) :
    jobTags g tg root = .ok (collectTags g tg root) :=
  decTags_encTags _ (collectTags_scalar g tg root h)

/-- **… and a tag set on the task itself is what the task code observes for that key**, whatever the configurations
    below it (sub-configurations, pre-tasks, init tasks, producing tasks) are tagged with: `tags()` completes the root
    last, and `dict.update` lets the last value win. -/
theorem tags_own_win (g : Graph) (tg : Nat → Tags) (root : Nat) (hwf : WF g) (hr : root < g.size)
    (hs : ∀ n, ∀ x ∈ tg n, isScalar x.2 = true) (hnd : ((tg root).map (·.1)).Nodup)
    (k : List Nat) (v : Val) (h : (k, v) ∈ tg root) :
    ∃ t, jobTags g tg root = .ok t ∧ getTag t k = some v :=
  ⟨_, tags_round_trip g tg root hs, collectTags_own g tg root hwf hr hnd k v h⟩

/-! ### the hypotheses are needed: kernel-checked witnesses of the findings -/

def lw : Cls := { name := [76], typeId := [108], args := [{ name := [118], value := .none }] }
def top : Cls := { name := [84], typeId := [116],
                   args := [{ name := [109], ignored := true, required := false, value := .none },
                            { name := [100], required := false, default := some (.dict [] []), value := .dict [] [] }] }
def sub : Cls := { name := [83], typeId := [115], args := [{ name := [120], value := .none }] }
def wlib : List Cls := [lw, top, sub]
/-- `Top(m=Sub(x=5))` with `setmeta(sub, False)`, one init task `LW(v=3)`. -/
def wg (mf : Option Bool) (init : List Nat) (d : Val) : SGraph :=
  { g := { nodes := [ { typeId := [116], initTasks := init,
                        args := [{ name := [109], ignored := true, required := false, value := .ref 1 },
                                 { name := [100], required := false, default := some (.dict [] []), value := d }] },
                      { typeId := [115], mflag := mf, args := [{ name := [120], value := .int 5 }] },
                      { typeId := [108], args := [{ name := [118], value := .int 3 }] } ] },
    cname := [[84], [83], [76]] }
def oldFlags : Flags := { metaWriteAll := false, metaReadAll := false, initRestored := false }
def newFlags : Flags := { metaWriteAll := true, metaReadAll := true, initRestored := true }
def toyHC : HC Nat :=
  { H := fun l => l.foldl (fun a b => (a * 31 + b + 1) % 1000003) 7, emb := fun d => [256 + d], le := fun a b => a ≤ b }
def reloadedId (fl : Flags) (sg : SGraph) : Option Nat :=
  match fromParameters fl wlib (serialize fl wlib sg [0]) with
  | .ok (l, r) => some (fullId toyHC (toGraph l sg.g.size) r)
  | .error _ => none

/-- F8: written-if-truthy / read-if-truthy loses `meta = False` and the reloaded identifier differs;
    with `is not None` on both sides it is kept. -/
theorem meta_false_witness :
    reloadedId oldFlags (wg (some false) [] (.dict [] [])) ≠ some (fullId toyHC (wg (some false) [] (.dict [] [])).g 0) ∧
    reloadedId newFlags (wg (some false) [] (.dict [] [])) = some (fullId toyHC (wg (some false) [] (.dict [] [])).g 0) := by
  decide

/-- F20: without restoring `init-tasks` the reloaded identifier is the one of the task without init tasks. -/
theorem init_tasks_witness :
    reloadedId oldFlags (wg none [2] (.dict [] [])) = some (fullId toyHC (wg none [] (.dict [] [])).g 0) ∧
    reloadedId oldFlags (wg none [2] (.dict [] [])) ≠ some (fullId toyHC (wg none [2] (.dict [] [])).g 0) ∧
    reloadedId newFlags (wg none [2] (.dict [] [])) = some (fullId toyHC (wg none [2] (.dict [] [])).g 0) := by
  decide

/-! configuration-valued defaults: `class B(Config): k: Param[int]`, `class A(Config): x: Param[B] = B(k=1)`.
    Node 1 is the default object of `A.x`; node 0 is `A()` holding the clone 2 (`dg 2`), or holding the default object
    itself (`dg 1`). -/
def clsA : Cls := { name := [65], typeId := [97],
                    args := [{ name := [120], required := false, default := some (.ref 1), value := .ref 1 }] }
def clsB : Cls := { name := [66], typeId := [98], args := [{ name := [107], value := .none }] }
def dlib : List Cls := [clsA, clsB]
def dg (v : Nat) : SGraph :=
  { g := { nodes := [ { typeId := [97], args := [{ name := [120], required := false, default := some (.ref 1), value := .ref v }] },
                      { typeId := [98], args := [{ name := [107], value := .int 1 }] },
                      { typeId := [98], args := [{ name := [107], value := .int 1 }] } ] },
    cname := [[65], [66], [66]] }
def reloadedIdD (sg : SGraph) : Option Nat :=
  match fromParameters newFlags dlib (serialize newFlags dlib sg [0]) with
  | .ok (l, r) => some (fullId toyHC (toGraph l sg.g.size) r)
  | .error _ => none

/-- `DefaultsNeeded` is needed *in the model of the reloaded graph*: the default object (node 1) of `A()` is not
    written, `toGraph` leaves an empty node there, the value no longer has the identifier of "the default" and the
    recomputed identifier differs; when the default object is written (here because it is also the value) the
    identifier is the original one.  (In the real code the default object is the class attribute, untouched by the
    reload: `reload_identifier_defaults_kept`.) -/
theorem defaults_needed_witness :
    (serialOrder (dg 2).g [0] = [2, 0]) ∧ reloadedIdD (dg 2) ≠ some (fullId toyHC (dg 2).g 0) ∧
    (serialOrder (dg 1).g [0] = [1, 0]) ∧ reloadedIdD (dg 1) = some (fullId toyHC (dg 1).g 0) := by
  decide

example : DefaultsNeeded (dg 1).g [0] := by
  intro n hn m hm
  obtain ⟨r, hr, hreach⟩ := hn
  simp only [List.mem_singleton] at hr
  subst hr
  have hm1 : m = 1 := by
    have hlt : n = 0 ∨ n = 1 ∨ n = 2 ∨ 3 ≤ n := by omega
    rcases hlt with h | h | h | h
    · subst h; simpa [dg, Graph.node, nodeDfltRefs, dfltRefs, cfgRefs] using hm
    · subst h; simp [dg, Graph.node, nodeDfltRefs, dfltRefs] at hm
    · subst h; simp [dg, Graph.node, nodeDfltRefs, dfltRefs] at hm
    · have : (dg 1).g.node n = { typeId := [], args := [] } := by
        simp [Graph.node, dg, List.getD_eq_getElem?_getD, List.getElem?_eq_none (show ([_, _, _] : List Node).length ≤ n from h)]
      simp [this, nodeDfltRefs] at hm
  subst hm1
  exact ⟨0, List.mem_singleton.2 rfl, .step (b := 1) (by decide) (.refl 1)⟩

/-- F9, behaviour before fix 738540e (the items of a dictionary written as they are, `JVal.obj ks …`): a dict
    value with the key `"type"` cannot be loaded (`Unhandled type`), or comes back as another kind of value
    (`{"type": "path", "value": "x"}` becomes a path) — the reader is the current one. -/
theorem dict_type_key_witness :
    (match decJ [] (.obj [kType] [.str [122, 122]]) with
     | .error .unhandledType => true | _ => false) = true ∧
    (match decJ [] (.obj [kType, kValue] [.str sPath, .str [120]]) with
     | .ok (.path s) => s == [120] | _ => false) = true := by
  decide

/-- F9 repaired: the same dictionaries — and a dictionary that imitates the wrapper itself, `{"type": "dict",
    "value": "x"}`, and one nested in a list inside a wrapped dictionary — come back as themselves, also through
    `serialize`/`load` of a graph that holds one. -/
theorem dict_type_key_round_trip :
    decJ [] (encJ (.dict [kType] [.str [122, 122]])) = .ok (.dict [kType] [.str [122, 122]]) ∧
    decJ [] (encJ (.dict [kType, kValue] [.str sPath, .str [120]])) = .ok (.dict [kType, kValue] [.str sPath, .str [120]]) ∧
    decJ [] (encJ (.dict [kType, kValue] [.str sDict, .str [120]])) = .ok (.dict [kType, kValue] [.str sDict, .str [120]]) ∧
    decJ [] (encJ (.dict [kValue, kType] [.list [.dict [kType] [.int 1]], .none]))
      = .ok (.dict [kValue, kType] [.list [.dict [kType] [.int 1]], .none]) ∧
    (match load newFlags wlib (serialize newFlags wlib (wg none [] (.dict [kType] [.str [122, 122]])) [0]) with
     | .ok l =>
       (match ((lookupObj 0 l).map (fun o => o.node.args.map (·.value)) : Option (List Val)) with
        | some [Val.ref 1, Val.dict [k] [Val.str s]] => k == kType && s == [122, 122]
        | _ => false)
     | .error _ => false) = true :=
  ⟨decJ_encJ [] _ (by decide), decJ_encJ [] _ (by decide), decJ_encJ [] _ (by decide), decJ_encJ [] _ (by decide), by decide⟩

/-- non-vacuity of the second generation: a task output (node 1 produced by node 0 … here the link
    1 → 2) keeps its task link through two generations. -/
example : (match reloadTwice newFlags wlib
      { g := { nodes := [ { typeId := [116], args := [{ name := [109], ignored := true, required := false, value := .ref 1 },
                                                     { name := [100], required := false, default := some (.dict [] []), value := .dict [] [] }] },
                          { typeId := [115], task := some 2, args := [{ name := [120], value := .int 5 }] },
                          { typeId := [108], args := [{ name := [118], value := .int 3 }] } ] },
        cname := [[84], [83], [76]] } [0] with
    | .ok (_, defs2, l2) => (defs2.map (·.task), l2.map (fun p => (p.1, p.2.node.task)))
    | .error _ => ([], [])) = ([none, some 2, none], [(2, none), (1, some 2), (0, none)]) := by decide

/-- non-vacuity: the witness graph satisfies every hypothesis of the theorems above (with the repaired
    flags, or with the current ones when no meta flag is False and no init task is attached), and the
    loader really returns the three objects. -/
example : WF (wg (some true) [] (.dict [[97]] [.int 1])).g := by
  intro n hn m hm
  have : n = 0 ∨ n = 1 ∨ n = 2 := by simp [Graph.size, wg] at hn; omega
  rcases this with h | h | h <;> subst h <;> simp [succAll, wg, Graph.node, argRefs, cfgRefsL, cfgRefs, optL] at hm <;>
    simp [Graph.size, wg, hm]
example : (match load oldFlags wlib (serialize oldFlags wlib (wg (some true) [] (.dict [[97]] [.int 1])) [0]) with
           | .ok l => l.map (·.1) | .error _ => []) = [1, 0] := by decide
example : NodeOk wlib (wg none [2] (.dict [[97]] [.int 1])) 0 :=
  { cls := ⟨top, rfl, rfl, rfl⟩, names := by decide,
    req := by
      intro a ha
      simp [wg, Graph.node] at ha
      rcases ha with h | h <;> subst h <;> simp
  }

/-! data paths: `class S(Config): x: Param[int]; dp: DataPath`, `class T(Task): a: Param[S]; b: Param[S]`;
    `T(a=S(x=1, dp=/d/f1), b=S(x=2, dp=/d/f2))`, file contents 11 and 22. -/
def clsS : Cls := { name := [83], typeId := [115], data := [[100, 112]],
                    args := [{ name := [120], value := .none }, { name := [100, 112], ignored := true, value := .none }] }
def clsT : Cls := { name := [84], typeId := [116], args := [{ name := [97], value := .none }, { name := [98], value := .none }] }
def plib : List Cls := [clsS, clsT]
def f1 : List Nat := [47, 100, 47, 102, 49]
def f2 : List Nat := [47, 100, 47, 102, 50]
def pg : SGraph :=
  { g := { nodes := [ { typeId := [116], args := [{ name := [97], value := .ref 1 }, { name := [98], value := .ref 2 }] },
                      { typeId := [115], args := [{ name := [120], value := .int 1 }, { name := [100, 112], ignored := true, value := .path f1 }] },
                      { typeId := [115], args := [{ name := [120], value := .int 2 }, { name := [100, 112], ignored := true, value := .path f2 }] } ] },
    cname := [[84], [83], [83]] }
def pfs : FS := [(f1, 11), (f2, 22)]
def sdir : List Nat := [47, 115]      -- "/s"
def fixedD : DFlags := { perObject := true, loadForwards := true, pathWrapped := true }
/-- the content of the file that the loaded object of `n` names in its argument `dp` -/
def loadedContent (dfl : DFlags) (n : Nat) : Option Nat :=
  match loadSaved newFlags dfl plib sdir (save newFlags dfl plib pg pfs (.ref 0)) with
  | .ok (l, _) =>
    (match ((lookupObj n l).bind (fun o => (o.node.args.find? (fun a => a.name == [100, 112])).map (·.value)) : Option Val) with
     | some (Val.path s) => fsGet (fsAfter sdir pfs (copies dfl plib pg pfs (serialOrder pg.g [0]))) s
     | _ => none)
  | .error _ => none

/-- C12-N1, N2, N3 — behaviour before the fixes, as counter-examples of `datapath_round_trip` / `datapath_job_side`:
    with the argument name alone as relative name, both data files are stored as `dp`, the second copy overwrites the
    first and the object loaded for the first configuration names a file with the content of the *second* (22 instead
    of 11); without the loader forwarded, `load` raises; without `Path(…)`, the job process is given a `str`.
    With the repaired flags the two objects name `/s/0/dp` and `/s/1/dp` holding 11 and 22. -/
theorem datapath_prefix_witness :
    loadedContent { fixedD with perObject := false } 1 = some 22 ∧
    (save newFlags { fixedD with perObject := false } plib pg pfs (.ref 0)).dir = [([100, 112], 22), ([100, 112], 11)] ∧
    (match loadSaved newFlags { fixedD with loadForwards := false } plib sdir (save newFlags fixedD plib pg pfs (.ref 0)) with
     | .error .noDataLoader => true | _ => false) = true ∧
    (match jobDataValue { fixedD with pathWrapped := false } f1 with | .str s => s == f1 | _ => false) = true ∧
    loadedContent fixedD 1 = some 11 ∧ loadedContent fixedD 2 = some 22 ∧
    (save newFlags fixedD plib pg pfs (.ref 0)).dir = [([49, 47, 100, 112], 22), ([48, 47, 100, 112], 11)] := by
  decide

/-! one configuration with two data files of the same base name: `class E(Config): q: DataPath; d: DataPath`,
    `E(q=/c/q/m, d=/c/d/m)`, contents 11 and 22. -/
def clsE : Cls := { name := [69], typeId := [101], data := [[113], [100]],
                    args := [{ name := [113], ignored := true, value := .none }, { name := [100], ignored := true, value := .none }] }
def qm : List Nat := [47, 99, 47, 113, 47, 109]
def dm : List Nat := [47, 99, 47, 100, 47, 109]
def eg : SGraph :=
  { g := { nodes := [ { typeId := [101], args := [{ name := [113], ignored := true, value := .path qm },
                                                 { name := [100], ignored := true, value := .path dm }] } ] },
    cname := [[69]] }
def efs : FS := [(qm, 11), (dm, 22)]
/-- the paths the loaded object holds in `q` and `d`, and the contents of the files they name -/
def loadedE (dfl : DFlags) : List (List Nat × Option Nat) :=
  match loadSaved newFlags dfl [clsE] sdir (save newFlags dfl [clsE] eg efs (.ref 0)) with
  | .ok (l, _) =>
    (match lookupObj 0 l with
     | some o => o.node.args.map (fun a => match a.value with
        | .path s => (s, fsGet (fsAfter sdir efs (copies dfl [clsE] eg efs (serialOrder eg.g [0]))) s)
        | _ => ([], none))
     | none => [])
  | .error _ => []

/-- seeded change C12g (`SerializationContext.serialize` names a copy after the *data file*: `<index>/<file name>`) as a
    counter-example of `datapath_round_trip` without `nameByParam` — the index still separates the objects, the file
    name does not separate the parameters of one object: both parameters of `E(q=/c/q/m, d=/c/d/m)` come back as
    `/s/0/m`, which holds the content of the second file (22), the content 11 is in no file of the directory; named after
    the parameter (`paramName`, injective on (object, parameter)) they come back as `/s/0/q` ↦ 11 and `/s/0/d` ↦ 22. -/
theorem datapath_name_witness :
    baseName qm = [109] ∧ baseName dm = [109] ∧
    loadedE { fixedD with nameByParam := false } = [([47, 115, 47, 48, 47, 109], some 22), ([47, 115, 47, 48, 47, 109], some 22)] ∧
    (save newFlags { fixedD with nameByParam := false } [clsE] eg efs (.ref 0)).dir = [([48, 47, 109], 22), ([48, 47, 109], 11)] ∧
    loadedE fixedD = [([47, 115, 47, 48, 47, 113], some 11), ([47, 115, 47, 48, 47, 100], some 22)] := by
  decide

/-- non-vacuity of the second save: the loaded value written into a second directory and loaded again names files of
    the *second* directory that hold the original contents. -/
example : (match saveLoadTwice newFlags fixedD plib pg pfs (.ref 0) sdir [47, 116] with
    | .ok (_, _, s2, l2, _) =>
      (s2.dir, l2.map (fun p => (p.1, (p.2.node.args.find? (fun a => a.name == [100, 112])).map (fun a => match a.value with | .path s => s | _ => []))))
    | .error _ => ([], [])) =
    ([([49, 47, 100, 112], 22), ([48, 47, 100, 112], 11)],
     [(1, some [47, 116, 47, 48, 47, 100, 112]), (2, some [47, 116, 47, 49, 47, 100, 112]), (0, none)]) := by decide

/-- tags: `T` tagged `model=3`, its sub-configuration 1 tagged `model=1, k=True`: the task's own tag wins, `k` is inherited. -/
example : jobTags pg.g (fun n => if n = 0 then [([109], .int 3)] else if n = 1 then [([109], .int 1), ([107], .bool true)] else []) 0
    = .ok (collectTags pg.g (fun n => if n = 0 then [([109], .int 3)] else if n = 1 then [([109], .int 1), ([107], .bool true)] else []) 0) :=
  tags_round_trip _ _ _ (by intro n x hx; by_cases h0 : n = 0 <;> by_cases h1 : n = 1 <;> simp_all <;> rcases hx with rfl | rfl <;> rfl)
example : (collectTags pg.g (fun n => if n = 0 then [([109], .int 3)] else if n = 1 then [([109], .int 1), ([107], .bool true)] else []) 0).map
    (fun kv => (kv.1, match kv.2 with | .int i => i | .bool true => 1 | _ => 0)) = [([109], 3), ([107], 1)] := by decide

example : WF pg.g := by
  intro n hn m hm
  have : n = 0 ∨ n = 1 ∨ n = 2 := by simp [Graph.size, pg] at hn; omega
  rcases this with h | h | h <;> subst h <;> simp [succAll, pg, Graph.node, argRefs, cfgRefsL, cfgRefs, optL] at hm <;>
    simp [Graph.size, pg] <;> omega
example : NodeOk plib pg 1 :=
  { cls := ⟨clsS, rfl, rfl, rfl⟩, names := by decide,
    req := by
      intro a ha
      simp [pg, Graph.node] at ha
      rcases ha with h | h <;> subst h <;> simp }

end XpmVerif.C12
