"""C11 — restarting a killed experiment adopts running jobs and repeats nothing.

(1) restart engine (xv.impl.restart_eng): the real Scheduler (aio_registerJob / aio_submit with its marker test and
    adoption path / aio_start) and the real `CommandLineJob.aio_process` on a persistent workspace with simulated job
    processes; random schedules with `crash` at any step and `crashAfterSpawn` (death inside aio_run); every event is
    compared with the Lean model M4 (Drive/C11.lean); implementation-only monitors on every scheduler incarnation.
(2) real kill / restart runs (xv.impl.restart_worker): a real experiment in a subprocess, real job processes gated on
    files, SIGKILL / SIGTERM / SIGINT to the scheduler pid at a phase chosen by file rendezvous, the same script run
    again; monitors on the task-side log, the final states and the token directory; the case is replayed on the Lean
    model (canonical schedule with the same crash point), which must predict the adoptions and the final result.
"""
import json
import multiprocessing as mp
import random
import time

from .. import common, schedlib
from . import _sched
from .c05 import run_worker_cases

PROP = "C11"
MODULES = ["XpmVerif.Properties.C11", "XpmVerif.Properties.C11Suspend"]
RULE = ("(1) random workloads (<= 5 jobs, <= 2 in-memory tokens, duplicates, failing bodies, initial success markers) x random schedules of scheduler "
        "events and job-process moves with up to 2 scheduler deaths (crash at any step, inside prepare() with the script left absent/broken/ready, or inside aio_run between spawn and pid file), compared event by "
        "event with the Lean model; non-trivial = at least one death with a job process alive or a marker present at that moment; "
        "(2) real experiments: 3 small DAGs (chain, fork with token, token at capacity) x phases (before the first launch, while a job runs, between "
        "dependent jobs, while a token is held, inside prepare() after params.json / after the script before chmod / before the spawn, inside aio_run after the spawn, "
        "inside aio_run after the pid file was opened) x signals (SIGKILL, SIGTERM, SIGINT) x restart before/after the surviving job ended"
        "; plus suspension of the surviving job process (SIGSTOP … SIGCONT, 0.5 s quick / 0.5 and 1.5 s thorough): while the second run waits on the adopted job, "
        "or already suspended at the re-submission and resumed afterwards (a suspended job is a running job: adopted, waited for, same final results); plus 2 consecutive kills "
        "(run 1 killed while a job runs, run 2 adopts and is killed while it still runs / right after it ended, run 3 must finish; the restart engine of (1) has any "
        "number of deaths, the real matrix samples two); a restarted experiment process that raises instead of running is the monitor failure restart-crashes; "
        "distinct = hash of the case")
HANG_KEY = "second-run-hangs:orphan-token-at-capacity"
PIDFILE_KEY = "second-run-hangs:partial-pid-file"
HANDLER_KEY = "restart-breaks:process-handler-table-race"
SPIN_KEY = "second-run-hangs:token-watcher-spins-on-empty-pid-file"
_WITNESS_OBS = {}  # finding id -> observation of its witness (run in one batch with the generated cases)


# ---------------------------------------------------------------------------------------- (1) engine


def gen_restart_workload(rng):
    spec = schedlib.gen_workload(rng, max_jobs=5, max_tokens=2, resubmit=True, markers=False, fail_p=0.15, resubmit_p=0.12)
    idents = sorted({j["ident"] for j in spec["jobs"]})
    spec["done"] = [i for i in idents if rng.random() < 0.1]
    return spec


def _engine_one(seed):
    from ..impl import restart_eng
    rng = random.Random(seed)
    spec = gen_restart_workload(rng)
    ev, obs, q, fails = restart_eng.run_random(spec, rng)
    return seed, spec, ev, obs, q, fails


def crash_context(spec, ev, obs):
    """what the scheduler deaths of a run looked like (for the evidence and the non-triviality rule)"""
    res = []
    for k, e in enumerate(ev):
        if e[0] in ("crash", "crashAfterSpawn", "crashInPrepare") and k > 0:
            o = obs[k - 1]
            alive = sum(1 for p in o["procs"] if p["ph"] != "gone")
            body = sum(1 for p in o["procs"] if p["ph"] == "body")
            markers = sum(1 for d in o["dirs"] if d["done"])
            pending = sum(1 for f in o["futures"] if f == "pending")
            held = sum(1 for t, a in zip(spec["tokens"], o["avail"]) if a < t)
            res.append({"kind": e[0], "alive": alive, "body": body, "markers": markers, "pending": pending, "tokens_held": held,
                        "sched_lock": sum(1 for d in o["dirs"] if d["lock"] == "sched")})
    return res


def engine_part(ctx):
    n = ctx.scale(800, 8000)
    base = ctx.rng.randrange(10**9)
    with mp.Pool(min(16, mp.cpu_count())) as pool:
        results = pool.map(_engine_one, [base + i for i in range(n)], chunksize=8)
    lines, impl, owner = [], [], []
    for seed, spec, ev, obs, q, fails in results:
        cc = crash_context(spec, ev, obs)
        nontrivial = any(c["alive"] > 0 or c["markers"] > 0 for c in cc)
        ctx.case({"seed": seed, "workload": spec, "events": ev[:80]}, nontrivial)
        ctx.count("engine_quiescent", q)
        ctx.count("engine_crashes", len(cc))
        for c in cc:
            ctx.count("crash_kind", c["kind"])
            ctx.count("crash_with_live_process", c["alive"] > 0)
            ctx.count("crash_with_body_running", c["body"] > 0)
            ctx.count("crash_with_tokens_held", c["tokens_held"] > 0)
            ctx.count("crash_with_job_lock_held", c["sched_lock"] > 0)
            ctx.count("crash_with_marker", c["markers"] > 0)
        ctx.count("engine_adoption_seen", any(any(o["adopted"]) for o in obs))
        for e in ev:
            ctx.count("engine_event_kind", e[0] if e[0] != "sched" else "sched:" + e[1][0])
        for key, what in fails:
            ctx.monitor_fail(key, f"{what} [restart engine; workload {json.dumps(spec)}; seed {seed}]", {"engine": True, "workload": spec, "events": ev, "seed": seed})
        lines.append({"op": "init", "tokens": spec["tokens"], "jobs": spec["jobs"], "done": spec["done"]})
        impl.append(None)
        owner.append((seed, spec, ev))
        for e, o in zip(ev, obs):
            lines.append({"op": "ev", "e": e})
            impl.append(o)
            owner.append((seed, spec, ev))
    try:
        outs = common.run_driver("C11", lines)
    except Exception as e:
        ctx.disagree({"driver": "C11"}, None, None, f"model driver failed: {e}")
        return
    bad = set()
    for line, m, i, (seed, spec, ev) in zip(lines, outs, impl, owner):
        if i is None or seed in bad:
            continue
        m["failed"] = sorted(m.get("failed", []))
        if m != i:
            bad.add(seed)
            diff = {k: {"impl": i[k], "model": m.get(k)} for k in i if i[k] != m.get(k)}
            ctx.disagree({"engine": True, "workload": spec, "events": ev, "seed": seed, "at": line}, diff, None, "restart model and implementation differ")
    ctx.traces_validated += len(results) - len(bad)


# ---------------------------------------------------------------------------------------- (2) real runs

DAGS = {
    "chain": {"jobs": [{"x": 1, "deps": [], "token": False}, {"x": 2, "deps": [0], "token": False}], "token_total": None},
    "fork-token": {"jobs": [{"x": 1, "deps": [], "token": True}, {"x": 2, "deps": [], "token": True}, {"x": 3, "deps": [0], "token": False}], "token_total": 2},
    "token-capacity": {"jobs": [{"x": 1, "deps": [], "token": True}, {"x": 2, "deps": [], "token": True}], "token_total": 1},
}
PREPARE = {"mid-prepare:after-params": "absent", "mid-prepare:after-script-before-chmod": "broken", "mid-prepare:before-spawn": "ready"}
PHASES = ["before-launch", "running", "between", "token-held", "mid-launch", "mid-pidwrite"] + list(PREPARE)
SIGNALS = ["SIGKILL", "SIGTERM", "SIGINT"]


def applicable(dag, phase, sig):
    if (phase in ("mid-launch", "mid-pidwrite") or phase in PREPARE) and sig == "SIGINT":
        return False  # the experiment leaves on SIGINT only between two callbacks, i.e. not inside aio_run
    if phase == "token-held" and not DAGS[dag]["token_total"]:
        return False
    if phase == "between" and not any(j["deps"] for j in DAGS[dag]["jobs"]):
        return False
    return True


def real_cases(ctx, rng):
    allc = []
    for dag in DAGS:
        for phase in PHASES:
            for sig in SIGNALS:
                if applicable(dag, phase, sig):
                    for fin in (False, True):
                        if fin and (phase in ("before-launch", "between") or phase in PREPARE):
                            continue
                        allc.append({"dag": dag, "phase": phase, "signal": sig, "finish_before_restart": fin})
    if ctx.quick():
        # one case per phase (rotating DAGs and signals with the seed) + the known token case + one restart after the job ended
        picked = []
        for pi, phase in enumerate(PHASES):
            cands = [c for c in allc if c["phase"] == phase and not c["finish_before_restart"]
                     and not (c["phase"] == "before-launch" and c["dag"] == "token-capacity")]
            if phase in ("mid-launch", "mid-pidwrite") or phase in PREPARE:
                cands = [c for c in cands if c["dag"] == "chain"]
            picked.append(cands[(ctx.seed * 7 + pi * 3 + rng.randrange(len(cands))) % len(cands)])
        fins = [c for c in allc if c["finish_before_restart"]]
        picked.append(fins[rng.randrange(len(fins))])
        allc = picked
    cases = []
    for i, c in enumerate(allc):
        d = DAGS[c["dag"]]
        cases.append(dict(c, id=f"real{i}", jobs=d["jobs"], token_total=d["token_total"], delay=rng.choice([0.0, 0.0, 0.05, 0.2])))
    # the suspension cases come first: their monitor failures head the replay when they fire
    return suspend_cases(ctx, rng, len(cases)) + cases + multikill_cases(ctx, rng)


def suspend_cases(ctx, rng, base):
    """killed while a job runs, run again; the surviving job process is suspended (SIGSTOP) and resumed (SIGCONT): while the second run
    waits on the adopted job / already at the moment of the re-submission.  A suspended process is a running process."""
    allc = []
    for dag in DAGS:
        for mode in ("adopted", "at-resubmission"):
            for sig in ("SIGKILL", "SIGTERM"):
                for dur in (0.5, 1.5):
                    allc.append({"dag": dag, "suspend": mode, "signal": sig, "suspend_for": dur})
    if ctx.quick():
        r = ctx.seed
        dags = list(DAGS)
        allc = [{"dag": "chain", "suspend": "adopted", "signal": ["SIGKILL", "SIGTERM"][r % 2], "suspend_for": 0.5},
                {"dag": dags[(r + 1) % 3], "suspend": "at-resubmission", "signal": ["SIGTERM", "SIGKILL"][r % 2], "suspend_for": 0.5},
                {"dag": dags[(r + 2) % 3], "suspend": "adopted", "signal": "SIGKILL", "suspend_for": 0.5}]
    cases = []
    for i, c in enumerate(allc):
        d = DAGS[c["dag"]]
        ph = "running+suspend-adopted" if c["suspend"] == "adopted" else "running+suspended-at-resubmission"
        cases.append(dict(c, id=f"susp{i}", phase=ph, finish_before_restart=False, jobs=d["jobs"], token_total=d["token_total"], delay=0.0))
    return cases


KILL_PAIRS = [["SIGTERM", "SIGKILL"], ["SIGKILL", "SIGTERM"], ["SIGTERM", "SIGTERM"], ["SIGKILL", "SIGKILL"]]


def multikill_cases(ctx, rng):
    """two consecutive kills: run 1 killed while the first job runs, run 2 (which adopts) killed at phase2, run 3 must finish"""
    allc = []
    for dag in DAGS:
        for phase2 in ("running", "between"):
            if phase2 == "between" and not any(j["deps"] for j in DAGS[dag]["jobs"]):
                continue
            for pair in KILL_PAIRS:
                allc.append({"dag": dag, "phase2": phase2, "signals": pair})
    if ctx.quick():
        r = ctx.seed
        allc = [{"dag": "chain", "phase2": "between", "signals": KILL_PAIRS[r % 4]},
                {"dag": "chain", "phase2": "running", "signals": KILL_PAIRS[(r + 1) % 4]},
                {"dag": "token-capacity", "phase2": "running", "signals": KILL_PAIRS[(r + 2) % 4]}]
    cases = []
    for i, c in enumerate(allc):
        d = DAGS[c["dag"]]
        cases.append(dict(c, id=f"kills{i}", kills=2, phase="2-kills:" + c["phase2"], signal="+".join(c["signals"]), finish_before_restart=False,
                          jobs=d["jobs"], token_total=d["token_total"], delay=rng.choice([0.0, 0.05, 0.2])))
    return cases


def crash_key(err):
    """monitor key for an experiment process that raised instead of running (not: FailedExperiment of a failed job)"""
    return "restart-crashes:" + (err or "?").split(":")[0].strip()


def multikill_monitor(case, o):
    """(key, what): the property after two consecutive kills, on the real observables"""
    fails = []
    tag = f"{case['dag']}/2 kills ({case['signal']}, second {case['phase2']})"
    if o.get("error") or not o.get("rendezvous"):
        return fails
    xs = [j["x"] for j in case["jobs"]]
    for r in (1, 2):
        for x, alive in (o.get(f"alive_after_kill{r}") or {}).items():
            if not alive:
                fails.append((f"job-process-died-with-scheduler:{case['signals'][r - 1]}", f"{tag}: the process of job {x} did not survive kill {r} of the scheduler"))
    # the restarted experiment process itself must not crash
    f2 = o.get("final2")
    if f2 is not None and f2.get("error") and not f2["error"].startswith("FailedExperiment"):
        fails.append((crash_key(f2["error"]), f"{tag}: the second run of the experiment raised {f2['error']} instead of running ({o.get('stderr2', '')[-300:]})"))
    elif not o.get("run2_alive_at_kill"):
        fails.append(("restart-crashes:exit", f"{tag}: the second run ended by itself (rc {o.get('rc2')}) before it could be killed: {o.get('stderr2', '')[-300:]}"))
    f3 = o.get("final3")
    if f3 is not None and f3.get("error") and not f3["error"].startswith("FailedExperiment"):
        fails.append((crash_key(f3["error"]), f"{tag}: the third run of the experiment raised {f3['error']} instead of running "
                                              f"(jobs.bak at restart: {o.get('jobs_bak_at_restart')}; {o.get('stderr3', '')[-300:]})"))
    elif o.get("rc3") == "timeout" or f3 is None:
        fails.append((f"third-run-hangs:{case['phase2']}", f"{tag}: the third run does not finish (raised: {(o.get('tap') or {}).get('raised')}; log {o.get('log')})"))
    elif f3.get("error") or f3.get("states") != ["DONE"] * len(xs):
        fails.append((f"third-run-final-states:{case['phase2']}", f"{tag}: final states of the third run {f3.get('states')}, error {f3.get('error')}"))
    complete = f3 is not None and not f3.get("error") and o.get("rc3") != "timeout"
    for x in xs:
        ivs = o["intervals"].get(str(x), [])
        if len(ivs) > 1 or (complete and (len(ivs) != 1 or ivs[0][3] != "end")):
            fails.append((f"body-not-exactly-once:2-kills:{case['phase2']}", f"{tag}: body of job {x} executed {len(ivs)} time(s) over the three runs: {[(iv[0], iv[3]) for iv in ivs]}"))
    tap = o.get("tap") or {}
    for x in o.get("live_at_restart2", []):
        if x in tap.get("launched2", []):
            fails.append((f"running-job-relaunched:2-kills:{case['phase2']}", f"{tag}: job {x} had a live process when run 2 started and was launched again"))
    for x in o.get("live_at_restart", []):
        if x in tap.get("launched3", []):
            fails.append((f"running-job-relaunched:2-kills:{case['phase2']}", f"{tag}: job {x} had a live process when run 3 started and was launched again"))
    if complete and o.get("token_files"):
        fails.append((f"token-files-left:2-kills:{case['phase2']}", f"{tag}: token directory not empty after the third run: {o['token_files']}"))
    return fails


def multikill_model_lines(case, o):
    """canonical schedule of the Lean model with the same two crash points"""
    jobs = [{"ident": j["x"], "deps": [["j", d] for d in j["deps"]] + ([["t", 0, 1]] if j.get("token") and case.get("token_total") else []),
             "code": 0, "marker": False} for j in case["jobs"]]
    toks = [case["token_total"]] if case.get("token_total") else []
    L = [{"op": "init", "tokens": toks, "jobs": jobs, "done": []}]
    sub = [{"op": "ev", "e": ["sched", ["submit", i]]} for i in range(len(jobs))]
    L += sub + [{"op": "ev", "e": ["quiesce", []]}, {"op": "ev", "e": ["crash"]}]   # run 1: everything launchable is in its body
    # run 2: the first segments of aio_submit only (adoption); no helper thread completes, so nothing is launched: the
    # model's tokens are in memory and were reset by the crash, the real token file of the adopted job still holds the token
    L += sub + [{"op": "ev", "e": ["untilEnter", 999]}]
    if case["phase2"] == "between":
        tap = o.get("tap") or {}
        launched2 = set(tap.get("launched2", [])) | (set(o.get("started_before_kill2", [])) - set(tap.get("launched1", [])))
        later = [j["x"] for j in case["jobs"] if j["deps"] and j["x"] in launched2]
        root = next(j["x"] for j in case["jobs"] if not j["deps"])
        if root in o.get("live_at_restart", []):
            L.append({"op": "ev", "e": ["proc", 0, True]})
        else:
            L.append({"op": "ev", "e": ["quiesce", [0]] if later else ["procRun", 0]})
    L.append({"op": "ev", "e": ["crash"]})
    L += sub + [{"op": "ev", "e": ["quiesce", None]}]                                # run 3
    return L


def real_monitor(case, o):
    """(key, what): the property on the real observables of one kill/restart case"""
    fails = []
    tag = f"{case['dag']}/{case['phase']}/{case['signal']}" + ("/finished-before-restart" if case.get("finish_before_restart") else "")
    if o.get("error"):
        return fails
    if not o.get("rendezvous"):
        return fails
    xs = [j["x"] for j in case["jobs"]]
    for x, alive in o.get("alive_after_kill", {}).items():
        if not alive:
            fails.append((f"job-process-died-with-scheduler:{case['signal']}", f"{tag}: the process of job {x} did not survive the scheduler"))
    raised = " ".join((o.get("tap") or {}).get("raised2", [])) + " " + " ".join(o.get("thread_errors2", []))
    handler_race = "No handler of type" in raised
    if o.get("rc2") == "timeout" or o.get("final2") is None:
        # which defect (if a known one) is behind a second run that never ends: told apart by what aio_submit raised
        # (diagnostic tap) and by the orphaned token files found at the restart
        tot = case.get("token_total")
        if "JSONDecodeError" in raised:
            key = PIDFILE_KEY
        elif handler_race:
            key = HANDLER_KEY
        elif not raised.strip() and tot and case["phase"] == "mid-pidwrite" and o.get("token_files_at_restart", 0) >= 1:
            key = SPIN_KEY
        elif not raised.strip() and tot and o.get("token_files_at_restart", 0) >= tot and not o.get("live_at_restart"):
            key = HANG_KEY
        else:
            key = f"second-run-hangs:{case['phase']}"
        fails.append((key, f"{tag}: the second run of the experiment does not finish (raised in aio_submit: {raised.strip() or 'nothing'}; "
                           f"token files at restart {o.get('token_files_at_restart')}; log {o.get('log')})"))
        # what the log shows so far still must not contain a repeated body
        for x in xs:
            ivs = o["intervals"].get(str(x), [])
            if len(ivs) > 1:
                fails.append((f"body-not-exactly-once:{case['phase']}", f"{tag}: body of job {x} executed {len(ivs)} times over both runs: {[(iv[0], iv[3]) for iv in ivs]}"))
        return fails
    st = o["final2"].get("states")
    err2 = o["final2"].get("error")
    if err2 and not err2.startswith("FailedExperiment"):
        fails.append((crash_key(err2), f"{tag}: the second run of the experiment raised {err2} instead of running ({o.get('stderr2', '')[-300:]})"))
    elif err2 or st != ["DONE"] * len(xs):
        fails.append((f"second-run-final-states:{case['phase']}", f"{tag}: final states of the second run {st}, error {err2}"))
    for x in xs:
        ivs = o["intervals"].get(str(x), [])
        if len(ivs) != 1 or ivs[0][3] != "end":
            fails.append((f"body-not-exactly-once:{case['phase']}", f"{tag}: body of job {x} executed {len(ivs)} time(s) over both runs: {[(iv[0], iv[3]) for iv in ivs]}"))
    for x in o.get("started_before_kill", []):
        ivs = o["intervals"].get(str(x), [])
        if len({iv[0] for iv in ivs}) > 1:
            fails.append((f"running-job-relaunched:{case['phase']}", f"{tag}: job {x} was running at the kill and a second process executed its body"))
    tap = o.get("tap") or {}
    for x in o.get("live_at_restart", []):
        if x in tap.get("launched2", []):
            fails.append((f"running-job-relaunched:{case['phase']}", f"{tag}: job {x} had a live process (pid file) when the experiment was run again and was launched again (launch log of the second run: {tap.get('launched2')})"))
    if o.get("token_files"):
        key = HANDLER_KEY if handler_race else f"token-files-left:{case['phase']}"
        fails.append((key, f"{tag}: token directory not empty after the second run: {o['token_files']} (thread errors: {o.get('thread_errors2')})"))
    return fails


def real_model_lines(case, o):
    """canonical schedule of the Lean model with the same crash point; returns (lines, expectation)"""
    jobs = [{"ident": j["x"], "deps": [["j", d] for d in j["deps"]] + ([["t", 0, 1]] if j.get("token") and case.get("token_total") else []),
             "code": 0, "marker": False} for j in case["jobs"]]
    toks = [case["token_total"]] if case.get("token_total") else []
    L = [{"op": "init", "tokens": toks, "jobs": jobs, "done": []}]
    sub = [{"op": "ev", "e": ["sched", ["submit", i]]} for i in range(len(jobs))]
    L += sub
    ph = case["phase"].split("+")[0]   # a suspension is invisible in the model: a suspended process is a live process
    started = set(o.get("started_before_kill", []))
    ended = set(o.get("ended_before_kill", []))
    if ph == "before-launch":
        L.append({"op": "ev", "e": ["crash"]})
    elif ph in PREPARE:
        xs = [j["x"] for j in case["jobs"]]
        px = (o.get("prepare") or {}).get("x")
        oj = xs.index(px) if px in xs else 0  # the job whose script was being generated
        L.append({"op": "ev", "e": ["untilEnter", oj]})
        L.append({"op": "ev", "e": ["crashInPrepare", oj, PREPARE[ph]]})
    elif ph in ("mid-launch", "mid-pidwrite"):
        xs = [j["x"] for j in case["jobs"]]
        oj = xs.index(o["orphan_x"]) if o.get("orphan_x") in xs else 0  # the job that was inside aio_run
        L.append({"op": "ev", "e": ["untilEnter", oj]})
        L.append({"op": "ev", "e": ["crashAfterSpawn", oj]})
    else:
        L.append({"op": "ev", "e": ["quiesce", []]})  # everything launchable is in its body
        if ph == "between":
            # the first root ended; whether the scheduler got to launch its dependents before it died is read off
            # the (diagnostic) launch log of the first run, else off the task-side log
            launched1 = set((o.get("tap") or {}).get("launched1", [])) | started
            later = [j["x"] for j in case["jobs"] if j["deps"] and j["x"] in launched1]
            root = next(j["x"] for j in case["jobs"] if not j["deps"])
            if root in o.get("live_at_restart", []):
                L.append({"op": "ev", "e": ["proc", 0, True]})  # its body ended, the process is still on its way out at the restart
            else:
                L.append({"op": "ev", "e": ["quiesce", [0]] if later else ["procRun", 0]})
        L.append({"op": "ev", "e": ["crash"]})
    if case.get("finish_before_restart"):
        L.append({"op": "ev", "e": ["procsOnly"]})
    L += sub
    L.append({"op": "ev", "e": ["quiesce", None]})
    return L


def real_part(ctx):
    cases = real_cases(ctx, ctx.rng)
    wit = [(f["id"], f["witness"]["real"]) for f in common.load_findings(PROP) if "real" in (f.get("witness") or {})]
    outs = run_worker_cases(ctx, "restart", cases + [w for _, w in wit], parallel=ctx.scale(12, 14), timeout=3000)
    for (fid, w), o in zip(wit, outs[len(cases):]):
        _WITNESS_OBS[fid] = o
    outs = outs[:len(cases)]
    lines, owners = [], []
    errs = 0
    for case, o in zip(cases, outs):
        if o.get("error") or not o.get("rendezvous"):
            errs += 1
            ctx.count("real_case_errors", (o.get("error") or "rendezvous not reached")[:60])
            continue
        multi = case.get("kills", 1) >= 2
        ctx.case({"real": {k: case.get(k) for k in ("dag", "phase", "signal", "finish_before_restart", "delay", "kills", "suspend", "suspend_for")},
                  "log": o.get("log"), "final": o.get("final3" if multi else "final2"), "tap": o.get("tap")}, True)
        ctx.count("real_phase", case["phase"])
        ctx.count("real_signal", case["signal"])
        ctx.count("real_dag", case["dag"])
        ctx.count("real_kills", case.get("kills", 1))
        ctx.count("real_survivors", sum(1 for v in (o.get("alive_after_kill1") if multi else o.get("alive_after_kill", {})).values() if v))
        ctx.count("real_adopted", len(o.get("tap", {}).get("adopted2", [])) + len(o.get("tap", {}).get("adopted3", [])))
        ctx.count("real_reaping", o.get("reaping"))
        if case.get("suspend"):
            # the suspension took place: the job process was in state T (stopped) and was resumed
            ctx.count("real_suspended", f"{case['suspend']}: states {','.join(o.get('status_when_suspended') or ['none'])}; "
                                        f"{len(o.get('suspended') or [])} stopped, {len(o.get('resumed') or [])} resumed")
        mf = multikill_monitor(case, o) if multi else real_monitor(case, o)
        for key, what in mf:
            ctx.monitor_fail(key, what, {"real": case})
        last_final = o.get("final3") if multi else o.get("final2")
        if o.get("rc3" if multi else "rc2") == "timeout" or last_final is None or (last_final.get("error") and last_final.get("states") is None):
            continue  # nothing to compare: the run has no final result
        first = next((l[1] for l in (o.get("log") or []) if l[0] == "start"), None)
        if case["dag"] == "token-capacity" and first == case["jobs"][1]["x"]:
            # two symmetric jobs compete for one token: the model's canonical schedule serves job 0 first, so the job that
            # got the token in the real run is listed first
            case = dict(case, jobs=[case["jobs"][1], case["jobs"][0]])
            if o.get("final3" if multi else "final2", {}).get("states"):
                o = dict(o)
                k = "final3" if multi else "final2"
                o[k] = dict(o[k], states=list(reversed(o[k]["states"])))
            ctx.count("real_token_winner", "second job")
        ls = multikill_model_lines(case, o) if multi else real_model_lines(case, o)
        lines += ls
        owners.append((case, o, len(ls)))
    if errs > max(1, len(cases) // 3):
        raise RuntimeError(f"{errs}/{len(cases)} real restart cases could not be run: {[o.get('error') for o in outs if o.get('error')][:2]}")
    if not lines:
        return
    try:
        mouts = common.run_driver("C11", lines)
    except Exception as e:
        ctx.disagree({"driver": "C11"}, None, None, f"model driver failed: {e}")
        return
    i = 0
    for case, o, n in owners:
        last = mouts[i + n - 1]
        i += n
        xs = [j["x"] for j in case["jobs"]]
        model = {"final": last["futures"], "bodies": [d["bodies"] for d in last["dirs"]], "succ": [d["succ"] for d in last["dirs"]],
                 "adopted": sorted(x for x, a in zip(xs, last["adopted"]) if a)}
        multi = case.get("kills", 1) >= 2
        tapl = (o.get("tap") or {}).get("launched3" if multi else "launched2")
        if tapl is not None and (o.get("tap") or {}).get("launched1") is not None and ((o.get("tap") or {}).get("launched1") or tapl):
            model["launched2"] = sorted(x for x, n in zip(xs, last["launches"]) if n > 0)
        survivors = sorted(o.get("live_at_restart", []))
        real = {"final": (o["final3" if multi else "final2"] or {}).get("states"), "bodies": [len(o["intervals"].get(str(x), [])) for x in xs],
                "succ": [sum(1 for iv in o["intervals"].get(str(x), []) if iv[3] == "end") for x in xs],
                "adopted": survivors}
        if "launched2" in model:
            real["launched2"] = sorted(tapl)
        tapa = o.get("tap", {}).get("adopted3" if multi else "adopted2")
        if model != real:
            ctx.disagree({"real": case, "log": o.get("log"), "tap": o.get("tap")}, model, real,
                         "restart model (canonical schedule with the same crash point) and the real runs differ")
        else:
            ctx.traces_validated += 1
            ctx.count("real_model", "accepted")
            if tapa is not None and sorted(tapa) != model["adopted"]:
                ctx.notes.append(f"diagnostic tap: adopted {tapa} vs model {model['adopted']} in {case['dag']}/{case['phase']}/{case['signal']}")


# ---------------------------------------------------------------------------------------- check interface


def prove(ctx):
    from ..translate import psstatus
    m = psstatus.generate(common.REPO, common.LEAN)
    ctx.notes.append(f"translator(psstatus: statuses PsutilProcess treats as alive): {m[1]}")
    # the job-side protocol read from the source (Generated/RunnerSrc.lean, obligations Properties/C10Src.lean) belongs to this property too
    from ..translate import runsrc
    _ok, msg, _info = runsrc.generate(common.REPO, common.LEAN)
    ctx.notes.append(f"translator(runsrc): {msg}")
    _sched.prove(ctx, MODULES + ["XpmVerif.Properties.C10Src"], extra_msgs=[m])


def correspond(ctx):
    ctx.rule = RULE
    ctx.assumptions += [
        "OS facts, trusted and sampled by the real runs: job processes survive the death of the scheduler; the lock file (flock) is released when its holder dies and admits one holder; no pid reuse between the two runs",
        "the restart engine simulates job processes with the rules of Disk.procStep (wait for the run lock, marker test, body, marker, exit); the real job processes appear in part (2)",
        "tokens of the engine are in-memory (reset by a crash); file-based tokens appear in part (2) only",
        "asyncio: FIFO ready queue; thread interleavings inside one coroutine segment are not explored",
    ]
    engine_part(ctx)
    real_part(ctx)


def search(ctx):
    t0 = time.time()
    base = 9_000_000 + ctx.seed * 100_000
    with mp.Pool(min(16, mp.cpu_count())) as pool:
        k = 0
        while time.time() - t0 < ctx.scale(40, 300) and not ctx.monitor_failures:
            for seed, spec, ev, obs, q, fails in pool.map(_engine_one, [base + k * 400 + i for i in range(400)], chunksize=8):
                for key, what in fails:
                    ctx.monitor_fail(key, f"{what} [restart engine; workload {json.dumps(spec)}; seed {seed}]", {"engine": True, "workload": spec, "events": ev, "seed": seed})
            k += 1


def _replay_case(ctx, c):
    """(key, what) list for a stored case on the current tree"""
    if c.get("engine"):
        from ..impl import restart_eng
        obs, fails = restart_eng.run_replay(c["workload"], c["events"])
        return fails
    if "real" in c:
        o = run_worker_cases(ctx, "restart", [c["real"]], parallel=1, timeout=600)[0]
        return multikill_monitor(c["real"], o) if c["real"].get("kills", 1) >= 2 else real_monitor(c["real"], o)
    return []


def run_witness(ctx, finding):
    w = finding.get("witness")
    if not w:
        return
    if "real" in w and finding["id"] in _WITNESS_OBS:
        fails = real_monitor(w["real"], _WITNESS_OBS[finding["id"]])
    else:
        fails = _replay_case(ctx, w)
    for key, what in fails:
        ctx.monitor_fail(key, f"{what} [witness of {finding['id']}]", w)


def replay(ctx, obj):
    rc = 0
    for f in obj.get("failures", []):
        fails = _replay_case(ctx, f.get("case", {}))
        print("replay:", fails[:2] if fails else "no failure on this tree")
        if fails:
            rc = 1
            print(f"VIOLATION property={PROP} replay=(replayed)")
    return rc
