"""C17 over submission histories: random histories (construct / set / copy_dependencies / submit with task outputs and init
tasks, several submissions sharing sub-configurations) on the real experimaestro in DRY_RUN; prints what the Lean driver
(Drive/C17.lean, model Model/GenPathHist.lean) needs and what was observed: every generated attribute with the job directory it
lies in, the sealed flags and the task links.
usage: python -m xv.impl.c17hist N SEED out.json"""
import sys, json, random, tempfile, logging, io, contextlib
from pathlib import Path
from typing import Optional, List, Dict
from experimaestro import Task, Config, Param, Meta, PathGenerator, field, LightweightTask
from experimaestro.scheduler.workspace import RunMode
from experimaestro import experiment

logging.disable(logging.CRITICAL)


class Base(Config):
    pass


class Leaf(Base):
    v: Param[int] = 0
    p: Meta[Path] = field(default_factory=PathGenerator("f.txt"))


class Mid(Base):
    v: Param[int] = 0
    m: Param[Optional[Base]]
    a: Param[Base]
    l: Param[List[Base]] = []
    d: Param[Dict[str, Base]] = {}
    p: Meta[Path] = field(default_factory=PathGenerator("g.txt"))
    q: Meta[Path] = field(default_factory=PathGenerator("h.txt"))


class Init(LightweightTask):
    v: Param[int] = 0
    x: Param[Optional[Base]]
    p: Meta[Path] = field(default_factory=PathGenerator("i.txt"))

    def execute(self):
        pass


class T(Base, Task):
    v: Param[int] = 0
    m: Param[Optional[Base]]
    a: Param[Base]
    l: Param[List[Base]] = []
    d: Param[Dict[str, Base]] = {}
    dir: Meta[Path] = field(default_factory=PathGenerator("out"))

    def task_outputs(self, dep):
        return self._outs(dep)

    def execute(self):
        pass


GENS = {Leaf: [["p", "f.txt"]], Mid: [["p", "g.txt"], ["q", "h.txt"]], Init: [["p", "i.txt"]], T: [["dir", "out"]]}
ORDER = {Leaf: ["v"], Init: ["v", "x"], Mid: ["v", "m", "a", "l", "d"], T: ["v", "m", "a", "l", "d"]}


def cls_of(o):
    return next(c for c in (T, Mid, Init, Leaf) if isinstance(o, c))


stats = {"late": 0, "sealedroot": 0}


def run_history(rng, wsdir, uid):
    objs = []  # python objects, index = model id
    present = []  # per object: list of present argument names (declaration order)
    ops = []
    submitted = set()

    def ident(o):
        return next(i for i, x in enumerate(objs) if x is o)

    def jval(v):
        if v is None:
            return None
        if isinstance(v, Config):
            return {"r": ident(v)}
        if isinstance(v, list):
            return {"l": [jval(x) for x in v]}
        if isinstance(v, dict):
            return {"d": [[k, jval(x)] for k, x in v.items()]}
        return {"s": 1}

    def register(o):
        objs.append(o)
        cls = cls_of(o)
        vals = o.__xpm__.values
        names = [n for n in ORDER[cls] if n in vals]
        present.append(names)
        ops.append({"op": "construct", "node": {"args": [[n, jval(vals[n])] for n in names], "gens": GENS[cls]}})
        return o

    def pick_bases(k):
        cands = [o for o in objs if isinstance(o, Base)]
        return [rng.choice(cands) for _ in range(k)] if cands else []

    def rand_value(name):
        if name in ("m", "a"):
            c = pick_bases(1)
            return c[0] if c else None
        if name == "l":
            return pick_bases(rng.randint(0, 3))
        if name == "d":
            ks = rng.sample(["k", "k 1", "z", "0", "out", "a.b"], rng.randint(0, 3))
            return {k: b for k in ks for b in pick_bases(1)}

    def new_obj():
        uid[0] += 1
        bases = [o for o in objs if isinstance(o, Base)]
        kind = rng.choice(["leaf", "leaf", "mid", "t", "t"]) if bases else "leaf"
        if kind == "leaf":
            return register(Leaf(v=uid[0]))
        kw = {"v": uid[0]}
        for n in ("m", "l", "d"):
            if rng.random() < 0.6:
                v = rand_value(n)
                if v is not None:
                    kw[n] = v
        if rng.random() < 0.8:
            kw["a"] = rand_value("a")
        return register((Mid if kind == "mid" else T)(**kw))

    with experiment(wsdir, "x%d" % uid[0], run_mode=RunMode.DRY_RUN) as xp:
        jobs = Path(xp.workspace.path) / "jobs"
        register(Leaf(v=uid[0]))
        for _ in range(rng.randint(10, 30)):
            r = rng.random()
            if r < 0.30:
                new_obj()
            elif r < 0.45:
                # set a parameter (possibly on a sealed object: rejected)
                cands = [i for i, o in enumerate(objs) if isinstance(o, (Mid, T))]
                if not cands:
                    continue
                i = rng.choice(cands)
                o = objs[i]
                name = rng.choice(["m", "a", "l", "d"])
                v = rand_value(name)
                if v is None:
                    continue
                # keep the graph acyclic: only older objects
                def older(x):
                    if isinstance(x, Config):
                        return ident(x) < i
                    if isinstance(x, list):
                        return all(older(y) for y in x)
                    if isinstance(x, dict):
                        return all(older(y) for y in x.values())
                    return True
                if not older(v):
                    continue
                names = present[i]
                pos = len([n for n in names if ORDER[cls_of(o)].index(n) < ORDER[cls_of(o)].index(name)])
                ops.append({"op": "set", "n": i, "k": name, "v": jval(v), "pos": pos})
                try:
                    setattr(o, name, v)
                    if name not in names:
                        names.insert(pos, name)
                except AttributeError:
                    assert o.__xpm__._sealed
            elif r < 0.52:
                cands = [i for i, o in enumerate(objs) if o.__xpm__.task is None]
                srcs = [i for i, o in enumerate(objs)]
                if cands and srcs:
                    c, o = rng.choice(cands), rng.choice(srcs)
                    objs[c].copy_dependencies(objs[o])
                    ops.append({"op": "copydeps", "c": c, "o": o})
            else:
                def complete(o, seen):
                    if id(o) in seen:
                        return True
                    seen.add(id(o))
                    if isinstance(o, (Mid, T)) and "a" not in o.__xpm__.values:
                        return False
                    def sub(x):
                        if isinstance(x, Config):
                            return complete(x, seen)
                        if isinstance(x, list):
                            return all(sub(y) for y in x)
                        if isinstance(x, dict):
                            return all(sub(y) for y in x.values())
                        return True
                    return all(sub(x) for x in o.__xpm__.values.values())
                cands = [i for i, o in enumerate(objs) if isinstance(o, T) and i not in submitted and complete(o, set())]
                if not cands:
                    continue
                sealed_c = [c for c in cands if objs[c].__xpm__._sealed]
                i = rng.choice(sealed_c) if sealed_c and rng.random() < 0.8 else rng.choice(cands)
                t = objs[i]
                inits = []
                if rng.random() < 0.5:
                    olds = [o for o in objs if isinstance(o, Init)]
                    inits = [rng.choice(olds) for _ in range(rng.randint(0, 2))] if olds else []
                    if rng.random() < 0.7:
                        uid[0] += 1
                        bs = [rng.choice([o for o in objs if isinstance(o, Leaf)])]  # no cycle through init tasks (updatedependencies loops)
                        kw = {"v": uid[0]}
                        if bs and rng.random() < 0.6:
                            kw["x"] = bs[0]
                        inits.insert(rng.randint(0, len(inits)), register(Init(**kw)))
                stats["late"] += bool(t.__xpm__._sealed and any(not x.__xpm__._sealed for x in inits))
                stats["sealedroot"] += bool(t.__xpm__._sealed)
                # task outputs: marks existing non-task objects and/or a fresh object
                marks = [o for o in objs if not isinstance(o, (Task,)) and not isinstance(o, Init) and rng.random() < 0.2]
                fresh = rng.random() < 0.5
                outs = [ident(o) for o in marks]
                if fresh:
                    uid[0] += 1
                    # the fresh output is constructed by task_outputs (after sealing): nothing reaches it before
                    fr = [None]

                    def _outs(dep, marks=marks, fr=fr, u=uid[0]):
                        for o in marks:
                            dep(o)
                        fr[0] = Leaf(v=u)
                        return dep(fr[0])
                    t._outs = _outs
                else:
                    def _outs(dep, marks=marks):
                        for o in marks:
                            dep(o)
                        return None
                    t._outs = _outs
                if fresh:
                    # model: construct before the submit op (unreachable from anything)
                    ph = Leaf(v=uid[0])
                    register(ph)
                    outs.append(len(objs) - 1)
                with contextlib.redirect_stderr(io.StringIO()):
                    t.submit(init_tasks=inits)
                if fresh:
                    objs[-1] = fr[0]
                submitted.add(i)
                ops.append({"op": "submit", "root": i, "init": [ident(x) for x in inits], "outs": outs})
        # observed state
        jobpaths = {i: Path(objs[i].__xpm__.job.path) for i in submitted}
        got = []
        for i, o in enumerate(objs):
            if not o.__xpm__._sealed:
                continue
            for arg, _ in GENS[cls_of(o)]:
                pth = Path(getattr(o, arg))
                owner = [j for j, jp in jobpaths.items() if pth == jp or jp in pth.parents]
                if len(owner) != 1:
                    # the attribute lies in the directory of no (or of several) submitted task(s): an observation about the code
                    # under test (reported by the monitor of props/c17.py `histories`), not a failure of the worker
                    got.append([-1, i, arg, ["<in the directory of %d submitted tasks>" % len(owner)] + list(pth.parts[-4:])])
                    continue
                got.append([owner[0], i, arg, list(pth.relative_to(jobpaths[owner[0]]).parts)])
        state = {"sealed": [bool(o.__xpm__._sealed) for o in objs],
                 "task": [None if o.__xpm__.task is None else ident(o.__xpm__.task) for o in objs]}
    return {"enc": "esc", "nodes": [], "ops": ops}, got, state


def main():
    n, seed = int(sys.argv[1]), sys.argv[2]
    rng = random.Random(f"c17hist-{seed}")
    uid = [0]
    out = []
    with tempfile.TemporaryDirectory(prefix="xv-c17hist-") as d:
        for k in range(n):
            before = dict(stats)
            inp, got, state = run_history(rng, d, uid)
            out.append({"input": inp, "got": got, "state": state,
                        "late_init_tasks": stats["late"] - before["late"], "sealed_roots": stats["sealedroot"] - before["sealedroot"]})
    Path(sys.argv[3]).write_text(json.dumps(out))


if __name__ == "__main__":
    main()
