import XpmVerif.Proofs.ValidateX
import XpmVerif.Properties.C15
import XpmVerif.Properties.C15Mro
/-! C15 — the property theorems for the extended model (`Model/ValidateX.lean`): `Argument.checker` (e.g.
    `Choices`), user `__validate__` hooks, task-valued parameters.  Each theorem of `Properties/C15.lean` that
    mentions `setArg`, `validateFrom`, `submit` or `hstep` is re-proved here for `setArgX`, `validateFromX`,
    `submitX`, `hstepX`; the base model is the special case "no checker, hooks that never raise". -/
namespace XpmVerif.C15
open XpmVerif.Validate

/-! ## First sentence with checkers -/

/-- **"Assigning a parameter either stores a value of the declared type … or raises", with a checker**: what
    `ConfigInformation.set` → `Argument.validate` stores is a member of the declared type (or `None` for a
    non-required argument) *and* — unless it is that `None` — is accepted by the argument's checker.  A checker
    never makes an assignment succeed that the type alone refuses. -/
theorem setX_sound (I : Impl) (a : ArgX) (v w : PyVal)
    (hU : I.unionDictNone = false ∨ a.decl.ty.unionFree = true) (hC : I.cfgNoneOk = false ∨ a.decl.ty.cfgFree = true)
    (h : setArgX I a v = .ok w) :
    (conforms a.decl.ty w = true ∨ (w = .none ∧ a.decl.required = false)) ∧
    (w = .none ∨ ∀ c, a.checker = some c → c.check w = true) ∧ setArg I a.decl v = .ok w :=
  ⟨set_sound I a.decl v w hU hC (setArgX_ok h).1, (setArgX_ok h).2, (setArgX_ok h).1⟩

/-- **"a conforming value reads back equal", with a checker**: a member of the declared type (statement's
    grammar) that the checker accepts is stored unchanged; `None` where the argument is not required. -/
theorem setX_conforming_id (I : Impl) (a : ArgX) (hw : a.decl.generator = false ∧ a.decl.constant = false)
    (hU : a.decl.ty.unionFree = true) (v : PyVal) (hc : conforms a.decl.ty v = true) (hn : v = .none → a.decl.required = false)
    (hk : ∀ c, a.checker = some c → c.check v = true) :
    setArgX I a v = .ok v ∧ pyEq v v = true :=
  ⟨setArgX_of_setArg (set_conforming_id I a.decl hw hU v hc hn).1 hk, pyEq_refl v⟩

/-- a conforming value that the checker refuses is *not* stored (`ValueError`): `Choices` is enforced -/
theorem setX_checker_refuses (I : Impl) (a : ArgX) (c : Chk) (hc : a.checker = some c) (v w : PyVal)
    (hv : v ≠ .none) (hk : c.check w = false) : setArgX I a v ≠ .ok w := by
  intro h
  rcases (setArgX_ok h).2 with h0 | h1
  · subst h0
    unfold setArgX at h
    by_cases hg : (a.decl.generator || a.decl.constant) = true
    · simp [hg] at h
    · simp only [hg, if_false, Bool.false_eq_true] at h
      cases v with
      | none => exact hv rfl
      | _ =>
        have := (argValidate_ok h).2 c hc
        rw [hk] at this
        cases this
  · have := h1 c hc
    rw [hk] at this
    cases this

/-- without a checker the extended assignment is the base one -/
theorem setX_no_checker (I : Impl) (a : ArgDecl) (v : PyVal) : setArgX I { decl := a } v = setArg I a v := by
  have key : ∀ v', argValidate I { decl := a } v' = validate I a.ty.stripOpt v' := by
    intro v'
    unfold argValidate
    cases validate I a.ty.stripOpt v' <;> rfl
  unfold setArgX setArg
  simp only
  split
  · rfl
  · cases v <;> first | rfl | exact key _

/-! ## Second sentence with hooks -/

/-- **"A task with a required parameter missing anywhere in its parameter graph is rejected", with hooks**:
    when a node reachable from the submitted task (through values, lists, dicts, nested configurations,
    pre-tasks, init tasks) misses a required value *or its `__validate__` hook raises*, the validation does not
    succeed, whatever the hooks of the other nodes do. -/
theorem validateX_finds_bad (I : Impl) (hI : I.deepValidate = true) (H : Hooks) (g : Graph) (root n : Nat)
    (hr : Reach (allSuccs g) root n) (hm : nodeBad H g n = true) : validateGraphX I H g root ≠ .ok := by
  intro hok
  rw [← succs_deep I hI g] at hr
  have := (validateFromX_ok_spec I H g [] (flagsOkX_nil I H g) root hok).1 n hr
  rw [hm] at this
  cases this

/-- **"… before any job is registered", with hooks** -/
theorem submitX_rejects_bad (I : Impl) (hI : I.deepValidate = true) (H : Hooks) (g : Graph) (s : Sched) (root n : Nat)
    (hr : Reach (allSuccs g) root n) (hm : nodeBad H g n = true) :
    (submitX I H g s root).1 ≠ .ok ∧ (submitX I H g s root).2 = s := by
  have h := validateX_finds_bad I hI H g root n hr hm
  unfold submitX
  cases hv : validateGraphX I H g root <;> simp_all

/-- hooks that never raise: the extended walk is the base walk (the base theorems are the special case) -/
theorem validateX_no_hooks (I : Impl) (g : Graph) (vis : List Nat) (root : Nat) :
    validateFromX I (fun _ _ => false) g vis root = validateFrom I g vis root := by
  have : nodeItemsX I.deepValidate (fun _ _ => false) g = nodeItems I.deepValidate g := by
    funext n
    unfold nodeItemsX hookFails
    cases g.nodes[n]? <;> simp
  unfold validateFromX validateFrom validateWith
  rw [this]

/-- an accepted validation had no bad node along the walk, and the flags it leaves are trustworthy; a rejected one
    (missing value *or hook*) leaves the flags as they were when failed validations clear their flags -/
theorem validateX_history_sound (I : Impl) (H : Hooks) (g : Graph) (vis : List Nat) (hinv : FlagsOkX I H g vis) (root : Nat) :
    ((validateFromX I H g vis root).1 = .ok →
        (∀ n, Reach (succs I g) root n → nodeBad H g n = false) ∧ FlagsOkX I H g (validateFromX I H g vis root).2) ∧
    (I.resetOnFail = true → (validateFromX I H g vis root).1 ≠ .ok → (validateFromX I H g vis root).2 = vis) := by
  refine ⟨validateFromX_ok_spec I H g vis hinv root, fun hI h => ?_⟩
  unfold validateFromX at h ⊢
  rw [hI] at h ⊢
  exact validateWith_reset h

/-- **`history_sound` for the extension**: every history of assignments (validated by type *and checker*) and
    submit attempts (validation *with hooks*) over shared objects, tasks as parameter values included: every
    accepted `submit` had no node with a missing required value or a raising hook reachable along the walk at
    that moment; the registry only changes by an accepted `submit`, which adds exactly the submitted task. -/
theorem historyX_sound (I : Impl) (C : Checkers) (H : Hooks) (hI : I.resetOnFail = true) (s : HState) (ops : List HOp)
    (h0 : FlagsOkX I H s.g s.flags) (hadm : AdmissibleX I C H s ops) :
    ∀ t ∈ hrunX I C H s ops,
      (∀ n, t.2.1 = .submit n → t.2.2 = .accepted → ∀ m, Reach (succs I t.1.g) n m → nodeBad H t.1.g m = false) ∧
      (t.2.2 ≠ .accepted → (hstepX I C H t.1 t.2.1).2.registry = t.1.registry) ∧
      (∀ n, t.2.1 = .submit n → t.2.2 = .accepted → (hstepX I C H t.1 t.2.1).2.registry = n :: t.1.registry) :=
  hrunX_sound I C H hI ops s h0 hadm

/-- **`history_rejects_missing` for the extension**: at any point of a history, a `submit` of a task from which a
    node with a missing required value or a raising hook is reachable is not accepted and leaves the registry as
    it was. -/
theorem historyX_rejects_bad (I : Impl) (C : Checkers) (H : Hooks) (hD : I.deepValidate = true) (s : HState)
    (h0 : FlagsOkX I H s.g s.flags) (n m : Nat) (hr : Reach (allSuccs s.g) n m) (hm : nodeBad H s.g m = true) :
    (hstepX I C H s (.submit n)).1 ≠ .accepted ∧ (hstepX I C H s (.submit n)).2.registry = s.registry := by
  have hs := hstepX_sound I C H s (.submit n) h0 (by intro _ _ _ h; cases h)
  have hna : (hstepX I C H s (.submit n)).1 ≠ .accepted := by
    intro ha
    have := hs.2.1 n rfl ha m (by rw [succs_deep I hD]; exact hr)
    rw [hm] at this
    cases this
  exact ⟨hna, hs.2.2.1 hna⟩

/-- an assignment stored by a history went through the type *and* the checker of its argument, and a task given as
    a value went through `submit()` before -/
theorem historyX_assign_checked (I : Impl) (C : Checkers) (H : Hooks) (s : HState) (n k : Nat) (v : PyVal)
    (h : (hstepX I C H s (.assign n k v)).1 = .stored) :
    ∃ nd a w, s.g.nodes[n]? = some nd ∧ (s.g.args nd.cls)[k]? = some a ∧
      setArgX I { decl := a, checker := C nd.cls k } v = .ok w ∧ unsubmitted s.g.tasks s.jobAttr a.ty w = false ∧
      (hstepX I C H s (.assign n k v)).2.g = s.g.setVal n k w := by
  simp only [hstepX] at h ⊢
  split at h
  · simp at h
  · rename_i hsl
    split at h
    · simp at h
    · rename_i nd hnd
      split at h
      · simp at h
      · rename_i a ha
        split at h
        · simp at h
        · simp at h
        · rename_i w hw
          split at h
          · simp at h
          · rename_i hu
            refine ⟨nd, a, w, hnd, ha, hw, by simpa using hu, ?_⟩
            simp [hsl, hnd, ha, hw, hu]

/-! ## Hooks that assign -/

/-- (lemma) giving a configuration-free value to an argument that is not required and had none does not change what the
    loop of `_validate` does -/
theorem argsItems_set_missing (d : Bool) : ∀ (as : List ArgDecl) (vs : List (Option PyVal)) (k : Nat) (a : ArgDecl) (w : PyVal),
    as[k]? = some a → (a.required && !a.generator) = false → valMissing vs k = true → refs d w = [] →
    argsItems d as (vs.set k (some w)) = argsItems d as vs
  | [], _, k, a, w, h, _, _, _ => by simp at h
  | a0 :: as, [], k, a, w, _, _, _, _ => by simp
  | a0 :: as, v :: vs, 0, a, w, h, hr, hm, hw => by
    simp only [List.getElem?_cons_zero, Option.some.injEq] at h
    subst h
    simp only [valMissing, List.getElem?_cons_zero] at hm
    simp only [List.set_cons_zero, argsItems]
    congr 1
    cases v with
    | none => cases w <;> simp_all [argItems]
    | some pv => cases pv <;> cases w <;> simp_all [argItems]
  | a0 :: as, v :: vs, k + 1, a, w, h, hr, hm, hw => by
    simp only [List.getElem?_cons_succ] at h
    simp only [List.set_cons_succ, argsItems]
    rw [argsItems_set_missing d as vs k a w h hr (by simpa [valMissing] using hm) hw]

/-- **Hooks that complete a configuration**: an assignment (by a `__validate__` hook, or by anybody) of a value that
    holds no configuration to an argument that is not required (or has a generator) and had no value changes neither the
    missing-value test nor the edges of any node: the validation walk — outcome and flags — is the same before and
    after, so the model may let the walk ignore such assignments. -/
theorem completing_assignment_preserves_walk (d : Bool) (g : Graph) (n k : Nat) (nd : Node) (a : ArgDecl) (w : PyVal)
    (hn : g.nodes[n]? = some nd) (ha : (g.args nd.cls)[k]? = some a) (hr : (a.required && !a.generator) = false)
    (hm : valMissing nd.vals k = true) (hw : refs d w = []) :
    ∀ m, nodeItems d (g.setVal n k w) m = nodeItems d g m := by
  intro m
  by_cases hmn : m = n
  · subst hmn
    have hlt : m < g.nodes.length := by
      rcases Nat.lt_or_ge m g.nodes.length with h | h
      · exact h
      · rw [List.getElem?_eq_none h] at hn; cases hn
    simp only [Graph.setVal, hn, nodeItems, Graph.args, List.getElem?_set_self hlt]
    simp only [Graph.args] at ha
    rw [argsItems_set_missing d _ nd.vals k a w ha hr hm hw]
  · exact nodeItems_setVal_ne d g n k w m hmn

/-! ### witnesses (the hypotheses are satisfiable, the extension is not vacuous) -/

/-- `x: Annotated[int, Choices([1, 2, 3])]`: 2 and the integral float 2.0 (coerced first) are stored, 5 is refused
    although it is an `int`, `"a"` is refused by the type -/
example :
    setArgX Impl.repaired { decl := { ty := .int }, checker := some (.choices [.int 1, .int 2, .int 3]) } (.int 2) = .ok (.int 2) ∧
    setArgX Impl.repaired { decl := { ty := .int }, checker := some (.choices [.int 1, .int 2, .int 3]) } (.float (.fin false 1 1)) = .ok (.int 2) ∧
    setArgX Impl.repaired { decl := { ty := .int }, checker := some (.choices [.int 1, .int 2, .int 3]) } (.int 5) = .error .invalid ∧
    setArgX Impl.repaired { decl := { ty := .int }, checker := some (.choices [.int 1, .int 2, .int 3]) } (.str "a") = .error .invalid :=
  ⟨rfl, rfl, rfl, rfl⟩

/-- the graph `gDirect` with a hook on class 1 that raises when `x` (first argument) is the integer 3: the complete
    graph is then rejected by the hook of the reachable node 1, and accepted when the hook is content -/
def hook3 : Hooks := fun c vals => c == 1 && (match vals with | some (.int 3) :: _ => true | _ => false)

theorem hook_witness :
    nodeMissing (gDirect (some (.int 3))) 1 = false ∧ nodeBad hook3 (gDirect (some (.int 3))) 1 = true ∧
    validateGraphX Impl.repaired hook3 (gDirect (some (.int 3))) 0 = .missing ∧
    (submitX Impl.repaired hook3 (gDirect (some (.int 3))) {} 0).2.jobs = [] ∧
    validateGraphX Impl.repaired hook3 (gDirect (some (.int 4))) 0 = .ok ∧
    (submitX Impl.repaired hook3 (gDirect (some (.int 4))) {} 0).2.jobs = [0] := by decide

/-! ### non-vacuity of the named hypotheses `FlagsOkX` / `AdmissibleX` (audit round 8, item 6): a history with a hook (class 1 refuses `x = 3`) and a
    checker (`Choices([3, 4])` on the first argument of class 1) over the graph `gDirect`: a refused value, a stored value the hook rejects at
    submission, a corrected value, an accepted submission -/
def chk34 : Checkers := fun c k => if c == 1 && k == 0 then some (.choices [.int 3, .int 4]) else none
def sX : HState := { g := gDirect none }
def opsX : List HOp := [.assign 1 0 (.int 5), .assign 1 0 (.int 3), .submit 0, .assign 1 0 (.float (.fin false 1 2)), .submit 0]

theorem sX_flagsOkX : FlagsOkX Impl.repaired hook3 sX.g sX.flags := by intro m hm; cases hm

theorem opsX_admissibleX : AdmissibleX Impl.repaired chk34 hook3 sX opsX := by
  simp only [opsX, AdmissibleX]
  refine ⟨?_, ?_, ?_, ?_, ?_, trivial⟩ <;> (intro n k v h; cases h <;> decide)

example := historyX_sound Impl.repaired chk34 hook3 (by decide) sX opsX sX_flagsOkX opsX_admissibleX
example : (hrunX Impl.repaired chk34 hook3 sX opsX).map (·.2.2) ≠ [] := by decide

end XpmVerif.C15
