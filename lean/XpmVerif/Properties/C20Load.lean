import XpmVerif.Proofs.DeprecatedLoad
import XpmVerif.Proofs.SerialGen2
/-! C20 (with C12 / C01) — the loop through the loader closed inside the model.

    The recomputed location of a job directory is no longer an input of the jobs-tree model: it is *derived*
    (`recompute`) from the `params.json` the run wrote (`paramsOf` = `Serial.serialize`), loaded with
    `Serial.fromParameters` under the class library of the *current* class table (`libOf`: a deprecated class carries
    its replacement's type identifier, `eff`), and identified with `Ident.fullId`.  The marker files of a job
    directory and `alias_job_files` are part of the model (`FS`, `aliasFiles`, `fixTreeF`); the scheduler's done
    test is `doneTest` (`Job.donepath.exists()` through the directory link and the aliases). -/
namespace XpmVerif.C20
open XpmVerif.Ident XpmVerif.Serial XpmVerif.Deprecated

/-- **The recomputed location is the replacement's identifier** ("yields … the identifier its replacement would
    yield", through the loader).  A run writes `params.json` for the job of `root` under the class table `cs0`; classes
    are deprecated afterwards (table `cs1`: *any* table, at any depth of the graph, chains included); `fix_deprecated`
    loads the file under `cs1` and recomputes: the result is the type identifier and the full identifier of the job
    spelled with the replacement classes (`replaced`: every node re-classed to the non-deprecated class at the end of
    its chain) — for every hash function.  Hypotheses: those of C12's `reload_identifier` (well-formed graph; the
    classes of the needed nodes are in the library with the nodes' declarations; meta flags / init tasks restored by
    the source or absent; default objects written). -/
theorem recompute_is_replacement_identifier {D : Type} (hc : HC D) (fl : Flags) (infos : List ClassInfo)
    (cs0 cs1 : List ClassDecl) (nodes : List CNode) (root : Nat)
    (hwf : WF (CGraph.toGraph ⟨cs1, nodes⟩)) (hr : root < nodes.length)
    (hok : ∀ n, Needed (CGraph.toGraph ⟨cs1, nodes⟩) [root] n → NodeOk (libOf cs1 infos) (sgraphOf infos ⟨cs1, nodes⟩) n)
    (hm : (fl.metaWriteAll = true ∧ fl.metaReadAll = true) ∨
      ∀ n, Needed (CGraph.toGraph ⟨cs1, nodes⟩) [root] n → ((CGraph.toGraph ⟨cs1, nodes⟩).node n).mflag ≠ some false)
    (hi : fl.initRestored = true ∨
      ∀ n, Needed (CGraph.toGraph ⟨cs1, nodes⟩) [root] n → ((CGraph.toGraph ⟨cs1, nodes⟩).node n).initTasks = [])
    (hdn : DefaultsNeeded (CGraph.toGraph ⟨cs1, nodes⟩) [root]) :
    recompute hc fl cs1 infos nodes.length (paramsOf fl infos ⟨cs0, nodes⟩ root)
      = some (replacementLoc hc ⟨cs1, nodes⟩ root) := by
  rw [recompute_paramsOf hc fl infos cs0 cs1 nodes root hwf hr hok hm hi hdn]
  have h : (reclassWith (ultimate cs1) (fun _ => true) (⟨cs1, nodes⟩ : CGraph)).toGraph = (⟨cs1, nodes⟩ : CGraph).toGraph :=
    toGraph_reclassWith _ _ ⟨cs1, nodes⟩ (eff_ultimate cs1)
  simp only [replacementLoc, replaced, eff_ultimate, cFullId, h]

/-- the `params.json` a run writes does not depend on which classes are deprecated (it holds class names, not
    type identifiers): written before or after the deprecation, the file is the same. -/
theorem params_independent_of_deprecation (fl : Flags) (infos : List ClassInfo) (cs0 cs1 : List ClassDecl)
    (nodes : List CNode) (root : Nat) :
    paramsOf fl infos ⟨cs0, nodes⟩ root = paramsOf fl infos ⟨cs1, nodes⟩ root :=
  paramsOf_tables fl infos cs0 cs1 nodes root

/-- **fix_reaches_replacement_identifier** ("makes every job directory stored under a former identifier reachable
    under the new one").  For every graph whose task class — or any class at any depth — was deprecated after the run:
    if the directory `k` holds the `params.json` of that run (its `Params` is *derived* from the file), the enumeration
    visits it and nothing else claims the location, then after `--fix` (with or without `--cleanup`, any enumeration
    orders, any tree) the location `jobs/<new type id>/<identifier of the graph under the replacement classes>`
    resolves to the directory with the data of the old run. -/
theorem fix_reaches_replacement_identifier {D : Type} (hc : HC D) (fl : Flags) (infos : List ClassInfo)
    (cs0 cs1 : List ClassDecl) (nodes : List CNode) (root : Nat) (intern : List Nat × D → Key)
    (cl : Bool) (ks1 ks2 : List Key) (t : Tree) (k : Key) (d : Nat)
    (hwf : WF (CGraph.toGraph ⟨cs1, nodes⟩)) (hr : root < nodes.length)
    (hok : ∀ n, Needed (CGraph.toGraph ⟨cs1, nodes⟩) [root] n → NodeOk (libOf cs1 infos) (sgraphOf infos ⟨cs1, nodes⟩) n)
    (hm : (fl.metaWriteAll = true ∧ fl.metaReadAll = true) ∨
      ∀ n, Needed (CGraph.toGraph ⟨cs1, nodes⟩) [root] n → ((CGraph.toGraph ⟨cs1, nodes⟩).node n).mflag ≠ some false)
    (hi : fl.initRestored = true ∨
      ∀ n, Needed (CGraph.toGraph ⟨cs1, nodes⟩) [root] n → ((CGraph.toGraph ⟨cs1, nodes⟩).node n).initTasks = [])
    (hdn : DefaultsNeeded (CGraph.toGraph ⟨cs1, nodes⟩) [root])
    (hk : t k = some (.dir d (derivedParams intern hc fl cs1 infos nodes.length (paramsOf fl infos ⟨cs0, nodes⟩ root))))
    (hne : (intern (replacementLoc hc ⟨cs1, nodes⟩ root)).2 ≠ k.2) (hmem : k ∈ ks2)
    (hu : Unclaimed k (intern (replacementLoc hc ⟨cs1, nodes⟩ root)) t) :
    ∃ r, resolve (fixTree true cl ks1 ks2 t) depth (intern (replacementLoc hc ⟨cs1, nodes⟩ root)) = some r ∧
      ∃ p, fixTree true cl ks1 ks2 t r = some (.dir d p) := by
  have hrc := recompute_is_replacement_identifier hc fl infos cs0 cs1 nodes root hwf hr hok hm hi hdn
  simp only [derivedParams, hrc] at hk
  obtain ⟨r, h1, h2⟩ := good_resolves (run_reachable_exact cl ks1 ks2 t k d _ hk hne hmem hu)
  exact ⟨r, h1, _, h2⟩

/-- **the clean-up's rewritten `params.json` keeps the location** (`--fix --cleanup` writes
    `job.__xpm__.__get_objects__([], …)` of the *loaded* job back before renaming the directory; the jobs-tree model
    keeps the `Params` of the moved directory): loading the run's file under `cs1`, writing the loaded graph again
    (`reloadTwice`: `regraph`) and loading that second file gives a graph whose recomputed identifier is still the
    identifier of the job under the replacement classes — a later run of the command sees the moved directory as up to date. -/
theorem cleanup_rewrite_keeps_identifier {D : Type} (hc : HC D) (fl : Flags) (infos : List ClassInfo)
    (cs1 : List ClassDecl) (nodes : List CNode) (root : Nat)
    (hwf : WF (CGraph.toGraph ⟨cs1, nodes⟩)) (hr : root < nodes.length)
    (hok : ∀ n, Needed (CGraph.toGraph ⟨cs1, nodes⟩) [root] n → NodeOk (libOf cs1 infos) (sgraphOf infos ⟨cs1, nodes⟩) n)
    (hm : (fl.metaWriteAll = true ∧ fl.metaReadAll = true) ∨
      ∀ n, Needed (CGraph.toGraph ⟨cs1, nodes⟩) [root] n → ((CGraph.toGraph ⟨cs1, nodes⟩).node n).mflag ≠ some false)
    (hi : fl.initRestored = true ∨
      ∀ n, Needed (CGraph.toGraph ⟨cs1, nodes⟩) [root] n → ((CGraph.toGraph ⟨cs1, nodes⟩).node n).initTasks = [])
    (hdn : DefaultsNeeded (CGraph.toGraph ⟨cs1, nodes⟩) [root]) :
    ∃ L1 defs2 L2, reloadTwice fl (libOf cs1 infos) (sgraphOf infos ⟨cs1, nodes⟩) [root] = .ok (L1, defs2, L2) ∧
      fullId hc (toGraph L2 nodes.length) root = (replacementLoc hc ⟨cs1, nodes⟩ root).2 := by
  have hsz : (sgraphOf infos ⟨cs1, nodes⟩).g.size = nodes.length := by simp [sgraphOf, toGraph_size_nodes]
  have hr' : root < (sgraphOf infos ⟨cs1, nodes⟩).g.size := by rw [hsz]; exact hr
  obtain ⟨L1, defs2, L2, h1, h2⟩ := reloadTwice_fullId hc fl (libOf cs1 infos) (sgraphOf infos ⟨cs1, nodes⟩) root hwf hr' hok hm hi hdn
  refine ⟨L1, defs2, L2, h1, ?_⟩
  have h : (reclassWith (ultimate cs1) (fun _ => true) (⟨cs1, nodes⟩ : CGraph)).toGraph = (⟨cs1, nodes⟩ : CGraph).toGraph :=
    toGraph_reclassWith _ _ ⟨cs1, nodes⟩ (eff_ultimate cs1)
  rw [← hsz, h2]
  simp only [replacementLoc, replaced, cFullId, h, sgraphOf]

/-- the file-level repair (`fixTreeF`, driven by the decision function `action` that is regenerated from the source)
    has `fixTree` as its tree component: every theorem of C20 part (b) holds for it. -/
theorem file_level_repair_is_fixTree (fx cl : Bool) (nm : Nat → Nat) (ks1 ks2 : List Key) (s : Tree × FS) :
    (fixTreeF fx cl nm ks1 ks2 s).1 = fixTree fx cl ks1 ks2 s.1 :=
  fixTreeF_fst fx cl nm ks1 ks2 s

/-- "it never deletes job data", marker files: whatever file of whatever directory exists (through aliases) before
    the command exists afterwards — all flags, trees, enumeration orders. -/
theorem fix_never_hides_a_marker_file (fx cl : Bool) (nm : Nat → Nat) (ks1 ks2 : List Key) (s : Tree × FS)
    (d f n sfx : Nat) (h : fexists s.2 d f n sfx = true) :
    fexists (fixTreeF fx cl nm ks1 ks2 s).2 d f n sfx = true :=
  foldl_step2F_mono fx cl nm d f n sfx ks2 _ h

/-- **resubmission_finds_result** ("so that resubmitting finds the existing result").  After `--fix` (with or
    without `--cleanup`), the scheduler's done test for the job resubmitted under its new identifier — `Job.donepath`
    = `jobs/<new type>/<new identifier>/<last component of the new type>.done`, followed through the link of the
    directory and the aliases `alias_job_files` creates — is true, also when the task was *renamed*.
    Hypotheses: the directory `k` of the finished run recomputes to `nk ≠ k`, is visited (`ks2 = a ++ k :: b`, first
    visit), nothing else claims `nk`; when the command reaches `k` (state after the prefix `a`) the old `.done` marker
    exists through fewer than 40 aliases and no dangling alias squats `<new name>.done`. -/
theorem resubmission_finds_result (cl : Bool) (nm : Nat → Nat) (ks1 a b : List Key) (t : Tree) (fs : FS)
    (k : Key) (d : Nat) (nk : Key)
    (hk : t k = some (.dir d (.ok nk))) (hne : nk.2 ≠ k.2) (hn : k ∉ a) (hu : Unclaimed k nk t)
    (hdone : fexists (a.foldl (step2F true cl nm) (phase1 cl ks1 t, fs)).2 d (depth - 1) (nm k.1) 0 = true)
    (hnd : fIsLink (a.foldl (step2F true cl nm) (phase1 cl ks1 t, fs)).2 d (nm nk.1) 0 = true →
      fexists (a.foldl (step2F true cl nm) (phase1 cl ks1 t, fs)).2 d depth (nm nk.1) 0 = true) :
    doneTest nm (fixTreeF true cl nm ks1 (a ++ k :: b) (t, fs)).1 (fixTreeF true cl nm ks1 (a ++ k :: b) (t, fs)).2 nk = true := by
  have hg : Good k d nk (fixTree true cl ks1 (a ++ k :: b) t) :=
    run_reachable_exact cl ks1 (a ++ k :: b) t k d nk hk hne (by simp) hu
  obtain ⟨r, hr1, hr2⟩ := good_resolves hg
  rw [fixTreeF_fst]
  simp only [doneTest, dataAt, hr1, hr2]
  -- the marker files: state when the command reaches `k`
  simp only [fixTreeF, List.foldl_append, List.foldl_cons]
  apply foldl_step2F_mono
  generalize hsa : a.foldl (step2F true cl nm) (phase1 cl ks1 t, fs) = sa at hdone hnd
  have hta : sa.1 = a.foldl (step2 true cl) (phase1 cl ks1 t) := by rw [← hsa, foldl_step2F_fst]
  have hu1 : Unclaimed k nk (phase1 cl ks1 t) := by
    unfold phase1; split
    · exact foldl_inv (Unclaimed k nk) _ (fun b a => step1_unclaimed b a) _ _ hu
    · exact hu
  have hks : sa.1 k = some (.dir d (.ok nk)) := by
    rw [hta]; exact foldl_step2_dir_stays true cl hn (phase1_dir hk)
  have hus : Unclaimed k nk sa.1 := by rw [hta]; exact foldl_step2_unclaimed true cl hn hu1
  obtain ⟨ta, fsa⟩ := sa
  rw [step2F_snd_at cl nm ta fsa k d nk hks hne hus]
  exact aliasFiles_done _ _ _ _ hdone hnd

/-! non-vacuity: class 1 (`[79]`, task "old") deprecated in favour of class 0 (`[78]`, "new") after the run; the run's
    `params.json` names class 1; reloaded under the new table it recomputes to the identifier of the graph with class 0. -/
def infosW : List ClassInfo :=
  [{ name := [78], args := [{ name := [120], value := .none }] }, { name := [79], args := [{ name := [120], value := .none }] }]
def csBefore : List ClassDecl := [{ ownId := [110] }, { ownId := [111] }]
def csAfter : List ClassDecl := [{ ownId := [110] }, { ownId := [111], deprecatedOf := some 0 }]
def nodesW : List CNode := [{ cls := 1, args := [{ name := [120], value := .int 3 }] }]
def flW : Flags := { metaWriteAll := true, metaReadAll := true, initRestored := true }
def hcW : HC (List Nat) := { H := id, emb := id, le := bytesLe }

example : recompute hcW flW csAfter infosW 1 (paramsOf flW infosW ⟨csBefore, nodesW⟩ 0)
      = some (replacementLoc hcW ⟨csAfter, nodesW⟩ 0)
    ∧ (replacementLoc hcW ⟨csAfter, nodesW⟩ 0).1 = [110]
    ∧ recompute hcW flW csBefore infosW 1 (paramsOf flW infosW ⟨csBefore, nodesW⟩ 0)
      ≠ recompute hcW flW csAfter infosW 1 (paramsOf flW infosW ⟨csBefore, nodesW⟩ 0) := by decide

/-- a renamed task: directory `(0, 0)` (type 0, script name 7) recomputes to `(1, 5)` (type 1, script name 8); its
    `.done` marker is a regular file `7.done`.  After `--fix` the done test at `(1, 5)` looks for `8.done` and finds
    it (through the link and the alias); before the repair it does not. -/
def fsW : FS := fun d n s => if d = 1 ∧ n = 7 ∧ s = 0 then some .real else none
def nmW : Nat → Nat := fun ty => if ty = 0 then 7 else 8
def tR : Tree := ofList [((0, 0), .dir 1 (.ok (1, 5)))]

example : doneTest nmW tR fsW (1, 5) = false
    ∧ doneTest nmW (fixTreeF true false nmW [] [(0, 0)] (tR, fsW)).1 (fixTreeF true false nmW [] [(0, 0)] (tR, fsW)).2 (1, 5) = true
    ∧ doneTest nmW (fixTreeF true true nmW [] [(0, 0)] (tR, fsW)).1 (fixTreeF true true nmW [] [(0, 0)] (tR, fsW)).2 (1, 5) = true := by
  decide

/-! ### non-vacuity of the named hypotheses `WF`, `DefaultsNeeded`, `Unclaimed` (audit round 8, item 6) -/

/-- a deprecated task (class 1) holding a nested configuration (node 1, class 0) -/
def nodesN : List CNode := [{ cls := 1, args := [{ name := [120], value := .ref 1 }] }, { cls := 0, args := [{ name := [120], value := .int 3 }] }]

theorem nodesN_WF : WF (CGraph.toGraph ⟨csAfter, nodesN⟩) := by
  intro n hn m hm
  have h2 : n = 0 ∨ n = 1 := by
    have : (CGraph.toGraph ⟨csAfter, nodesN⟩).size = 2 := by decide
    omega
  rcases h2 with rfl | rfl
  · have : succAll (CGraph.toGraph ⟨csAfter, nodesN⟩) 0 = [1] := by decide
    rw [this] at hm; simp at hm; subst hm; decide
  · have : succAll (CGraph.toGraph ⟨csAfter, nodesN⟩) 1 = [] := by decide
    rw [this] at hm; cases hm

theorem nodesN_defaultsNeeded : DefaultsNeeded (CGraph.toGraph ⟨csAfter, nodesN⟩) [0] := by
  intro n _ m hm
  have h : ∀ k, nodeDfltRefs ((CGraph.toGraph ⟨csAfter, nodesN⟩).node k) = [] := by
    intro k
    match k with
    | 0 => decide
    | 1 => decide
    | k + 2 => first | rfl | (simp [Graph.node, CGraph.toGraph, nodesN, nodeDfltRefs]; done) | (unfold Graph.node; simp [CGraph.toGraph, nodesN]; rfl)
  rw [h n] at hm; cases hm

theorem tR_unclaimed : Unclaimed (0, 0) (1, 5) tR := by
  refine ⟨.inl (by decide), ?_⟩
  intro j d' h
  unfold tR ofList at h
  simp only [List.find?] at h
  split at h
  · rename_i heq; simp at heq; exact heq.symm
  · simp at h

end XpmVerif.C20
