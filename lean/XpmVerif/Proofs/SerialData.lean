import XpmVerif.Model.SerialData
import XpmVerif.Proofs.SerialLoad
/-! Data paths through `save` / `load` and tags through `params.json` (Model/SerialData.lean): names are collision-free,
    the graph written into a save directory has the shape of the original one, the loaded graph holds the relocated
    paths, every relocated path names a file with the content of the original. -/
namespace XpmVerif.Serial
open XpmVerif.Ident

/-! ### names -/


theorem dec_no_slash (n : Nat) : slash ∉ dec n := by
  intro h
  simp only [dec, List.mem_map] at h
  obtain ⟨c, hc, hs⟩ := h
  have hd := Nat.isDigit_of_mem_toDigits (b := 10) (by decide) (by decide) hc
  simp only [Char.isDigit, Bool.and_eq_true, decide_eq_true_eq] at hd
  have : c.toNat = 47 := hs
  have h1 : c.val.toNat = 47 := this
  have h2 : (48 : UInt32) ≤ c.val := hd.1
  rw [UInt32.le_iff_toNat_le] at h2
  simp at h2
  omega

theorem dec_inj {n m : Nat} (h : dec n = dec m) : n = m := by
  have hinj : Function.Injective Char.toNat := by
    intro a b hab
    exact Char.ext (UInt32.toNat_inj.1 hab)
  have mapinj : ∀ (l1 l2 : List Char), l1.map Char.toNat = l2.map Char.toNat → l1 = l2 := by
    intro l1
    induction l1 with
    | nil => intro l2 h; cases l2 <;> simp_all
    | cons a r ih =>
      intro l2 h
      cases l2 with
      | nil => simp at h
      | cons b r2 =>
        simp only [List.map_cons, List.cons.injEq] at h
        rw [hinj h.1, ih r2 h.2]
  have h' : Nat.toDigits 10 n = Nat.toDigits 10 m := mapinj _ _ h
  have := congrArg (fun l => Nat.ofDigitChars 10 l 0) h'
  simpa [Nat.ofDigitChars_ten_toDigits] using this

/-! ### lists, finite maps -/


theorem split_at_slash : ∀ (l1 l2 a b : List Nat), slash ∉ l1 → slash ∉ l2 →
    l1 ++ slash :: a = l2 ++ slash :: b → l1 = l2 ∧ a = b
  | [], [], a, b, _, _, h => by simpa using h
  | [], y :: l2, a, b, _, h2, h => by
    simp only [List.nil_append, List.cons_append, List.cons.injEq] at h
    exact absurd h.1 (fun e => h2 (e ▸ List.mem_cons_self))
  | x :: l1, [], a, b, h1, _, h => by
    simp only [List.nil_append, List.cons_append, List.cons.injEq] at h
    exact absurd h.1 (fun e => h1 (e ▸ List.mem_cons_self))
  | x :: l1, y :: l2, a, b, h1, h2, h => by
    simp only [List.cons_append, List.cons.injEq] at h
    have := split_at_slash l1 l2 a b (fun m => h1 (List.mem_cons_of_mem _ m)) (fun m => h2 (List.mem_cons_of_mem _ m)) h.2
    exact ⟨by rw [h.1, this.1], this.2⟩

theorem inDir_inj {base r r' : List Nat} (h : inDir base r = inDir base r') : r = r' := by
  simpa [inDir] using h

theorem posOf_inj : ∀ (l : List Nat) {n m : Nat}, n ∈ l → m ∈ l → posOf l n = posOf l m → n = m
  | [], _, _, hn, _, _ => by cases hn
  | x :: xs, n, m, hn, hm, h => by
    simp only [posOf] at h
    by_cases h1 : n = x <;> by_cases h2 : m = x
    · rw [h1, h2]
    · simp [h1, h2] at h
    · simp [h1, h2] at h
    · simp only [h1, h2, if_false, Nat.add_right_cancel_iff] at h
      have hn' : n ∈ xs := by simpa [h1] using hn
      have hm' : m ∈ xs := by simpa [h2] using hm
      exact posOf_inj xs hn' hm' h

/-- a key bound to one value only is found with that value -/
theorem fsGet_of_mem_unique : ∀ (fs : FS) (p : List Nat) (c : Nat), (p, c) ∈ fs →
    (∀ c', (p, c') ∈ fs → c' = c) → fsGet fs p = some c
  | [], _, _, h, _ => by cases h
  | (q, d) :: r, p, c, h, hu => by
    simp only [fsGet]
    by_cases hpq : p = q
    · subst hpq
      simp only [if_true]
      rw [hu d List.mem_cons_self]
    · simp only [hpq, if_false]
      have hm : (p, c) ∈ r := by
        rcases List.mem_cons.1 h with e | e
        · exact absurd (congrArg Prod.fst e) hpq
        · exact e
      exact fsGet_of_mem_unique r p c hm (fun c' hc' => hu c' (List.mem_cons_of_mem _ hc'))

theorem fsGet_append_of_mem (a b : FS) (p : List Nat) (c : Nat) (h : fsGet a p = some c) : fsGet (a ++ b) p = some c := by
  induction a with
  | nil => simp [fsGet] at h
  | cons x r ih =>
    obtain ⟨q, d⟩ := x
    simp only [List.cons_append, fsGet] at h ⊢
    by_cases hpq : p = q
    · simpa [hpq] using h
    · simp only [hpq, if_false] at h ⊢
      exact ih h

/-! ### the graph written into a save directory -/


theorem renameArg_name (dfl : DFlags) (data : List (List Nat)) (pos : Nat) (a : Arg) :
    (renameArg dfl data pos a).name = a.name := by
  unfold renameArg; split <;> rfl

theorem renameArg_reset (dfl : DFlags) (data : List (List Nat)) (pos : Nat) (a : Arg) :
    reset (renameArg dfl data pos a) = reset a := by
  unfold renameArg; split <;> rfl

theorem renameArg_flags (dfl : DFlags) (data : List (List Nat)) (pos : Nat) (a : Arg) :
    (renameArg dfl data pos a).required = a.required ∧ (renameArg dfl data pos a).default = a.default := by
  unfold renameArg; split <;> exact ⟨rfl, rfl⟩

theorem renameArg_refs (dfl : DFlags) (data : List (List Nat)) (pos : Nat) (a : Arg) :
    cfgRefs (renameArg dfl data pos a).value = cfgRefs a.value := by
  unfold renameArg
  split
  · next h => simp only [h, cfgRefs]
  · rfl

theorem cfgRefsL_rename (dfl : DFlags) (data : List (List Nat)) (pos : Nat) : ∀ (l : List Arg),
    cfgRefsL ((l.map (renameArg dfl data pos)).map (·.value)) = cfgRefsL (l.map (·.value))
  | [] => rfl
  | a :: r => by
    simp only [List.map_cons, cfgRefsL]
    rw [renameArg_refs, cfgRefsL_rename dfl data pos r]

/-- the node of the graph written into a save directory -/
def savedNode (dfl : DFlags) (lib : List Cls) (sg : SGraph) (order : List Nat) (n : Nat) : Node :=
  let nd := sg.g.node n
  if order.contains n then
    { nd with args := nd.args.map (renameArg dfl (dataNames lib sg n) (posOf order n)) }
  else nd

theorem savedGraph_size (dfl : DFlags) (lib : List Cls) (sg : SGraph) (order : List Nat) :
    (savedGraph dfl lib sg order).g.size = sg.g.size := by
  simp [savedGraph, Graph.size]

theorem savedGraph_node (dfl : DFlags) (lib : List Cls) (sg : SGraph) (order : List Nat) (n : Nat) :
    (savedGraph dfl lib sg order).g.node n = savedNode dfl lib sg order n := by
  by_cases hn : n < sg.g.size
  · simp only [savedGraph, Graph.node, List.getD_eq_getElem?_getD]
    rw [List.getElem?_map, List.getElem?_range (by simpa [Graph.size] using hn)]
    rfl
  · have hd : sg.g.node n = { typeId := [], args := [] } := by
      simp only [Graph.node, List.getD_eq_getElem?_getD]
      rw [List.getElem?_eq_none (by simpa [Graph.size] using hn)]; rfl
    have : (savedGraph dfl lib sg order).g.node n = { typeId := [], args := [] } := by
      simp only [savedGraph, Graph.node, List.getD_eq_getElem?_getD]
      rw [List.getElem?_eq_none (by simpa [Graph.size] using hn)]; rfl
    rw [this]
    unfold savedNode
    simp only [hd]
    split <;> rfl

theorem savedGraph_succAll (dfl : DFlags) (lib : List Cls) (sg : SGraph) (order : List Nat) :
    succAll (savedGraph dfl lib sg order).g = succAll sg.g := by
  funext n
  simp only [succAll, savedGraph_node, argRefs]
  unfold savedNode
  by_cases h : order.contains n = true
  · simp only [h, if_true, cfgRefsL_rename]
  · simp only [h, if_false, Bool.false_eq_true]

theorem savedGraph_order (dfl : DFlags) (lib : List Cls) (sg : SGraph) (order roots : List Nat) :
    serialOrder (savedGraph dfl lib sg order).g roots = serialOrder sg.g roots := by
  simp only [serialOrder, savedGraph_succAll, savedGraph_size]

theorem savedGraph_wf (dfl : DFlags) (lib : List Cls) (sg : SGraph) (order : List Nat) (hwf : WF sg.g) :
    WF (savedGraph dfl lib sg order).g := by
  intro n hn m hm
  rw [savedGraph_size] at hn ⊢
  rw [savedGraph_succAll] at hm
  exact hwf n hn m hm

theorem savedGraph_needed (dfl : DFlags) (lib : List Cls) (sg : SGraph) (order roots : List Nat) (n : Nat) :
    Needed (savedGraph dfl lib sg order).g roots n ↔ Needed sg.g roots n := by
  simp only [Needed, savedGraph_succAll]

theorem savedGraph_nodeOk (dfl : DFlags) (lib : List Cls) (sg : SGraph) (order : List Nat) (n : Nat)
    (hok : NodeOk lib sg n) : NodeOk lib (savedGraph dfl lib sg order) n := by
  have hcls : (savedGraph dfl lib sg order).cls n = sg.cls n := rfl
  obtain ⟨c, hc, hty, hargs⟩ := hok.cls
  constructor
  · refine ⟨c, by rw [hcls]; exact hc, ?_, ?_⟩
    · rw [savedGraph_node]; unfold savedNode; split <;> exact hty
    · rw [savedGraph_node]; unfold savedNode
      split
      · simp only [List.map_map]
        rw [hargs]
        apply List.map_congr_left
        intro a _
        exact (renameArg_reset _ _ _ a).symm
      · exact hargs
  · rw [savedGraph_node]; unfold savedNode
    split
    · simp only [List.map_map]
      have : ((fun x : Arg => x.name) ∘ renameArg dfl (dataNames lib sg n) (posOf order n)) = (fun x => x.name) := by
        funext a; exact renameArg_name _ _ _ a
      rw [this]; exact hok.names
    · exact hok.names
  · rw [savedGraph_node]; unfold savedNode
    split
    · intro a ha hreq
      obtain ⟨a0, ha0, rfl⟩ := List.mem_map.1 ha
      have := renameArg_flags dfl (dataNames lib sg n) (posOf order n) a0
      rw [this.2]
      exact hok.req a0 ha0 (this.1 ▸ hreq)
    · exact hok.req

/-! ### relocation, copies -/


/-- what `save` then `load(base)` make of an argument -/
def placedArg (dfl : DFlags) (base : List Nat) (data : List (List Nat)) (pos : Nat) (a : Arg) : Arg :=
  match data.contains a.name, a.value with
  | true, .path _ => { a with value := .path (inDir base (paramName dfl pos a.name)) }
  | _, _ => a

theorem relName_eq (dfl : DFlags) (h : dfl.nameByParam = true) (pos : Nat) (arg src : List Nat) :
    relName dfl pos arg src = paramName dfl pos arg := by
  simp only [relName, h, if_true]

theorem relocate_rename (dfl : DFlags) (hN : dfl.nameByParam = true) (base : List Nat) (data : List (List Nat)) (pos : Nat) (a : Arg) :
    relocateArg base data (renameArg dfl data pos a) = placedArg dfl base data pos a := by
  obtain ⟨name, ig, gen, cst, req, dflt, value⟩ := a
  cases hd : data.contains name <;> cases value <;> simp only [renameArg, relocateArg, placedArg, hd, relName_eq dfl hN]

theorem relocate_id (base : List Nat) (data : List (List Nat)) (a : Arg)
    (h : ∀ s, data.contains a.name = true → a.value ≠ .path s) : relocateArg base data a = a := by
  unfold relocateArg
  split
  · next h1 h2 => exact absurd h2 (h _ h1)
  · rfl

theorem lookupObj_map (f : LObj → LObj) (n : Nat) : ∀ (L : Loaded),
    lookupObj n (L.map (fun p => (p.1, f p.2))) = (lookupObj n L).map f
  | [] => rfl
  | (k, o) :: r => by
    simp only [List.map_cons, lookupObj]
    split
    · rfl
    · exact lookupObj_map f n r

theorem mem_copiesOfArgs (dfl : DFlags) (fs : FS) (data : List (List Nat)) (pos : Nat) (x : List Nat × Nat) :
    ∀ (args : List Arg), x ∈ copiesOfArgs dfl fs data pos args ↔
      ∃ a ∈ args, data.contains a.name = true ∧ ∃ s, a.value = .path s ∧ x = (relName dfl pos a.name s, (fsGet fs s).getD 0)
  | [] => by simp [copiesOfArgs]
  | a :: r => by
    have ih := mem_copiesOfArgs dfl fs data pos x r
    unfold copiesOfArgs
    split
    · next h1 h2 =>
      simp only [List.mem_cons, ih]
      constructor
      · rintro (h | ⟨a', ha', h⟩)
        · exact ⟨a, Or.inl rfl, h1, _, h2, h⟩
        · exact ⟨a', Or.inr ha', h⟩
      · rintro ⟨a', (rfl | ha'), hd, s, hs, hx⟩
        · left
          rw [h2] at hs
          cases hs
          exact hx
        · exact Or.inr ⟨a', ha', hd, s, hs, hx⟩
    · next hne =>
      rw [ih]
      constructor
      · rintro ⟨a', ha', h⟩; exact ⟨a', List.mem_cons_of_mem _ ha', h⟩
      · rintro ⟨a', ha', hd, s, hs, hx⟩
        rcases List.mem_cons.1 ha' with rfl | ha'
        · exact absurd hs (hne s hd)
        · exact ⟨a', ha', hd, s, hs, hx⟩

theorem eq_of_name_nodup : ∀ (l : List Arg), (l.map (·.name)).Nodup → ∀ a ∈ l, ∀ b ∈ l, a.name = b.name → a = b
  | [], _, a, ha, _, _, _ => by cases ha
  | x :: r, hnd, a, ha, b, hb, hab => by
    simp only [List.map_cons, List.nodup_cons, List.mem_map, not_exists, not_and] at hnd
    rcases List.mem_cons.1 ha with rfl | ha' <;> rcases List.mem_cons.1 hb with rfl | hb'
    · rfl
    · exact absurd hab.symm (hnd.1 b hb')
    · exact absurd hab (hnd.1 a ha')
    · exact eq_of_name_nodup r hnd.2 a ha' b hb' hab

theorem paramName_inj (dfl : DFlags) (h : dfl.perObject = true) {i j : Nat} {a b : List Nat}
    (e : paramName dfl i a = paramName dfl j b) : i = j ∧ a = b := by
  simp only [paramName, h, if_true] at e
  obtain ⟨h1, h2⟩ := split_at_slash _ _ _ _ (dec_no_slash i) (dec_no_slash j) e
  exact ⟨dec_inj h1, h2⟩

/-- two data values of emitted configurations are stored under one file only if they are the same argument of the
    same configuration -/
theorem saved_distinct (dfl : DFlags) (hN1 : dfl.perObject = true) (order base : List Nat) {n n' : Nat} {a a' : List Nat}
    (hn : n ∈ order) (hn' : n' ∈ order)
    (h : inDir base (paramName dfl (posOf order n) a) = inDir base (paramName dfl (posOf order n') a')) : n = n' ∧ a = a' := by
  obtain ⟨h1, h2⟩ := paramName_inj dfl hN1 (inDir_inj h)
  exact ⟨posOf_inj order hn hn' h1, h2⟩

/-- the file stored for a data value holds the content of the original -/
theorem saved_content (dfl : DFlags) (lib : List Cls) (sg : SGraph) (fs : FS) (order base : List Nat)
    (hN1 : dfl.perObject = true) (hN : dfl.nameByParam = true) (hnames : ∀ n ∈ order, ((sg.g.node n).args.map (·.name)).Nodup)
    {n : Nat} {a : Arg} {s : List Nat} {c : Nat} (hn : n ∈ order) (ha : a ∈ (sg.g.node n).args)
    (hd : (dataNames lib sg n).contains a.name = true) (hs : a.value = .path s) (hc : fsGet fs s = some c) :
    fsGet (dirOf (copies dfl lib sg fs order)) (paramName dfl (posOf order n) a.name) = some c ∧
    fsGet (fsAfter base fs (copies dfl lib sg fs order)) (inDir base (paramName dfl (posOf order n) a.name)) = some c := by
  have hmem : (paramName dfl (posOf order n) a.name, c) ∈ copies dfl lib sg fs order := by
    refine List.mem_flatMap.2 ⟨n, hn, (mem_copiesOfArgs _ _ _ _ _ _).2 ⟨a, ha, hd, s, hs, ?_⟩⟩
    rw [hc, relName_eq dfl hN]; rfl
  have huniq : ∀ c', (paramName dfl (posOf order n) a.name, c') ∈ copies dfl lib sg fs order → c' = c := by
    intro c' h'
    obtain ⟨n', hn', hx⟩ := List.mem_flatMap.1 h'
    obtain ⟨a', ha', hd', s', hs', hx'⟩ := (mem_copiesOfArgs _ _ _ _ _ _).1 hx
    rw [relName_eq dfl hN] at hx'
    obtain ⟨hk, hv⟩ := Prod.mk.inj hx'
    obtain ⟨hp, hname⟩ := paramName_inj dfl hN1 hk
    have hnn : n = n' := posOf_inj order hn hn' hp
    subst hnn
    have haa : a = a' := eq_of_name_nodup _ (hnames n hn) a ha a' ha' hname
    subst haa
    rw [hs] at hs'
    cases hs'
    rw [hv, hc]; rfl
  have h1 : fsGet (dirOf (copies dfl lib sg fs order)) (paramName dfl (posOf order n) a.name) = some c :=
    fsGet_of_mem_unique _ _ _ (List.mem_reverse.2 hmem) (fun c' h' => huniq c' (List.mem_reverse.1 h'))
  refine ⟨h1, ?_⟩
  apply fsGet_append_of_mem
  apply fsGet_of_mem_unique
  · exact List.mem_map.2 ⟨(_, c), List.mem_reverse.2 hmem, rfl⟩
  · intro c' h'
    obtain ⟨⟨k, c''⟩, hk, he⟩ := List.mem_map.1 h'
    obtain ⟨he1, he2⟩ := Prod.mk.inj he
    have : k = paramName dfl (posOf order n) a.name := inDir_inj he1
    subst this
    exact he2 ▸ huniq c'' (List.mem_reverse.1 hk)

/-- `load(dir)` of what `save(v, dir)` wrote: the value, and at every needed configuration the original with its data
    paths placed in the directory -/
theorem loadSaved_save (fl : Flags) (dfl : DFlags) (lib : List Cls) (sg : SGraph) (fs : FS) (v : Val) (base : List Nat)
    (hN2 : dfl.loadForwards = true) (hN : dfl.nameByParam = true)
    (hwf : WF sg.g) (hr : ∀ r ∈ cfgRefs v, r < sg.g.size)
    (hok : ∀ n, Needed sg.g (cfgRefs v) n → NodeOk lib sg n) :
    ∃ L, loadSaved fl dfl lib base (save fl dfl lib sg fs v) = .ok (L, v) ∧
      ∀ n, Needed sg.g (cfgRefs v) n →
        lookupObj n L = some
          { cname := sg.cls n,
            node := { reloadNode fl (sg.g.node n) with
                      args := ((sg.g.node n).args.map
                        (placedArg dfl base (dataNames lib sg n) (posOf (serialOrder sg.g (cfgRefs v)) n))) } } := by
  let order := serialOrder sg.g (cfgRefs v)
  let sg' := savedGraph dfl lib sg order
  have hr' : ∀ r ∈ cfgRefs v, r < sg'.g.size := by
    intro r h; rw [savedGraph_size]; exact hr r h
  obtain ⟨L0, hl, _, hn⟩ := fromStateDict_stateDict fl lib sg' v (savedGraph_wf dfl lib sg order hwf) hr'
    (fun n h => savedGraph_nodeOk dfl lib sg order n (hok n ((savedGraph_needed dfl lib sg order _ n).1 h)))
  obtain ⟨_, hiff, _, _⟩ := serialOrder_spec sg.g (cfgRefs v) hwf hr
  have hsave : ((save fl dfl lib sg fs v).defs, (save fl dfl lib sg fs v).data) = stateDict fl lib sg' v := rfl
  refine ⟨L0.map (fun p => (p.1, relocateObj lib base p.2)), ?_, ?_⟩
  · unfold loadSaved
    rw [hsave, hl]
    simp [hN2]
  · intro n hneed
    have hmem : n ∈ order := (hiff n).2 hneed
    have hmem' : n ∈ serialOrder sg'.g (cfgRefs v) := by
      rw [savedGraph_order]; exact hmem
    rw [lookupObj_map, hn n hmem']
    have hc : order.contains n = true := by simpa using hmem
    have hnode : sg'.g.node n = { sg.g.node n with
        args := ((sg.g.node n).args.map (renameArg dfl (dataNames lib sg n) (posOf order n))) } := by
      rw [savedGraph_node]; unfold savedNode; simp only [hc, if_true]
    simp only [Option.map_some, relocateObj, hnode, reloadNode, List.map_map]
    simp only [Option.some.injEq, LObj.mk.injEq, Node.mk.injEq, true_and, and_true]
    refine ⟨rfl, ?_⟩
    apply List.map_congr_left
    intro a _
    exact relocate_rename dfl hN base (dataNames lib sg n) (posOf order n) a

/-! ### tags -/

theorem setTag_scalar : ∀ (t : Tags) (k : List Nat) (v : Val), (∀ x ∈ t, isScalar x.2 = true) → isScalar v = true →
    ∀ x ∈ setTag t k v, isScalar x.2 = true
  | [], k, v, _, hv, x, hx => by
    simp only [setTag, List.mem_singleton] at hx; subst hx; exact hv
  | (k', v') :: r, k, v, ht, hv, x, hx => by
    simp only [setTag] at hx
    split at hx
    · rcases List.mem_cons.1 hx with rfl | h
      · exact hv
      · exact ht x (List.mem_cons_of_mem _ h)
    · rcases List.mem_cons.1 hx with rfl | h
      · exact ht _ List.mem_cons_self
      · exact setTag_scalar r k v (fun y hy => ht y (List.mem_cons_of_mem _ hy)) hv x h

theorem updTags_scalar : ∀ (new acc : Tags), (∀ x ∈ acc, isScalar x.2 = true) → (∀ x ∈ new, isScalar x.2 = true) →
    ∀ x ∈ updTags acc new, isScalar x.2 = true
  | [], acc, ha, _ => by simpa [updTags] using ha
  | (k, v) :: r, acc, ha, hn => by
    simp only [updTags]
    exact updTags_scalar r (setTag acc k v)
      (setTag_scalar acc k v ha (hn (k, v) List.mem_cons_self))
      (fun y hy => hn y (List.mem_cons_of_mem _ hy))

theorem collectTags_scalar (g : Graph) (tg : Nat → Tags) (root : Nat)
    (h : ∀ n, ∀ x ∈ tg n, isScalar x.2 = true) : ∀ x ∈ collectTags g tg root, isScalar x.2 = true := by
  unfold collectTags
  generalize tagOrder g root = l
  have : ∀ (l : List Nat) (acc : Tags), (∀ x ∈ acc, isScalar x.2 = true) →
      ∀ x ∈ l.foldl (fun acc n => updTags acc (tg n)) acc, isScalar x.2 = true := by
    intro l
    induction l with
    | nil => intro acc ha; simpa using ha
    | cons n r ih => intro acc ha; exact ih _ (updTags_scalar (tg n) acc ha (h n))
  exact this l [] (by simp)

theorem cfgRefsL_scalar : ∀ (l : List Val), (∀ v ∈ l, isScalar v = true) → cfgRefsL l = []
  | [], _ => rfl
  | v :: r, h => by
    have hv := h v List.mem_cons_self
    have : cfgRefs v = [] := by cases v <;> simp_all [isScalar, cfgRefs]
    simp only [cfgRefsL, this, List.nil_append]
    exact cfgRefsL_scalar r (fun w hw => h w (List.mem_cons_of_mem _ hw))

theorem zip_fst_snd : ∀ (t : Tags), (t.map (·.1)).zip (t.map (·.2)) = t
  | [] => rfl
  | x :: r => by simp only [List.map_cons, List.zip_cons_cons, zip_fst_snd r]

theorem decTags_encTags (t : Tags) (h : ∀ x ∈ t, isScalar x.2 = true) : decTags (encTags t) = .ok t := by
  have hs : ∀ v ∈ t.map (·.2), isScalar v = true := by
    intro v hv
    obtain ⟨x, hx, rfl⟩ := List.mem_map.1 hv
    exact h x hx
  have hd := decJs_encJs [] (t.map (·.2)) (by rw [cfgRefsL_scalar _ hs]; intro m hm; cases hm)
  simp only [encTags, decTags, hd, zip_fst_snd]

/-! ### the tags of the task itself win -/

theorem getTag_setTag_same : ∀ (t : Tags) (k : List Nat) (v : Val), getTag (setTag t k v) k = some v
  | [], k, v => by simp [setTag, getTag]
  | (k', v') :: r, k, v => by
    by_cases h : k = k'
    · simp [setTag, getTag, h]
    · simp only [setTag, h, if_false, getTag]
      exact getTag_setTag_same r k v

theorem getTag_setTag_other : ∀ (t : Tags) (k k' : List Nat) (v : Val), k ≠ k' → getTag (setTag t k' v) k = getTag t k
  | [], k, k', v, h => by simp [setTag, getTag, h]
  | (k'', v'') :: r, k, k', v, h => by
    by_cases h1 : k' = k''
    · subst h1
      simp [setTag, getTag, h]
    · simp only [setTag, h1, if_false, getTag]
      by_cases h2 : k = k''
      · simp [h2]
      · simp only [h2, if_false]
        exact getTag_setTag_other r k k' v h

theorem getTag_updTags_not_mem : ∀ (new acc : Tags) (k : List Nat), k ∉ new.map (·.1) → getTag (updTags acc new) k = getTag acc k
  | [], acc, k, _ => rfl
  | (k', v') :: r, acc, k, h => by
    simp only [List.map_cons, List.mem_cons, not_or] at h
    simp only [updTags]
    rw [getTag_updTags_not_mem r _ k h.2, getTag_setTag_other acc k k' v' h.1]

/-- `dict.update` with a dictionary: afterwards every key of it has its value -/
theorem getTag_updTags_of_mem : ∀ (new acc : Tags) (k : List Nat) (v : Val), (new.map (·.1)).Nodup → (k, v) ∈ new →
    getTag (updTags acc new) k = some v
  | [], _, _, _, _, h => by cases h
  | (k', v') :: r, acc, k, v, hnd, h => by
    simp only [List.map_cons, List.nodup_cons] at hnd
    simp only [updTags]
    rcases List.mem_cons.1 h with e | e
    · obtain ⟨rfl, rfl⟩ := Prod.mk.inj e
      rw [getTag_updTags_not_mem r _ k hnd.1, getTag_setTag_same]
    · exact getTag_updTags_of_mem r _ k v hnd.2 e

theorem succTags_wf (g : Graph) (hwf : WF g) : ∀ n, n < g.size → ∀ m ∈ succTags g n, m < g.size := by
  intro n hn m hm
  apply hwf n hn m
  simp only [succTags, succAll, List.mem_append] at hm ⊢
  rcases hm with ((h | h) | h) | h
  · exact Or.inl (Or.inl (Or.inl h))
  · exact Or.inl (Or.inr h)
  · exact Or.inr h
  · exact Or.inl (Or.inl (Or.inr h))

theorem tagOrder_last (g : Graph) (root : Nat) (hwf : WF g) (hr : root < g.size) :
    ∃ before, tagOrder g root = before ++ [root] := by
  obtain ⟨mid, seen', e⟩ :=
    dfs_root_last (succTags g) g.size (succTags_wf g hwf) (g.size + 1) root [] [] hr (unseen_nil_lt g.size) (by simp)
  refine ⟨exitsOf mid, ?_⟩
  simp only [tagOrder, e, List.nil_append, exitsOf_wrap]

theorem collectTags_own (g : Graph) (tg : Nat → Tags) (root : Nat) (hwf : WF g) (hr : root < g.size)
    (hnd : ((tg root).map (·.1)).Nodup) (k : List Nat) (v : Val) (h : (k, v) ∈ tg root) :
    getTag (collectTags g tg root) k = some v := by
  obtain ⟨before, e⟩ := tagOrder_last g root hwf hr
  simp only [collectTags, e, List.foldl_append, List.foldl_cons, List.foldl_nil]
  exact getTag_updTags_of_mem _ _ k v hnd h

end XpmVerif.Serial
