"""Worker (C04, real API, real job processes): one experiment whose jobs go through different launchers.

usage: python -m xv.impl.c04x_launch_worker <in.json> <out.json>
in:  {"root": scratch dir, "deadline": seconds,
      "case": {"jobs": [{"cls": "S"|"SO", "launcher": "direct"|"slurm", "outcome": "ok"|"fail"|"overrun", "ups": [[position, j]]}],
               "slurm": {"interval": s, "pending": a, "completing": c, "steps": bool, "fail_state": str, "kill_state": str, "limit": s[, "suspended": n]}}}
     position of the upstream task j (j < index) in the parameters: "a" | "items" | "h.inner" (task value) | "os" | "h.out" (task output,
     only when job j is of class SO; falls back to "items" otherwise)
out: {"log": [[k, "begin"|"end-success"|"end-failure"], ...]     the shared log of the job processes, in order
      "states": [final state name of each job], "exit": "ok"|<exception class>, "hang": bool,
      "slurm": {job index: {"reported": [[state, number of consecutive sacct calls]], "status": "<code> exit|timeout|cancelled"}},
      "error": None|str}

Only public API is used: `experiment`, `Task.submit(launcher=)`, `SlurmLauncher(connector=, binpath=, interval=)`, `.config(time=)`,
`setenv`, `job.state`.  The Slurm commands are the emulation of xv.impl.c04x_slurm_emul, whose `sacct` reports the whole life of
a job (PENDING / RUNNING / COMPLETING / final state) by poll counts."""
import json
import os
import signal
import sys
import threading
import traceback
from pathlib import Path


def main():
    import logging
    logging.disable(logging.CRITICAL)
    args = json.loads(Path(sys.argv[1]).read_text())
    case, root = args["case"], Path(args["root"])
    out = {"log": [], "states": [], "exit": None, "hang": False, "slurm": {}, "error": None}
    from . import c04x_slurm_emul as emul
    from . import c04x_tasks as T
    log = root / "shared.log"
    log.write_text("")
    jobpaths = []

    def finish():
        try:
            out["log"] = [[int(l.split()[0]), l.split()[1]] for l in log.read_text().split("\n") if l.strip()]
            rep = emul.reported(root / "slurm")
            for i, jp in enumerate(jobpaths):
                for jobid, r in rep.items():
                    if jp is not None and r["script"] and Path(r["script"]).parent == jp:
                        out["slurm"][str(i)] = {"reported": r["reported"], "status": r["status"]}
        except Exception:
            out["error"] = (out["error"] or "") + traceback.format_exc()[-600:]
        emul.kill_all(root / "slurm")
        Path(sys.argv[2]).write_text(json.dumps(out))
        sys.stdout.flush()
        os._exit(0)

    def on_deadline():
        out["hang"] = True
        finish()

    timer = threading.Timer(args["deadline"], on_deadline)
    timer.daemon = True
    timer.start()
    tasks = []
    try:
        from experimaestro import experiment
        from experimaestro.connectors.local import LocalConnector
        from experimaestro.launchers.slurm import SlurmLauncher
        sl = case["slurm"]
        binpath = emul.make(root / "slurm", {k: sl[k] for k in ("pending", "completing", "steps", "fail_state", "kill_state", "suspended") if k in sl})
        pp = os.pathsep.join([str(Path(__file__).resolve().parents[2])] + ([os.environ["PYTHONPATH"]] if os.environ.get("PYTHONPATH") else []))
        slurm = SlurmLauncher(connector=LocalConnector.instance(), binpath=binpath, interval=sl["interval"])
        slurm.setenv("PYTHONPATH", pp)
        limited = slurm.config(time=sl["limit"])          # the launcher of the jobs that never end by themselves
        limited.setenv("PYTHONPATH", pp)
        outs = []
        try:
            with experiment(root / "ws", "c04x", port=-1) as xp:
                xp.setenv("PYTHONPATH", pp)
                for i, js in enumerate(case["jobs"]):
                    kw = {"k": i, "salt": case.get("salt", 0), "outcome": js["outcome"], "log": log}
                    items, os_, h = [], [], None
                    for pos, j in js["ups"]:
                        t, o = tasks[j], outs[j]
                        is_out = o is not t
                        if pos == "a" and "a" not in kw:
                            kw["a"] = t
                        elif pos == "h.inner" and h is None:
                            h = T.Holder(inner=t)
                        elif pos == "h.out" and h is None and is_out:
                            h = T.Holder(out=o)
                        elif pos == "os" and is_out:
                            os_.append(o)
                        else:
                            items.append(t)
                    if items:
                        kw["items"] = items
                    if os_:
                        kw["os"] = os_
                    if h is not None:
                        kw["h"] = h
                    task = (T.StepO if js["cls"] == "SO" else T.Step)(**kw)
                    launcher = None if js["launcher"] == "direct" else (limited if js["outcome"] == "overrun" else slurm)
                    outs.append(task.submit(launcher=launcher) if launcher is not None else task.submit())
                    tasks.append(task)
                    jobpaths.append(Path(task.__xpm__.job.jobpath) if js["launcher"] == "slurm" else None)
            out["exit"] = "ok"
        except Exception as e:
            out["exit"] = type(e).__name__
            if type(e).__name__ != "FailedExperiment":
                out["error"] = traceback.format_exc()[-1200:]
        out["states"] = [t.__xpm__.job.state.name for t in tasks]
    except BaseException:
        out["error"] = traceback.format_exc()[-1200:]
    timer.cancel()
    finish()


if __name__ == "__main__":
    signal.signal(signal.SIGINT, signal.SIG_DFL)
    main()
