"""C02 — the identifier ignores everything documented as outside the signature.

Cases are pairs (graph, graph after k neutral edits at random nodes and depths) and
(class library, library with an added defaulted / Meta / generated parameter).  Monitor
(implementation only): every pre-existing node keeps its identifier.  Correspondence: both members
go through the Lean model (Drive/Ident.lean)."""
import copy
import random

from .. import common, identlib
from ..gen import cfggen, edits
from ..translate import argflags, hashflags, hashsrc

# class libraries of this check declare nested-container defaults (`[[]]`, `{"k": []}`) and the neutral edits add meta-flagged
# members to inner containers at any depth (seeded change C02f: `_is_default` stopped dropping ignored members below the top level)
cfggen.NESTED_DEFAULTS = True

PROP = "C02"
MODULES = ["XpmVerif.Properties.C02", "XpmVerif.Properties.C02Decl", "XpmVerif.Properties.C02Env", "XpmVerif.Properties.C02Inherit", "XpmVerif.Properties.C02Deep", "XpmVerif.Proofs.ArgDecl", "XpmVerif.Properties.HashSrc"]


def prove(ctx):
    msgs = [hashflags.generate(common.REPO, common.LEAN, probe=identlib.loop_flag_probe(ctx)), hashsrc.generate(common.REPO, common.LEAN)]
    ctx.notes.append(f"translator(hashsrc): {msgs[1][1]}")
    ctx.count("translator", "hashsrc:" + ("translated" if msgs[1][1].startswith("translated") else "fallback"))
    msgs.append(argflags.generate(common.REPO, common.LEAN, probe=identlib.inherit_rule_probe(ctx)))   # Generated/ArgFlags.lean: the driver derives the argument flags with it
    ctx.notes.append(f"translator(argflags): {msgs[-1][1]}")
    common.check_proofs(ctx, MODULES, translate_msgs=msgs)


def id_steps(g, name):
    n = len(g["nodes"])
    steps = [{"do": "build", "graph": g, "as": name}, {"do": "graph", "of": name}]
    steps += [{"do": "op", "on": name, "op": {"op": "full", "n": k}} for k in range(n)]
    steps += [{"do": "op", "on": name, "op": {"op": "raw", "n": k}} for k in range(n)]
    return steps


def gen(ctx, rng, nlibs, per, tag):
    libs, cases = [], []
    for li in range(nlibs):
        # multiple inheritance (diamonds / joins whose bases re-declare an inherited parameter): always in the first library of a
        # run, in ~18 % of the others
        lib = cfggen.gen_library(rng, f"{tag}_{ctx.seed}_{li}", cfg_defaults=common.CFG_DEFAULTS, multi=True if li == 0 else "some")
        libs.append(lib)
        for _ in range(per):
            g = cfggen.gen_graph(rng, lib, max_nodes=rng.choice([3, 6, 10]))
            g2, infos = g, []
            for _ in range(rng.choice([1, 1, 2, 3])):
                e = edits.neutral_edit(rng, lib, g2)
                if e:
                    g2, info = e
                    infos.append(info)
            if not infos:
                continue
            cases.append({"lib": li, "steps": id_steps(g, "A") + id_steps(g2, "B"), "graph": g, "edited": g2, "edits": infos, "n": len(g["nodes"])})
    return libs, cases


def ids_of(rec, n_a, n_b):
    """(full ids of A, raw ids of A, full ids of B, raw ids of B)"""
    outs = [o.get("id") for l, o in zip(rec["lines"], rec["impl"]) if l["op"] != "graph"]
    return outs[:n_a], outs[n_a:2 * n_a], outs[2 * n_a:2 * n_a + n_b], outs[2 * n_a + n_b:]


def monitor(ctx, case, rec):
    n = case["n"]
    fa, ra, fb, rb = ids_of(rec, n, len(case["edited"]["nodes"]))
    own = {e["node"] for e in case["edits"] if e["kind"] == "inside_meta"}  # the edited meta configuration itself does change
    for k in range(n):
        if k in own:
            continue
        if fa[k] != fb[k] or ra[k] != rb[k]:
            kinds = "+".join(sorted({e["kind"] for e in case["edits"]}))
            ctx.monitor_fail(f"neutral-edit-changes-identifier:{kinds}",
                             f"node {k}: identifier changed {fa[k][:16]}… -> {fb[k][:16]}… after signature-neutral edit(s) {case['edits']}",
                             {"graph": case["graph"], "edited": case["edited"], "edits": case["edits"]})
            return


def class_edit_cases(ctx, rng, nlibs, per):
    """same graphs against a library and against the library with one more defaulted/Meta/generated parameter
    (same package name and type identifiers: run in separate worker processes)"""
    libs, libs2, cases, infos = [], [], [], []
    for li in range(nlibs):
        lib = cfggen.gen_library(rng, f"c02k_{ctx.seed}_{li}", cfg_defaults=common.CFG_DEFAULTS, multi=True if li == 0 else "some")
        graphs = [cfggen.gen_graph(rng, lib, max_nodes=rng.choice([3, 6, 10])) for _ in range(per)]
        used = {nd["cls"] for g in graphs for nd in g["nodes"]}
        lib2, info = edits.class_edit(rng, lib, prefer=used)
        libs.append(lib)
        libs2.append(lib2)
        for g in graphs:
            n = len(g["nodes"])
            # … and once more after everything is sealed (generated values exist only from then on)
            after = [{"do": "op", "on": "A", "op": {"op": "seal", "n": k}} for k in range(n)]
            after += [{"do": "op", "on": "A", "op": {"op": "full", "n": k}} for k in range(n)]
            after += [{"do": "op", "on": "A", "op": {"op": "raw", "n": k}} for k in range(n)]
            cases.append({"lib": li, "steps": id_steps(g, "A") + after, "graph": g, "class_edit": info})
    return libs, libs2, cases


def declaration_forms():
    decls = []
    for kind in ("param", "meta", "option", "constant", "pathgen"):
        for ty in (("path",) if kind == "pathgen" else ("int", "str", "path")):
            for optional in (False, True):
                for attr in (None, "value", "fieldValue", "fieldFactory", "fieldEmpty"):
                    decls.append({"name": "x", "decl": kind, "ty": ty, "optional": optional, "attr": attr})
    return decls


def declaration_monitor(ctx, decls, rec):
    """implementation only, C02 on the declaration as written: for a Meta/Option declaration and for a Path-typed one two
    values, for a generated one before / after sealing, for a defaulted one unset / explicitly the default, for an optional
    one unset / None — one identifier"""
    for d, src, mons in zip(decls, rec["sources"], rec["monitors"]):
        for m in mons:
            ctx.count("declaration_monitor", m["rule"])
            if m.get("error") or len(set(m["ids"])) != 1:
                what = m.get("error") or f"identifiers {[i[:12] for i in m['ids']]}"
                ctx.monitor_fail(f"declaration-variation-changes-identifier:{m['rule']}:{d['decl']}:{d['ty']}",
                                 f"`{src.splitlines()[-1].strip()}`: the instances {['D(' + v + ')' if v != 'seal' else 'after seal' for v in m['variants']]} do not share one identifier: {what}",
                                 {"declaration": d, "source": src, "rule": m["rule"], "variants": m["variants"]})
                return


def declaration_cases(ctx, monitor_only=False):
    """every declaration form of the model (annotation x type head x Optional x what stands right of `=`), one real class each:
    the flags `ArgDecl.mkArg` derives — or that it rejects the declaration — against the real `Argument` / the real exception.
    Exhaustive over the forms (130), the same for every seed."""
    decls = declaration_forms()
    rec = identlib.run_worker({"pkg": f"xvdecl_{ctx.seed}", "decls": decls}, ctx.tmpdir(), "decl", None, "xv.impl.decl_worker")
    declaration_monitor(ctx, decls, rec)
    if monitor_only:
        return
    try:
        out = common.run_driver("Ident", [rec["line"]])[0]
    except Exception as e:
        ctx.disagree({"driver": "Ident", "what": "declaration forms"}, None, None, f"model driver failed: {e}")
        return
    for d, src, m, im in zip(decls, rec["sources"], out.get("flags", []), rec["impl"]["flags"]):
        ctx.case({"declaration": d}, d["attr"] is not None or d["optional"] or d["decl"] != "param")
        ctx.count("declaration_form", f"{d['decl']}:{'accepted' if im != ['rejected'] else 'rejected'}")
        ctx.traces_validated += 1
        if m != im:
            ctx.disagree({"declaration": d, "source": src}, m, im, "flags / rejection derived from the declaration differ from the real class")


def correspond(ctx):
    rng = ctx.rng
    declaration_cases(ctx)
    ctx.rule = ("pairs (graph, graph after 1-3 signature-neutral edits: explicit default, unset optional, Meta/Option value, Path value, meta=True member in "
                "list/dict, tag, token dependency, change inside a meta=True configuration) and (library, library + defaulted/Meta/generated parameter); "
                "non-trivial = edit at a node other than the root or inside a container; distinct = case hash")
    libs, cases = gen(ctx, rng, ctx.scale(6, 30), ctx.scale(50, 300), "c02")
    res = identlib.run_cases(ctx, libs, [{"lib": c["lib"], "steps": c["steps"]} for c in cases], shards=ctx.scale(8, 16))[None]
    good = []
    for case, rec in zip(cases, res):
        for e in case["edits"]:
            ctx.count("edit_kind", e["kind"])
        if rec["error"]:
            ctx.count("case_errors", rec["error"][:60])
            continue
        ctx.case({"graph": case["graph"], "edits": case["edits"]}, any(e["node"] != 0 or e["kind"] in ("meta_member", "inside_meta") for e in case["edits"]))
        monitor(ctx, case, rec)
        good.append((case, rec))
    if len(good) < len(cases) * 0.9:
        first = next(r['error'] for r in res if r['error'])
        if getattr(ctx, "proof", None) is not None and ctx.proof.failures:
            # the tree under test already fails a proof / source obligation: cases the real code cannot evaluate are then
            # an observation about that tree (e.g. a Path value reaching the hash), not a harness failure — the verdict
            # comes from the broken obligation and the failing-input search
            ctx.notes.append(f"{len(cases) - len(good)} of {len(cases)} cases raise in the real code: {first[:200]}")
        else:
            raise RuntimeError(f"too many unbuildable cases: {first}")
    # class edits
    klibs, klibs2, kcases = class_edit_cases(ctx, rng, ctx.scale(12, 40), ctx.scale(6, 40))
    payload = [{"lib": c["lib"], "steps": c["steps"]} for c in kcases]
    r1 = identlib.run_cases(ctx, klibs, payload, shards=4)[None]
    r2 = identlib.run_cases(ctx, klibs2, payload, shards=4)[None]
    for case, a, b in zip(kcases, r1, r2):
        if a["error"] or b["error"]:
            ctx.count("case_errors", (a["error"] or b["error"])[:60])
            continue
        ctx.count("class_edit", case["class_edit"]["added"]["decl"] + ("+default" if "default" in case["class_edit"]["added"] else ""))
        ctx.case({"graph": case["graph"], "class_edit": case["class_edit"]}, True)
        if a["impl"] != b["impl"]:
            ctx.monitor_fail(f"class-extension-changes-identifier:{case['class_edit']['added']['decl']}",
                             f"adding {case['class_edit']} changed identifiers of existing configurations",
                             {"graph": case["graph"], "class_edit": case["class_edit"]})
        good.append((case, a))
        good.append((case, b))
    # launcher / workspace / run mode: the same task really submitted in three environments
    slibs, scases = identlib.submit_cases(ctx, rng, "c02sub", ctx.scale(2, 8), ctx.scale(8, 40))
    for case, rec in zip(scases, identlib.run_submit(ctx, slibs, scases)):
        if rec["error"]:
            ctx.count("submit_case_errors", rec["error"][:60])
            continue
        ctx.case({"submit": case["graph"]}, True)
        ctx.count("edit_kind", "launcher+workspace+run_mode")
        ids = {v["env"]: v["identifier"] for v in rec["variants"]}
        if len(set(ids.values()) | {rec["unsubmitted"]}) != 1:
            ctx.monitor_fail("environment-changes-identifier", f"identifier depends on launcher / workspace / run mode: {ids}, unsubmitted {rec['unsubmitted']}",
                             {"graph": case["graph"], "identifiers": ids})
        if rec.get("lines"):
            # the three submissions through the model, launcher / workspace / run mode being inputs of it (Model/IdentEnv.lean)
            good.append((case, rec))
    # Meta / Option values that were loaded from a saved definition (state dict, save/load) instead of built in Python
    mcases = []
    for _ in range(ctx.scale(12, 120)):
        variants = [{"m": rng.choice([None, 1, 2]), "o": rng.choice([None, 3]), "ms": rng.choice([[], [4], [4, 5]]),
                     "via": rng.choice(["python", "state", "save"])} for _ in range(rng.choice([3, 4, 5]))]
        variants[0]["via"] = "python"
        mcases.append({"a": rng.choice([1, 2, 3]), "variants": variants})
    for case, rec in zip(mcases, identlib.run_worker({"cases": mcases}, ctx.tmpdir(), "metaload", None, "xv.impl.metaload_worker")):
        if rec["error"]:
            raise RuntimeError(f"meta-load case cannot run: {rec['error']}")
        ctx.case({"meta_loaded_case": case}, True)
        ctx.count("edit_kind", "meta_value:loaded")
        if len(set(rec["ids"])) != 1:
            ctx.monitor_fail("neutral-edit-changes-identifier:meta_value_loaded",
                             f"the identifier depends on Meta/Option values obtained through {sorted({v['via'] for v in case['variants']})}: {[i[:12] for i in rec['ids']]}",
                             {"meta_loaded_case": case})
    try:
        mouts = identlib.model_outputs(ctx, [r for _, r in good])
    except Exception as e:
        ctx.disagree({"driver": "Ident"}, None, None, f"model driver failed: {e}")
        return
    for (c, r), mo in zip(good, mouts):
        ctx.traces_validated += 1
        for i, (line, m, im) in enumerate(zip(r["lines"], mo, r["impl"])):
            if m != im:
                ctx.disagree({"graph": c["graph"], "edits": c.get("edits"), "at_line": i}, m, im, "model identifier differs from the implementation")
                break


def search(ctx):
    rng = random.Random(f"search-{ctx.seed}")
    declaration_cases(ctx, monitor_only=True)
    libs, cases = gen(ctx, rng, ctx.scale(8, 30), 100, "c02s")
    res = identlib.run_cases(ctx, libs, [{"lib": c["lib"], "steps": c["steps"]} for c in cases], shards=12)[None]
    for case, rec in zip(cases, res):
        if not rec["error"]:
            monitor(ctx, case, rec)


def replay(ctx, obj):
    prove(ctx)
    correspond(ctx)
    return common.verdict(ctx, search)
