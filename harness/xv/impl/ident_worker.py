"""Worker process: builds real configuration graphs from specs and runs operation scripts.

usage: python -m xv.impl.ident_worker <in.json> <out.json>
in:  {"libs": [lib], "cases": [{"lib": i, "steps": [step]}]}
step: {"do": "build", "graph": g, "as": name}
      {"do": "graph", "of": name}            -> driver line {"op":"graph",...}, impl {"ok":true}
      {"do": "op", "on": name, "op": {...}}  -> driver line for the op, impl outcome
out: [{"lines": [...], "impl": [...], "error": str|None}]
"""
import json
import shutil
import sys
import tempfile
import traceback
from pathlib import Path


def driver_line(op):
    k = op["op"]
    if k in ("seal", "raw", "full"):
        return {"op": k, "n": op["n"]}
    if k in ("failseal", "del", "xbypass"):
        return None   # not sent to the model (which nodes a failing seal leaves sealed is not modelled; `del` and the internal
        #               `set(bypass=True)` are no operations of the model: a `del` must be rejected, the other is an observation)
    if k == "set":
        return {"op": "set", "n": op["n"], "name": op["pyname"].encode().hex(), "v": op["v"]}
    if k == "setmeta":
        return {"op": "setmeta", "n": op["n"], "b": op["b"]}
    if k == "addpre":
        return {"op": "addpre", "n": op["n"], "p": op["p"]}
    raise ValueError(k)


def main():
    from . import cfgbuild
    data = json.loads(Path(sys.argv[1]).read_text())
    root = Path(tempfile.mkdtemp(prefix="xvlib-"))
    out = []
    try:
        mods = []
        for lib in data["libs"]:
            try:
                mods.append(cfgbuild.load_library(lib, root))
            except Exception as e:
                # the tree under test refuses the class definitions of a generated library: every case on it is an
                # unbuildable case (an observation about that tree), not a failure of the worker
                mods.append(RuntimeError(f"library cannot be loaded: {type(e).__name__}: {e}"[:300]))
        flagged = set()
        tables = {}
        for case in data["cases"]:
            mod = mods[case["lib"]]
            lib = data["libs"][case["lib"]]
            rec = {"lines": [], "impl": [], "error": None, "argsrc": {}}
            if isinstance(mod, Exception):
                rec["error"] = str(mod)
                out.append(rec)
                continue
            if case["lib"] not in flagged:
                # once per library: the flags the model derives from every declaration against the real `Argument` objects
                flagged.add(case["lib"])
                try:
                    rec["declflags"] = cfgbuild.library_flags(mod, lib)
                    table, idx = cfgbuild.class_table(mod, lib)
                    # the key names this very table (a library and its extension by one declaration share their package name)
                    import hashlib
                    key = lib["pkg"] + ":" + hashlib.md5(json.dumps(table, sort_keys=True).encode()).hexdigest()[:10]
                    tables[case["lib"]] = (idx, key)
                    rec["classtable"] = {"op": "lib", "key": key, "table": table}
                except Exception as e:
                    rec["declflags"] = {"error": f"{type(e).__name__}: {e}"}
            env = {}
            try:
                for st in case["steps"]:
                    if st["do"] == "build":
                        env[st["as"]] = cfgbuild.build_graph(mod, st["graph"])
                    elif st["do"] == "graph":
                        tidx, tkey = tables.get(case["lib"], (None, None))
                        rec["lines"].append({"op": "graph", "lib": tkey,
                                             "nodes": cfgbuild.model_graph(env[st["of"]], lib=None if data.get("real_flags") else lib,
                                                                           stats=rec["argsrc"], table_idx=tidx)})
                        rec["impl"].append({"ok": True})
                    elif st["do"] == "op":
                        objs = env[st["on"]]
                        op = dict(st["op"])
                        if op["op"] == "set":
                            index = {id(o): i for i, o in enumerate(objs)}
                            val = cfgbuild.real_val(mod, op["spec"], {i: o for i, o in enumerate(objs)})
                            op["v"] = cfgbuild.model_val(val, index)
                        line = driver_line(op)
                        res = cfgbuild.run_op(objs, mod, op)
                        if line is None:
                            rec.setdefault("extra", []).append({"op": op, "out": res})
                        else:
                            rec["lines"].append(line)
                            rec["impl"].append(res)
            except Exception as e:
                rec["error"] = f"{type(e).__name__}: {e}"
                rec["trace"] = traceback.format_exc()[-1500:]
            out.append(rec)
    finally:
        shutil.rmtree(root, ignore_errors=True)
    Path(sys.argv[2]).write_text(json.dumps(out))


if __name__ == "__main__":
    main()
