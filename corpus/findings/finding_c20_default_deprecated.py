"""F36 (C20 side) -- a deprecated class given as the value of a parameter whose declared default is a configuration
of the *replacement* class (equal parameters) must be recognised as the default.

    class Optimizer(Config):  lr: Param[float] = 0.1
    @deprecate
    class SGD(Optimizer): ...
    class Learn(Config):      optimizer: Param[Optimizer] = Optimizer()

`Learn(optimizer=SGD())`, `Learn(optimizer=Optimizer())` and `Learn()` are one job (C20: a deprecated class yields,
wherever it occurs, the identifier its replacement would yield), also inside a list / dict default; a *different* value
(`SGD(lr=.5)` / `Optimizer(lr=.5)`) keeps one identifier too, different from the default's.

Before 2fe46f8 the skip rule compared the default with the value through `TypeConfig.__eq__` (which compares the
classes); a type fast path in `HashComputer._is_default` (seeded change C20f-defaulttypefast) brings the defect back.
Public API only.  Exit 1 = the defect shows, 0 = it does not."""
import logging
import sys
from typing import Dict, List

logging.disable(logging.CRITICAL)

from experimaestro import Config, Param, deprecate  # noqa: E402


class Optimizer(Config):
    __xpmid__ = "xv.f36.optimizer"
    lr: Param[float] = 0.1


@deprecate
class SGD(Optimizer):
    __xpmid__ = "xv.f36.sgd"


@deprecate
class OldSGD(SGD):  # a chain: OldSGD -> SGD -> Optimizer
    __xpmid__ = "xv.f36.oldsgd"


class Learn(Config):
    __xpmid__ = "xv.f36.learn"
    epochs: Param[int] = 1
    optimizer: Param[Optimizer] = Optimizer()
    optimizers: Param[List[Optimizer]] = [Optimizer()]
    named: Param[Dict[str, Optimizer]] = {"k": Optimizer()}


class Outer(Config):
    __xpmid__ = "xv.f36.outer"
    learn: Param[Learn]


def hexid(c):
    return c.__xpm__.identifier.all.hex()


def main():
    failures = []
    ref = hexid(Learn())
    spellings = {
        "Learn(optimizer=Optimizer())": Learn(optimizer=Optimizer()),
        "Learn(optimizer=SGD())": Learn(optimizer=SGD()),
        "Learn(optimizer=OldSGD())": Learn(optimizer=OldSGD()),
        "Learn(optimizers=[Optimizer()])": Learn(optimizers=[Optimizer()]),
        "Learn(optimizers=[SGD()])": Learn(optimizers=[SGD()]),
        "Learn(named={'k': Optimizer()})": Learn(named={"k": Optimizer()}),
        "Learn(named={'k': SGD()})": Learn(named={"k": SGD()}),
    }
    for name, c in spellings.items():
        if hexid(c) != ref:
            failures.append(f"{name} has identifier {hexid(c)[:16]}…, Learn() has {ref[:16]}…")
    # one level down (the deprecated instance at depth 2 of the graph)
    if hexid(Outer(learn=Learn(optimizer=SGD()))) != hexid(Outer(learn=Learn())):
        failures.append("Outer(learn=Learn(optimizer=SGD())) and Outer(learn=Learn()) have different identifiers")
    # control: a value that is not the default keeps one identifier under both classes, different from the default's
    a, b = hexid(Learn(optimizer=SGD(lr=0.5))), hexid(Learn(optimizer=Optimizer(lr=0.5)))
    if a != b:
        failures.append("Learn(optimizer=SGD(lr=.5)) and Learn(optimizer=Optimizer(lr=.5)) have different identifiers")
    if b == ref:
        failures.append("control: Learn(optimizer=Optimizer(lr=.5)) has the identifier of Learn()")
    if failures:
        print("C20 / F36: a deprecated class used where the declared default is an instance of its replacement is not recognised as the default")
        for f in failures[:3]:
            print(" -", f)
        return 1
    print("OK: the deprecated, the replacement and the unset spelling have one identifier")
    return 0


if __name__ == "__main__":
    sys.exit(main())
