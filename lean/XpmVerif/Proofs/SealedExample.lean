import XpmVerif.Proofs.Sealed
/-! C14: a concrete graph used by the `example`s of `Properties/C14.lean`. -/
namespace XpmVerif.Ident.Sealing

/-- node 0: argument `x = [ref 1]`, pre-task 2; node 1: produced by task 0 (cycle 0 → 1 → 0);
    node 2: a dict of ints; node 3: references 2 (and is not reachable from 0). -/
def sealDemo : Graph := { nodes := [
  { typeId := [97], args := [{ name := [120], value := .list [.ref 1] }], preTasks := [2] },
  { typeId := [98], args := [], task := some 0 },
  { typeId := [99], args := [{ name := [121], value := .dict [[107]] [.int 3] }] },
  { typeId := [100], args := [{ name := [122], value := .ref 2 }] }] }

end XpmVerif.Ident.Sealing
