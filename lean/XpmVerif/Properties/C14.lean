import XpmVerif.Model.IdentImpl
/-! C14 — submitted configurations are frozen together with their identity. -/
namespace XpmVerif.C14
open XpmVerif.Ident

/-- **every attempt is rejected**: on a sealed node, assigning a parameter, changing the meta flag or
    adding a pre-task returns the sealed error and leaves the whole state (graph and caches) unchanged. -/
theorem sealed_rejects {D : Type} (hc : HC D) (fl : Bool) (s : St D) (n : Nat) (h : (s.g.node n).sealed = true) :
    (∀ name v, step hc fl s (.set n name v) = (s, .sealedError)) ∧
    (∀ b, step hc fl s (.setMeta n b) = (s, .sealedError)) ∧
    (∀ p, step hc fl s (.addPretask n p) = (s, .sealedError)) := by
  refine ⟨?_, ?_, ?_⟩ <;> intros <;> simp [step, h]

end XpmVerif.C14
