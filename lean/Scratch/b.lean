import XpmVerif.Model.SerialData
namespace XpmVerif.Serial
open XpmVerif.Ident

theorem split_at_slash : ∀ (l1 l2 a b : List Nat), slash ∉ l1 → slash ∉ l2 →
    l1 ++ slash :: a = l2 ++ slash :: b → l1 = l2 ∧ a = b
  | [], [], a, b, _, _, h => by simpa using h
  | [], y :: l2, a, b, _, h2, h => by
    simp only [List.nil_append, List.cons_append, List.cons.injEq] at h
    exact absurd h.1 (fun e => h2 (e ▸ List.mem_cons_self))
  | x :: l1, [], a, b, h1, _, h => by
    simp only [List.nil_append, List.cons_append, List.cons.injEq] at h
    exact absurd h.1 (fun e => h1 (e ▸ List.mem_cons_self))
  | x :: l1, y :: l2, a, b, h1, h2, h => by
    simp only [List.cons_append, List.cons.injEq] at h
    have := split_at_slash l1 l2 a b (fun m => h1 (List.mem_cons_of_mem _ m)) (fun m => h2 (List.mem_cons_of_mem _ m)) h.2
    exact ⟨by rw [h.1, this.1], this.2⟩

theorem inDir_inj {base r r' : List Nat} (h : inDir base r = inDir base r') : r = r' := by
  simpa [inDir] using h

theorem posOf_inj : ∀ (l : List Nat) {n m : Nat}, n ∈ l → m ∈ l → posOf l n = posOf l m → n = m
  | [], _, _, hn, _, _ => by cases hn
  | x :: xs, n, m, hn, hm, h => by
    simp only [posOf] at h
    by_cases h1 : n = x <;> by_cases h2 : m = x
    · rw [h1, h2]
    · simp [h1, h2] at h
    · simp [h1, h2] at h
    · simp only [h1, h2, if_false, Nat.add_right_cancel_iff] at h
      have hn' : n ∈ xs := by simpa [h1] using hn
      have hm' : m ∈ xs := by simpa [h2] using hm
      exact posOf_inj xs hn' hm' h

/-- a key bound to one value only is found with that value -/
theorem fsGet_of_mem_unique : ∀ (fs : FS) (p : List Nat) (c : Nat), (p, c) ∈ fs →
    (∀ c', (p, c') ∈ fs → c' = c) → fsGet fs p = some c
  | [], _, _, h, _ => by cases h
  | (q, d) :: r, p, c, h, hu => by
    simp only [fsGet]
    by_cases hpq : p = q
    · subst hpq
      simp only [if_true]
      rw [hu d List.mem_cons_self]
    · simp only [hpq, if_false]
      have hm : (p, c) ∈ r := by
        rcases List.mem_cons.1 h with e | e
        · exact absurd (congrArg Prod.fst e) hpq
        · exact e
      exact fsGet_of_mem_unique r p c hm (fun c' hc' => hu c' (List.mem_cons_of_mem _ hc'))

theorem fsGet_append_of_mem (a b : FS) (p : List Nat) (c : Nat) (h : fsGet a p = some c) : fsGet (a ++ b) p = some c := by
  induction a with
  | nil => simp [fsGet] at h
  | cons x r ih =>
    obtain ⟨q, d⟩ := x
    simp only [List.cons_append, fsGet] at h ⊢
    by_cases hpq : p = q
    · simpa [hpq] using h
    · simp only [hpq, if_false] at h ⊢
      exact ih h
end XpmVerif.Serial
