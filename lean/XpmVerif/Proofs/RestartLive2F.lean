import XpmVerif.Proofs.RestartLiveF
/-! C11, liveness with adoption, FULL statement: `AdInvF` through each kind of scheduler event (a callback that adopts
    nothing, the adoption step, the completion of a helper thread). -/
set_option linter.unusedSimpArgs false
set_option linter.unusedVariables false
namespace XpmVerif.RestartFull
open XpmVerif.Sched hiding Reachable flOK submitPre submitPost sumTo
open XpmVerif.SchedFinal XpmVerif.Restart XpmVerif.RestartTerm XpmVerif.RestartAbs XpmVerif.RestartLive

theorem RI2.mono {Pc Pn Pc' Pn' : Nat → Nat → Prop} {Pt Pj Pt' Pj' : Nat → Nat → Nat → Prop} {s : St}
    (h : RI2 Pc Pn Pt Pj s) (h1 : ∀ j d, Pc j d → Pc' j d) (h2 : ∀ j d, Pn j d → Pn' j d)
    (h3 : ∀ t j d, Pt t j d → Pt' t j d) (h4 : ∀ o j d, Pj o j d → Pj' o j d) : RI2 Pc' Pn' Pt' Pj' s :=
  ⟨fun j d hm => h1 j d (h.cb j d hm), fun j d hm => h2 j d (h.nf j d hm), fun t p hp => h3 t _ _ (h.tok t p hp),
   fun o p hp => h4 o _ _ (h.job o p hp)⟩

/-- what one event of the scheduler `a → a'` keeps. -/
structure StepF (a a' : StA Disk) : Prop where
  n : a'.s.n = a.s.n
  ident : ∀ i, (a'.s.jobs i).ident = (a.s.jobs i).ident
  lens : ∀ i, (a'.s.jobs i).deps.length = (a.s.jobs i).deps.length
  ai : AdInvF a'

/-- the state of a record that is RUNNING or ERROR stays so through `dependencychanged`. -/
theorem depChanged_runerr (fl : Flags) (hg : fl.readyGuarded = true) (jb : Job) (d : Nat) (st : DS)
    (h : jb.state = .running ∨ jb.state = .error) :
    (depChanged fl jb d st).1.state = .running ∨ (depChanged fl jb d st).1.state = .error := by
  have hw : ∀ u : Int, ∀ st' : JS, (st' = .running ∨ st' = .error) →
      ¬ (u = 0 ∧ ((!fl.readyGuarded) = true ∨ st' = .waiting)) := by
    intro u st' hs ⟨_, b⟩
    rcases b with b | b
    · simp [hg] at b
    · rcases hs with e | e <;> rw [e] at b <;> cases b
  unfold depChanged
  simp only []
  split
  · exact h
  · split
    · rename_i hc
      have e := eventSet_frame { jb with unsat := jb.unsat - (val st - val (jb.deps.getD d default).cur), state := JS.error, failedDep := true }
      have hst : (eventSet { jb with unsat := jb.unsat - (val st - val (jb.deps.getD d default).cur), state := JS.error, failedDep := true }).1.state = .error := e.2.1
      simp only [hw _ _ (Or.inr hst), if_false]
      exact Or.inr hst
    · simp only [hw _ _ h, if_false]
      exact h

section stepNa
variable {fl : Flags} {totals : List Nat} {done0 : Nat → Bool} {w : W}

/-- a returned coroutine stays returned through a callback. -/
theorem finished_stable (h : SoundF fl totals done0 w) {cb : Cb} {rest : List Cb} (hr : w.a.s.ready = cb :: rest)
    (k : Nat) (r : JS) (hk : (w.a.s.jobs k).pc = .finished r) : ((stepA fl world w.a).s.jobs k).pc = .finished r := by
  have hP := h.invP
  have hc : ¬ Chg cb k := by
    intro hc
    have hp := pop_inv hP hr
    rcases hc with rfl | rfl | rfl
    · obtain ⟨q, -⟩ := pre_start _ _ k (hp.loc k)
      have q' : (w.a.s.jobs k).pc = .created := q
      rw [hk] at q'; cases q'
    · obtain ⟨q, -⟩ := pre_wake _ _ k (hp.loc k)
      have q' : (w.a.s.jobs k).pc = .evtWait := q
      rw [hk] at q'; cases q'
    · obtain ⟨q, -⟩ := pre_resume _ _ k (hp.loc k)
      have q' : pk (w.a.s.jobs k).pc = .thr := q
      rw [hk] at q'; simp [pk] at q'
  rw [(stepA_view (fl := fl) hP hr k hc).1]; exact hk

/-- after a callback no job is left whose first segment has not begun. -/
theorem no_created_after (h : SoundF fl totals done0 w) {cb : Cb} {rest : List Cb} (hr : w.a.s.ready = cb :: rest)
    (y : Nat) : ((stepA fl world w.a).s.jobs y).pc ≠ .created := by
  intro hy
  have hP := h.invP
  have hy0 := (stepA_pcs (fl := fl) hP hr y).1 hy
  obtain ⟨rest', hr'⟩ := h.ai.hs y hy0
  rw [hr] at hr'
  injection hr' with e1 e2
  subst e1
  exact (stepA_chg_pc (fl := fl) hP hr y (Or.inl rfl)).2.2 hy

/-- **a callback that adopts nothing**, on the concrete state. -/
theorem stepF_na (hg : fl.readyGuarded = true) (h : SoundF fl totals done0 w) (cb : Cb) (rest : List Cb)
    (hr : w.a.s.ready = cb :: rest)
    (hna : ∀ x, cb = .start x → (world.look w.a.d x (w.a.s.jobs x)).adopt = false) :
    StepF w.a (stepA fl world w.a) := by
  have hP := h.invP
  have hP' : InvP none (stepA fl world w.a).s (stepA fl world w.a).adopted := stepA_inv fl world w.a hP
  obtain ⟨es, ead⟩ := stepA_na fl w.a cb rest hr hna
  obtain ⟨hst, hwk, hres⟩ := h.head_facts hr
  have hpre := preSt_jobs w.a cb rest
  obtain ⟨pr1, pr2, pr3, pr4⟩ := preSt_lists w.a cb rest
  have hF := runCb_frame fl (preSt w.a cb rest) cb
  rw [← es] at hF
  obtain ⟨fn, fe, -, -, fj, fc⟩ := hF
  have hview := fun i (hi : ¬ Chg cb i) => stepA_view (fl := fl) hP hr i hi
  have hpcs := fun i => stepA_pcs (fl := fl) hP hr i
  have hconst : ∀ i, ((stepA fl world w.a).s.jobs i).ident = (w.a.s.jobs i).ident ∧
      ((stepA fl world w.a).s.jobs i).deps.length = (w.a.s.jobs i).deps.length ∧
      ∀ d, orig (stepA fl world w.a).s i d = orig w.a.s i d := by
    intro i
    unfold orig
    by_cases hi : i = target cb
    · subst hi
      obtain ⟨o1, o2⟩ := sameConst_origin fc
      refine ⟨by rw [fc.1, (hpre _).1], by rw [o1, (hpre _).2.1], fun d => ?_⟩
      have := o2 d
      unfold depAt at this
      rw [this, (hpre _).2.1]
    · rw [fj i hi]
      exact ⟨(hpre i).1, by rw [(hpre i).2.1], fun d => by rw [(hpre i).2.1]⟩
  have hwd := runCbA_world_d fl { w.a with s := { w.a.s with ready := rest } } cb
  rw [← stepA_cons fl world w.a cb rest hr] at hwd
  have hdle : DiskLe w.a.d (stepA fl world w.a).d := hwd.1
  have hprocOf : ∀ i, w.a.adopted i = true → (stepA fl world w.a).d.procOf i = w.a.d.procOf i := by
    intro i hi
    by_cases hc : cb = .resume i
    · subst hc
      obtain ⟨-, hp⟩ := hres i rfl hi
      have hl := resume_launches_late fl ({ w.a.s with ready := rest } : St) i (by
        rcases hp with hp | hp
        · exact Or.inr (Or.inl hp)
        · exact Or.inr (Or.inr hp))
      rw [stepA_cons fl world w.a (.resume i) rest hr]
      simp only [runCbA, hl, Nat.lt_irrefl, if_false]
    · refine hwd.2 i ⟨?_, hc⟩
      intro e; subst e; rw [(hst i rfl).1] at hi; cases hi
  -- the record of an adopted job through the callback
  have hadrec : ∀ i, w.a.adopted i = true →
      ((stepA fl world w.a).s.jobs i).held = [] ∧ ((stepA fl world w.a).s.jobs i).sleeping = false ∧
      (((stepA fl world w.a).s.jobs i).pc = .codeWait →
        ((stepA fl world w.a).s.jobs i).state = .running ∨ ((stepA fl world w.a).s.jobs i).state = .error) := by
    intro i hi
    have hh := h.ai.held i hi
    have hsl := h.ai.sleep i hi
    have hcw := h.ai.cwst i hi
    have hsame : (stepA fl world w.a).s.jobs i = w.a.s.jobs i →
        ((stepA fl world w.a).s.jobs i).held = [] ∧ ((stepA fl world w.a).s.jobs i).sleeping = false ∧
        (((stepA fl world w.a).s.jobs i).pc = .codeWait →
          ((stepA fl world w.a).s.jobs i).state = .running ∨ ((stepA fl world w.a).s.jobs i).state = .error) := by
      intro e; rw [e]; exact ⟨hh, hsl, hcw⟩
    have hprei : (preSt w.a cb rest).jobs i = w.a.s.jobs i :=
      (hpre i).2.2.2.2.2.2 (fun x e => by intro e'; subst e'; rw [(hst i e).1] at hi; cases hi)
    have hchk : ∀ d, ((St.check fl (preSt w.a cb rest) i d).jobs i).held = [] ∧
        ((St.check fl (preSt w.a cb rest) i d).jobs i).sleeping = false ∧
        (((St.check fl (preSt w.a cb rest) i d).jobs i).pc = .codeWait →
          ((St.check fl (preSt w.a cb rest) i d).jobs i).state = .running ∨
          ((St.check fl (preSt w.a cb rest) i d).jobs i).state = .error) := by
      intro d
      simp only [St.check, put_jobs, SchedFinal.upd_same]
      rw [hprei]
      refine ⟨by rw [depChanged_held]; exact hh, (depChanged_awake fl _ d _ hsl).2, ?_⟩
      intro hc
      rw [(depChanged_ctl fl _ d _).1] at hc
      exact depChanged_runerr fl hg _ d _ (hcw hc)
    by_cases hc : Chg cb i
    · rcases hc with rfl | rfl | rfl
      · rw [(hst i rfl).1] at hi; cases hi
      · rw [hwk i rfl] at hi; cases hi
      · obtain ⟨-, hp⟩ := hres i rfl hi
        rw [es]
        simp only [St.runCb]
        have hpc : ((preSt w.a (.resume i) rest).jobs i).pc = (w.a.s.jobs i).pc := (hpre i).2.2.1
        rcases hp with hp | hp
        · have hcl := resume_codeWait_closed fl (preSt w.a (.resume i) rest) i (by rw [hpc]; exact hp)
            (by rw [(hpre i).2.2.2.1]; exact hh)
          rw [hcl]
          simp only [put_jobs, SchedFinal.upd_same]
          rw [hprei]
          exact ⟨trivial, hsl, fun e => by simp at e⟩
        · rw [resume_doneHandler fl _ i (by rw [hpc]; exact hp)]
          simp only [doneStep, put_jobs, SchedFinal.upd_same]
          rw [hprei]
          exact ⟨hh, hsl, fun e => by simp at e⟩
    · by_cases hi2 : i = target cb
      · subst hi2
        rw [es]
        cases cb with
        | register j => simp only [St.runCb]; rw [(register_jobs fl _ j).1, hprei]; exact ⟨hh, hsl, hcw⟩
        | waiterRun => simp only [St.runCb]; rw [(waiterRun_jobs _).1, hprei]; exact ⟨hh, hsl, hcw⟩
        | check j d => exact hchk d
        | notifyCheck j d =>
          rcases notifyCheck_cases fl (preSt w.a (.notifyCheck j d) rest) j d with e | e <;> rw [e]
          · exact hchk d
          · rw [hprei]; exact ⟨hh, hsl, hcw⟩
        | start j => exact absurd (Or.inl rfl) hc
        | wake j => exact absurd (Or.inr (Or.inl rfl)) hc
        | resume j => exact absurd (Or.inr (Or.inr rfl)) hc
      · exact hsame (by rw [fj i hi2, hprei])
  refine ⟨by rw [fn]; exact pr4, fun i => (hconst i).1, fun i => (hconst i).2.1, ?_⟩
  refine ⟨fun j hj => (hadrec j (by rw [ead] at hj; exact hj)).1, fun j hj => (hadrec j (by rw [ead] at hj; exact hj)).2.1,
    fun j hj => (hadrec j (by rw [ead] at hj; exact hj)).2.2, ?_, ?_, ?_, ?_, ?_⟩
  · -- the dependent lists
    have lt := h.ai.lists.1
    have lj := h.ai.lists.2
    have hlen : ∀ i, ((stepA fl world w.a).s.jobs i).deps.length = (w.a.s.jobs i).deps.length := fun i => (hconst i).2.1
    have hn' : (stepA fl world w.a).s.n = w.a.s.n := by rw [fn]; exact pr4
    by_cases hs : ∃ x, cb = .start x
    · obtain ⟨x, rfl⟩ := hs
      obtain ⟨hx, hpc⟩ := hst x rfl
      have hl := startJob_lists fl (preSt w.a (.start x) rest) x
      have e' : (stepA fl world w.a).s = St.startJob fl (preSt w.a (.start x) rest) x := es
      rw [← e', pr2, pr3, (hpre x).2.1] at hl
      have hreg := regP_start (s := w.a.s) (s' := (stepA fl world w.a).s) (h.lt_of_pc x (by rw [hpc]; simp)) hn' (hlen x) hpc
        (stepA_chg_pc (fl := fl) hP hr x (Or.inl rfl)).2
        (fun i hi => by rw [fj i hi]; exact (hpre i).2.2.2.2.2.2 (fun y e => by cases e; exact hi))
      refine ⟨fun t => ?_, fun o => ?_⟩
      · have := hl.1 t; have := lt t; omega
      · have := hl.2 o; have := lj o; omega
    · have hD := runCb_frameD fl (preSt w.a cb rest) cb (fun x e => hs ⟨x, e⟩)
      rw [← es] at hD
      obtain ⟨d1, d2⟩ := hD
      rw [pr2] at d1; rw [pr3] at d2
      have hm := regP_mono hn' hlen (fun i => (hpcs i).1) (fun i => (hpcs i).2.1)
      refine ⟨fun t => ?_, fun o => ?_⟩
      · rw [d1]; have := lt t; omega
      · rw [d2]; have := lj o; omega
  · intro j hj
    rw [ead] at hj
    obtain ⟨p1, p2⟩ := h.ai.proc j hj
    rw [hprocOf j hj, (hconst j).1]
    exact ⟨Nat.lt_of_lt_of_le p1 hdle.np, by rw [hdle.ident _ p1]; exact p2⟩
  · -- the sources of the queued checks
    have h0 : RI2 (fun j d => ∀ k, orig w.a.s j d = .job k → ∃ r, ((stepA fl world w.a).s.jobs k).pc = .finished r)
        (fun j d => ∀ k, orig w.a.s j d ≠ .job k) (fun t j d => ∃ c, orig w.a.s j d = .tok t c)
        (fun o j d => orig w.a.s j d = .job o) (preSt w.a cb rest) := by
      refine ((h.ai.refs.pop hr).same pr1 pr2 pr3).mono ?_ (fun _ _ hp => hp) (fun _ _ _ hp => hp) (fun _ _ _ hp => hp)
      intro j d hp k hk
      obtain ⟨r, hr'⟩ := hp k hk
      exact ⟨r, finished_stable h hr k r hr'⟩
    have h1 := runCb_ri2 h0 (by
        intro t j d ⟨c, hc⟩ k hk
        rw [hc] at hk; cases hk) fl cb
      (by
        intro x e d'
        have hd : (preSt w.a cb rest).jobs x = (preSt w.a cb rest).jobs x := rfl
        refine ⟨fun o ho => ?_, fun t c ho => ?_⟩
        · show orig w.a.s x d' = .job o
          unfold orig; rw [← (hpre x).2.1]; exact ho
        · show ∃ c, orig w.a.s x d' = .tok t c
          unfold orig; rw [← (hpre x).2.1]; exact ⟨c, ho⟩)
      (by
        intro x e hpx j d hj k hk
        have hjx : orig w.a.s j d = .job x := hj
        rw [hjx] at hk
        injection hk with hk
        subst hk
        subst e
        refine ⟨(w.a.s.jobs x).state, ?_⟩
        rw [es]
        show ((St.resume fl (preSt w.a (.resume x) rest) x).jobs x).pc = _
        rw [resume_doneHandler fl _ x hpx]
        simp only [doneStep, put_jobs, SchedFinal.upd_same]
        rw [(hpre x).2.2.2.2.2.1])
    rw [← es] at h1
    refine h1.mono ?_ ?_ ?_ ?_
    · intro j d hp k hk; rw [(hconst j).2.2] at hk; exact hp k hk
    · intro j d hp k; rw [(hconst j).2.2]; exact hp k
    · intro t j d hp; rw [(hconst j).2.2]; exact hp
    · intro o j d hp; rw [(hconst j).2.2]; exact hp
  · intro x hx; exact absurd hx (no_created_after h hr x)
  · intro ⟨x, hx⟩; exact absurd hx (no_created_after h hr x)

end stepNa

theorem startPrefix_sleeping (fl : Flags) (s : St) (x : Nat) : ((startPrefix fl s x).jobs x).sleeping = false := by
  rw [startPrefix_eq]
  have hb : ((prefBody fl s x).jobs x).sleeping = false := by
    unfold prefBody
    simp only []
    split
    · simp
    · exact (eqXF_registerDeps (ad := fun _ => true) (x := x) rfl fl _ _ _ (by simp)).2
  unfold markStep
  split
  · simp only [put_jobs, SchedFinal.upd_same]; exact hb
  · exact hb

section stepAdopt
variable {fl : Flags} {totals : List Nat} {done0 : Nat → Bool} {w : W}

/-- **the adoption step**, on the concrete state. -/
theorem stepF_adopt (h : SoundF fl totals done0 w) (x : Nat) (rest : List Cb)
    (hr : w.a.s.ready = .start x :: rest) (had : (world.look w.a.d x (w.a.s.jobs x)).adopt = true) :
    StepF w.a (stepA fl world w.a) := by
  have hP := h.invP
  obtain ⟨hst, -, -⟩ := h.head_facts hr
  obtain ⟨hx, hpc⟩ := hst x rfl
  have h0 : (world.look w.a.d x (({ w.a.s with ready := rest } : St).jobs x)).adopt = true := had
  have es : (stepA fl world w.a).s = startJobA fl ({ w.a.s with ready := rest } : St) x (world.look w.a.d x (w.a.s.jobs x)) := by
    rw [stepA_cons fl world w.a (.start x) rest hr]; simp only [runCbA, h0, if_true]
  have ead : (stepA fl world w.a).adopted = upd w.a.adopted x true := by
    rw [stepA_cons fl world w.a (.start x) rest hr]; simp only [runCbA, h0, if_true]
  have ed : (stepA fl world w.a).d = world.onAdopt w.a.d x (w.a.s.jobs x) := by
    rw [stepA_cons fl world w.a (.start x) rest hr]; simp only [runCbA, h0, if_true]
  obtain ⟨r1, r2, r3, r4, r5, r6, r7⟩ := startJobA_adopt_rec fl ({ w.a.s with ready := rest } : St) x _ had
  rw [← es] at r1 r2 r3 r4 r5 r6 r7
  have hstate : ((stepA fl world w.a).s.jobs x).state = .running ∧ ((stepA fl world w.a).s.jobs x).sleeping = false := by
    rw [es]
    unfold startJobA
    simp only [had, if_true, put_jobs, SchedFinal.upd_same]
    exact ⟨trivial, startPrefix_sleeping fl _ x⟩
  have hoth : ∀ i, i ≠ x → (stepA fl world w.a).s.jobs i = w.a.s.jobs i := by
    intro i hi; rw [es]; exact startJobA_other fl _ x _ i hi
  have hnr := h.noRef x hpc
  have horig : ∀ i d, orig (stepA fl world w.a).s i d = orig w.a.s i d := by
    intro i d
    unfold orig
    by_cases hi : i = x
    · subst hi; exact r5 d
    · rw [hoth i hi]
  have hnc : ∀ y, ((stepA fl world w.a).s.jobs y).pc ≠ .created := by
    intro y hy
    by_cases hyx : y = x
    · subst hyx; rw [r1] at hy; cases hy
    · rw [hoth y hyx] at hy
      obtain ⟨rest', hr'⟩ := h.ai.hs y hy
      rw [hr] at hr'
      injection hr' with e1 e2
      injection e1 with e1
      exact hyx e1.symm
  have hadx : ∀ j, (stepA fl world w.a).adopted j = true → j ≠ x → w.a.adopted j = true := by
    intro j hj hjx
    rw [ead] at hj
    simpa [upd, hjx] using hj
  refine ⟨r7, ?_, ?_, ?_⟩
  · intro i; by_cases hi : i = x
    · subst hi; exact r3
    · rw [hoth i hi]
  · intro i; by_cases hi : i = x
    · subst hi; exact r4
    · rw [hoth i hi]
  refine ⟨?_, ?_, ?_, ?_, ?_, ?_, fun y hy => absurd hy (hnc y), fun ⟨y, hy⟩ => absurd hy (hnc y)⟩
  · intro j hj
    by_cases hjx : j = x
    · subst hjx; rw [r2]; exact h.created_held j hx hpc
    · rw [hoth j hjx]; exact h.ai.held j (hadx j hj hjx)
  · intro j hj
    by_cases hjx : j = x
    · subst hjx; exact hstate.2
    · rw [hoth j hjx]; exact h.ai.sleep j (hadx j hj hjx)
  · intro j hj hc
    by_cases hjx : j = x
    · subst hjx; exact Or.inl hstate.1
    · rw [hoth j hjx] at hc ⊢; exact h.ai.cwst j (hadx j hj hjx) hc
  · have lt := h.ai.lists.1
    have lj := h.ai.lists.2
    have hl := startPrefix_lists fl (({ w.a.s with ready := rest } : St).put x
      { (w.a.s.jobs x) with marker := (world.look w.a.d x (w.a.s.jobs x)).marker }) x
    have e1 : (stepA fl world w.a).s.tokDeps = (startPrefix fl (({ w.a.s with ready := rest } : St).put x
      { (w.a.s.jobs x) with marker := (world.look w.a.d x (w.a.s.jobs x)).marker }) x).tokDeps := by
      rw [es]; unfold startJobA; simp only [had, if_true]; rfl
    have e2 : (stepA fl world w.a).s.jobDeps = (startPrefix fl (({ w.a.s with ready := rest } : St).put x
      { (w.a.s.jobs x) with marker := (world.look w.a.d x (w.a.s.jobs x)).marker }) x).jobDeps := by
      rw [es]; unfold startJobA; simp only [had, if_true]; rfl
    simp only [put_jobs, SchedFinal.upd_same, put_tokDeps, put_jobDeps] at hl
    have hreg := regP_start (s := w.a.s) (s' := (stepA fl world w.a).s) (h.lt_of_pc x (by rw [hpc]; simp)) r7 r4 hpc
      (by rw [r1]; simp) hoth
    have hl1 : ∀ t, ((stepA fl world w.a).s.tokDeps t).length ≤ (w.a.s.tokDeps t).length + (w.a.s.jobs x).deps.length := by
      intro t; rw [e1]; exact hl.1 t
    have hl2 : ∀ o, ((stepA fl world w.a).s.jobDeps o).length ≤ (w.a.s.jobDeps o).length + (w.a.s.jobs x).deps.length := by
      intro o; rw [e2]; exact hl.2 o
    refine ⟨fun t => ?_, fun o => ?_⟩
    · rw [hreg]; have := hl1 t; have := lt t; omega
    · rw [hreg]; have := hl2 o; have := lj o; omega
  · intro j hj
    by_cases hjx : j = x
    · subst hjx
      obtain ⟨p, hp1, hp2⟩ := (look_adopt_iff _ _ _).1 had
      obtain ⟨q1, q2⟩ := (wreach_inv h.reach).disk.pid _ p hp1
      rw [ed, r3]
      simp only [world, SchedFinal.upd_same, hp1, Option.getD_some]
      exact ⟨q1, q2⟩
    · have hj0 := hadx j hj hjx
      obtain ⟨p1, p2⟩ := h.ai.proc j hj0
      rw [ed, hoth j hjx]
      simp only [world, upd, hjx, if_false]
      exact ⟨p1, p2⟩
  · -- the sources of the queued checks
    have key : ∀ F : Nat → Prop, (∀ k r, (w.a.s.jobs k).pc = .finished r → F k) →
        RI2 (fun j d => ∀ k, orig w.a.s j d = .job k → F k)
          (fun j d => ∀ k, orig w.a.s j d ≠ .job k) (fun t j d => ∃ c, orig w.a.s j d = .tok t c)
          (fun o j d => orig w.a.s j d = .job o) (stepA fl world w.a).s := by
      intro F hF
      have q0 : RI2 (fun j d => ∀ k, orig w.a.s j d = .job k → F k)
          (fun j d => ∀ k, orig w.a.s j d ≠ .job k) (fun t j d => ∃ c, orig w.a.s j d = .tok t c)
          (fun o j d => orig w.a.s j d = .job o) ({ w.a.s with ready := rest } : St) := by
        refine (h.ai.refs.pop hr).mono ?_ (fun _ _ hp => hp) (fun _ _ _ hp => hp) (fun _ _ _ hp => hp)
        intro j d hp k hk
        obtain ⟨r, hr'⟩ := hp k hk
        exact hF k r hr'
      have q1 := q0.put x { (w.a.s.jobs x) with marker := (world.look w.a.d x (w.a.s.jobs x)).marker } [] [] (by simp)
      have q2 := q1.startPrefix fl x (by
        intro d'
        simp only [put_jobs, SchedFinal.upd_same]
        exact ⟨fun o ho => ho, fun t c ho => ⟨c, ho⟩⟩)
      rw [es]
      unfold startJobA
      simp only [had, if_true]
      exact q2.put x _ [] _ (by simp)
    have q3 := key (fun k => ∃ r, ((stepA fl world w.a).s.jobs k).pc = .finished r) (by
      intro k r hr'
      have hkx : k ≠ x := by intro e; subst e; rw [hpc] at hr'; cases hr'
      exact ⟨r, by rw [hoth k hkx]; exact hr'⟩)
    refine q3.mono ?_ ?_ ?_ ?_
    · intro j d hp k hk; rw [horig] at hk; exact hp k hk
    · intro j d hp k; rw [horig]; exact hp k
    · intro t j d hp; rw [horig]; exact hp
    · intro o j d hp; rw [horig]; exact hp

end stepAdopt

section deliverF
variable {fl : Flags} {totals : List Nat} {done0 : Nat → Bool} {w : W}

/-- the completion of a helper thread, on the abstract state. -/
theorem deliver_absF (hg : fl.readyGuarded = true) (hf : fl.resubmitRegisters = true) (ha : fl.abortRechecks = true)
    (hrel : fl.abortReleases = true) (h : SoundF fl totals done0 w) (k j : Nat) (kind : TK) (c : Option Nat) (d' : Disk)
    (hk : w.a.s.threads[k]? = some (kind, j))
    (hgate : world.gate w.a.d kind j (w.a.s.jobs j) (w.a.adopted j) = some (c, d')) :
    Good2 fl (absF w.a.adopted (deliverA w.a k j c d').s) ∧
    (TokFit (absF w.a.adopted w.a.s) → TokFit (absF w.a.adopted (deliverA w.a k j c d').s)) ∧
    mu (absF w.a.adopted (deliverA w.a k j c d').s) < mu (absF w.a.adopted w.a.s) := by
  have hG := h.good
  have hkl : k < w.a.s.threads.length := by
    apply Classical.byContradiction; intro hn
    rw [List.getElem?_eq_none (by omega)] at hk; cases hk
  have e := sim_deliver fl w.a k j kind c d' hk
  have key : ∀ te : St, Good2 fl te → mu te = mu (absF w.a.adopted w.a.s) → te.threads = w.a.s.threads →
      (TokFit (absF w.a.adopted w.a.s) → TokFit te) →
      absF w.a.adopted (deliverA w.a k j c d').s = te.apply fl (.deliver k) →
      Good2 fl (absF w.a.adopted (deliverA w.a k j c d').s) ∧
      (TokFit (absF w.a.adopted w.a.s) → TokFit (absF w.a.adopted (deliverA w.a k j c d').s)) ∧
      mu (absF w.a.adopted (deliverA w.a k j c d').s) < mu (absF w.a.adopted w.a.s) := by
    intro te hGe hmu hth hTe hse
    have hen : Enabled te (.deliver k) := by show k < te.threads.length; rw [hth]; exact hkl
    rw [hse]
    exact ⟨good2_apply hg hf ha _ (evOK_enabled te _ hen) trivial hGe, fun hT => tokFit_enabled fl te _ hen (hTe hT),
      by rw [← hmu]; exact mu_decreases fl hg ha hrel te hGe.g.invT hGe.g.b.noreg _ hen⟩
  cases c with
  | none => exact key _ hG rfl rfl (fun hT => hT) e
  | some cv =>
    have hkind := gate_code_kind _ _ _ _ _ _ _ hgate
    subst hkind
    have hkm : (TK.code, j) ∈ w.a.s.threads := List.mem_of_getElem? hk
    have hpc : (w.a.s.jobs j).pc = .codeWait := by
      have := h.invP.kind _ hkm
      simp only at this
      revert this
      cases (w.a.s.jobs j).pc <;> simp [kindOk]
    have hpc' : ((absF w.a.adopted w.a.s).jobs j).pc = .codeWait := by rw [absF_pc]; exact hpc
    have hrun := (hG.g.e.c.d.recs j).runRunning (by rw [hpc']; rfl)
    have hsb : SameBut ((absF w.a.adopted w.a.s).jobs j) { ((absF w.a.adopted w.a.s).jobs j) with code := cv } :=
      ⟨rfl, rfl, rfl, rfl, rfl, rfl, rfl, rfl, rfl, rfl⟩
    have hL := jlocal_code_edit (hG.g.e.c.a.loc j) hpc' hrun cv
    exact key _ (good2_edit hG hsb hL) (mu_edit hsb) rfl (fun hT => tokFit_edit hT hsb) e

/-- **the completion of a helper thread**, on the concrete state. -/
theorem stepF_deliver (h : SoundF fl totals done0 w) (k j : Nat) (kind : TK) (c : Option Nat) (d' : Disk)
    (hk : w.a.s.threads[k]? = some (kind, j))
    (hgate : world.gate w.a.d kind j (w.a.s.jobs j) (w.a.adopted j) = some (c, d')) :
    StepF w.a (deliverA w.a k j c d') := by
  have hJ := deliverA_jobs w.a k j c d'
  obtain ⟨l1, l2, l3, l4, l5, l6⟩ := deliverA_lists w.a k j c d'
  have hgp := gate_procs _ _ _ _ _ _ _ hgate
  have horig : ∀ i d, orig (deliverA w.a k j c d').s i d = orig w.a.s i d := by
    intro i d; unfold orig; rw [(hJ i).2.2.2.1]
  refine ⟨l4, fun i => (hJ i).2.2.1, fun i => by rw [(hJ i).2.2.2.1], ?_⟩
  refine ⟨?_, ?_, ?_, ?_, ?_, ?_, ?_, ?_⟩
  · intro i hi; rw [(hJ i).2.2.2.2.1]; exact h.ai.held i (by rw [l5] at hi; exact hi)
  · intro i hi
    have := h.ai.sleep i (by rw [l5] at hi; exact hi)
    cases c with
    | none => exact this
    | some cv =>
      show ((w.a.s.put j { (w.a.s.jobs j) with code := cv }).jobs i).sleeping = false
      simp only [put_jobs, upd]
      split
      · rename_i e; subst e; exact this
      · exact this
  · intro i hi hc
    rw [(hJ i).1] at hc; rw [(hJ i).2.1]
    exact h.ai.cwst i (by rw [l5] at hi; exact hi) hc
  · have hreg : regP (deliverA w.a k j c d').s = regP w.a.s := by
      unfold regP; rw [l4]
      exact SchedFinal.sumTo_congr _ _ _ (fun i _ => by rw [(hJ i).1, (hJ i).2.2.2.1])
    rw [hreg, l2, l3]; exact h.ai.lists
  · intro i hi
    rw [l5] at hi
    obtain ⟨p1, p2⟩ := h.ai.proc i hi
    have hle := world_gate_le _ _ _ _ _ _ _ hgate
    rw [l6, gate_procOf _ _ _ _ _ _ _ hgate, (hJ i).2.2.1]
    exact ⟨Nat.lt_of_lt_of_le p1 hle.np, by rw [hle.ident _ p1]; exact p2⟩
  · have h1 := h.ai.refs.grow (s' := (deliverA w.a k j c d').s) [.resume j] l1 (by intro x d hm; simp at hm)
      (by intro x d hm; simp at hm) l2 l3
    refine h1.mono ?_ ?_ ?_ ?_
    · intro x d hp q hq
      rw [horig] at hq
      obtain ⟨r, hr'⟩ := hp q hq
      exact ⟨r, by rw [(hJ q).1]; exact hr'⟩
    · intro x d hp q; rw [horig]; exact hp q
    · intro t x d hp; rw [horig]; exact hp
    · intro o x d hp; rw [horig]; exact hp
  · intro x hx
    rw [(hJ x).1] at hx
    obtain ⟨rest, hr⟩ := h.ai.hs x hx
    exact ⟨rest ++ [.resume j], by rw [l1, hr]; rfl⟩
  · intro ⟨x, hx⟩ q
    rw [(hJ x).1] at hx
    rw [(hJ q).2.1]
    exact h.ai.nec ⟨x, hx⟩ q

end deliverF

end XpmVerif.RestartFull
